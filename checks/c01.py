"""C01 — validated transactions conserve value and report the true fee.

Specification: specs/ledger/TxValidate.tla (exact-arithmetic statement of the property and the
rule set a validator has to apply; amounts are LedgerNat limbs, base 2^15).
  design : TLC checks `Sound` (rule set => property) on every enumerated / judged case.
  E      : TxValidateCases.tla enumerates the abstract case space (family "arith": all multisets of
           boundary amounts on both sides of one asset; family "kinds": every input/output kind and
           asset combination) and exports [case, judgement]; harness/cmd/c01 concretises every case into
           a real types.Tx and runs validation.ValidateTx + TxData.Fee().
  T      : the harness generates random / boundary-biased / wrapped-sum / mutated abstract transactions
           (<= 13 entries, 5 assets, limb-encoded amounts up to 2^64-1); TxValidateJudge.tla judges them
           with the same operators; the harness executes them.
Oracle (the property): if the code accepts, Conserves must hold and GasState.BTMValue = TxData.Fee() =
BTM in - BTM out. Accept/reject disagreements with the rule set are counted, not reported.
"""
import json
import os
from common import Infra


def replay(ctx, b):
    """--replay PATH: re-execute the saved, TLC-judged case against the current tree and print the divergence."""
    import sys
    with open(ctx.replay) as fh:
        obj = json.load(fh)
    f = os.path.join(ctx.work, "replay_case.ndjson")
    with open(f, "w") as fh:
        fh.write(json.dumps(obj["replay"]["export"]) + "\n")
    ctx.known = []
    h = ctx.harness([b, "run", f])
    for v in h["violations"]:
        print("REPLAY diverges [%s]: %s" % (v["sig"], v["desc"][:1500]))
    if not h["violations"]:
        print("REPLAY: the saved case now agrees with the specification")
    sys.exit(1 if h["violations"] else 0)


def run(ctx):
    b = ctx.build("c01")
    if ctx.replay:
        replay(ctx, b)
    quick = ctx.tier == "quick"
    tier = "quick" if quick else "thorough"
    tot = dict(cases=0, code_accepted=0, agree_accept=0, agree_reject=0, completeness_disagreements=0,
               spec_rejects_code_accepts=0, gas_unknown=0, panics=0, distinct_shapes=0, accepted_shapes=0)
    samples, states, trans = [], 0, 0
    accepted_export = None

    def execute(r, label):
        nonlocal states, trans, accepted_export
        if r.nexports == 0:
            raise Infra("%s: TLC exported no cases" % label)
        states += r.distinct
        trans += r.generated
        h = ctx.harness([b, "run", r.path], timeout=1500)
        s = h["summary"]
        if s.get("cases", 0) != r.nexports and not h["violations"]:
            raise Infra("%s: harness executed %s of %d exported cases" % (label, s.get("cases"), r.nexports))
        for k in tot:
            tot[k] += s.get(k, 0)
        samples.extend(h["samples"][:2])
        if accepted_export is None:
            for e in r.exports():
                if e["exp"]["acc"] == "yes" and e["exp"]["cons"] and any(e["exp"]["fee"]) and not e["exp"]["mixed"]:
                    accepted_export = e
                    break
        return s

    # ---- T input: Go-generated abstract cases, judged by TLC in the same run as the enumerated families (E)
    n = 6000 if quick else 100000
    cfile = os.path.join(ctx.work, "cases.ndjson")
    g = ctx.harness([b, "gen", str(n), cfile])
    with open(cfile) as fh:
        cases = fh.read()
    r = ctx.tlc_design("ledger/TxValidateCases", "cfg/TxValidateCases.%s.cfg" % tier, timeout=2700, tag="cases",
                       files={"cases.ndjson": cases}, heap="8g")
    per = execute(r, "cases")
    per.update({k: v for k, v in g["summary"].items() if k.startswith("gen_")})
    if per.get("file_cases") != n and not ctx.violations:
        raise Infra("TLC judged %s of %d generated cases" % (per.get("file_cases"), n))

    # ---- negative control: a wrong expectation must be detected (binding is live)
    sigs = "skipped: violations already found"
    if not ctx.violations:
        if accepted_export is None:
            raise Infra("no accepted, conserving case with a non-zero fee in the export: the oracle would be vacuous")
        bad1 = json.loads(json.dumps(accepted_export))
        bad1["exp"]["fee"][0] = (bad1["exp"]["fee"][0] + 1) % 32768
        bad2 = json.loads(json.dumps(accepted_export))
        bad2["exp"]["cons"] = False
        bad2["exp"]["why"] = "negative-control"
        ctlfile = os.path.join(ctx.work, "negctl.ndjson")
        with open(ctlfile, "w") as fh:
            fh.write(json.dumps(bad1) + "\n" + json.dumps(bad2) + "\n")
        saved = (list(ctx.violations), list(ctx.known_hits))
        rdir = os.path.join(ctx.work, "replay")
        before = set(os.listdir(rdir))
        hc = ctx.harness([b, "run", ctlfile])
        ctx.violations, ctx.known_hits = saved
        for f in set(os.listdir(rdir)) - before:      # the control's "violations" are not findings
            os.remove(os.path.join(rdir, f))
        sigs = sorted(v["sig"] for v in hc["violations"])
        if not (any(s.startswith("fee:reported") for s in sigs) and any(s.startswith("fee:txfee") for s in sigs)
                and any(s.startswith("accept:unconserved") for s in sigs)):
            raise Infra("negative control: corrupted expectations were not detected (%s)" % sigs)
    if (tot["code_accepted"] < 100 or tot["agree_accept"] < 100) and not ctx.violations:
        raise Infra("too few accepted transactions (%s): the oracle would be vacuous" % tot)
    ctx.finish("model_checking", dict(
        states=states, transitions=trans, traces_validated_against_impl=tot["cases"],
        samples=samples[:6], exhaustive=True,
        enumerated_cases=per.get("enum_cases"), judged_generated_cases=per.get("file_cases"),
        run_summary=per, totals=tot,
        completeness_disagreements=tot["completeness_disagreements"],
        spec_rejects_code_accepts=tot["spec_rejects_code_accepts"],
        negative_control="fee+1 and cons=FALSE on an accepted case detected: %s" % sigs,
        rule="E: every case of the bounded families (arith: multisets of <=%s inputs / <=%s outputs amounts over the boundary alphabet for BTM and "
             "a non-BTM asset; kinds: all <=2 inputs x <=2 outputs over kinds/assets) ; T: %d seeded random/boundary/wrapped/"
             "mutated transactions judged by TLC" % ((("2", "2") if quick else ("3", "3 (together <=5)")) + (n,)),
    ), assumptions=[
        "programs guarding inputs are the template NOP program whose witness argument decides success; the VM itself is C08",
        "asset ids are collision free (distinct names give distinct issuance-derived ids)",
        "a coinbase input is worth exactly the BTM the transaction pays out (it mints what is paid, fee 0)",
        "gas: a fee >= 10^6 neu always pays storage+VM gas of <= 13 template entries, a fee < 200 never; in between the "
        "accept/reject comparison is skipped (the property oracle still applies)",
    ])
