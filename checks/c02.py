"""C02 — outputs locked by standard programs are spendable only with a matching witness.

Specification: specs/vm/StdWitness.tla — symbolic keys / signatures / hashes; `Authorised` states the property
declaratively (P2WPKH: the committed key's signature over this transaction's signature hash followed by that
key; P2WSH / bare multisig: the committed script and q signatures by distinct committed keys in committed key
order); `Runs` executes the converted program on a small stack machine with the CHECKSIG / CHECKMULTISIG /
CHECKPREDICATE rules.
  design : TLC checks Runs = Authorised on every case.
  E      : StdWitnessCases.tla enumerates P2WPKH with every <=3-argument witness over a 9-value alphabet, every
           q-of-n multisig (P2WSH n<=4 / bare n<=3 quick, n<=5 thorough) with every arrangement of <=q+1 signature
           slots over {Sig(Ki,m), Sig(K1,m'), Sig(outsider,m), junk}, altered redeem scripts, and every single
           post-signing transaction mutation against a correctly signed spend; plus Go-generated 5..6-key cases
           judged by TLC in the same run.
  binding: harness/cmd/c02 binds symbolic keys to real chainkd-derived ed25519 keys and signatures, builds the real
           transaction and requires validation.ValidateTx to accept exactly when the specification authorises —
           both directions are violations.
"""
import json
import os
from common import Infra


def replay(ctx, b):
    """--replay PATH: re-execute the saved, TLC-judged case against the current tree and print the divergence."""
    import sys
    with open(ctx.replay) as fh:
        obj = json.load(fh)
    f = os.path.join(ctx.work, "replay_case.ndjson")
    with open(f, "w") as fh:
        fh.write(json.dumps(obj["replay"]["export"]) + "\n")
    ctx.known = []
    h = ctx.harness([b, "run", f])
    for v in h["violations"]:
        print("REPLAY diverges [%s]: %s" % (v["sig"], v["desc"][:1500]))
    if not h["violations"]:
        print("REPLAY: the saved case now agrees with the specification")
    sys.exit(1 if h["violations"] else 0)


def run(ctx):
    b = ctx.build("c02")
    if ctx.replay:
        replay(ctx, b)
    quick = ctx.tier == "quick"
    n = 3000 if quick else 40000
    cfile = os.path.join(ctx.work, "cases.ndjson")
    ctx.harness([b, "gen", str(n), cfile])
    with open(cfile) as fh:
        cases = fh.read()
    r = ctx.tlc_design("vm/StdWitnessCases", "cfg/StdWitnessCases.%s.cfg" % ("quick" if quick else "thorough"),
                       timeout=2700, tag="cases", files={"cases.ndjson": cases}, heap="8g")
    if r.nexports < n + 5000:
        raise Infra("TLC exported only %d cases" % r.nexports)
    h = ctx.harness([b, "run", r.path], timeout=1700)
    s = h["summary"]
    if (s.get("cases") != r.nexports or s.get("file_cases") != n) and not h["violations"]:
        raise Infra("harness executed %s (file %s) of %d exported cases" % (s.get("cases"), s.get("file_cases"), r.nexports))
    if s.get("agree_accept", 0) < 50 and not h["violations"]:
        raise Infra("too few accepted spends (%s): the check would be vacuous" % s.get("agree_accept"))
    # ---- negative control: flipped verdicts must be detected in both directions
    sigs = "skipped: violations already found"
    if not ctx.violations:
        ctl = {}
        for e in r.exports():
            if e["exp"] not in ctl and e["cs"]["txmut"] == "none":
                ctl[e["exp"]] = e
            if len(ctl) == 2:
                break
        if len(ctl) != 2:
            raise Infra("negative control: export lacks an authorised or an unauthorised case")
        ctlfile = os.path.join(ctx.work, "negctl.ndjson")
        with open(ctlfile, "w") as fh:
            for e in ctl.values():
                e["exp"] = not e["exp"]
                fh.write(json.dumps(e) + "\n")
        saved = (list(ctx.violations), list(ctx.known_hits))
        rdir = os.path.join(ctx.work, "replay")
        before = set(os.listdir(rdir))
        hc = ctx.harness([b, "run", ctlfile])
        ctx.violations, ctx.known_hits = saved
        for f in set(os.listdir(rdir)) - before:      # the control's "violations" are not findings
            os.remove(os.path.join(rdir, f))
        sigs = sorted(v["sig"] for v in hc["violations"])
        if not (any(x.startswith("accept-unauthorised:") for x in sigs) and any(x.startswith("reject-authorised:") for x in sigs)):
            raise Infra("negative control: flipped verdicts were not detected (%s)" % sigs)
    ctx.finish("model_checking", dict(
        states=r.distinct, transitions=r.generated, traces_validated_against_impl=s.get("cases", 0),
        samples=h["samples"][:5], exhaustive=True,
        enumerated_cases=s.get("enum_cases"), judged_generated_cases=s.get("file_cases"),
        accepted=s.get("agree_accept"), rejected=s.get("agree_reject"), tx_mutation_cases=s.get("txmut_cases"),
        distinct_lock_classes=s.get("distinct_lock_classes"), violations_by_signature=s.get("violations_by_signature"),
        negative_control="flipped verdicts detected: %s" % sigs,
        rule="P2WPKH x all <=3-argument witnesses; all q-of-n (P2WSH n<=%d, bare n<=%d) x all arrangements of <=q+1 signature "
             "slots; altered redeem scripts; %d transaction mutations x correctly signed spends of every kind; %d generated "
             "5..6-key cases judged by TLC" % ((4, 3, 13, n) if quick else (5, 5, 13, n)),
    ), assumptions=[
        "ed25519 signatures are unforgeable and deterministic, RIPEMD160/SHA3 collision free (symbolic model)",
        "only the program shapes the repository builds are covered: P2WPKH, P2WSH over a P2SP multisig script, bare P2SP multisig",
        "arguments below the ones the program consumes are ignored by the VM and by the property ('contains valid signatures')",
    ])
