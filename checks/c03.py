"""C03 — transaction and block identity commit to all consensus content.

Specification: specs/wire/TxId.tla. Identifiers are terms (collision freeness): TxIdTerm / SigHashTerm /
MerkleTerm / BlockHashTerm say what the property requires to be committed; Muts / BlockMuts are all single
mutations with their class (committed / witness).
  design : TLC checks ClassOK / BlockClassOK (every committed mutation changes the term, every witness
           mutation leaves it unchanged) on every enumerated case.
  E      : TxIdCases.tla enumerates base transactions (all kind combinations up to MaxIn x MaxOut) and base
           blocks (0..2 supLinks, 1..MaxTx transactions) x all mutations and exports [base, after, expected
           changes]; harness/cmd/c03 builds the real types.TxData / types.BlockHeader values before and after,
           maps them (types.NewTx, Tx.SigHash, TxMerkleRoot, BlockHeader.Hash, MapBlock) and requires
           changed_code = changed_spec for the tx id, every input's sighash, the merkle root and the block hash.
"""
import json
import os
from common import Infra


def replay(ctx, b):
    """--replay PATH: re-execute the saved, TLC-judged case against the current tree and print the divergence."""
    import sys
    with open(ctx.replay) as fh:
        obj = json.load(fh)
    f = os.path.join(ctx.work, "replay_case.ndjson")
    with open(f, "w") as fh:
        fh.write(json.dumps(obj["replay"]["export"]) + "\n")
    ctx.known = []
    h = ctx.harness([b, "run", f])
    for v in h["violations"]:
        print("REPLAY diverges [%s]: %s" % (v["sig"], v["desc"][:1500]))
    if not h["violations"]:
        print("REPLAY: the saved case now agrees with the specification")
    sys.exit(1 if h["violations"] else 0)


def run(ctx):
    b = ctx.build("c03")
    if ctx.replay:
        replay(ctx, b)
    quick = ctx.tier == "quick"
    r = ctx.tlc_design("wire/TxIdCases", "cfg/TxIdCases.%s.cfg" % ("quick" if quick else "thorough"),
                       timeout=2400, tag="cases", heap="8g")
    if r.nexports < 1000:
        raise Infra("TLC exported only %d cases" % r.nexports)
    h = ctx.harness([b, "run", r.path], timeout=1500)
    s = h["summary"]
    if s.get("cases") != r.nexports and not h["violations"]:
        raise Infra("harness executed %s of %d exported cases" % (s.get("cases"), r.nexports))
    # ---- negative control: flipped expectations must be detected
    sigs = "skipped: violations already found"
    if not ctx.violations:
        ctl = []
        for e in r.exports():
            if e["kind"] == "tx" and e["class"] == "committed" and e["m"]["t"] == "in" and e["m"]["f"] == "src" and not ctl:
                e["exp"]["id"] = False
                ctl.append(e)
            elif e["kind"] == "block" and e["class"] == "witness" and len(ctl) == 1:
                e["exp"]["hash"] = True
                ctl.append(e)
            if len(ctl) == 2:
                break
        if len(ctl) != 2:
            raise Infra("negative control: no suitable cases in the export")
        ctlfile = os.path.join(ctx.work, "negctl.ndjson")
        with open(ctlfile, "w") as fh:
            for e in ctl:
                fh.write(json.dumps(e) + "\n")
        saved = (list(ctx.violations), list(ctx.known_hits))
        rdir = os.path.join(ctx.work, "replay")
        before = set(os.listdir(rdir))
        hc = ctx.harness([b, "run", ctlfile])
        ctx.violations, ctx.known_hits = saved
        for f in set(os.listdir(rdir)) - before:      # the control's "violations" are not findings
            os.remove(os.path.join(rdir, f))
        sigs = sorted(v["sig"] for v in hc["violations"])
        if not (any(x.startswith("txid:changed:in.") for x in sigs) and any(x.startswith("blockhash:unchanged:") for x in sigs)):
            raise Infra("negative control: flipped expectations were not detected (%s)" % sigs)
    ctx.finish("model_checking", dict(
        states=r.distinct, transitions=r.generated, traces_validated_against_impl=s.get("cases", 0),
        samples=h["samples"][:5], exhaustive=True,
        tx_cases=s.get("tx_cases"), block_cases=s.get("block_cases"),
        committed_mutations=s.get("class_committed"), witness_mutations=s.get("class_witness"),
        sighash_comparisons=s.get("sighash_comparisons"), distinct_mutation_places=s.get("distinct_mutation_places"),
        violations_by_signature=s.get("violations_by_signature"),
        negative_control="flipped expectation on in.src (tx id) and on a witness block mutation detected: %s" % sigs,
        rule="every base transaction with 1..%d inputs x 1..%d outputs over all kinds, every base block with 0..2 supLinks and "
             "1..%d transactions, x every single mutation (field edits, swaps, drops, duplications, kind changes)"
             % ((2, 2, 5) if quick else (3, 3, 9)),
    ), assumptions=[
        "collision freeness of SHA3-256: identifiers are compared as terms",
        "transactions have at least one output (a transaction without results commits to nothing but version and time range)",
        "commitment suffixes (forward-compatibility bytes that no consensus rule reads) are not mutated",
    ])
