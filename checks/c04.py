"""C04 — encoding round-trips every well-formed transaction, block and header.

Specification: specs/wire/{Varint,WireTx,WireBlock}.tla — abstract values <-> bytes,
total decoders Dec*, token-level encoders Enc*, SerializedSize, text/JSON forms.
  design : WireCases.tla — TLC checks Dec(Enc(v)) = v and SerializedSize(v) = Len(Enc(v))
           on a structured family of small well-formed values (every field over its boundary
           domain, suffix combinations, all pairs of input/output kinds, sparse supLinks,
           blocks under the three flags) and the primitive-layer theorems (ASSUMEs).
  E      : the family is exported; harness/cmd/c04 builds every value with the real types
           (twice: empty strings as nil / as empty slices), MarshalText, UnmarshalText,
           NewTx ids, recorded sizes, JSON form.
  T      : seeded random values (larger: up to 3 inputs/outputs, 250-byte strings, 3 supLinks)
           go through the same observation.
  judge  : WireJudge.tla evaluates Enc/Dec on every recorded observation: bytes = Enc(v),
           decoded value = v, sizes = Len(Enc), ids and JSON equal; the verdict names the
           first field in which the code's bytes (read by the spec's decoder) differ.
"""
import collections
import copy
import json
import os

from common import Infra, ndjson
from wire_lib import judge_shards, hexs, short, replay_exit


def _judge(ctx, lines, tag, shard):
    res = judge_shards(ctx, "wire/WireJudge", "cfg/WireJudge.cfg", "obs.ndjson", lines, tag, shard_size=shard)
    verdicts, states, gen = {}, 0, 0
    for r in res:
        states += r.distinct
        gen += r.generated
        for d in r.exports():
            verdicts[d["i"]] = d["verdict"]
    return verdicts, states, gen


def run(ctx):
    b = ctx.build("c04")
    quick = ctx.tier == "quick"
    obsfile = os.path.join(ctx.work, "obs.ndjson")
    if ctx.replay:
        rep = json.load(open(ctx.replay))["replay"]
        cases = os.path.join(ctx.work, "replay_case.ndjson")
        with open(cases, "w") as fh:
            fh.write(ndjson([{"k": rep["k"], "v": rep["v"]}]))
        ctx.harness([b, "observe", cases, "0", obsfile])
        lines = open(obsfile).readlines()
        verdicts, _, _ = _judge(ctx, lines, "replay", 2000)
        for l in lines:
            o = json.loads(l)
            print("replay: %s flag=%d mode=%s -> %s\n  bytes from the code: %s" % (o["k"], o["flag"], o["mode"], verdicts[o["i"]], hexs(o["hex"])))
            if verdicts[o["i"]] != "ok":
                ctx.violation(verdicts[o["i"]], "replayed value still fails: " + verdicts[o["i"]], o)
        replay_exit(ctx)    # a replay never rewrites the evidence file
    # ---- design: round-trip theorem on the small-value family, exported
    r = ctx.tlc_design("wire/WireCases", "cfg/WireCases.%s.cfg" % ctx.tier, timeout=1700, heap="12g", workers=8, tag="design+export")
    if r.nexports < 800:
        raise Infra("value family unexpectedly small: %d" % r.nexports)
    # ---- E + T: observe the real code
    nrand = 1500 if quick else 24000
    h = ctx.harness([b, "observe", r.path, str(nrand), obsfile], timeout=1500)
    lines = open(obsfile).readlines()
    if len(lines) != h["summary"]["observations"] or len(lines) < r.nexports:
        raise Infra("observation file incomplete: %d lines, summary %s" % (len(lines), h["summary"]))
    # ---- judge with the specification
    verdicts, jstates, jgen = _judge(ctx, lines, "judge", 1200 if quick else 2500)
    if len(verdicts) != len(lines):
        raise Infra("judge returned %d verdicts for %d observations" % (len(verdicts), len(lines)))
    bad = collections.OrderedDict()
    distinct, okobs, ctlsrc = set(), [], []
    for l in lines:
        o = json.loads(l)
        v = verdicts[o["i"]]
        val = o["v"]
        nontrivial = (o["k"] == "tx" and (val["inputs"] or val["outputs"])) or \
                     (o["k"] == "header" and val["suplinks"]) or (o["k"] == "block" and val["txs"])
        if nontrivial:
            distinct.add((o["k"], o["flag"], bytes(o["hex"])))
        if v == "ok":
            if len(okobs) < 6 and 30 < len(o["hex"]) < 400 and o["k"] == ("tx", "header", "block")[len(okobs) % 3]:
                okobs.append(o)
            if len(ctlsrc) < 3 and o["k"] == "tx" and o["v"]["outputs"] and o["v"]["inputs"] and len(o["hex"]) < 300:
                ctlsrc.append(o)
            continue
        bad.setdefault(v, []).append(o)
    for sig, obs in bad.items():
        o = min(obs, key=lambda x: len(x["hex"]))
        ctx.violation(sig, "%d observation(s); smallest: %s (flag %d, empty-as-%s, source %s) value %s -> code wrote %s%s%s"
                      % (len(obs), o["k"], o["flag"], o["mode"], o["src"], short(o["v"], 700), hexs(o["hex"]),
                         (" ; UnmarshalText error: " + o["derr"]) if o["derr"] else "",
                         (" ; panic: " + o["panic"]) if o["panic"] else ""), o)
    # ---- negative control: corrupted observations must be rejected (binding is live)
    ctl, want = [], {}
    for o in ctlsrc or okobs[:2]:
        a = copy.deepcopy(o); a["i"] = len(ctl); a["hex"][-3] ^= 1; want[a["i"]] = "marshal:"; ctl.append(a)
        a = copy.deepcopy(o); a["i"] = len(ctl); a["size"] += 1; want[a["i"]] = "size:"; ctl.append(a)
        if o["k"] == "tx" and o["v"]["outputs"]:
            a = copy.deepcopy(o); a["i"] = len(ctl); a["v2"]["outputs"][0]["csuffix"] = [1]; want[a["i"]] = "unmarshal:"; ctl.append(a)
    if ctl:
        cv, _, _ = _judge(ctx, [json.dumps(o, separators=(",", ":")) + "\n" for o in ctl], "negative-control", 2000)
        for i, pre in want.items():
            if not cv[i].startswith(pre):
                raise Infra("negative control: corrupted observation %d judged %r, expected %s..." % (i, cv[i], pre))
    elif not bad:
        raise Infra("no accepted observation available for the negative control")
    samples = [dict(k=o["k"], flag=o["flag"], mode=o["mode"], src=o["src"], v=o["v"], bytes=hexs(o["hex"]), verdict="ok") for o in okobs[:3]]
    ctx.finish("model_checking", dict(
        states=r.distinct + jstates, transitions=r.generated + jgen,
        traces_validated_against_impl=len(lines),
        samples=samples,
        evaluations=len(lines), distinct_nontrivial=len(distinct),
        tlc_values=r.nexports, random_values=nrand, observations_by_kind=h["summary"].get("kinds"),
        verdict_counts=dict(collections.Counter(verdicts.values())),
        negative_control=("%d corrupted copies of accepted observations (hex bit flip, size+1, decoded-field edit) all rejected" % len(ctl))
        if ctl else "skipped: no observation was accepted (violations are reported)",
        exhaustive=False,
        rule="values: TLC-enumerated one-factor%s family of WireCases.tla (x2: empty as nil / as empty slice; blocks x3 flags) plus "
             "%d seeded random values; every observation judged by WireJudge.tla; distinct_nontrivial = distinct (kind, flag, bytes) "
             "with at least one input/output, supLink or transaction" % ("" if quick else "+two-factor", nrand),
    ), assumptions=[
        "sha3 is uninterpreted: the issuance asset id and all ids are computed by the repository; equality of ids of the built and the decoded value is what is checked",
        "well-formed = asset version 1 inputs (an input of another version has no typed part and cannot be mapped: C05), VM version 1 for spends/outputs, values < 2^63, lengths < 2^31",
        "JSON form = a JSON string holding the hex text (what json.Marshal produces for these types)",
    ])
