"""C05 — decoding untrusted bytes never panics and allocates at most proportionally to the input.

Specification: specs/wire/{Varint,WireTx,WireBlock,WireMsg}.tla — TOTAL decoders (every byte string
maps to a value or an error class at a named grammar element), AllocBound(n) = AllocK*n + AllocC.
  design : WireAdv.tla — the adversarial family is derived from the grammar (token sequences of small
           valid encodings: all truncations, every length/count prefix replaced by boundary values in
           the varint encoding of its layer, every number / type / flag byte replaced, trailing
           garbage, text-level damage, payload mutants wrapped in valid envelopes); TLC evaluates the
           class of every member (totality) and exports input + class + memory budget.
  E      : harness/cmd/c05 feeds every member to Tx/Block/BlockHeader.UnmarshalText and to the two
           netsync decodeMessage functions (+ the payload accessors the node calls next) in a child
           process with RLIMIT_AS = 4 GiB, under recover, metering runtime.MemStats.TotalAlloc.
  T      : seeded random damage of real encodings (produced by the repository's writers and the
           go-wire writer) goes through the same monitor; WireClass.tla classifies every recorded
           input afterwards.
Violation: recovered panic, child killed (re-run alone to confirm), hang, TotalAlloc delta above
AllocBound(len(input)). The signature carries the specification's class of the input, so that each
defect class is a separate finding. Accept/reject disagreement with the specification is only counted.
"""
import collections
import json
import os
import re

from common import Infra, ndjson
from wire_lib import judge_shards, hexs, replay_exit

TEXT = ("tx", "header", "block")


def slug(s):
    s = re.sub(r"\d+", "N", s.lower())
    s = re.sub(r"[^a-z]+", "-", s).strip("-")
    return s[:60]


def code_class(spec):
    """ok/err skeleton of a specification class, for the agreement statistics."""
    return "/".join("ok" if p.startswith("ok") else "err" for p in spec.replace("+extin", "").replace("+extout", "").split("/"))


def judge(x, o):
    """(signature, description) if outcome o of input x breaks the property, else None."""
    cls, tgt = x["class"], x["target"]
    data = "text " + bytes(x["t"]).decode("latin1") if x["istext"] else "bytes " + hexs(x["b"])
    what = "%s input (%s, %d bytes handed to the decoder, spec class %s): %s" % (tgt, x.get("mut", ""), o["len"], cls, data[:900])
    if o["out"] == "panic":
        return "panic:%s:%s:%s" % (tgt, cls, slug(o["panic"])), "decoder panicked (%s) on %s" % (o["panic"], what)
    if o["out"] == "death":
        if "out of memory" in o["err"] or "cannot allocate" in o["err"]:
            return "alloc:%s:%s" % (tgt, cls), "decoder process killed by the 4 GiB memory limit (%s) on %s" % (o["err"][:160], what)
        return "death:%s:%s" % (tgt, cls), "decoder process died (%s) on %s" % (o["err"][:200], what)
    if o["out"] == "hang":
        return "hang:%s:%s" % (tgt, cls), "decoder did not return within 120 s on %s" % what
    if o["alloc"] > x["bound"]:
        return "alloc:%s:%s" % (tgt, cls), "decoder allocated %d bytes, AllocBound = %d, on %s" % (o["alloc"], x["bound"], what)
    return None


def run_family(ctx, b, inputs_path, tag):
    out = os.path.join(ctx.work, "outcomes_%s.ndjson" % tag)
    h = ctx.harness([b, "run", inputs_path, out], timeout=1700)
    outs = [json.loads(l) for l in open(out)]
    return outs, h["summary"]


def classify(ctx, fam, stats, bad):
    """fam: list of (input-with-class-and-bound, outcome)."""
    for x, o in fam:
        if x["i"] != o["i"]:
            raise Infra("input/outcome order mismatch at %s vs %s" % (x["i"], o["i"]))
        stats["inputs"] += 1
        stats["classes"].add((x["target"], x["class"]))
        first = x["class"].split("@")[-1].split("+")[0] in ("tx.flags", "bh.flags", "msg.type", "text")
        if not first:
            stats["distinct"].add((x["target"], bytes(x["t"] if x["istext"] else x["b"])))
        v = judge(x, o)
        if v:
            bad.setdefault(v[0], []).append((o["len"], v[1], x, o))
        elif code_class(x["class"]) != o["out"] and "asset ID does not match" in o["err"]:
            stats["hash"] += 1        # the specification leaves sha3 uninterpreted: a damaged issuance is structurally fine
        elif code_class(x["class"]) != o["out"]:
            stats["disagree"] += 1
            if len(stats["disagree_samples"]) < 8:
                stats["disagree_samples"].append(dict(target=x["target"], mut=x.get("mut"), spec=x["class"], code=o["out"], err=o["err"][:120],
                                                      input=hexs(x["t"] if x["istext"] else x["b"])[:300]))
        else:
            stats["agree"] += 1


def run(ctx):
    b = ctx.build("c05")
    quick = ctx.tier == "quick"
    # ---- negative control: the monitor must see a panic, an over-allocation and an out-of-memory death
    st = os.path.join(ctx.work, "selftest.ndjson")
    with open(st, "w") as fh:
        fh.write(ndjson([dict(i=k, id="self", target=t, mut="", b=[], t=[], istext=False)
                         for k, t in enumerate(["self:panic", "self:alloc", "tx", "self:oom", "header"])]))
    so, _ = run_family(ctx, b, st, "selftest")
    if [o["out"] for o in so] != ["panic", "ok", "err", "death", "err"] or so[1]["alloc"] < (64 << 20) or "out of memory" not in so[3]["err"]:
        raise Infra("monitor self-test failed: %s" % so)
    stats = dict(inputs=0, agree=0, disagree=0, hash=0, disagree_samples=[], classes=set(), distinct=set())
    bad = collections.OrderedDict()
    if ctx.replay:
        rep = json.load(open(ctx.replay))["replay"]
        x = rep["input"]
        x["i"] = 0
        rp = os.path.join(ctx.work, "replay_in.ndjson")
        with open(rp, "w") as fh:
            fh.write(ndjson(rep.get("subst", []) + [x]))
        outs, _ = run_family(ctx, b, rp, "replay")
        print("replay: %s %s -> %s" % (x["target"], x["class"], outs[0]))
        classify(ctx, [(x, outs[0])], stats, bad)
        for sig, l in bad.items():
            ctx.violation(sig, l[0][1], dict(input=l[0][2], outcome=l[0][3]))
        replay_exit(ctx)    # a replay never rewrites the evidence file
    # ---- E: grammar-derived family, classes and budgets from TLC
    r = ctx.tlc_design("wire/WireAdv", "cfg/WireAdv.%s.cfg" % ctx.tier, timeout=1700, heap="12g", workers=8, tag="adversarial-family")
    ins, subst, bound_k, bound_c = [], [], None, None
    for d in r.exports():
        if d["id"] == "#bound":
            bound_k, bound_c = d["k"], d["c"]
        elif d["id"] == "#subst":
            subst.append(d)
        elif not d["id"].startswith("#"):
            d["i"] = len(ins)
            ins.append(d)
    if len(ins) < 3000 or bound_k is None:
        raise Infra("adversarial family unexpectedly small: %d" % len(ins))
    outs, s1 = run_family(ctx, b, r.path, "E")
    if len(outs) != len(ins):
        raise Infra("%d outcomes for %d inputs" % (len(outs), len(ins)))
    classify(ctx, list(zip(ins, outs)), stats, bad)
    n_e = len(ins)
    # ---- T: seeded random damage of real encodings, classified by the specification afterwards
    nrand = 4000 if quick else 60000
    rin = os.path.join(ctx.work, "inputs_T.ndjson")
    ctx.harness([b, "gen", str(nrand), rin])
    lines = open(rin).readlines()
    outs2, s2 = run_family(ctx, b, rin, "T")
    res = judge_shards(ctx, "wire/WireClass", "cfg/WireClass.cfg", "inputs.ndjson", lines, "classify", shard_size=700 if quick else 4000)
    cls = {}
    tstates = 0
    for rr in res:
        tstates += rr.distinct
        for d in rr.exports():
            cls[d["i"]] = d
    rins = []
    for l in lines:
        x = json.loads(l)
        if x["i"] not in cls:
            raise Infra("input %d of the random family was not classified" % x["i"])
        x["class"], x["bound"] = cls[x["i"]]["class"], cls[x["i"]]["bound"]
        rins.append(x)
    if len(outs2) != len(rins):
        raise Infra("%d outcomes for %d random inputs" % (len(outs2), len(rins)))
    classify(ctx, list(zip(rins, outs2)), stats, bad)
    # ---- verdicts
    for sig, l in bad.items():
        ln, desc, x, o = min(l, key=lambda t: t[0])
        ctx.violation(sig, "%d input(s); smallest: %s" % (len(l), desc), dict(input=x, outcome=o, subst=subst))
    samples = []
    for x, o in list(zip(ins, outs))[100:20000:1700] + list(zip(rins, outs2))[:2]:
        samples.append(dict(target=x["target"], mutation=x.get("mut"), spec_class=x["class"], outcome=o["out"], alloc=o["alloc"], bound=x["bound"],
                            input=("text:" + bytes(x["t"]).decode("latin1")) if x["istext"] else hexs(x["b"])))
    ctx.finish("exploration", dict(
        evaluations=stats["inputs"], distinct_nontrivial=len(stats["distinct"]),
        rule="E: every member of the grammar-derived family of WireAdv.tla (%d inputs: truncations, length/count/number/type/flag "
             "replacements, trailing garbage, text damage, wrapped payload mutants); T: %d seeded random mutants of real encodings classified "
             "by WireClass.tla; each run under recover + TotalAlloc meter in a 4 GiB child. distinct_nontrivial = distinct (target, input) whose "
             "specification class is not an error at the very first grammar element" % (n_e, nrand),
        samples=samples[:8],
        states=r.distinct + tstates, transitions=r.generated,
        alloc_bound="AllocBound(n) = %d*n + %d bytes (n = length of the text/message given to the decoder)" % (bound_k, bound_c),
        spec_classes_covered=len(stats["classes"]),
        verdict_agreement=dict(agree=stats["agree"], disagree=stats["disagree"], refused_by_uninterpreted_asset_id_hash=stats["hash"],
                               samples=stats["disagree_samples"]),
        violating_inputs={k: len(v) for k, v in bad.items()} if len(bad) < 400 else len(bad),
        monitor_selftest="panic, 64 MiB allocation and out-of-memory death of the child all detected",
        harness_E=s1, harness_T=s2, exhaustive=False,
    ), assumptions=[
        "memory is metered as runtime.MemStats.TotalAlloc around the call (second measurement taken when the first exceeds 16 KiB, to discount lazily initialised pools)",
        "network messages: the go-wire reflection decoder is exercised through decodeMessage; its envelope is specified in WireMsg.tla, JSON payloads only in the quoted-hex shape",
        "sha3 uninterpreted: placeholder asset ids of specification-made inputs are replaced by the real hash before running",
        "a nil message (type byte 0x00, decoded to nil with a nil error) is counted as accepted; what processMsg does with it is outside decoding",
    ])
