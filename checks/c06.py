"""C06 — VM values behave as immutable byte strings.

Specification: specs/vm/VMOps.tla (+ VMGas, VMValues, VMParse, lib/VMNat) is value-semantic by
construction (stacks of byte sequences), so the reference execution *is* the statement "results
depend only on the byte values". specs/vm/VMRun.tla runs it as a state machine.
  E (enumerated): TLC enumerates every program of <= 3 (quick) / <= 4 (thorough) instructions over
      the aliasing-relevant alphabet (VMAliasCases.tla) x 4 contexts (argument list + 0..3 initial
      state-data items); TLC computes the reference execution of each; the driver runs the real
      vm.Verify in three layouts per case - arguments, state and program in independent exact-capacity
      buffers, in buffers with spare capacity, and as sub-slices of ONE buffer produced by the
      repository's own decoder (ReadVarstrList/ReadVarstr31); the argument and state-data LISTS have
      exact capacity in the first layout and are prefixes all[:k] of longer caller-owned lists in the
      other two - verifies the SAME context twice, and requires in all three layouts and both runs: the vm.TraceOut step trace (pc, gas, opcode, data stack after
      every instruction), result class and remaining gas equal the reference, and every
      caller-visible buffer (including spare capacity) is byte-identical and both caller lists (length,
      every entry, the entries behind them in the backing array) are unchanged afterwards.
  T (seeded): random programs of 3-12 instructions over a wider alphabet, same judgement.
"""
import os
from common import Infra
import vm_lib


def run(ctx):
    b = ctx.build("c06")
    quick = ctx.tier == "quick"
    total, samples, states, trans = {}, [], 0, 0
    # ---- E: exhaustive small programs, enumerated by TLC
    # quick: one third (chosen by the seed) of all programs of <= 3 instructions;
    # thorough: all programs of <= 3 instructions and 3 of 20 shards (chosen by the seed) of those of <= 4
    if quick:
        shards = [("cfg/VMAliasCases.quick.cfg", ctx.seed % 3)]
    else:
        shards = [("cfg/VMAliasCases.full3.cfg", 0)] + [("cfg/VMAliasCases.thorough.cfg", (ctx.seed + 7 * j) % 20) for j in range(3)]
    exhaustive = not quick
    fam0 = None
    for n, (cfg, k) in enumerate(shards):
        with open(os.path.join(os.path.dirname(os.path.dirname(os.path.abspath(__file__))), "specs", cfg)) as fh:
            text = fh.read().replace("Shard = 0", "Shard = %d" % k)
        r = ctx.tlc_design("vm/VMAliasCases", cfg, workers=1, timeout=1500, tag="enumerate-%d" % n,
                           files={os.path.basename(cfg): text})
        states += r.distinct
        trans += r.generated
        fam = vm_lib.family(ctx, b, [os.path.join(r.scratch, "tlc.out")], "enum%d" % n, nshards=1 if quick else 4)
        fam0 = fam0 or fam
        vm_lib.merge(total, fam["summary"])
        samples += fam["samples"][:1 if n else 2]
        states += fam["states"]
        trans += fam["transitions"]
        if len(ctx.violations) >= 12:
            break
    # ---- T: seeded random programs
    nrand = 2000 if quick else 20000
    raw = os.path.join(ctx.work, "random.ndjson")
    ctx.harness([b, "gen", raw, str(nrand)])
    famr = vm_lib.family(ctx, b, [raw], "random", nshards=1 if quick else 2)
    vm_lib.merge(total, famr["summary"])
    samples += famr["samples"][:2]
    states += famr["states"]
    trans += famr["transitions"]
    control = vm_lib.negative_control(ctx, b, famr)
    ctx.finish("model_checking", dict(
        states=states, transitions=trans,
        traces_validated_against_impl=total.get("cases", 0) * 3 + total.get("second_verifications", 0),
        samples=samples,
        cases=total.get("cases", 0), reference_steps=total.get("steps", 0),
        distinct_nontrivial=total.get("distinct_nontrivial", 0),
        buffer_layouts=total.get("layouts"), second_verifications=total.get("second_verifications", 0), mismatches=total.get("mismatches", 0),
        caller_buffer_changes=total.get("buffer_changes", 0),
        opcodes_completed=total.get("opcodes_completed"), result_classes=total.get("result_classes"),
        families=total.get("families"), negative_control=control,
        exhaustive=exhaustive,
        rule="E: %s over 21 aliasing-relevant instructions x 4 contexts (argument list + 0..3 state-data items; TLC-enumerated), "
             "T: %d seeded random programs of 3-12 instructions over 40 instructions; each executed "
             "in 3 buffer layouts; non-trivial = at least one instruction completes in the reference execution"
             % ("one third (by seed) of all programs of <= 3 instructions" if quick else
                "all programs of <= 3 instructions and 3 of 20 shards (by seed) of all programs of <= 4 instructions", nrand),
    ), assumptions=[
        "the alt stack is observed only through later data-stack contents (vm.TraceOut does not print it)",
        "hash functions are uninterpreted; their values are facts computed with the Go standard library",
        "remaining gas of a failed verification is only required to lie in [0, limit]",
    ])
