"""C07 — VM execution terminates within the gas limit.

Specification: specs/vm/VMGas.tla (cost table, accounting discipline: charge / defer / refund on pop /
child machine; potential Phi = gas + memory cost of both stacks) used by VMOps.tla and run as a state
machine by VMRun.tla.  TLC checks on every state of every reference execution: gas never negative,
Phi <= limit, a CHECKPREDICATE child never returns more than it received, 0 <= gasLeft <= limit.
  E: TLC enumerates (VMGasCases.tla) all programs of <= 2 symbols (quick; thorough adds 2 of 12 shards of
     <= 3 symbols) over 32 symbols - pushes, refunding pops, back / forward jumps, CHECKPREDICATE calls
     with predicates that succeed, fail, run out of gas, leave items behind, loop or call again, and limit
     operands 2^63-1 / 2^63 / 2^63+1 / 2^64-1 / 2^64, alt-stack
     moves, size-dependent costs, expansion opcodes - x 2 argument lists x 4 (3) gas limits.
  T: seeded programs: random instruction sequences and byte strings <= 200 bytes biased to jumps and
     predicate calls with limits up to the consensus maximum 300000; loops around a predicate call for
     every opcode as predicate with too little gas; every opcode once (its consumption is measured); CHECKPREDICATE limits, SUBSTR / LEFT / RIGHT
     sizes, PICK / ROLL indexes and CHECKMULTISIG counts at 2^63-1, 2^63, 2^63+1, 2^64-1, 2^64 with non-empty predicates.
  Binding: the real vm.Verify is executed with vm.TraceOut; 0 <= gas <= limit is required before every instruction of
     every machine and for gasLeft, whatever else diverges; remaining gas before every instruction
     (all depths), the final gasLeft and the run-limit failures must equal TLC's reference execution;
     an execution longer than limit*1.25+256 instructions is aborted and reported (non-termination);
     a completed instruction whose reference consumption (confirmed step by step by the code) is < 1 is
     reported; GasState.updateUsage is replayed against the TLC case table of VMGasUsage.tla.
Divergences that are not about gas (stack contents, control flow, failure classes other than running
out of gas) belong to C08 and are only counted here.
"""
import os
import re
from common import Infra
import vm_lib

GAS = re.compile(r"^(hang:|gas:nontermination$|gas:updateUsage:|gas:[^:]+:(gas|finalgas|bounds|unpaid-refund|zero-cost)$"
                 r"|gas:[^:]+:(outcome|result):(runlimit/[a-z]+|[a-z]+/runlimit)$)")


def keep(v):
    return bool(GAS.search(v.get("sig", "")))


def run(ctx):
    b = ctx.build("c07")
    quick = ctx.tier == "quick"
    total, samples, states, trans, other = {}, [], 0, 0, 0
    # ---- gas usage accounting (validation.GasState.updateUsage), one-step case table
    ru = ctx.tlc_design("vm/VMGasUsage", "cfg/VMGasUsage.cfg", workers=2, timeout=600, tag="usage-table")
    hu = ctx.harness([b, "usage", os.path.join(ru.scratch, "tlc.out")], timeout=600, env=vm_lib.known_env(ctx))
    if hu["summary"].get("usage_cases", 0) != ru.nexports or ru.nexports < 100:
        raise Infra("usage table: %s exported, %s replayed" % (ru.nexports, hu["summary"]))
    states += ru.distinct
    trans += ru.generated
    # ---- E: enumerated programs
    runs = [("cfg/VMGasCases.quick.cfg", 0)]
    if not quick:
        runs += [("cfg/VMGasCases.len3.cfg", (ctx.seed + 6 * j) % 12) for j in range(2)]
    for n, (cfg, k) in enumerate(runs):
        with open(os.path.join(os.path.dirname(os.path.dirname(os.path.abspath(__file__))), "specs", cfg)) as fh:
            text = fh.read().replace("Shard = 0", "Shard = %d" % k)
        r = ctx.tlc_design("vm/VMGasCases", cfg, workers=1, timeout=1500, tag="enumerate-%d" % n,
                           files={os.path.basename(cfg): text})
        states += r.distinct
        trans += r.generated
        fam = vm_lib.family(ctx, b, [os.path.join(r.scratch, "tlc.out")], "enum%d" % n, nshards=1 if quick else 2, keep=keep)
        vm_lib.merge(total, fam["summary"])
        samples += fam["samples"][:1]
        states += fam["states"]
        trans += fam["transitions"]
        other += len(fam["other"])
        if len(ctx.violations) >= 12:
            break
    # ---- T: seeded programs
    raw = os.path.join(ctx.work, "seeded.ndjson")
    ctx.harness([b, "gen", raw, ctx.tier])
    famr = vm_lib.family(ctx, b, [raw], "seeded", nshards=1 if quick else 4, keep=keep)
    vm_lib.merge(total, famr["summary"])
    samples += famr["samples"][:2]
    states += famr["states"]
    trans += famr["transitions"]
    other += len(famr["other"])
    control = vm_lib.negative_control(ctx, b, famr)
    ctx.finish("model_checking", dict(
        states=states, transitions=trans,
        traces_validated_against_impl=total.get("cases", 0),
        samples=samples,
        cases=total.get("cases", 0), reference_steps=total.get("steps", 0),
        distinct_nontrivial=total.get("distinct_nontrivial", 0),
        mismatches_total=total.get("mismatches", 0), non_gas_divergences_left_to_C08=other,
        zero_cost_instructions=total.get("zero_cost", 0),
        usage_cases=hu["summary"].get("usage_cases"),
        opcodes_completed=total.get("opcodes_completed"), result_classes=total.get("result_classes"),
        families=total.get("families"), dropped_too_long=total.get("dropped_too_long", 0),
        negative_control=control, exhaustive=False,
        rule="E: all programs of <= 2 symbols%s over the 32-symbol gas alphabet x 2 argument lists x gas limits "
             "{0,9,40,360} (len 3: {30,320,700}); T: seeded random / predicate-loop / per-opcode programs with limits up to 300000 "
             "(limits shrunk until the execution has <= 600 steps); non-trivial = at least one instruction completes"
             % ("" if quick else " and 2 of 12 shards (by seed) of <= 3 symbols"),
    ), assumptions=[
        "the alt stack is not printed by vm.TraceOut; its memory cost is the reference's (all observable gas values must match)",
        "remaining gas of a failed top-level verification is only required to lie in [0, limit]",
        "non-termination is reported when more than limit*1.25+256 instructions were executed (execution aborted by the driver)",
        "executions are bounded to 600 steps for TLC; larger gas limits are exercised only by programs that finish within that",
    ])
