"""C08 — every VM opcode matches an independent reference semantics.

Specification: specs/vm/VMOps.tla - one reference definition per opcode written from the documented
semantics (numbers: unbounded naturals from lib/VMNat.tla checked against the documented ranges
< 2^255 / <= 32 bytes / int64 for sizes and indexes; shifts on the 256-bit word; splice bounds; bitwise
ops on unequal lengths; stack manipulation; CHECKSIG / CHECKMULTISIG matching rule; CHECKPREDICATE
child machine), failure classes, and the cost schedule of VMGas.tla.  Hashes and ed25519 are
uninterpreted: facts computed with the Go standard library travel with each case.
  design: VMNatCheck.tla - TLC checks the big-number arithmetic against its own integers (small values)
          and against ring / division / shift identities (64..256-bit values).
  E/T:    the seeded generator builds INPUTS only: every opcode (all 256 byte values, expansion on/off)
          as a single-instruction program on boundary stacks (empty, 1..8 items, 0..40-byte items, values
          at 0, 2^63, 2^64, 2^255, 33-byte and non-minimal encodings), gas limits around the exact cost,
          context present/absent, real ed25519 keys, CHECKPREDICATE with 22 predicates x stacks x n x
          limit, and random stacks / two-instruction programs.  TLC (VMRun.tla) computes for each case the
          reference trace, result class and remaining gas; the driver runs the real vm.Verify and compares
          vm.TraceOut line by line, the result class and gasLeft.
"""
import os
from common import Infra
import vm_lib


def run(ctx):
    b = ctx.build("c08")
    quick = ctx.tier == "quick"
    rn = ctx.tlc_design("lib/VMNatCheck", "cfg/VMNatCheck.quick.cfg" if quick else "cfg/VMNatCheck.cfg",
                        workers=4, timeout=1200, tag="bignum-design")
    raw = os.path.join(ctx.work, "cases.ndjson")
    hg = ctx.harness([b, "gen", raw, ctx.tier])
    fam = vm_lib.family(ctx, b, [raw], "ops", nshards=1 if quick else 6)
    s = fam["summary"]
    control = vm_lib.negative_control(ctx, b, fam)
    if s.get("opcodes_started", 0) < (180 if quick else 250) and not ctx.violations:
        raise Infra("only %s opcodes exercised" % s.get("opcodes_started"))
    ctx.finish("model_checking", dict(
        states=fam["states"] + rn.distinct, transitions=fam["transitions"] + rn.generated,
        traces_validated_against_impl=s.get("cases", 0),
        samples=fam["samples"][:3],
        cases=s.get("cases", 0), reference_steps=s.get("steps", 0),
        distinct_nontrivial=s.get("distinct_nontrivial", 0),
        opcodes_started=s.get("opcodes_started"), opcodes_completed=s.get("opcodes_completed"),
        result_classes=s.get("result_classes"), families=s.get("families"),
        mismatches=s.get("mismatches", 0), unjudged_missing_hash_fact=s.get("unjudged_missing_hash_fact", 0),
        negative_control=control, exhaustive=False,
        rule="single-instruction programs for every opcode on boundary stacks (pairs of %d boundary numbers for binary "
             "numeric opcodes, all %d for unary), gas limits around the exact cost, context variants, CHECKPREDICATE "
             "combinations, plus %d random stacks and %d random two-instruction programs; expected trace, result class and "
             "gas computed by TLC; non-trivial = the instruction completes in the reference execution"
             % (15 if quick else 32, 32, 1500 if quick else 30000, 750 if quick else 15000),
    ), assumptions=[
        "sha256 / sha3-256 / ripemd160 / ed25519 are uninterpreted: facts computed with the Go standard and x/crypto libraries",
        "introspection opcodes are checked against the context values the driver sets; CHECKOUTPUT against a 3-output table",
        "missing and malformed operands form one failure class (which of two simultaneous operand problems is reported is not documented)",
        "LSHIFT is specified on the 256-bit word as the property text implies (amounts >= 256 give 0, high bits are dropped before the < 2^255 check)",
        "a CHECKPREDICATE child does not inherit the expansion-reserved flag (as the implementation; not documented either way)",
        "remaining gas of a failed top-level verification is only required to lie in [0, limit]",
    ])
