"""C09 — program parsing and assembly are consistent.

Specification: specs/vm/VMParse.tla (instruction encoding, ParseOp / ParseProgram, the tiling theorem,
canonical pushes, equivalence of instruction sequences up to push encoding and jump relocation) and
specs/vm/Standard.tla (program builders; recognisers defined as the image of the builders).
  design: VMParseEnum.tla - TLC checks the tiling theorem on every byte string made of <= 3 (quick) /
          <= 4 (thorough) chunks over a 15-chunk alphabet (all push-form opcodes, jump opcodes, lengths,
          addresses, filler: complete / truncated / empty PUSHDATA1/2/4, jumps to instruction starts,
          into instructions and beyond the end), and exports the strings.
  E + T:  the driver records, for every enumerated string, for seeded random strings (<= 300 bytes, three
          generators) and for standard programs built by the real vmutil builders from hashes of length
          0..40, contracts of the BCRP length classes {1,75,76,255,256,65535,65536,...}, key sets, and their
          one-byte mutations / non-canonical encodings: vm.ParseProgram, vm.Disassemble, vm.Assemble of the
          disassembly, the six segwit / bcrp recognisers, the builders' bytes and the extract / convert
          helpers.  TLC (VMParseJudge.tla) judges every observation: parse result equals ParseProgram and
          tiles; the re-assembled program parses to an equivalent instruction sequence; recognisers =
          builder images; builders' bytes = reference.
"""
import json
import os
from common import Infra, ndjson


class _R:
    def __init__(self):
        self.distinct = 0
        self.generated = 0


def judge(ctx, path, tag, workers=6, chunk=40000):
    """Let TLC judge the observations of `path` (in chunks, so that the case file stays small)."""
    with open(path) as fh:
        lines = fh.readlines()
    tot, verdicts = _R(), {}
    for i in range(0, len(lines), chunk):
        part = lines[i:i + chunk]
        r = ctx.tlc_design("vm/VMParseJudge", "cfg/VMParseJudge.cfg", files={"cases.ndjson": "".join(part)}, workers=workers,
                           timeout=1700, tag="%s-%d" % (tag, i // chunk))
        if r.nexports != len(part):
            raise Infra("judge %s: %d verdicts for %d observations" % (tag, r.nexports, len(part)))
        for d in r.exports():
            verdicts[d["id"]] = d["v"]
        tot.distinct += r.distinct
        tot.generated += r.generated
    return tot, verdicts


def load(path):
    cases = {}
    with open(path) as fh:
        for line in fh:
            c = json.loads(line)
            cases[c["id"]] = c
    return cases


def report(ctx, cases, verdicts, stats):
    for cid, v in sorted(verdicts.items()):
        c = cases[cid]
        stats["kinds"][c["k"]] = stats["kinds"].get(c["k"], 0) + 1
        stats["fams"][c["fam"]] = stats["fams"].get(c["fam"], 0) + 1
        key = (c["k"], bytes(c["p"]).hex() if len(c["p"]) < 400 else len(c["p"]), c.get("which"), c.get("m"))
        stats["distinct"].add(key)
        if c["k"] == "rt" and c["ok1"] and c["ok2"]:
            stats["roundtrips"] += 1
        if v == "ok":
            continue
        stats["bad"] += 1
        p = bytes(c["p"])
        desc = "%s on program %s%s" % (v, p.hex() if len(p) <= 120 else p[:60].hex() + "...(%d bytes)" % len(p),
                                       (" = " + c["text"]) if c.get("text") else "")
        if c["k"] == "rt":
            desc += ": Disassemble ok=%s, Assemble ok=%s, reassembled=%s" % (c["ok1"], c["ok2"], bytes(c["q"]).hex()[:120])
        elif c["k"] == "recog":
            desc += ": recognisers [p2wpkh p2wsh straightforward p2wscript bcrp callcontract] = %s" % c["flags"]
        elif c["k"] == "build":
            desc += ": builder %s returned ok=%s %s" % (c["which"], c["ok1"], bytes(c["q"]).hex()[:120])
        elif c["k"] == "parse":
            desc += ": ParseProgram ok=%s, %d instructions" % (c["ok1"], len(c["insts"]))
        small = dict(c)
        if len(small["p"]) > 2000:
            small["p"] = small["p"][:200]
            small["q"] = small["q"][:200]
        ctx.violation(v, desc, small)


def run(ctx):
    b = ctx.build("c09")
    quick = ctx.tier == "quick"
    stats = dict(kinds={}, fams={}, distinct=set(), roundtrips=0, bad=0)
    # ---- design + enumerated strings
    re_ = ctx.tlc_design("vm/VMParseEnum", "cfg/VMParseEnum.%s.cfg" % ("quick" if quick else "thorough"),
                         workers=1, timeout=1500, tag="enumerate+tiling")
    obs1 = os.path.join(ctx.work, "enum.ndjson")
    h1 = ctx.harness([b, "obs", os.path.join(re_.scratch, "tlc.out"), obs1], timeout=900)
    if h1["summary"].get("strings") != re_.nexports:
        raise Infra("enumerated %s strings, observed %s" % (re_.nexports, h1["summary"].get("strings")))
    r1, v1 = judge(ctx, obs1, "judge-enumerated")
    c1 = load(obs1)
    report(ctx, c1, v1, stats)
    # ---- seeded random strings, standard programs and mutations
    obs2 = os.path.join(ctx.work, "gen.ndjson")
    ctx.harness([b, "gen", obs2, ctx.tier], timeout=900)
    r2, v2 = judge(ctx, obs2, "judge-seeded")
    c2 = load(obs2)
    report(ctx, c2, v2, stats)
    # ---- negative control: corrupt observations that were judged ok; every one must be rejected
    ctl = []
    for cid, v in sorted(v2.items()):
        c = c2[cid]
        if v != "ok" or len(c["p"]) > 400:
            continue
        c = json.loads(json.dumps(c))
        if c["k"] == "recog":
            c["flags"][4] = not c["flags"][4]
        elif c["k"] == "build" and c["ok1"] and c["q"]:
            c["q"][-1] ^= 1
        elif c["k"] == "parse" and c["ok1"] and c["insts"]:
            c["insts"][0]["len"] += 1
        elif c["k"] == "rt" and c["ok1"] and c["ok2"] and c["q"]:
            c["q"] = c["q"] + [0x4c]          # truncated PUSHDATA1 appended: no longer parsable
        else:
            continue
        ctl.append(c)
        if len(ctl) >= 200:
            break
    cpath = os.path.join(ctx.work, "control.ndjson")
    with open(cpath, "w") as fh:
        fh.write(ndjson(ctl))
    rc, vc = judge(ctx, cpath, "negative-control", workers=2)
    accepted = [cid for cid, v in vc.items() if v == "ok"]
    if not ctl or accepted:
        raise Infra("negative control: %d corrupted observations, %d accepted by the judge" % (len(ctl), len(accepted)))
    samples = []
    for cs, vs in ((c1, v1), (c2, v2)):
        for cid in sorted(vs)[:4000]:
            c = cs[cid]
            if c["k"] == "rt" and c["ok1"] and c["ok2"] and 3 < len(c["p"]) < 40 and len(samples) < 4:
                samples.append({"program": bytes(c["p"]).hex(), "disassembly": c["text"], "reassembled": bytes(c["q"]).hex(), "verdict": vs[cid]})
    for cid in sorted(v2):
        c = c2[cid]
        if c["k"] == "recog" and any(c["flags"]) and len(c["p"]) < 60 and len(samples) < 7:
            samples.append({"program": bytes(c["p"]).hex(), "recognisers": c["flags"], "verdict": v2[cid]})
    ctx.finish("model_checking", dict(
        states=re_.distinct + r1.distinct + r2.distinct, transitions=re_.generated + r1.generated + r2.generated,
        traces_validated_against_impl=len(v1) + len(v2),
        samples=samples,
        enumerated_strings=re_.nexports, observations=len(v1) + len(v2),
        observations_by_kind=stats["kinds"], observations_by_family=stats["fams"],
        distinct_nontrivial=len(stats["distinct"]), successful_round_trips=stats["roundtrips"],
        disagreements=stats["bad"],
        negative_control="%d corrupted observations, all rejected by the judge" % len(ctl),
        exhaustive=True,
        rule="E: every byte string of <= %d chunks over the 15-chunk alphabet of VMParseEnum.tla (exhaustive); T: seeded "
             "random strings <= 300 bytes, builder outputs for hash lengths 0..40 / contract length classes / 0..4 keys "
             "with every quorum, one-byte mutations and non-canonical encodings; each judged by TLC; distinct = distinct "
             "(kind, input) pairs" % (3 if quick else 4),
    ), assumptions=[
        "\"the same instruction sequence\" is read up to the encoding of pushes (the assembler documents that push opcodes "
        "are inferred) and the relocation of jump targets to the same instruction index",
        "the extract / convert helpers are only judged on programs their recogniser accepts (they index without checking)",
        "label names chosen by the disassembler are not constrained",
    ])
