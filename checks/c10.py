"""C10 — ledger state depends only on the main chain, not on reorg history.

specs/chain/Ledger.tla defines the expected ledger as a *function of the main chain*
(StateAt(best): apply the blocks from the funding prefix; Persisted(): what the store keeps) and the
contract table with first-registration-wins. TLC explores all bounded block trees carrying the menu
transactions (spend / conflicting spend / vote / veto / contract registrations / immature coinbase
spend) with all delivery orders; every transition is replayed on a real node and, after the last call
of each path, Store.GetUtxo of every coin (existence, spent flag, type, and creation height where it is
a spending constraint) and the contract record are compared with the from-scratch value.
"""
import chain_lib


def run(ctx):
    parts = [chain_lib.run_ledger(ctx)]
    chain_lib.finish_chain(ctx, parts,
        rule="every transition of Ledger.tla within the cfg bounds (configs listed; quick tier replays every k-th exported path, "
             "k = stride, offset by the seed), replayed with its path on a real node after a 14-block funding prefix",
        assumptions=["one external validator, E = 2, VoteLock = 2 blocks, fixed transaction menu of 7 real transactions",
                     "creation height is compared only for coinbase and vote outputs (the only kinds it constrains)"])
