"""C11 — best chain follows the fork-choice rule and indexes stay consistent.

Part 1 (this file, forks family): specs/chain/Forks.tla with BestIsForkChoice /
IndexIsAncestry / InMainIffAncestor; every transition replayed on a real node comparing
BestBlockHash, GetHeaderByHeight(h) for every h and InMainChain(b) for every block.
Hash ties are bound by grinding each block's hash to the rank the model chose.
"""
import chain_lib


def run(ctx):
    quick = ctx.tier == "quick"
    cfg = "cfg/ForksGen.quick.cfg" if quick else "cfg/ForksGen.thorough.cfg"
    o = chain_lib.run_forks(ctx, cfg, epochs=(100, 2) if quick else (100, 2, 3), timeout=3000)
    r = o["tlc"]
    ctx.finish("model_checking", dict(
        states=r.distinct, transitions=r.generated,
        traces_validated_against_impl=o["cases"], samples=o["samples"],
        process_block_calls=o["delivers"], distinct_paths=o["distinct"],
        divergences_attributed_to_other_properties=o["other"], exhaustive=True,
        rule="every transition of Forks.tla within the cfg bounds, replayed with its path; after each ProcessBlock the best "
             "block, the height index and InMainChain of every block are compared with the specification",
    ), assumptions=[
        "forks family: no verification messages, genesis is the only justified checkpoint (justification-driven "
        "reorganisations are covered by the casper family)",
    ])
