"""C11 — best chain follows the fork-choice rule and indexes stay consistent.

forks family (specs/chain/Forks.tla): no verification ever arrives; fork choice is height then
largest hash. casper family (specs/chain/CasperNode.tla): own votes, delivered / carried / cached
verification messages justify and finalize checkpoints, so the best chain also moves to *shorter*
branches. In both, BestOf is stated declaratively over all stored blocks and TLC checks
BestIsForkChoice / IndexIsAncestry / InMainIffAncestor; every transition is replayed on a real
node comparing BestBlockHash, GetHeaderByHeight(h) for every h <= best and InMainChain(b) for every
block. Hash ties are bound by grinding each block's hash to the rank the model chose.
"""
import chain_lib


def run(ctx):
    quick = ctx.tier == "quick"
    cfg = "cfg/ForksGen.quick.cfg" if quick else "cfg/ForksGen.thorough.cfg"
    parts = [chain_lib.run_forks(ctx, cfg, epochs=(100, 2)), chain_lib.run_casper(ctx), chain_lib.run_ledger(ctx)]
    chain_lib.finish_chain(ctx, parts,
        rule="every transition of Forks.tla and CasperNode.tla within the cfg bounds, replayed with its path; after the last call "
             "of each path (every prefix is a path of its own) best block, height index and InMainChain of every block are compared",
        assumptions=[
            "the cached-verification loop is held at a gate (build tag verif) and released where the specification takes EpochTick",
            "validator set = federation (no vote transactions); E = 2 in the casper family",
        ])
