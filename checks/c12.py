"""C12 — blocks delivered in any order are all connected without crashing.

specs/chain/Forks.tla: the environment mints every tree of <= N valid blocks (with every
relative order of the hashes of equal height), then delivers blocks in any order, any number
of times. TLC checks NoStrandedOrphan / StoredClosed on the specification and exports every
transition; harness/cmd/forks replays each path against a real protocol.Chain (real signed
blocks, in-memory store) in worker processes: a node that dies, blocks, strands an orphan or
stores a different set than in-order delivery would is a violation.
"""
import chain_lib


def run(ctx):
    quick = ctx.tier == "quick"
    cfg = "cfg/ForksGen.quick.cfg" if quick else "cfg/ForksGen.thorough.cfg"
    o = chain_lib.run_forks(ctx, cfg, epochs=(100, 2) if quick else (100, 2, 3), timeout=3000)
    r = o["tlc"]
    ctx.finish("model_checking", dict(
        states=r.distinct, transitions=r.generated,
        traces_validated_against_impl=o["cases"], samples=o["samples"],
        process_block_calls=o["delivers"], distinct_paths=o["distinct"],
        divergences_attributed_to_other_properties=o["other"], exhaustive=True,
        rule="every transition of Forks.tla within the cfg bounds (all block trees, all hash orders among equal heights, "
             "all delivery orders with redelivery), each replayed with its path for every epoch length listed",
    ), assumptions=[
        "blocks are valid coinbase-only blocks signed by the single federation key (not the node's key), so no vote is ever produced",
        "orphan-pool limit (256) and expiry (60 min) are not reached",
    ])
