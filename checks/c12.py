"""C12 — blocks delivered in any order are all connected without crashing.

specs/chain/Forks.tla: the environment mints every tree of <= N valid blocks (with every
relative order of the hashes of equal height), then delivers blocks in any order, any number
of times. TLC checks NoStrandedOrphan / StoredClosed on the specification and exports every
transition; harness/cmd/forks replays each path against a real protocol.Chain (real signed
blocks, in-memory store) in worker processes: a node that dies, blocks, strands an orphan or
stores a different set than in-order delivery would is a violation. The casper family
(specs/chain/CasperNode.tla) adds the same comparison when checkpoints get justified and
finalized while orphans are being connected (orphans that finality made unconnectable).
"""
import chain_lib


def run(ctx):
    quick = ctx.tier == "quick"
    cfg = "cfg/ForksGen.quick.cfg" if quick else "cfg/ForksGen.thorough.cfg"
    parts = [chain_lib.run_forks(ctx, cfg, epochs=(100, 2)), chain_lib.run_casper(ctx)]
    chain_lib.finish_chain(ctx, parts,
        rule="every transition of Forks.tla (all block trees, all hash orders among equal heights, all delivery orders with "
             "redelivery; epoch lengths 100 and 2) and of CasperNode.tla (configs listed) within the cfg bounds, each replayed "
             "with its path on a real node; stored set, orphan pool and ProcessBlock results compared",
        assumptions=[
            "blocks are valid coinbase-only blocks signed by a federation key",
            "orphan-pool limit (256) and expiry (60 min) are not reached",
        ])
