"""C13 — blocks violating consensus rules never enter the main chain.

specs/chain/Ledger.tla: MainChainValid (the best block's branch applies from scratch: no missing,
already-spent, immature-coinbase or still-locked vote input, in-block and cross-block and cross-fork
double spends included) and BadNeverStored (a block with a rule-breaking header/coinbase mutation:
wrong proposer signature, wrong reward amount, timestamp below parent + interval, wrong merkle root,
is never stored). Replay compares ProcessBlock's result class, the stored set, best block and index.
The forks family supplies the positive half (valid blocks are accepted in every order).
"""
import chain_lib


def run(ctx):
    quick = ctx.tier == "quick"
    parts = [chain_lib.run_ledger(ctx),
             chain_lib.run_forks(ctx, "cfg/ForksGen.quick.cfg" if quick else "cfg/ForksGen.thorough.cfg", epochs=(2,))]
    chain_lib.finish_chain(ctx, parts,
        rule="every transition of Ledger.tla (rule-breaking mutations quick: wrong signer; thorough: + reward amount, timestamp, "
             "merkle root; contextually invalid spends of the menu) and of Forks.tla (valid blocks), replayed with its path",
        assumptions=["the upper timestamp bound (wall clock) is not exercised", "gas-limit and transaction-validity rules are "
                     "decided at function level by C01/C07/C08; here the block-level composition is checked"])
