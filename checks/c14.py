"""C14 — coinbase rewards are exact and create no extra money (function level).

Specification: specs/ledger/Rewards.tla (+ LedgerBigNat.tla): per-epoch reward table =
sum per block of (fees + Subsidy(vote total after the block, height)) credited to the block's
proposer; Subsidy = min(R, floor((2V+S)R / 2S)) computed exactly with big naturals and admitted
+-1 only where the exact rational lies within 1e-6 of an integer (the code uses float64);
CoinbaseOk: the first block of an epoch pays exactly the previous table (a zero first output is
ignored), every other block pays one zero output.
  design : LedgerBigNatSanity (big-number library against TLC integers, exhaustive on small
           values); invariants of RewardsGen (interval well-formed, table bounded by fees + Epoch*R);
           RewardsSubsidy (R/2 <= subsidy <= R, cap above the threshold).
  R      : RewardsGen exports every transition of the accumulation machine (proposer x fee list x
           vote-total target per block, 2- and 3-block epochs) with a path; the driver replays it
           through state.NewCheckpoint / Checkpoint.Increase with synthetic blocks and compares
           the checkpoint's Rewards with the interval.
  E      : RewardsSubsidy: vote totals S*j/16 (+-1) incl. the 50% threshold and 2^40..2^63 at
           several heights, through Checkpoint.Increase.
  T      : for every distinct resulting table a family of coinbases (exact, permuted, +-1, missing,
           extra, doubled, split, stale, nothing...) is offered to validation.ValidateBlock on a
           real chain whose stored checkpoint carries that table, and proposal.NewBlockTemplate is
           asked for its coinbase; TraceRewards (TLC) evaluates CoinbaseOk on each record and the
           code's accept/reject must coincide.
"""
import copy
import json
import os
import threading
import time
from common import Infra, ndjson


def par(jobs):
    """run callables concurrently (staggered so that ctx.tlc's run counter is not raced)"""
    res, errs, ths = {}, [], []
    for k, (name, fn) in enumerate(jobs):
        def go(name=name, fn=fn):
            try:
                res[name] = fn()
            except BaseException as e:   # noqa
                errs.append(e)
        t = threading.Thread(target=go)
        t.start()
        ths.append(t)
        time.sleep(1.5)
    for t in ths:
        t.join()
    if errs:
        raise errs[0]
    return res


def run(ctx):
    b = ctx.build("c14")
    quick = ctx.tier == "quick"
    gens = [("e2", "cfg/RewardsGen.%s.cfg" % ("quick" if quick else "thorough")),
            ("e3", "cfg/RewardsGen.%s.cfg" % ("epoch3q" if quick else "epoch3"))]
    jobs = [(n, (lambda c=c, n=n: ctx.tlc_design("ledger/RewardsGen", c, workers=4 if quick else 6, timeout=2400, heap="6g", tag="histories-" + n)))
            for n, c in gens]
    jobs.append(("sub", lambda: ctx.tlc_design("ledger/RewardsSubsidy", "cfg/RewardsSubsidy.%s" % ("cfg" if quick else "thorough.cfg"),
                                               workers=4, timeout=2400, tag="subsidy")))
    jobs.append(("bn", lambda: ctx.tlc_design("ledger/LedgerBigNatSanity", "cfg/LedgerBigNatSanity.%s" % ("quick.cfg" if quick else "cfg"),
                                              workers=2 if quick else 4, timeout=2400, tag="bignat-sanity")))
    R = par(jobs)
    maxt = 150 if quick else 2500
    recs, hs = [], {}
    for n, _ in gens:
        rf = os.path.join(ctx.work, "records-%s.ndjson" % n)
        h = ctx.harness([b, "replay", R[n].path, rf, str(maxt)], timeout=2400)
        hs[n] = h
        if h["summary"].get("paths") != R[n].nexports - 1 and not ctx.violations:
            raise Infra("driver replayed %s of %d exported paths" % (h["summary"].get("paths"), R[n].nexports - 1))
        for line in open(rf):
            r = json.loads(line)
            r["id"] = len(recs) + 1
            r["gen"] = n
            recs.append(r)
    hsub = ctx.harness([b, "subsidy", R["sub"].path], timeout=600)
    if hsub["summary"].get("subsidy_cases") != R["sub"].nexports and not ctx.violations:
        raise Infra("driver ran %s of %d subsidy cases" % (hsub["summary"].get("subsidy_cases"), R["sub"].nexports))
    # ---- negative control records (hand-made, independent of the code under test): a coinbase paying
    # one unit less than the table must be condemned, the exact one accepted
    nreal = len(recs)
    if not recs:
        raise Infra("no coinbase records")
    tbl = {"a": [5, 7], "b": [9], "c": [], "y": [], "z": []}
    ctl_bad = dict(id=nreal + 1, residue=1, table=tbl, outs=[{"prog": "a", "amt": [4, 7]}, {"prog": "b", "amt": [9]}],
                   accepted=True, src="control", shape="control", err="", gen="")
    ctl_good = dict(id=nreal + 2, residue=1, table=tbl, outs=[{"prog": "z", "amt": []}, {"prog": "b", "amt": [9]}, {"prog": "a", "amt": [5, 7]}],
                    accepted=True, src="control", shape="control", err="", gen="")
    recs += [ctl_bad, ctl_good]
    # ---- TLC judges the records
    want, tstates = {}, 0
    for i in range(0, len(recs), 30000):
        batch = recs[i:i + 30000]
        t = ctx.tlc("ledger/TraceRewards", "cfg/TraceRewards.cfg", workers=1, timeout=1500, heap="6g", tag="judge",
                    files={"trace.ndjson": ndjson(batch)})
        if not t.ok:
            raise Infra("TraceRewards failed: violated=%s error=%s\n%s" % (t.violated, t.error, t.out[-2000:]))
        for d in t.exports():
            want[d["id"]] = d["want"]
        tstates += t.distinct
    if len(want) != len(recs):
        raise Infra("TraceRewards judged %d of %d records" % (len(want), len(recs)))
    if want[ctl_bad["id"]] or not want[ctl_good["id"]]:
        raise Infra("negative control: TraceRewards judged the hand-made control coinbases wrongly")
    mism = 0
    for r in recs:
        if r["src"] == "control":
            continue
        cls = "first-of-epoch" if r["residue"] == 1 else "other-block"
        shape = r["shape"].split(":")[0]
        if r["src"] == "template-error":
            ctx.violation("template:error:%s" % cls, "the proposer failed to build a coinbase for table %s: %s"
                          % (json.dumps(r["table"]), r["err"]), r)
            continue
        if want[r["id"]] == r["accepted"]:
            continue
        mism += 1
        if r["src"] == "validate":
            sig = "coinbase:%s:%s:%s" % (shape, cls, "accepted-but-forbidden" if r["accepted"] else "rejected-but-required")
            desc = "validation %s a coinbase (%s) that Rewards!CoinbaseOk %s; table %s outs %s err=%s" % (
                "accepted" if r["accepted"] else "rejected", r["shape"], "forbids" if r["accepted"] else "requires to be accepted",
                json.dumps(r["table"]), json.dumps(r["outs"]), r["err"])
        elif r["src"] == "template":
            sig = "template:payout:%s" % cls
            desc = "the proposer's coinbase %s does not satisfy Rewards!CoinbaseOk for table %s" % (json.dumps(r["outs"]), json.dumps(r["table"]))
        else:
            sig = "template:self-rejected:%s" % cls
            desc = "the node's validation rejects its own proposer's coinbase %s for table %s: %s" % (
                json.dumps(r["outs"]), json.dumps(r["table"]), r["err"])
        ctx.violation(sig, desc, r)
    # ---- negative control for the table comparison: expected interval shifted by one
    ctl = None
    for d in R["e2"].exports():
        if len(d["calls"]) >= 2 and not d["obs"]["amb"]:
            ctl = copy.deepcopy(d)
            for p in ctl["obs"]["table"]:
                if ctl["obs"]["table"][p]["lo"]:
                    for k in ("lo", "hi"):
                        ctl["obs"]["table"][p][k][0] = (ctl["obs"]["table"][p][k][0] + 1) % 32768
                    break
            break
    if ctl is None:
        raise Infra("no case for the table negative control")
    cpath = os.path.join(ctx.work, "control.ndjson")
    with open(cpath, "w") as fh:
        fh.write(ndjson([ctl]))
    saved = (list(ctx.violations), list(ctx.known_hits))
    hc = ctx.harness([b, "replay", cpath, os.path.join(ctx.work, "control-records.ndjson"), "0"], timeout=300)
    ctx.violations, ctx.known_hits = saved
    if not hc["violations"]:
        raise Infra("negative control: a shifted expected reward was not noticed by the driver")
    s2, s3, ss = hs["e2"]["summary"], hs["e3"]["summary"], hsub["summary"]
    nrec = len([r for r in recs if r["src"] != "control"])
    # chain level (lead's ledger engine): reward-paying blocks on every branch of the ledger family's trees, built from the
    # factory's own reward table, must be accepted; a coinbase paying one unit too much or an extra output outside the
    # table must be refused (rule mutations `cbamount`, `cbextra` of specs/chain/Ledger.tla)
    import chain_lib
    chain = chain_lib.run_ledger(ctx, only=["rules", "LedgerGen.quick"])
    ctx.finish("model_checking", dict(
        chain_level=dict(paths_replayed=chain["cases"], node_calls=chain["calls"], configs=chain["configs"],
                         attributed_to_other_properties=chain["other"]),
        states=R["e2"].distinct + R["e3"].distinct + R["sub"].distinct + R["bn"].distinct + tstates,
        transitions=R["e2"].generated + R["e3"].generated + R["sub"].generated + R["bn"].generated + tstates,
        traces_validated_against_impl=s2.get("paths", 0) + s3.get("paths", 0) + ss.get("subsidy_cases", 0) + nrec,
        samples=hs["e2"]["samples"][:1] + hs["e3"]["samples"][:1] + hsub["samples"][:2] + [r for r in recs if r["src"] == "template"][:1],
        reward_histories_replayed=s2.get("paths", 0) + s3.get("paths", 0),
        history_steps=s2.get("steps", 0) + s3.get("steps", 0),
        ambiguous_tables=s2.get("ambiguous_tables", 0) + s3.get("ambiguous_tables", 0),
        distinct_tables=s2.get("distinct_tables", 0) + s3.get("distinct_tables", 0),
        subsidy_cases=ss.get("subsidy_cases"), skipped_ambiguous=ss.get("subsidy_ambiguous"),
        coinbase_records_judged=nrec, coinbase_mismatches=mism,
        proposer_templates=len([r for r in recs if r["src"] == "template"]),
        negative_control="hand-made short-paying coinbase condemned / exact one accepted by TraceRewards; shifted expected reward reported as %s" % hc["violations"][0].get("sig"),
        exhaustive=True,
        rule="R: every transition of the accumulation machine (2 programs x %s, epoch 2, <= %d blocks; 3 programs, epoch 3, <= %d blocks) "
             "with one path; E: subsidy table; T: ~25 coinbase shapes per distinct table x residue, judged by TLC"
             % (("2 fee lists x 3 vote targets", 4, 4) if quick else ("4 fee lists x 7 vote targets", 5, 7)),
    ), assumptions=[
        "heights below 3*10^10 (h*BlockReward fits uint64; beyond that the code's supply computation wraps)",
        "vote totals up to 2^63 and reward tables below 2^62 (sums in the code are unchecked uint64)",
        "float64 subsidy: where the exact rational is within 1e-6 of an integer both neighbours are admitted (counted as ambiguous)",
        "function level: tables are produced by Checkpoint.Increase on synthetic blocks and planted in the stored checkpoint of a real "
        "2- or 3-block chain for validation / proposal; whole-chain supply accounting is left to the node replay checks",
        "the proposer is run without a wallet (default coinbase program)",
    ])
