"""C15 — validator set and block-proposer schedule are deterministic.

Specification: specs/ledger/Validators.tla (vote tally over vote/veto histories,
EffectiveValidators = <= 10 keys with tally >= minimum ranked by (votes desc, key
desc) with orders 0..n-1, federation otherwise, slot owner ((ts-start) div interval)
mod n).
  design : TLC checks on every reachable tally that the reference ranking is a strict
           total order on the qualified keys, orders are exactly 0..n-1, the effective
           set is the top of the ranking and every exported time has exactly one owner.
  R      : ValidatorsGen exports every transition of the history machine (one block per
           vote/veto event, epochs of 2 blocks) with a path reaching it and the expected
           tally / AllValidators / EffectiveValidators / schedule; the driver replays the
           path through state.NewCheckpoint + Checkpoint.Increase with real blocks and
           compares 20 times (Go randomises map iteration), again with all events in one
           block, and with the tally written straight into the Votes map.
  E      : ValidatorsMany: 208 tallies over 11..16 keys (ties, > 10 qualified, unqualified).
  chain  : the federation schedule TLC exported is compared with Chain.GetValidator on a
           real chain of three epochs which is extended only with blocks signed by the owner
           the specification names (and must refuse the same block signed by another key).
"""
import copy
import json
import os
from common import Infra, ndjson


def run(ctx):
    b = ctx.build("c15")
    quick = ctx.tier == "quick"
    r = ctx.tlc_design("ledger/ValidatorsGen", "cfg/ValidatorsGen.%s.cfg" % ("quick" if quick else "thorough"),
                       workers=8, timeout=2400, heap="8g", tag="histories")
    if r.nexports < 1000:
        raise Infra("history export unexpectedly small: %d" % r.nexports)
    h1 = ctx.harness([b, "replay", r.path], timeout=2400)
    # a second concretisation of the amounts: minimum 2^60 (sums close to 2^64)
    h1b = ctx.harness([b, "replay", r.path, str(2 ** 60)], timeout=2400)
    r2 = ctx.tlc_design("ledger/ValidatorsMany", "cfg/ValidatorsMany.cfg", workers=4, timeout=1200, tag="many-keys")
    h2 = ctx.harness([b, "replay", r2.path], timeout=1200)
    h3 = ctx.harness([b, "chain", r.path], timeout=600)
    for h, n in ((h1, r.nexports), (h1b, r.nexports), (h2, r2.nexports)):
        if h["summary"].get("cases") != n and not ctx.violations and not ctx.known_hits:
            raise Infra("driver executed %s of %d exported cases" % (h["summary"].get("cases"), n))
    if h3["summary"].get("chain_blocks", 0) < 6 and not ctx.violations:
        raise Infra("chain-level schedule run incomplete: %s" % h3["summary"])
    # ---- negative control: one expected value corrupted must be reported by the driver
    ctl = None
    for d in r2.exports():
        if len(d["obs"]["effDone"]) >= 2:
            ctl = copy.deepcopy(d)
            e = ctl["obs"]["effDone"]
            e[0]["order"], e[1]["order"] = e[1]["order"], e[0]["order"]
            break
    if ctl is None:
        raise Infra("no case for the negative control")
    cpath = os.path.join(ctx.work, "control.ndjson")
    with open(cpath, "w") as fh:
        fh.write(ndjson([ctl]))
    saved = (list(ctx.violations), list(ctx.known_hits))
    hc = ctx.harness([b, "replay", cpath], timeout=300)
    ctx.violations, ctx.known_hits = saved
    if not hc["violations"]:
        raise Infra("negative control: swapped validator orders were not noticed by the driver")
    s1, s2 = h1["summary"], h2["summary"]
    ctx.finish("model_checking", dict(
        states=r.distinct + r2.distinct,
        transitions=r.generated + r2.generated,
        traces_validated_against_impl=s1.get("cases", 0) + h1b["summary"].get("cases", 0) + s2.get("cases", 0) + 1,
        samples=(h1["samples"][:2] + h2["samples"][:1]),
        history_paths_replayed=s1.get("cases"), history_steps=s1.get("steps"),
        distinct_tallies=s1.get("distinct_tallies", 0) + s2.get("distinct_tallies", 0),
        cases_with_ties=s1.get("with_ties", 0) + s2.get("with_ties", 0),
        federation_cases=s1.get("federation_cases", 0) + s2.get("federation_cases", 0),
        many_key_cases=s2.get("cases"), repetitions_per_case=20,
        chain_level=h3["summary"],
        negative_control="swapped orders of two effective validators reported as %s" % hc["violations"][0].get("sig"),
        exhaustive=True,
        rule="R: every transition of the history machine (%s keys, <= %s vote/veto events, amounts min-1/min/min+1/2min) with one "
             "path; E: 11..16-key case table; each case 20x; amounts concretised around the main-net minimum and around 2^60"
             % (("3", "4") if quick else ("4", "5")),
    ), assumptions=[
        "public keys are compared as lower-case hex strings; model key rank i is the i-th smallest of 16 seeded real xpubs",
        "model amounts a = k*100+e are concretised as k*realMin+e (additive and order preserving for |e| < 50)",
        "timestamps before the epoch start are outside the property (unsigned subtraction in the code)",
        "chain-level part uses federation validators only (vote-elected sets on a full node are exercised by the node replay checks)",
    ])
