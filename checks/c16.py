"""C16 — finality is safe and irreversible.

specs/chain/CasperNode.tla: NoConflictingFinal (every checkpoint that ever was finalized lies on one
chain), FinalMonotone ([][IsAncestor(root, root')]_vars), FinalInMain (the best block descends from the
finalized root) are model-checked with honest validators (sources globally justified, no slashable
pair) and the Byzantine validators of the config; every transition is replayed on a real node and
LastFinalized, the in-memory tree and the stored checkpoint statuses are compared after the call.
"""
import chain_lib


def run(ctx):
    parts = [chain_lib.run_casper(ctx)]
    chain_lib.finish_chain(ctx, parts,
        rule="every transition of CasperNode.tla within the cfg bounds (configs listed: N validators, node key inside/outside the "
             "set, honest and Byzantine signers, delivered/carried/cached votes), replayed with its path; finalized root compared",
        assumptions=["fault bound of the config (Byz) for the design invariants; the replay compares the node with the specification "
                     "for every explored message history regardless of who signed",
                     "E = 2, federation validators"])
