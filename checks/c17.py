"""C17 — justification needs a supermajority of distinct valid validator votes.

specs/chain/CasperNode.tla: AddVer justifies t from s only when more than 2N/3 distinct validators are
admitted on the link s -> t and s is justified; finalizes s only when t is its direct child checkpoint.
Invalid signatures (ok = FALSE) never count. JustifiedHasSupermajority / FinalizedHasJustifiedChild are
model-checked; the replay compares, after every path, the status of every checkpoint (stored record and
in-memory tree) with the specification.

specs/chain/ValidatorSets.tla: the validators entitled to vote for a checkpoint are those of the PARENT epoch, each in
the header slot of its order there; the table changes between epochs through vote / veto transactions. Every transition
(blocks whose checkpoint header carries signatures of rightful keys, of the next epoch's keys and of strangers;
verification messages of every key; restarts) is replayed on the real engine over a real store (cmd/c18 sets).
"""
import chain_lib


def run(ctx):
    parts = [chain_lib.run_casper(ctx), chain_lib.run_sets(ctx)]
    chain_lib.finish_chain(ctx, parts,
        rule="every transition of CasperNode.tla within the cfg bounds, replayed with its path; checkpoint statuses compared",
        assumptions=["E = 2, federation validators (N = 1, 3, 4) in the node replay; voted validator tables of 1-7 keys changing over three epochs in the engine replay (ValidatorSets.tla)", "restart (reload of statuses) is covered by the crash family (C19)"])
