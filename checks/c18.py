"""C18 — the node never signs or admits slashable votes.

Part 1 (histories): specs/chain/CasperNode.tla — VerOk = signature valid, heights on epoch boundaries,
source below target, no other checkpoint of the target height holding a slot of that validator, no
surrounding / surrounded link of that validator in the tree. NoSlashableAdmitted / NoSlashableSent are
model-checked; the replay compares the admitted verifications of every checkpoint in the tree, the
verification events the node published (own votes and relayed ones) and the result class of every
ProcessBlockVerification call.
Part 2 (rules on synthetic engine states): specs/chain/SlashRules.tla enumerates every checkpoint tree
with two branches (3 and 4 checkpoints above the root), every consistent set of <= 2 (thorough 3) earlier
verifications of the voter and every new verification, with the verdict admitted / refused / dup;
harness/cmd/c18 builds each state with real headers, checkpoint records and signatures in a real
database.Store + casper.NewCasper and feeds the message to the real AuthVerification. This covers
configurations no bounded history reaches (votes on a fork that split off below the source).
"""
import os
import chain_lib
from common import Infra


def run(ctx):
    parts = [chain_lib.run_casper(ctx)]
    b = ctx.build("c18")
    cfg = "cfg/SlashRules.quick.cfg" if ctx.tier == "quick" else "cfg/SlashRules.thorough.cfg"
    r = chain_lib.tlc_cached(ctx, "chain/SlashRules", cfg, timeout=3000, tag="slash-rules", workers=8, min_exports=1000)
    h = ctx.harness([b, "rules", r.path], timeout=3000, keep=chain_lib.mine(ctx))
    s = h["summary"]
    if s.get("cases", 0) != r.nexports and not h["violations"]:
        raise Infra("rules replay covered %s of %d cases" % (s.get("cases"), r.nexports))
    parts.append(dict(tlc=[r], states=r.distinct, transitions=r.generated, cases=s.get("cases", 0), calls=s.get("cases", 0),
                      distinct=s.get("distinct", 0), samples=h["samples"][:1], other=len(h["other"]),
                      configs=[dict(cfg=os.path.basename(cfg), synthetic_states=s.get("cases", 0), admitted=s.get("admitted"),
                                    refused=s.get("refused"), dup=s.get("dup"))]))
    chain_lib.finish_chain(ctx, parts,
        rule="(1) every transition of CasperNode.tla within the cfg bounds + seeded deep random walks, replayed with its path; admitted links, "
             "published verification events and ProcessBlockVerification results compared; (2) every case of SlashRules.tla "
             "(synthetic engine state x new verification) executed on the real engine, verdict compared",
        assumptions=["E = 2, federation validators", "garbage signatures are modelled as one class (ok = FALSE)",
                     "part 2: the voter's earlier verifications are pairwise compatible (a consistent engine state)"])
