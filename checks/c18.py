"""C18 — the node never signs or admits slashable votes.

specs/chain/CasperNode.tla: VerOk = signature valid, heights on epoch boundaries, source below target, no
other checkpoint of the target height holding a slot of that validator, no surrounding / surrounded link
of that validator in the tree. NoSlashableAdmitted / NoSlashableSent are model-checked; the replay
compares the admitted verifications of every checkpoint in the tree, the verification events the node
published (own votes and relayed ones) and the result class of every ProcessBlockVerification call.
"""
import chain_lib


def run(ctx):
    parts = [chain_lib.run_casper(ctx)]
    chain_lib.finish_chain(ctx, parts,
        rule="every transition of CasperNode.tla within the cfg bounds, replayed with its path; admitted links, published "
             "verification events and ProcessBlockVerification results compared",
        assumptions=["E = 2, federation validators", "garbage signatures are modelled as one class (ok = FALSE)"])
