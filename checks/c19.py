"""C19 — node restarts cleanly from a crash at any point.

Scenarios come from specs/chain/CasperNode.tla (every explored transition with its path, the same
export the crash-free replay validates against the specification). For the last call of a sampled
path the real node is run once crash-free (twin) and once per storage write of that call with the
store dying inside that write (each Set/Delete/batch commit is atomic); the records are reopened
with NewChain and (1) the start must succeed, (2) every component of the restarted state must have
a value the crash-free node had before or after the call (checkpoint statuses: any stage in
between), the index must match the best block and the finalized root must be on the best chain,
a clean restart must reproduce the state exactly, (3) after re-delivering all blocks and votes the
restarted node must agree with the twin (required only when no orphan / cached vote was pending,
because those die with the process and change the arrival order).
"""
import os
import chain_lib
from common import Infra, NCPU

STRIDES = {"quick": [("cfg/CasperGen.n1.quick.cfg", 1, 0, 6), ("cfg/CasperGen.n3me.quick.cfg", 3, 0, 12),
                     ("cfg/CasperGen.n3ext.quick.cfg", 3, 99, 60)],
           "thorough": [("cfg/CasperGen.n1.quick.cfg", 1, 0, 1), ("cfg/CasperGen.n3me.quick.cfg", 3, 0, 1),
                        ("cfg/CasperGen.n3ext.quick.cfg", 3, 99, 4), ("cfg/CasperGen.n1.thorough.cfg", 1, 0, 8),
                        ("cfg/CasperGen.deep.cfg", 4, 0, 1, 100, 90)]}


def run(ctx):
    b = ctx.build("casper")
    states = trans = cases = points = 0
    samples, cfgs = [], []
    for ent in STRIDES[ctx.tier]:
        cfg, n, me, stride = ent[:4]
        sim, depth = (ent[4], ent[5]) if len(ent) > 4 else (None, None)    # seeded deep random walks
        r = chain_lib.tlc_cached(ctx, "chain/CasperGen", cfg, timeout=6000, tag="casper N=%d Me=%d" % (n, me),
                                 workers=8 if sim else None, simulate=sim, depth=depth, min_exports=20 if sim else 100)
        h = ctx.harness([b, "crash", r.path, str(NCPU), str(n), str(me), str(stride)], timeout=6000, keep=chain_lib.mine(ctx))
        s = h["summary"]
        if s.get("unreproducible_worker_deaths", 0):
            raise Infra("a worker died on a case that did not reproduce the death")
        if s.get("crash_points", 0) < 50 and not h["violations"]:
            raise Infra("crash enumeration unexpectedly small: %s" % s)
        states += r.distinct
        trans += r.generated
        cases += s.get("cases", 0)
        points += s.get("crash_points", 0)
        samples += h["samples"][:1]
        cfgs.append(dict(cfg=os.path.basename(cfg), N=n, Me=me, stride=stride, paths=s.get("cases", 0), crash_points=s.get("crash_points", 0)))
    ctx.finish("fault_enumeration", dict(
        evaluations=points, distinct_nontrivial=points,
        rule="for every sampled path of CasperNode.tla (every k-th exported transition, offset by the seed) every storage write of "
             "its last call is a crash point (plus a clean restart); each (path, write) pair is one evaluation and is distinct; "
             "non-trivial: the call performs at least one write",
        samples=samples or [{"note": "no sample"}], states=states, transitions=trans, paths=cases, configs=cfgs,
        traces_validated_against_impl=cases, exhaustive=False),
        assumptions=["in-memory ordered KV store with LevelDB semantics; a batch commit is atomic (torn batches are not modelled)",
                     "the crash-free twin is the oracle for recovery; the twin itself is validated against CasperNode.tla by C11/C16-C18"])
