"""C20 — storage backends are interchangeable.

Specification: specs/periph/KV.tla (the dbm.DB contract: ordered map of byte strings,
Get/Set/Delete/Batch, prefix iterators positioned before the first key, start-bounded
iterators positioned on the first key >= start of the prefix range, iterators are
snapshots).  KVGen.tla exports every explored transition with the call path that
reaches it and the result each call must return.
  design : TLC checks TypeOK / IterSorted / ReadYourWrites on every configuration.
  R      : every exported call sequence is executed on MemDB and on GoLevelDB (real
           goleveldb files under the work directory); the property is violated when
           the two backends return different results; the specification names the
           wrong side.  Both backends agreeing with each other against the
           specification (drifting together, e.g. one changed to share a known defect
           of the other) is reported under a "both:" signature; on the unchanged tree
           there is no such case.
           Each sequence that writes an empty value is run a second time with the
           empty value passed as a nil slice.
  node   : protocol.NewChain on a fresh store of either backend (what node.NewNode
           does for db_backend = memdb | leveldb), outcomes compared.
"""
import json
import os
import sys
from common import Infra, ndjson


def replay(ctx, b):
    """./check C20 --replay <file>: re-execute one saved scenario and print the diverging step."""
    o = json.load(open(ctx.replay))["replay"]
    dbdir = os.path.join(ctx.work, "replaydb")
    if o.get("mode", "").startswith("node"):
        h = ctx.harness([b, "node", dbdir])
    else:
        path = os.path.join(ctx.work, "replay.ndjson")
        with open(path, "w") as fh:
            fh.write(ndjson([o["calls"]]))
        h = ctx.harness([b, "replay", path, dbdir, "nil" if o.get("nil_for_empty") else "empty"])
    for v in h["violations"]:
        print("REPRODUCED %s: %s" % (v["sig"], v["desc"]))
    if not h["violations"]:
        print("not reproduced: both backends follow KV.tla on this scenario")
    sys.exit(1 if h["violations"] else 0)


def run(ctx):
    b = ctx.build("c20")
    if ctx.replay:
        replay(ctx, b)
    quick = ctx.tier == "quick"
    dbdir = os.path.join(ctx.work, "db")
    os.makedirs(dbdir, exist_ok=True)
    runs = []   # (tag, TLCResult)
    runs.append(("enum", ctx.tlc_design("periph/KVGen", "cfg/KVGen.%s.cfg" % ("quick" if quick else "thorough"),
                                        timeout=2400, heap="12g", workers=1, tag="enum")))
    runs.append(("deep", ctx.tlc_design("periph/KVGen", "cfg/KVGen.%s.cfg" % ("deepq" if quick else "deep"), timeout=900, workers=1, tag="deep")))
    if not quick:
        runs.append(("mid", ctx.tlc_design("periph/KVGen", "cfg/KVGen.mid.cfg", timeout=3000, heap="12g", workers=1, tag="mid")))
    sim = ctx.tlc("periph/KVGen", "cfg/KVGen.sim.cfg", simulate=(6 if quick else 150), depth=10,
                  workers=2, timeout=1500, tag="sim")
    if sim.violated or sim.error:
        raise Infra("simulation of KVGen failed: violated=%s error=%s\n%s" % (sim.violated, sim.error, sim.out[-2000:]))
    runs.append(("sim", sim))

    tot = dict(cases=0, steps=0, distinct=0, exports=0)
    by_sig = {}
    samples = []
    per_run = {}
    for tag, r in runs:
        if r.nexports < 100:
            raise Infra("export of %s unexpectedly small (%d)" % (tag, r.nexports))
        for variant in ("empty", "nil"):
            h = ctx.harness([b, "replay", r.path, os.path.join(dbdir, tag + "_" + variant), variant], timeout=3000)
            s = h["summary"]
            if variant == "empty" and s.get("cases", 0) != r.nexports:
                raise Infra("replayed %s of %d exported sequences (%s)" % (s.get("cases"), r.nexports, tag))
            for k in ("cases", "steps", "distinct"):
                tot[k] += s.get(k, 0)
            tot["exports"] += s.get("exports", 0) if variant == "empty" else 0
            for sig, n in (s.get("disagreements_by_signature") or {}).items():
                by_sig[sig] = by_sig.get(sig, 0) + n
            per_run[tag + ":" + variant] = dict(cases=s.get("cases"), steps=s.get("steps"), distinct_shapes=s.get("distinct"))
            if len(samples) < 4:
                samples += h["samples"][:1]

    # ---- negative control: a corrupted expected value must be noticed (binding is live)
    ctl = None
    for doc in runs[0][1].exports():
        if doc and doc[-1].get("op") == "get" and doc[-1].get("found") and doc[-1].get("val"):
            ctl = json.loads(json.dumps(doc))
            ctl[-1]["found"] = False
            ctl[-1]["val"] = []
            break
    if ctl is None:
        raise Infra("no exported sequence ends in a successful get; negative control impossible")
    cpath = os.path.join(ctx.work, "control.ndjson")
    with open(cpath, "w") as fh:
        fh.write(ndjson([ctl]))
    saved = (list(ctx.violations), list(ctx.known_hits))
    hc = ctx.harness([b, "replay", cpath, os.path.join(dbdir, "control"), "empty"], timeout=300)
    ctx.violations, ctx.known_hits = saved
    if not hc["violations"]:
        raise Infra("negative control: a corrupted expected Get result was not noticed by the replay")

    # ---- node level
    hn = ctx.harness([b, "node", os.path.join(dbdir, "node")], timeout=300)
    samples += hn["samples"][:1]

    states = sum(r.distinct for _, r in runs)
    trans = sum(r.generated for _, r in runs)
    ctx.finish("model_checking", dict(
        states=states, transitions=trans,
        traces_validated_against_impl=tot["cases"] + hn["summary"].get("node_runs", 0),
        samples=samples,
        sequences_replayed=tot["cases"], calls_replayed=tot["steps"], per_run=per_run,
        backend_disagreements_by_signature=by_sig,
        node_start=dict(memdb=hn["summary"].get("memdb"), goleveldb=hn["summary"].get("goleveldb")),
        negative_control="flipped expected Get result noticed",
        exhaustive=True,
        rule="R: every transition of KV.tla over %s with the call path reaching it (BFS, <=%d calls), plus a deep instance "
             "(3 keys, <=%d calls)%s and every successor of the states on %d seeded random behaviours of 10 calls (7-key instance); each executed on MemDB and GoLevelDB, "
             "each sequence writing an empty value also with a nil slice"
             % ("5 keys/2 values/3 prefixes/4 starts" if quick else "7 keys/3 values/5 prefixes/8 starts", 4, 6 if quick else 7,
                "" if quick else ", the 5-key instance with <=5 calls", 6 * 2 if quick else 150 * 2),
    ), assumptions=[
        "Key()/Value() are only observed on a positioned iterator or right after IteratorPrefixWithStart (where the "
        "interface offers no validity test); their value after Next() returned false is not compared",
        "reverse iteration, Seek, Print, Stats and the *Sync variants are not part of the compared interface",
        "value buffers are not reused by the caller (MemDB stores the caller's slice)",
        "one open iterator at a time",
    ])
