"""C21 — store caches are transparent.

Specification: specs/periph/StoreCache.tla (records: headers, transactions, hashes by
height, main-chain index, checkpoints, chain status; one cache per record kind; every read
returns what a cache-less read of the records returns, reads never change the records).
  design : TLC checks TypeOK / CacheSound / ReadYourWrites and the action property
           ReadsPure on every configuration.
  R      : every transition is exported with the call path reaching it and the reference
           result of every read; behaviours ending in a write are followed by a probe of
           every cached kind of read (so "cached read ... write ... read" is always covered).
           The driver runs the calls on one long-lived database.Store over a real goleveldb;
           every read is issued twice and compared with the same read through a brand-new
           Store on the same DB and with the reference result.  The property is violated
           when the long-lived store disagrees with the fresh one (or with itself on the
           second read); the specification names the wrong side.  Long-lived and fresh
           store agreeing against the specification is an infrastructure error.
"""
import json
import os
import sys
from common import Infra, ndjson


def replay(ctx, b):
    """./check C21 --replay <file>: re-execute one saved scenario and print the diverging read."""
    o = json.load(open(ctx.replay))["replay"]
    n = o.get("exported_calls", len(o["calls"]))
    path = os.path.join(ctx.work, "replay.ndjson")
    with open(path, "w") as fh:
        fh.write(ndjson([{"calls": o["calls"][:n], "probe": [o["calls"][n:]]}]))
    h = ctx.harness([b, "replay", path, os.path.join(ctx.work, "replaydb")])
    for v in h["violations"]:
        print("REPRODUCED %s: %s" % (v["sig"], v["desc"]))
    if not h["violations"]:
        print("not reproduced: the long-lived store agrees with a fresh store on this scenario")
    sys.exit(1 if h["violations"] else 0)


def run(ctx):
    b = ctx.build("c21")
    if ctx.replay:
        replay(ctx, b)
    quick = ctx.tier == "quick"
    dbdir = os.path.join(ctx.work, "db")
    os.makedirs(dbdir, exist_ok=True)
    runs = [("enum", ctx.tlc_design("periph/StoreCacheGen", "cfg/StoreCacheGen.%s.cfg" % ("quick" if quick else "thorough"),
                                    workers=1, timeout=3000, heap="12g", tag="enum")),
            ("deep", ctx.tlc_design("periph/StoreCacheGen", "cfg/StoreCacheGen.deep.cfg", workers=1, timeout=1200, tag="deep")),
            # two competing blocks on each of two heights: SaveChainStatus with two main-chain headers after warm reads
            ("reorg", ctx.tlc_design("periph/StoreCacheGen", "cfg/StoreCacheGen.reorg.cfg", workers=1, timeout=1200, tag="reorg"))]
    if not quick:
        runs.append(("mid", ctx.tlc_design("periph/StoreCacheGen", "cfg/StoreCacheGen.mid.cfg", workers=1, timeout=3000,
                                           heap="12g", tag="mid")))
    sim = ctx.tlc("periph/StoreCacheGen", "cfg/StoreCacheGen.sim.cfg", simulate=(6 if quick else 150), depth=10,
                  workers=2, timeout=1500, tag="sim")
    if sim.violated or sim.error:
        raise Infra("simulation of StoreCacheGen failed: violated=%s error=%s\n%s" % (sim.violated, sim.error, sim.out[-2000:]))
    runs.append(("sim", sim))
    tot = dict(cases=0, steps=0, reads=0)
    by_sig, per_run, samples = {}, {}, []
    for tag, r in runs:
        if r.nexports < 100:
            raise Infra("export of %s unexpectedly small (%d)" % (tag, r.nexports))
        h = ctx.harness([b, "replay", r.path, os.path.join(dbdir, tag)], timeout=3000)
        s = h["summary"]
        if s.get("spec_drift", 0):
            raise Infra("the long-lived and the fresh store agree with each other but not with StoreCache.tla in %d behaviour(s) "
                        "of %s, e.g. %s" % (s["spec_drift"], tag, s.get("spec_drift_example")))
        if s.get("cases") != r.nexports:
            raise Infra("replayed %s of %d exported behaviours (%s)" % (s.get("cases"), r.nexports, tag))
        for k in ("cases", "steps", "reads"):
            tot[k] += s.get(k, 0)
        for sig, n in (s.get("disagreements_by_signature") or {}).items():
            by_sig[sig] = by_sig.get(sig, 0) + n
        per_run[tag] = dict(behaviours=s.get("cases"), calls=s.get("steps"), reads=s.get("reads"), distinct_shapes=s.get("distinct"))
        samples += h["samples"][:1]
    # ---- negative control: a corrupted reference result must be noticed
    ctl = None
    for doc in runs[0][1].exports():
        c = doc["calls"]
        if c and c[-1].get("op") == "getheader" and c[-1]["res"].get("ok"):
            ctl = json.loads(json.dumps(doc))
            ctl["calls"][-1]["res"]["sl"] += 5
            break
    if ctl is None:
        raise Infra("no exported behaviour ends in a successful header read; negative control impossible")
    cpath = os.path.join(ctx.work, "control.ndjson")
    with open(cpath, "w") as fh:
        fh.write(ndjson([ctl]))
    saved = (list(ctx.violations), list(ctx.known_hits))
    hc = ctx.harness([b, "replay", cpath, os.path.join(dbdir, "control")], timeout=300)
    ctx.violations, ctx.known_hits = saved
    if not hc["summary"].get("spec_drift", 0) and not hc["violations"]:
        raise Infra("negative control: a corrupted reference result was not noticed by the replay")

    ctx.finish("model_checking", dict(
        states=sum(r.distinct for _, r in runs), transitions=sum(r.generated for _, r in runs),
        traces_validated_against_impl=tot["cases"],
        samples=samples,
        behaviours_replayed=tot["cases"], calls_replayed=tot["steps"], reads_compared_three_way=tot["reads"], per_run=per_run,
        disagreements_by_signature=by_sig,
        negative_control="corrupted reference header result noticed",
        exhaustive=True,
        rule="R: every transition of StoreCache.tla over %s, <=4 calls (BFS, with the path reaching it; behaviours ending in a write "
             "are followed by a probe of all cached reads), a one-block instance with <=7 calls, a reorganisation instance (2 competing blocks on each of 2 heights, SaveChainStatus with 1 "
             "and 2 main-chain headers in both orders, <=4 calls)%s, and all successors along %d seeded "
             "random behaviours of 10 calls (3 blocks); each read issued twice on the long-lived Store and once on a fresh Store"
             % ("2 competing blocks at one height, supLink variants {0,1}, 4 checkpoint batches" if quick else
                "3 blocks on 2 heights, supLink variants {0,1,2}, 6 checkpoint batches",
                "" if quick else ", the 2-block instance with <=5 calls", (6 if quick else 150) * 2),
    ), assumptions=[
        "a block hash identifies its transactions; only the supLinks (and witness) of a header vary under one hash",
        "cache capacities (2048/1024/256 entries) are not reached: eviction is not exercised",
        "calls are sequential (singleflight de-duplication of concurrent fills is not exercised)",
        "objects returned by the store are not modified by the caller",
        "SaveBlock is repeated at most once per block",
    ])
