"""C22 — mempool bookkeeping stays consistent.

Specification: specs/pool/TxPool.tla. The property fixes the output index and the orphan index
as functions of (pooled txs, orphans); Submit / Remove / Expire and transitive promotion act on
that state; TLC checks Disjoint / Promoted / IndexExact / NoDangling / EveryOrphanIndexed on the
whole bounded state graph.
  R : every transition of the graph (all operation sequences over the DAG universe: chain
      a->b->c, double spend b/e, diamond join d, independent root f with a retirement output,
      two-parent orphans t/u in both input orders) is exported with the call path reaching it,
      the expected result of every call and the expected four maps after the last call; the
      driver replays each on a fresh real protocol.TxPool (stub store with fixed confirmed
      outputs, real dispatcher) and compares the maps read through protocol/txpool_verif.go.
      A divergence is reported where it starts (no diverging proper prefix).
"""
import json
import os
from common import Infra, ndjson


def run(ctx):
    b = ctx.build("c22")
    quick = ctx.tier == "quick"
    r = ctx.tlc_design("pool/TxPoolGen", "cfg/TxPoolGen.%s.cfg" % ("all7" if quick else "all8"),
                       timeout=1700, tag="gen", heap="8g", workers=8)
    h = ctx.harness([b, "replay", r.path, str(r.nexports)], timeout=1700)
    s = h["summary"]
    if int(s.get("cases", 0)) != r.nexports or r.nexports < 20000:
        raise Infra("replayed %s of %d exported behaviours" % (s.get("cases"), r.nexports))
    # ---- negative control: drop one expected index entry / add a pooled tx; the driver must report it
    ctl = []
    for doc in r.exports():
        if len(ctl) == 0 and doc["obs"]["utxo"] and len(doc["calls"]) >= 2:
            c = json.loads(json.dumps(doc))
            c["obs"]["utxo"] = c["obs"]["utxo"][1:]
            ctl.append(c)
        elif len(ctl) == 1 and doc["obs"]["byprev"] and all(len([x for x in doc["obs"]["byprev"] if x[1] == t]) == 1
                                                             for t in doc["obs"]["orphans"]):
            c = json.loads(json.dumps(doc))     # single-parent orphans only: the unchanged tree gets these right
            c["obs"]["byprev"] = c["obs"]["byprev"][1:]
            ctl.append(c)
        if len(ctl) == 2:
            break
    if len(ctl) != 2:
        raise Infra("no behaviours usable as negative control")
    cpath = os.path.join(ctx.work, "control.ndjson")
    with open(cpath, "w") as fh:
        fh.write(ndjson(ctl))
    saved = (list(ctx.violations), list(ctx.known_hits))
    hc = ctx.harness([b, "replay", cpath, "2"], timeout=300)
    ctx.violations, ctx.known_hits = saved
    if len(hc["violations"]) != 2:
        raise Infra("negative control: corrupted expected maps were not reported (%d of 2)" % len(hc["violations"]))
    ctx.finish("model_checking", dict(
        states=r.distinct, transitions=r.generated, traces_validated_against_impl=int(s["cases"]),
        samples=h["samples"][:2], steps_replayed=int(s["steps"]), last_call_kinds=s.get("last_ops"),
        sequences_diverging=s.get("diverged_sequences"), root_divergences_by_signature=s.get("root_divergences_by_sig"),
        worker_processes=s.get("children"), negative_control="removed expected utxo / byprev entry reported",
        exhaustive=True,
        rule="every transition of TxPool.tla over the %d-transaction universe (%s) with the call path reaching it"
             % ((7, "a b c d e f t") if quick else (8, "a b c d e f t u")),
    ), assumptions=[
        "the store's confirmed outputs are fixed during a behaviour (no block connection between pool calls)",
        "Submit is only applied to a tx that is not pooled (Chain.ValidateTx filters pooled txs before ProcessTransaction)",
        "partial expiry by age is only generated while no orphan was re-submitted as orphan (relative ages then follow submission order)",
        "vote outputs and the pool-size limits (10000 txs / 2000 orphans) are not modelled; events posted to the dispatcher are not compared",
    ])
