"""C23 — confirmed transactions leave the mempool.

specs/chain/Ledger.tla supplies the scenarios (menu transactions submitted through Chain.ValidateTx
before and after their confirmation, on both sides of forks, with reorganisations) and MainTxs(best);
after the last call of every replayed path the real pool must be disjoint from the main chain's
transactions and the TxMsgEvent stream must alternate New / Remove per transaction starting with New.
The pool's own content is left to the pool (C22): only the property is evaluated.
"""
import chain_lib


def run(ctx):
    parts = [chain_lib.run_ledger(ctx)]
    chain_lib.finish_chain(ctx, parts,
        rule="every transition of Ledger.tla within the cfg bounds (pool config: 2 blocks, <=2 submissions, <=4 calls), replayed; "
             "pool/main-chain disjointness and notification pairing evaluated on the real pool",
        assumptions=["the specification does not predict the pool's content, it states the property over it"])
