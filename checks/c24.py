"""C24 — wallet UTXOs depend only on the main chain.

specs/wallet/WalletLedger.tla defines the wallet as a *function of the main chain* (WalletScan(best): the outputs unspent on
the chain from genesis that are locked by a program of a wallet account, with asset, amount, program, owning account, vote
key). TLC explores all bounded block trees above the funding prefix carrying a menu of real wallet transactions (coinbase
rewards to the wallet, spends between two accounts, a vote and its veto, conflicting spends on forks, an immature spend,
outputs to foreign programs) with every delivery order; every transition is replayed on a real node followed by a real
wallet.Wallet, and after the last call of each path the wallet's UTXO listings are compared field by field with the scan.
"""
import c24_lib


def run(ctx):
    p = c24_lib.run_wallet(ctx)
    c24_lib.finish_wallet(ctx, p,
        rule="every transition of WalletLedger.tla within the cfg bounds (configs listed; a stride k replays every k-th exported "
             "path, offset by the seed), replayed with its path on a real node + wallet after a 14-block funding prefix; the "
             "wallet listing is compared once the wallet names the chain's best block",
        assumptions=["one external validator, E = 2, VoteLock = 2 blocks, two single-key wallet accounts, menu of 9 real signed transactions",
                     "a wallet sitting on an abandoned block of the same height as the best block is given one more (empty) block "
                     "before the comparison: the walker follows the chain by height (recorded in notes/C24.md, not judged)",
                     "ValidHeight is not part of C24 (C25 judges it); reward amounts under a vote tally are the block factory's (C14)"])
