"""Shared orchestration of C24 / C25 (wallet follows the chain): specs/wallet/WalletLedger.tla + WalletGen.tla explored by
TLC, every exported path replayed by harness/cmd/c24 on a real node followed by a real wallet. One replay serves both
properties (divergences carry the property they belong to); TLC output and replay output are cached like the other
chain-level engines (chain_lib.tlc_cached / replay_cached)."""
import hashlib
import json
import os
import sys

import chain_lib
from common import Infra, ndjson

TLC_WORKERS = 8

# (cfg, stride, driver arguments); the lockstep family runs with a vote lock table that steps at height 17
LOCKSTEP = ["lock=1:17:3"]
WALLET_CFGS = {
    "quick": [("cfg/WalletGen.quick.cfg", 4, []), ("cfg/WalletGen.veto.cfg", 8, []), ("cfg/WalletGen.lockstep.cfg", 2, LOCKSTEP)],
    "thorough": [("cfg/WalletGen.quick.cfg", 1, []), ("cfg/WalletGen.veto.cfg", 1, []), ("cfg/WalletGen.lockstep.cfg", 1, LOCKSTEP),
                 ("cfg/WalletGen.vote.cfg", 2, []), ("cfg/WalletGen.thorough.cfg", 8, [])],
}
# design exploration on the specification alone (thorough tier): the two deviations suspected in the code
DESIGN_CFGS = [("cfg/WalletLedger.restore0.cfg", True), ("cfg/WalletLedger.skipvotes.cfg", False)]

COUNTERS = ("nudged", "skipped_shadowed", "reorg_cases", "utxos_compared", "usable_checked", "usable_by_keeper", "unconfirmed_views", "unconfirmed_offered",
            "unconfirmed_offered_confirmed_judged", "probe_spends", "probe_blocks", "retried")


def replay_one(ctx, b):
    """./check C24 --replay <file>: re-execute one saved scenario and print what diverges."""
    o = json.load(open(ctx.replay))["replay"]
    path = os.path.join(ctx.work, "replay.ndjson")
    with open(path, "w") as fh:
        fh.write(ndjson([{"calls": o["calls"], "obs": o["obs"]}]))
    h = ctx.harness([b, "replay", path, "1", "1"] + list(o.get("driver_args") or []), timeout=600, keep=lambda v: False)
    for v in h["violations"]:
        print("REPRODUCED %s: %s" % (v["sig"], v["desc"]))
    if not h["violations"]:
        print("not reproduced: the wallet agrees with the specification on this scenario")
    sys.exit(1 if h["violations"] else 0)


def run_wallet(ctx, timeout=6000):
    b = ctx.build("c24")
    if ctx.replay:
        replay_one(ctx, b)
    out = dict(tlc=[], cases=0, calls=0, distinct=0, samples=[], other=0, states=0, transitions=0, configs=[], design=[])
    for k in COUNTERS:
        out[k] = 0
    first = None
    # the harness reports recorded findings a few times and does not stop early on them: the recorded signatures are part
    # of what a cached replay depends on (the binary ignores this argument)
    ktag = "known=" + hashlib.sha256("\n".join(sorted(k["sig"] for k in ctx.known_all if "C24:" in k["sig"] or "C25:" in k["sig"])).encode()).hexdigest()[:12]
    for cfg, stride, extra in WALLET_CFGS[ctx.tier]:
        r = chain_lib.tlc_cached(ctx, "wallet/WalletGen", cfg, timeout=timeout, tag="wallet", workers=TLC_WORKERS)
        first = first or r
        h = chain_lib.replay_cached(ctx, b, [str(stride), ktag] + extra, r.path, timeout=timeout)
        s = h["summary"]
        want = (r.nexports + stride - 1) // stride
        if abs(s.get("cases", 0) - want) > 1 and not h["violations"]:
            raise Infra("wallet replay covered %s of %d exported paths (%s)" % (s.get("cases"), want, cfg))
        if s.get("retried", 0) > max(3, want // 200):
            raise Infra("the wallet watchdog expired and did not reproduce in %d scenarios (overloaded machine?)" % s.get("retried"))
        out["tlc"].append(r)
        out["states"] += r.distinct
        out["transitions"] += r.generated
        out["cases"] += s.get("cases", 0)
        out["calls"] += s.get("calls", 0)
        out["distinct"] += s.get("distinct", 0)
        out["samples"] += h["samples"][:1]
        out["other"] += len(h["other"])
        for k in COUNTERS:
            out[k] += s.get(k, 0)
        out["configs"].append(dict(cfg=os.path.basename(cfg), exported_paths=r.nexports, replayed=s.get("cases", 0),
                                   stride=stride, driver_args=extra, replay_cached=h["cached"]))
    # negative control: expected values of the specification corrupted inside the run must be rejected by the comparison
    h = chain_lib.replay_cached(ctx, b, [], first.path, timeout=1200, verb="selftest")
    s = h["summary"]
    if (s.get("selftest_cases", 0) < 6 or s.get("selftest_rejected") != s.get("selftest_cases")) and not ctx.violations:
        raise Infra("negative control failed: %s of %s corrupted expectations rejected (first miss: %s)"
                    % (s.get("selftest_rejected"), s.get("selftest_cases"), s.get("selftest_first_miss")))
    out["negative_control"] = dict(corrupted_expectations=s.get("selftest_cases"), rejected=s.get("selftest_rejected"))
    if ctx.tier == "thorough":
        for cfg, must_hold in DESIGN_CFGS:
            r = ctx.tlc("wallet/WalletLedger", cfg, workers=TLC_WORKERS, timeout=1800, tag="design exploration")
            if r.error or (must_hold and not r.ok):
                raise Infra("design exploration %s: violated=%s error=%s\n%s" % (cfg, r.violated, r.error, r.out[-2000:]))
            out["design"].append(dict(cfg=os.path.basename(cfg), states=r.distinct, violated=r.violated))
    return out


def finish_wallet(ctx, p, rule, assumptions):
    samples = p["samples"][:4] or [{"note": "no sample emitted by the replay workers"}]
    cov = dict(states=p["states"], transitions=p["transitions"], traces_validated_against_impl=p["cases"], samples=samples,
               node_calls_replayed=p["calls"], distinct_paths=p["distinct"],
               divergences_attributed_to_other_properties=p["other"], configs=p["configs"],
               negative_control=p["negative_control"], design_exploration=p["design"], exhaustive=True, rule=rule)
    for k in COUNTERS:
        cov[k] = p[k]
    ctx.finish("model_checking", cov, assumptions=assumptions)
