"""C25 — the wallet never reports unspendable outputs as mature.

Same exploration and replay as C24 (specs/wallet/WalletLedger.tla, harness/cmd/c24). After the last call of each path every
wallet UTXO with ValidHeight <= best height (what account/utxo_keeper.go treats as usable) must be Spendable at height + 1
according to the specification's consensus ledger of the main chain (unspent there, coinbase maturity, vote lock), and a real
block at height + 1 spending all of them must be accepted by the node as its new best block (outputs are probed one by one
when that block is refused). On the specification itself UsableIsSpendable is checked as an invariant.
"""
import c24_lib


def run(ctx):
    p = c24_lib.run_wallet(ctx)
    c24_lib.finish_wallet(ctx, p,
        rule="every transition of WalletLedger.tla within the cfg bounds (configs listed; a stride k replays every k-th exported "
             "path, offset by the seed); after each path every wallet output with ValidHeight <= best height is judged by the "
             "specification's Spendable at the next height and spent in a real block at that height",
        assumptions=["one external validator, E = 2, VoteLock = 2 blocks (one constant lock), coinbase maturity 10",
                     "scenarios in which a stored branch does not apply (recorded finding of C11 disturbs the node's fork choice) "
                     "are judged by the specification only, no probe block",
                     "usable means ValidHeight <= current height, as account/utxo_keeper.go decides it"])
