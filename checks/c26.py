"""C26 — UTXO reservations never overlap and cover the request.

Specification: specs/wallet/Keeper.tla (fixed UTXO universe with one output listed both as confirmed
and unconfirmed, an immature one, other account / vote key / asset; Reserve is nondeterministic:
any distinct unreserved mature visible outputs of the requested key summing to >= amount, change =
excess, failure class from the totals; ReserveParticular, Cancel, Expire).
  design+gen : TLC explores every call sequence of the bounded instance (NoOverlap / Consistent
               checked), exporting the CALLS of every transition.
  T (seq)    : each call sequence is run on a fresh real utxoKeeper; calls with their real results
               and a snapshot of the keeper's tables after every call are validated by TLC against
               TraceKeeper.tla (any permitted choice of outputs is accepted).
  T (conc)   : seeded workloads of 2-4 goroutines x 3-6 calls on one keeper; begin/end events; TLC
               searches a linearisation that explains every result and the final tables.
A rejected trace is validated once more under the defect model DupCounts (an output listed as
confirmed and unconfirmed counted twice) only to name the violation.
"""
import copy
import glob
import json
import os
from common import Infra
import tvlib

RESET = {"ev": "reset", "th": "", "op": "", "acct": "", "asset": "", "vote": "", "amt": 0, "unc": False, "exp": 0, "u": "",
         "rid": 0, "t": 0, "err": "", "utxos": [], "amts": [], "change": 0, "snap": [], "rs": [], "id": 0}


def read_traces(paths):
    traces, cur = [], None
    for p in paths:
        for line in open(p):
            e = json.loads(line)
            if e["ev"] == "reset":
                cur = []
                traces.append(cur)
            else:
                cur.append(e)
    return traces


def judge(ctx, groups, batch, counts):
    """groups: list of (mode, traces). Validate all traces strictly (one TLC run per batch, modes mixed);
    the rejected ones are validated once more under the defect model, only to name the violation.
    Returns (states, {mode: accepted traces})."""
    flat = [(mode, tr) for mode, trs in groups for tr in trs]
    states, rejected = 0, []
    accepted = {mode: [] for mode, _ in groups}
    for i in range(0, len(flat), batch):
        part = flat[i:i + batch]
        rej, st = tvlib.validate(ctx, "wallet/TraceKeeper", "cfg/TraceKeeper.strict.cfg", [t for _, t in part], reset=RESET,
                                 tag="trace", timeout=1700, heap="8g")
        states += st
        bad = dict(rej)
        for ti, (mode, tr) in enumerate(part):
            if ti in bad:
                rejected.append((mode, tr, bad[ti]))
            else:
                accepted[mode].append(tr)
    for i in range(0, len(rejected), batch):
        part = rejected[i:i + batch]
        rej2, st2 = tvlib.validate(ctx, "wallet/TraceKeeper", "cfg/TraceKeeper.dup.cfg", [t for _, t, _ in part],
                                   reset=RESET, tag="classify", timeout=1700, heap="8g")
        states += st2
        still = dict(rej2)
        for ti, (mode, tr, k) in enumerate(part):
            e = tr[k] if k < len(tr) else {"op": "trace", "ev": "", "err": "incomplete", "utxos": []}
            if ti not in still:
                # the defect model differs from the property only in Reserve; in a concurrent trace the first
                # unexplainable line need not be the offending call, so the whole trace is inspected
                evs = [e] if mode == "seq" else tr
                dup = any(len(set(x.get("utxos", []))) < len(x.get("utxos", [])) for x in evs)
                sig = "%s:reserve:overlap-counted-twice:%s" % (mode, "same-output-twice-in-reservation" if dup else "totals")
            else:
                sig = "%s:%s:%s" % (mode, e["op"] or e["ev"], e["err"] or "ok")
            counts[sig] = counts.get(sig, 0) + 1
            if counts[sig] <= 3:
                ctx.violation(sig, "execution of the real utxoKeeper not explained by Keeper.tla (%s): event %d %s cannot follow the "
                              "validated prefix%s" % (mode, k, json.dumps(e), "" if ti in still else
                                                      " -- explained only if the output listed as confirmed AND unconfirmed counts twice"),
                              {"mode": mode, "trace": tr, "rejected_event": k})
    return states, accepted


def run(ctx):
    b = ctx.build("c26")
    quick = ctx.tier == "quick"
    r = ctx.tlc_design("wallet/KeeperGen", "cfg/KeeperGen.%s.cfg" % ("quick" if quick else "thorough"),
                       timeout=1700, tag="gen", heap="8g", workers=8)
    prefix = os.path.join(ctx.work, "seq")
    h = ctx.harness([b, "seq", r.path, str(r.nexports), prefix], timeout=1700)
    s = h["summary"]
    traces = read_traces(sorted(glob.glob(prefix + ".*.ndjson")))
    if len(traces) != int(s.get("traces", -1)) or len(traces) < 3000:
        raise Infra("sequential driver produced %d traces, summary says %s" % (len(traces), s.get("traces")))
    # ---- listings that move (pool announcement, pool removal, confirmation) between the calls
    rm = ctx.tlc_design("wallet/KeeperGen", "cfg/KeeperGen.moves.cfg", timeout=1700, tag="gen-moves", heap="8g", workers=8)
    mprefix = os.path.join(ctx.work, "moves")
    hm = ctx.harness([b, "seq", rm.path, str(rm.nexports), mprefix], timeout=1700)
    mtraces = read_traces(sorted(glob.glob(mprefix + ".*.ndjson")))
    if len(mtraces) != int(hm["summary"].get("traces", -1)) or len(mtraces) < 1000:
        raise Infra("moving-listing driver produced %d traces, summary says %s" % (len(mtraces), hm["summary"].get("traces")))
    traces = traces + mtraces
    counts = {}
    # ---- concurrent
    nconc = 200 if quick else 3000
    cprefix = os.path.join(ctx.work, "conc")
    hc = ctx.harness([b, "conc", r.path, str(nconc), cprefix], timeout=1700)
    ctraces = [t for t in read_traces(sorted(glob.glob(cprefix + ".*.ndjson"))) if t and t[-1]["ev"] == "snap"]
    if len(ctraces) != nconc and not hc["violations"]:
        raise Infra("concurrent driver produced %d of %d traces" % (len(ctraces), nconc))
    st1, acc = judge(ctx, [("seq", traces), ("conc", ctraces)], 10000 if quick else 20000, counts)
    st2, acc1, acc2 = 0, acc["seq"], acc["conc"]
    # ---- negative controls: a wrong change / a wrong table entry must be rejected
    ctl = []
    for tr in acc1:
        ks = [k for k, e in enumerate(tr) if e["op"] == "reserve" and e["err"] == ""]
        if ks:
            c = copy.deepcopy(tr)
            c[ks[-1]]["change"] += 1
            ctl.append(c)
            c = copy.deepcopy(tr)
            c[ks[-1]]["snap"] = c[ks[-1]]["snap"][1:]
            ctl.append(c)
            break
    for tr in acc2:
        ks = [k for k, e in enumerate(tr) if e["ev"] == "begin" and e["op"] == "reserve" and e["err"] == ""]
        if ks:
            c = copy.deepcopy(tr)
            for e in c:
                if e["th"] == c[ks[0]]["th"] and e["rid"] == c[ks[0]]["rid"] and e["op"] == "reserve":
                    e["change"] += 1
            ctl.append(c)
            break
    if len(ctl) != 3:
        if not ctx.violations:
            raise Infra("no accepted trace usable as negative control (seq %d, conc %d accepted)" % (len(acc1), len(acc2)))
    else:
        rej, _ = tvlib.validate(ctx, "wallet/TraceKeeper", "cfg/TraceKeeper.strict.cfg", ctl, reset=RESET, tag="negative-control")
        if len(rej) != 3:
            raise Infra("negative control: %d of 3 corrupted traces were accepted by TraceKeeper.tla" % (3 - len(rej)))
    ctx.finish("model_checking", dict(
        states=r.distinct + rm.distinct + st1 + st2, transitions=r.generated + rm.generated, moving_listing_traces=len(mtraces),
        traces_validated_against_impl=len(traces) + len(ctraces),
        samples=[{"sequential_trace": traces[len(traces) // 2]}] + [{"concurrent_trace": x} for x in hc["samples"][:1]],
        sequential_traces=len(traces), sequential_accepted=len(acc1), sequential_events=int(s.get("events", 0)),
        duplicate_call_sequences_skipped=int(s.get("duplicate_call_sequences", 0)), call_outcomes=s.get("outcomes"),
        concurrent_traces=len(ctraces), concurrent_accepted=len(acc2), concurrent_events=hc["summary"].get("events"),
        rejected_by_signature=counts,
        negative_control="change+1 / dropped table entry / concurrent change+1 rejected" if len(ctl) == 3 else "skipped: nothing accepted (violations reported)",
        exhaustive=True,
        rule="every call sequence of Keeper.tla (7 outputs incl. confirmed+unconfirmed overlap, <=%d successful reservations, "
             "amounts around the totals) run sequentially; %d seeded concurrent workloads" % (2 if quick else 3, nconc),
    ), assumptions=[
        "the UTXO sets and the block height are fixed during a behaviour; requested amounts are > 0 (the builder rejects 0)",
        "an output listed as confirmed and as unconfirmed is one output",
        "ReserveParticular of an already reserved output that is not visible with the given flag may answer reserved or not-found",
        "concurrent events are ordered by one mutex-protected log (begin appended before the call, end after it returned)",
    ])
