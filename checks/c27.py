"""C27 — built and signed wallet transactions are valid and pay as requested.

Specification: specs/wallet/Builder.tla — post-condition over (accounts, funding set, actions,
template): inputs are funding-set outputs of the spending accounts (or the particular outputs
asked for), requested recipients appear exactly (asset, amount, program / vote / retirement), every
other output is change to a program of an account spending that asset, every spending account is
debited exactly the requested amount (its inputs minus its change), BTM inputs - outputs = the fee
the request left, other assets balanced, a fundable request is built, an unfundable one is not,
the template gets fully signed and a balanced one passes validation.ValidateTx. Sums with
LedgerBigNat limbs.
  design : BuilderDesign — on an abstract template space the post-condition implies conservation
           (C01 for the built transaction) and is satisfiable (witness).
  T      : harness/cmd/c27: 6 accounts (single key x2, 2-of-3, 1-of-2, 2-of-2, 3-of-3; every ordered quorum-subset of co-signers) with keys in a real
           pseudo-HSM, seeded random UTXO sets in the wallet DB (3 assets, amounts 1 .. 2^58), seeded
           random action lists (spend incl. split actions merged by account.MergeSpendAction, particular
           output, pay to address / raw program / vote output, retire; some unfundable, some unbalanced);
           txbuilder.Build + Sign (one round per co-signer) + validation.ValidateTx; every case recorded
           and judged rule by rule by TLC (TraceBuilder).
"""
import copy
import json
import os
import threading
from common import Infra, ndjson

RULES = ("built", "notbuilt", "inputs", "recipients", "change", "debit", "fee", "conserved", "signed", "valid")


def run(ctx):
    b = ctx.build("c27")
    quick = ctx.tier == "quick"
    res = {}

    def design():
        try:
            res["w"] = ctx.tlc("wallet/BuilderDesign", "cfg/BuilderDesign.witness.cfg", workers=2, timeout=1500, tag="design-witness")
            res["d"] = ctx.tlc("wallet/BuilderDesign", "cfg/BuilderDesign.%s" % ("quick.cfg" if quick else "cfg"),
                               workers=6, timeout=2400, heap="8g", tag="design")
        except BaseException as e:   # noqa
            res["err"] = e
    th = threading.Thread(target=design)
    th.start()
    n = 400 if quick else 6000
    cfile = os.path.join(ctx.work, "cases.ndjson")
    h = ctx.harness([b, "run", cfile, str(n), str(8 if quick else 60)], timeout=2400)
    cases = [json.loads(l) for l in open(cfile)]
    if len(cases) != n:
        raise Infra("driver recorded %d of %d cases" % (len(cases), n))
    # hand-made negative controls (independent of the code under test), built from an accepted-looking case
    ctl = None
    for c in cases:
        if c["built"] and len(c["tx"]["outputs"]) >= 2 and c["tx"]["inputs"]:
            ctl = c
            break
    controls = []
    if ctl is not None:
        a = copy.deepcopy(ctl)
        a["id"] = n + 1
        amt = list(a["tx"]["outputs"][0]["amt"]) or [0]
        amt[0] ^= 1
        while amt and amt[-1] == 0:
            amt.pop()
        a["tx"]["outputs"][0]["amt"] = amt
        b2 = copy.deepcopy(ctl)
        b2["id"] = n + 2
        b2["tx"]["inputs"] = b2["tx"]["inputs"] + ["?"]
        controls = [a, b2]
    verdict, tstates = {}, 0
    allc = cases + controls
    for i in range(0, len(allc), 1500):
        batch = allc[i:i + 1500]
        t = ctx.tlc("wallet/TraceBuilder", "cfg/TraceBuilder.cfg", workers=1, timeout=2400, heap="8g", tag="judge",
                    files={"trace.ndjson": ndjson(batch)})
        if not t.ok:
            raise Infra("TraceBuilder failed: violated=%s error=%s\n%s" % (t.violated, t.error, t.out[-2000:]))
        for d in t.exports():
            verdict[d["id"]] = d
        tstates += t.distinct
    if len(verdict) != len(allc):
        raise Infra("TraceBuilder judged %d of %d cases" % (len(verdict), len(allc)))
    th.join()
    if "err" in res:
        raise res["err"]
    if res["w"].violated != "Witness":
        raise Infra("design: no template of the abstract space satisfies the post-condition (vacuous): %s %s" % (res["w"].violated, res["w"].error))
    if not res["d"].ok:
        raise Infra("design check failed: Builder post-condition does not imply conservation: violated=%s error=%s\n%s"
                    % (res["d"].violated, res["d"].error, res["d"].out[-1500:]))
    for c in controls:
        if verdict[c["id"]]["ok"]:
            raise Infra("negative control: a corrupted template (id %d) was accepted by TraceBuilder" % c["id"])
    if not controls:
        raise Infra("no built case available for the negative control")
    stats = dict(balanced_fundable=0, unfundable=0, unbalanced=0, rejected=0)
    covered = set()
    for c in cases:
        v = verdict[c["id"]]
        r = v["rules"]
        if not r["scoped"] or not r["signers"]:
            raise Infra("driver produced a request / signing plan outside the specification's scope (case %d)" % c["id"])
        owner = {f["id"]: f["acct"] for f in c["funding"]}
        spenders = {a["acct"] for a in c["actions"] if a["kind"] == "spend"} | \
                   {owner[a["utxo"]] for a in c["actions"] if a["kind"] == "spend_utxo" and a["utxo"] in owner}
        quorum = {a["name"]: (a["quorum"], a["nkeys"]) for a in c["accounts"]}
        plans = [(p["acct"], tuple(p["order"])) for p in c["cosigners"] if p["acct"] in spenders]
        if r["fundable"] and r["balanced"] and c["built"]:
            covered.update(plans)
        if not r["fundable"]:
            stats["unfundable"] += 1
        elif not r["balanced"]:
            stats["unbalanced"] += 1
        else:
            stats["balanced_fundable"] += 1
        if c["panic"]:
            ctx.violation("panic", "Build/Sign/ValidateTx panicked: %s (actions %s)" % (c["panic"], json.dumps(c["actions"])[:600]), c)
            continue
        if v["ok"]:
            continue
        stats["rejected"] += 1
        kinds = sorted({a["kind"] + (":" + a["out"] if a["kind"] == "pay" else "") for a in c["actions"]})
        # class of the signing plan: M-of-N of the spending multi-key accounts, and whether a signature
        # sits in a key slot beyond the first M ("late-slot") or the holders signed out of key order
        cls = []
        for acct, order in sorted(plans):
            m, nk = quorum[acct]
            cls.append("%dof%d:%s" % (m, nk, "late-slot" if max(order) > m else
                                      ("reordered" if list(order) != sorted(order) else "first-slots")))
        for rule in RULES:
            if r[rule]:
                continue
            sig = "%s:%s" % (rule, ("multisig:" + "+".join(sorted(set(cls)))) if cls and rule in ("signed", "valid") else "any")
            ctx.violation(sig, "rule '%s' of Builder!Rules fails: actions %s -> built=%s signed=%s valid=%s builderr=%s validerr=%s tx=%s (action kinds %s)"
                          % (rule, json.dumps(c["actions"])[:700], c["built"], c["signed"], c["valid"], c["builderr"][:200],
                             c["validerr"][:200], json.dumps(c["tx"])[:700], kinds), c)
    # every ordered quorum-subset of every multi-key account must have been exercised by a spend
    want_plans = set()
    import itertools
    for a in cases[0]["accounts"]:
        if a["nkeys"] > 1:
            for o in itertools.permutations(range(1, a["nkeys"] + 1), a["quorum"]):
                want_plans.add((a["name"], o))
    if not want_plans or (want_plans - covered and not ctx.violations):
        raise Infra("signing plans not exercised by a built, balanced spend: %s" % sorted(want_plans - covered))
    s = h["summary"]
    ctx.finish("model_checking", dict(
        states=res["d"].distinct + tstates, transitions=res["d"].generated + tstates,
        traces_validated_against_impl=len(cases),
        samples=[{k: h["samples"][0][k] for k in ("shape", "actions", "built", "signed", "valid", "tx")}] if h["samples"] else [],
        cases=len(cases), built=s.get("built"), valid=s.get("valid"), with_multisig_spend=s.get("with_multisig_spend"),
        distinct_action_shapes=s.get("distinct_shapes"), signing_plans_covered=len(covered & want_plans),
        signing_plans_total=len(want_plans), real_hsm_cases=s.get("real_hsm_cases"), **stats,
        negative_control="template with one output amount altered / with a foreign input condemned by TraceBuilder",
        rule="T: %d seeded random (funding set, action list) cases over 6 accounts (4 multi-key, all ordered co-signer quorums) x 3 assets; every case judged by TLC; design: "
             "post-condition => conservation on %d abstract templates" % (n, res["d"].distinct),
    ), assumptions=[
        "requests are scoped as the API layer produces them: spend actions merged per (account, asset); particular outputs are "
        "only picked from (account, asset) pairs without a spend action",
        "'fundable' = the account holds at least the requested amount of the asset (no other reservations, all outputs mature)",
        "'balanced' = non-BTM requested = promised, BTM leaves at least 0.1 BTM of fee; only balanced requests must validate",
        "multi-key accounts (2-of-3, 1-of-2, 2-of-2, 3-of-3): the co-signers are part of the case — every ordered quorum-subset of "
        "the key holders occurs; one holder signs per Sign call (one signature per call by design), the others refuse",
        "SerializedSize is set as txbuilder.FinalizeTx does before validation; program converter = identity (no BCRP calls)",
        "all but the first few cases sign with keys loaded once through the pseudo-HSM (XSign's own decrypt is scrypt-bound)",
        "veto, register-contract and chain (auto-merge) spends are not generated",
    ])
