"""C28 — key derivation and signatures are consistent.

Specification: specs/fn/KeyAlgebra.tla, a free term algebra (Root, Child, Pub, ChildPub, Sig, Enc)
with the single equation ChildPub(Pub(k), s) = Pub(Child(k, s)); NormP normalises public-key terms.
  design : TLC checks the commutation theorem on all paths of the universe and that each term's
           equality class / verifying (key, message) pairs are exactly the ones the equation gives.
  E      : KeyAlgebraTable.tla — every public-key term over 2 seeds x paths of depth <= 3 (every split
           between private and public derivation): all pairwise (in)equalities, all verification
           outcomes of every private key's signatures on 2 messages, key-store decryption outcomes;
           interpreted with chainkd.RootXPrv/Child/XPub/XPub.Child/Sign/Verify and
           pseudohsm.EncryptKey/DecryptKey.
  R      : KeyStoreSeq.tla — the key store as a state machine (import, load, sign, reset password,
           delete under right/wrong passwords); every transition with its call path replayed on a real
           pseudohsm directory (ImportKeyFromMnemonic, LoadChainKDKey, XSign, ResetPassword, XDelete).
  E/T    : random seeds, random non-hardened paths up to depth 8, random splits and near-miss variants
           recorded as terms; TLC normalises them (KeyAlgebraCases.tla) and the driver compares. Dense
           chains (700 / 4000 fresh seeds x a depth-8 path) check commutation and one sign/verify pairing
           at every prefix: 5600 / 32000 distinct derivation steps per run.
"""
import json
import os
import sys
from common import Infra, ndjson
from fn_lib import judge_cases, load_batches


def run(ctx):
    b = ctx.build("c28")
    if ctx.replay:
        doc = json.load(open(ctx.replay))
        print(json.dumps(doc["replay"], indent=1)[:4000])
        print("re-run: VERIF_SEED=%s ./check C28 --tier %s (atoms are regenerated deterministically from the seed)" % (doc["seed"], doc["tier"]))
        sys.exit(1)
    quick = ctx.tier == "quick"
    tier = "quick" if quick else "thorough"
    samples = []
    rt = ctx.tlc_design("fn/KeyAlgebraTable", "cfg/KeyAlgebraTable.%s.cfg" % tier, timeout=2400, tag="table", workers=8)
    ht = ctx.harness([b, "table", rt.path], timeout=1500)
    if rt.nexports < 99 or (ht["summary"].get("equalities", 0) < 4000 and not ht["violations"]):
        raise Infra("table unexpectedly small: %s" % ht["summary"])
    samples += ht["samples"][:1]
    rs = ctx.tlc_design("fn/KeyStoreSeq", "cfg/KeyStoreSeq.%s.cfg" % tier, timeout=900, tag="keystore", workers=8)
    hs = ctx.harness([b, "store", rs.path, os.path.join(ctx.work, "keystores")], timeout=2400)
    if hs["summary"].get("behaviours") != rs.nexports and not hs["violations"]:
        raise Infra("key store: replayed %s of %d behaviours" % (hs["summary"].get("behaviours"), rs.nexports))
    samples += hs["samples"][:1]
    cases = os.path.join(ctx.work, "cases.ndjson")
    hg = ctx.harness([b, "gen", cases], timeout=600)
    ncases = hg["summary"]["cases"]
    expect, cruns = judge_cases(ctx, "fn/KeyAlgebraCases", "cfg/KeyAlgebraCases.cfg", cases, chunk=40000)
    hc = ctx.harness([b, "cmp", cases, expect], timeout=1500)
    if hc["summary"].get("cases") != ncases:
        raise Infra("compared %s of %d cases" % (hc["summary"].get("cases"), ncases))
    samples += hc["samples"][:2]
    # ---- negative control: a flipped expectation must be reported
    docs = load_batches(expect)
    docs[0][0]["r"] = not docs[0][0]["r"]
    ctl = os.path.join(ctx.work, "expect_corrupted.ndjson")
    with open(ctl, "w") as fh:
        fh.write(ndjson(docs))
    p = ctx.run([b, "cmp", cases, ctl], timeout=900)
    if not any(l.startswith("VH ") and '"kind":"violation"' in l for l in p.stdout.splitlines()):
        raise Infra("negative control: flipped expectation of case %s was not reported" % docs[0][0]["i"])
    t = ht["summary"]
    ev = t["equalities"] + t["verifications"] + t["decryptions"] + hs["summary"]["steps"] + ncases
    ctx.finish("model_checking", dict(
        states=rt.distinct + rs.distinct + sum(r.distinct for r in cruns), transitions=rt.generated + rs.generated + sum(r.generated for r in cruns),
        traces_validated_against_impl=hs["summary"]["behaviours"] + ncases + rt.nexports,
        evaluations=ev,
        distinct_nontrivial=t["expected_true"] + hc["summary"]["expected_true"],
        samples=samples,
        table_equalities=t["equalities"], table_verifications=t["verifications"], table_decryptions=t["decryptions"],
        keystore_behaviours=hs["summary"]["behaviours"], keystore_steps=hs["summary"]["steps"], keystore_shapes=hs["summary"]["shapes"],
        recorded_cases=ncases, recorded_depth8=hg["summary"]["depth8"],
        recorded_chain_derivation_steps=hg["summary"]["chain_derivation_steps"], recorded_shapes=hc["summary"]["shapes"],
        negative_control="flipped expectation of case %s reported" % docs[0][0]["i"],
        exhaustive=False,
        rule="E: all public-key terms over 2 seeds x %d selectors x depth<=3 with every private/public split: all unordered pairs, "
             "all (private key, signed message, verified message) triples, Enc/Dec over seeds x passwords^2; R: every transition of "
             "the key-store machine up to %d calls with its path; recorded: seeded random paths up to depth 8 with splits and "
             "near-miss variants (other seed, one selector changed, swapped, prefix, extended), plus dense chains: fresh seeds x one "
             "depth-8 path each, at every prefix the all-private vs all-public commutation and one sign/verify pairing (%d distinct "
             "derivation steps). distinct_nontrivial = expected "
             "equalities between syntactically different terms and expected successful verifications"
             % ((2, 3, 5600) if quick else (3, 5, 32000)),
    ), assumptions=[
        "distinct terms denote distinct values (HMAC-SHA512 derivation, ed25519 and scrypt/AES are collision-free on the generated atoms)",
        "selectors, seeds, messages and passwords are concretised as distinct seeded random byte strings",
        "the key store is exercised single-threaded; EncryptKey/DecryptKey with scrypt N=2 for the table, the HSM with its light scrypt",
    ])
