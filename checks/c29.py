"""C29 — addresses and text encodings round-trip and detect corruption.

Specification: specs/fn/TextEnc.tla (bit regrouping, bech32 with the BCH polymod on 30-bit integers,
version-0 segwit addresses per network prefix, RFC 4648 base32, mnemonic sentences as word indices).
  design : TextEncTable.tla — for every network prefix, 20/32-byte programs of a pattern family: the
           address round-trips on its own network (also all-uppercase), is rejected on the other
           networks, and every single-character substitution (every bech32 character, the other case,
           the separator, characters outside the charset) is rejected on every network.
  E      : the addresses and all substitutions with TLC's outcomes are replayed against
           EncodeAddress / DecodeAddress of all three networks.
  E/T    : random programs, bech32 payloads, byte strings, entropy, well-formed-but-invalid bech32,
           mutated and arbitrary strings are recorded by the driver; TLC evaluates the specification on
           each (TextEncCases.tla) and the real functions must agree (address, bech32, base32 in both
           alphabets with and without padding, mnemonics in all seven languages).
  no-panic: arbitrary strings into the decoders whose result the specification leaves open.
"""
import json
import os
import sys
from common import Infra, ndjson
from fn_lib import judge_cases, load_batches


def run(ctx):
    b = ctx.build("c29")
    if ctx.replay:
        doc = json.load(open(ctx.replay))
        print(json.dumps(doc["replay"], indent=1)[:4000])
        print("re-run: VERIF_SEED=%s ./check C29 --tier %s (cases are regenerated deterministically)" % (doc["seed"], doc["tier"]))
        sys.exit(1)
    quick = ctx.tier == "quick"
    samples = []
    rt = ctx.tlc_design("fn/TextEncTable", "cfg/TextEncTable.%s.cfg" % ("quick" if quick else "thorough"), timeout=2400, tag="table", workers=8)
    ht = ctx.harness([b, "table", rt.path], timeout=1500)
    if rt.nexports < 24 or (ht["summary"].get("docs") != rt.nexports and not ht["violations"]):
        raise Infra("table: replayed %s of %d exported documents" % (ht["summary"].get("docs"), rt.nexports))
    samples += ht["samples"][:1]
    cases = os.path.join(ctx.work, "cases.ndjson")
    hg = ctx.harness([b, "gen", cases], timeout=600)
    ncases = hg["summary"]["cases"]
    expect, cruns = judge_cases(ctx, "fn/TextEncCases", "cfg/TextEncCases.cfg", cases, chunk=20000)
    hc = ctx.harness([b, "cmp", cases, expect], timeout=1500)
    if hc["summary"].get("cases") != ncases:
        raise Infra("compared %s of %d cases" % (hc["summary"].get("cases"), ncases))
    samples += hc["samples"][:6]
    hf = ctx.harness([b, "fuzz"], timeout=1500)
    # ---- negative control: a flipped decode outcome must be reported
    kinds = {}
    for line in open(cases):
        k = json.loads(line)
        kinds[k["i"]] = k["k"]
    docs = load_batches(expect)
    flipped = None
    for batch in docs:
        for e in batch:
            if flipped is None and kinds[e["i"]] == "dec":
                e["ok"] = not e["ok"]
                flipped = e["i"]
    ctl = os.path.join(ctx.work, "expect_corrupted.ndjson")
    with open(ctl, "w") as fh:
        fh.write(ndjson(docs))
    p = ctx.run([b, "cmp", cases, ctl], timeout=900)
    if flipped is None or not any(l.startswith("VH ") and '"kind":"violation"' in l for l in p.stdout.splitlines()):
        raise Infra("negative control: flipped decode expectation %s was not reported" % flipped)
    s = ht["summary"]
    evaluations = s["substitution_decodes"] + s["decodes"] + ncases + hf["summary"]["fuzz_calls"]
    ctx.finish("model_checking", dict(
        states=rt.distinct + sum(r.distinct for r in cruns), transitions=rt.generated + sum(r.generated for r in cruns),
        traces_validated_against_impl=s["substitution_decodes"] + s["decodes"] + ncases,
        evaluations=evaluations,
        distinct_nontrivial=s["substitution_decodes"] // 3 + hc["summary"]["decode_reject"],
        samples=samples,
        table_documents=rt.nexports, substitution_decodes=s["substitution_decodes"], substitution_shapes=s["shapes"],
        recorded_cases=ncases, recorded_kinds=hg["summary"]["kinds"], recorded_shapes=hc["summary"]["shapes"],
        recorded_decode_accept=hc["summary"]["decode_accept"], recorded_decode_reject=hc["summary"]["decode_reject"],
        no_panic_calls=hf["summary"]["fuzz_calls"],
        negative_control="flipped decode expectation of case %s reported" % flipped,
        exhaustive=False,
        rule="E: 3 networks x {20,32}-byte programs x %d byte patterns; every position of each address x {32 bech32 characters, '1', "
             "space, b, i, o, !, other case} decoded on all three networks; recorded: seeded random programs/payloads/bytes/entropy, "
             "well-formed bech32 with wrong version/length/padding/prefix, 12 mutation kinds of valid strings, arbitrary strings. "
             "distinct_nontrivial = distinct substituted addresses (each tried on 3 networks) + recorded strings the specification rejects"
             % (1 if quick else 10),
    ), assumptions=[
        "strings are byte strings (codes 0..255); the three networks are main (bn), test (tn), solo (sn)",
        "the checksum byte of a mnemonic (first byte of SHA-256 of the entropy) is an input of the specification",
        "for arbitrary strings the result of base32 / mnemonic decoding is left open; only panics are violations there",
    ])
