"""C30 — merkle inclusion proofs are sound and complete.

Specification: specs/fn/Merkle.tla (hash values as terms of a free algebra; Root, Proof and the
validation automaton; theorems Complete / Sound for one list size and subset).
  design : TLC checks Complete, Sound (every single substitution of a proof hash by any tree node,
           a foreign value or the empty-string hash; of a flag by 0..3; of the root; a related hash
           replaced by / extended with a foreign or uncovered id) and WellShaped for every n <= NMax
           and every subset.
  E      : every (n, S) with all its variants and TLC-assigned outcomes is concretised with random
           ids and run against TxMerkleRoot, GetTxMerkleTreeProof and ValidateTxMerkleTreeProof.
  E/T    : random lists of 0..64 ids: the real generator's proof is mapped back to terms through a
           node-hash table built from TLC's tree shape, randomly tampered, validated by the real
           validator; TLC assigns the outcome to each recorded case (MerkleCases.tla).
"""
import json
import os
import sys
from common import Infra, ndjson
from fn_lib import judge_cases, load_batches


def replay(ctx, b):
    doc = json.load(open(ctx.replay))
    r = doc["replay"]
    if "regen_case" not in r:
        print(json.dumps(r, indent=1)[:3000])
        print("table case: re-run ./check C30 --tier %s with VERIF_SEED=%s" % (doc["tier"], doc["seed"]))
        sys.exit(1)
    rs = ctx.tlc_design("fn/MerkleShape", "cfg/MerkleShape.cfg", workers=1, tag="shape")
    p = ctx.run([b, "regen", rs.path, str(r["regen_case"])], env={"VERIF_SEED": str(r["seed"]), "VERIF_TIER": r["tier"]})
    got = None
    for l in p.stdout.splitlines():
        if l.startswith("VH ") and '"kind":"sample"' in l:
            got = json.loads(l[3:])["case"]
    if got is None:
        raise Infra("replay: case %s not regenerated" % r["regen_case"])
    print(json.dumps(got["concrete"])[:3000])
    bad = bool(got["case"]["panic"]) or got["case"]["got"] != r["expected"]
    print("real validator: %s, Merkle.tla: %s" % ("panic " + got["case"]["panic"] if got["case"]["panic"] else got["case"]["got"], r["expected"]))
    sys.exit(1 if bad else 0)


def run(ctx):
    b = ctx.build("c30")
    if ctx.replay:
        replay(ctx, b)
    quick = ctx.tier == "quick"
    samples = []
    # ---- design + E: theorems for every (n, S), table exported and replayed
    rt = ctx.tlc_design("fn/MerkleTable", "cfg/MerkleTable.%s.cfg" % ("quick" if quick else "thorough"), timeout=2400, tag="table", workers=8)
    designs = [rt]
    if not quick:
        designs.append(ctx.tlc_design("fn/MerkleTable", "cfg/MerkleTable.design.cfg", timeout=2400, tag="theorems-n10", workers=8))
    ht = ctx.harness([b, "table", rt.path], timeout=1500)
    if rt.nexports < 255 or (ht["summary"].get("cases") != rt.nexports and not ht["violations"]):   # the driver stops early once it has enough violations
        raise Infra("table: replayed %s of %d exported cases" % (ht["summary"].get("cases"), rt.nexports))
    samples += ht["samples"][:1]
    # ---- random lists up to 64 ids, recorded from the real code, judged by TLC
    rs = ctx.tlc_design("fn/MerkleShape", "cfg/MerkleShape.cfg", workers=1, timeout=300, tag="shape")
    cases = os.path.join(ctx.work, "cases.ndjson")
    hg = ctx.harness([b, "gen", rs.path, cases], timeout=900)
    ncases = hg["summary"]["cases"]
    expect, cruns = judge_cases(ctx, "fn/MerkleCases", "cfg/MerkleCases.cfg", cases, chunk=25000)
    hc = ctx.harness([b, "cmp", cases, expect], timeout=900)
    if hc["summary"].get("cases") != ncases:
        raise Infra("compared %s of %d cases" % (hc["summary"].get("cases"), ncases))
    samples += hc["samples"][:2]
    # ---- negative control: a flipped expectation must be reported
    docs = load_batches(expect)
    docs[0][0]["exp"] = not docs[0][0]["exp"]
    ctl = os.path.join(ctx.work, "expect_corrupted.ndjson")
    with open(ctl, "w") as fh:
        fh.write(ndjson(docs))
    p = ctx.run([b, "cmp", cases, ctl], timeout=900)
    if not any(l.startswith("VH ") and '"kind":"violation"' in l for l in p.stdout.splitlines()):
        raise Infra("negative control: flipped expectation of case %s was not reported" % docs[0][0]["i"])
    nval = ht["summary"]["validations"] + ncases
    ctx.finish("model_checking", dict(
        states=sum(d.distinct for d in designs) + sum(r.distinct for r in cruns),
        transitions=sum(d.generated for d in designs) + sum(r.generated for r in cruns),
        traces_validated_against_impl=nval,
        evaluations=nval,
        distinct_nontrivial=ht["summary"]["validations"] - ht["summary"]["expected_accept"] + ncases - hc["summary"]["expected_accept"],
        samples=samples,
        table_cases=rt.nexports, table_validations=ht["summary"]["validations"],
        table_generated_equals_spec_proof=ht["summary"]["generated_equals_spec_proof"],
        recorded_cases=ncases, recorded_kinds=hc["summary"]["kinds"], recorded_max_list=hg["summary"]["max_list"],
        recorded_generated_equals_spec_proof=hc["summary"]["generated_equals_spec_proof"],
        negative_control="flipped expectation of case %s reported" % docs[0][0]["i"],
        exhaustive=False,
        rule="E: all list sizes 0..%d x all subsets x all single substitutions (proof hash by every tree node / foreign / empty-string "
             "hash, flag by 0..3, root, related hash replaced or inserted), concretised with seeded random ids; recorded: %s "
             "random lists of 0..64 ids (sizes biased to powers of two +-1), random subsets, the real proof plus random single "
             "tamperings. distinct_nontrivial = validations whose specification outcome is rejection (tampered/unsound inputs)"
             % (7 if quick else 9, hc["summary"]["genuine"]),
    ), assumptions=[
        "hash values are modelled as a free term algebra (sha3-256 collision-free on the generated values)",
        "transaction ids within one list are distinct; related hashes are presented in list order",
        "leftover proof elements and removal of a related hash are not part of the tampering set",
    ])
