"""C31 — checked arithmetic is exact.

Specification: specs/fn/Checked.tla. One definition for every function of math/checked:
the operation is defined on the operands (divisor # 0, 0 <= shift < width), its exact result
is computed over the integers, success iff the result lies in the range of the type.
  design : CheckedSanity.tla — exhaustively on small widths, the limb-integer form of the
           definition (FnBigNat.tla, the oracle for 64-bit operands) equals the definition over
           TLC's integers, and every limb primitive equals TLC's arithmetic.
  E      : CheckedTable.tla — TLC exports the complete width-5 table; every row is lifted to
           int32/int64/uint32/uint64 (identity lift and scaling by 2^(w-5)) and compared with
           the real function.
  E/T    : the Go driver records boundary-biased and random operands of all four types
           (limb form); TLC evaluates the definition on each (CheckedCases.tla) and the driver
           compares the real functions with TLC's expectations.
"""
import json
import os
import sys
from common import Infra, ndjson
from fn_lib import judge_cases, load_batches


def replay(ctx, b):
    doc = json.load(open(ctx.replay))
    r = doc["replay"]
    p = ctx.run([b, "one", r["op"], r["type"], r["a"], r["b"], "true" if r["want_ok"] else "false", r["want"]])
    bad = [l for l in p.stdout.splitlines() if l.startswith("VH ") and '"kind":"violation"' in l]
    for l in bad:
        print("still diverges: " + json.loads(l[3:])["desc"])
    if not bad:
        print("replay %s: the real function now agrees with Checked.tla" % ctx.replay)
    sys.exit(1 if bad else 0)


def run(ctx):
    b = ctx.build("c31")
    if ctx.replay:
        replay(ctx, b)
    quick = ctx.tier == "quick"
    samples = []
    # ---- design: limb reference == integer definition (small widths, exhaustive)
    designs = [ctx.tlc_design("fn/CheckedSanity", "cfg/CheckedSanity.quick.cfg", timeout=900, tag="sanity-base4-w6", workers=8)]
    if not quick:
        designs.append(ctx.tlc_design("fn/CheckedSanity", "cfg/CheckedSanity.base8.cfg", timeout=1500, tag="sanity-base8-w7", workers=8))
        designs.append(ctx.tlc_design("fn/CheckedSanity", "cfg/CheckedSanity.thorough.cfg", timeout=2400, tag="sanity-base4-w8", workers=8))
    # ---- E: complete small-width table lifted to the real types
    rt = ctx.tlc_design("fn/CheckedTable", "cfg/CheckedTable.cfg", workers=1, timeout=900, tag="table")
    if rt.nexports < 10000:
        raise Infra("table export unexpectedly small: %d rows" % rt.nexports)
    ht = ctx.harness([b, "table", rt.path], timeout=900)
    if ht["summary"].get("rows") != rt.nexports:
        raise Infra("table: lifted %s of %d rows" % (ht["summary"].get("rows"), rt.nexports))
    samples += ht["samples"][:2]
    # ---- recorded operands judged by TLC
    cases = os.path.join(ctx.work, "cases.ndjson")
    hg = ctx.harness([b, "gen", cases], timeout=600)
    ncases = hg["summary"]["cases"]
    expect, cruns = judge_cases(ctx, "fn/CheckedCases", "cfg/CheckedCases.cfg", cases, chunk=100000)
    hc = ctx.harness([b, "cmp", cases, expect], timeout=900)
    if hc["summary"].get("cases") != ncases:
        raise Infra("compared %s of %d cases" % (hc["summary"].get("cases"), ncases))
    samples += hc["samples"][:4]
    # ---- negative control: one corrupted expectation must be reported by the comparer
    docs = load_batches(expect)
    flipped = None
    for batch in docs:
        for e in batch:
            if e["ok"] and flipped is None:
                e["v"] = {"n": not e["v"]["n"], "m": (e["v"]["m"] or [0]) + [1]}
                flipped = e["i"]
    ctl = os.path.join(ctx.work, "expect_corrupted.ndjson")
    with open(ctl, "w") as fh:
        fh.write(ndjson(docs))
    p = ctx.run([b, "cmp", cases, ctl], timeout=900)
    nbad = sum(1 for l in p.stdout.splitlines() if l.startswith("VH ") and '"kind":"violation"' in l and "wrong-value" in l)
    if flipped is None or nbad < 1:
        raise Infra("negative control: corrupted expectation %s was not reported by the comparer" % flipped)
    calls = ht["summary"]["calls"] + hc["summary"]["calls"]
    ctx.finish("model_checking", dict(
        states=sum(d.distinct for d in designs) + rt.distinct + sum(r.distinct for r in cruns),
        transitions=sum(d.generated for d in designs) + rt.generated + sum(r.generated for r in cruns),
        traces_validated_against_impl=calls,
        evaluations=calls,
        distinct_nontrivial=hc["summary"]["expected_failures"],
        samples=samples,
        table_rows=rt.nexports, table_calls=ht["summary"]["calls"], table_call_shapes=ht["summary"]["shapes"],
        recorded_cases=ncases, recorded_call_shapes=hc["summary"]["shapes"],
        sanity_cases=sum(d.distinct for d in designs) // 2,
        negative_control="corrupted expected value of case %s reported" % flipped,
        exhaustive=False,
        rule="E: all %d rows of the width-5 table (7 operations, signed and unsigned, all operand pairs), each lifted to the "
             "32- and 64-bit type by the identity and by scaling with 2^(w-5); recorded: all pairs of edge values "
             "{0,+-1,+-2,min,min+1,max,max-1,2^(w/2),2^(w-1)+-1}, operands placed at distance -1/0/+1 of the overflow boundary "
             "of each operation, random pairs of {+-2^k, +-2^k+-1} and random operands of random bit length, for int32/int64/"
             "uint32/uint64, judged by TLC on limb integers. distinct_nontrivial = distinct recorded cases for which the "
             "specification demands failure (overflow, zero divisor, shift count out of range)" % rt.nexports,
    ), assumptions=[
        "a shift count outside 0..width-1 and a zero divisor are outside the domain of the operation (failure expected)",
        "the value returned together with failure is not constrained",
        "limb arithmetic of FnBigNat.tla is validated against TLC integers exhaustively only up to 8-bit operands (bases 4 and 8)",
    ])
