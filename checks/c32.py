"""C32 — encrypted peer connections deliver the exact byte stream.

Specification: specs/periph/SecretConn.tla (per direction: byte stream written, frames of
<= FrameMax data bytes, Read returns 1..min(|buf|, available) bytes that continue the stream,
a frame modified in transit is never delivered and yields an error, EOF only after everything
was delivered, handshake gives each side the peer's key).
  design : TLC checks TamperStops / NoLoss / Detected / BadInStream on a bounded instance.
  T      : two real SecretConnections over in-memory pipes; seeded workloads (write sizes 1..3000,
           read buffers 1..2000, boundary-biased; bit flips in sealed data / handshake frames);
           every handshake result, Write call/return, Read return, close is an event; TLC
           validates each trace against TraceSecretConn.tla (module invariants checked in every
           state of the validated behaviour).
"""
import copy
import json
import os
from common import Infra
import tvlib

RESET = {"ev": "reset", "d": "", "n": 0, "buf": 0, "err": "", "data": [], "hst": "", "ea": "", "eb": "",
         "ra": "", "rb": "", "pab": 0, "pba": 0, "st": "", "fam": "", "id": 0}


def signature(tr, k, reset):
    """Structural class of the first event TLC could not explain."""
    if k >= len(tr):
        return "trace:incomplete", None
    e = tr[k]
    if e["ev"] == "read":
        if e["err"] == "" and e["n"] == 0:
            # a direction with a modified frame is kept apart (there, a silent zero read can be an undetected modification)
            mod = (e["d"] == "ab" and reset["pab"] > 0) or (e["d"] == "ba" and reset["pba"] > 0)
            return "read:zero-bytes-no-error" + (":modified-direction" if mod else ""), e
        if e["err"] == "" and (e["n"] > e["buf"] or e["n"] < 0):
            return "read:count-out-of-range", e
        if e["err"] == "":
            return "read:wrong-or-undeliverable-data", e
        if e["err"] == "eof":
            return "read:eof-with-undelivered-bytes", e
        return "read:error-without-modification", e
    if e["ev"] == "wend":
        return "write:short-or-error", e
    if e["ev"] == "hs":
        if e["hst"] == "none":
            return "handshake:%s" % ("failed" if e["ea"] or e["eb"] else "wrong-remote-key"), e
        return "handshake:modified-frame-accepted-or-wrong-key", e
    if e["ev"] == "end":
        return "end:%s" % ("stalled" if e["st"] != "complete" else "undelivered-or-undetected"), e
    return "event:%s" % e["ev"], e


def run(ctx):
    b = ctx.build("c32")
    quick = ctx.tier == "quick"
    d = ctx.tlc_design("periph/SecretConn", "cfg/SecretConn.design.cfg", timeout=1200, tag="design", workers=8)
    ntr = 120 if quick else 1500
    tfile = os.path.join(ctx.work, "traces.ndjson")
    h = ctx.harness([b, "run", str(ntr), tfile], timeout=1500)
    traces, resets, cur = [], [], None
    for line in open(tfile):
        e = json.loads(line)
        if e["ev"] == "reset":
            cur = []
            traces.append(cur)
            resets.append(e)
        else:
            cur.append(e)
    if len(traces) != ntr:
        raise Infra("driver produced %d of %d traces" % (len(traces), ntr))
    B = 60 if quick else 150
    tstates, nrej, accepted = 0, {}, []
    for i in range(0, len(traces), B):
        batch = traces[i:i + B]
        rej, st = tvlib.validate(ctx, "periph/TraceSecretConn", "cfg/TraceSecretConn.cfg", batch,
                                 reset=lambda ti, i=i: resets[i + ti], tag="trace", timeout=1500, heap="8g")
        tstates += st
        bad = set()
        for ti, k in rej:
            bad.add(ti)
            tr = batch[ti]
            sig, e = signature(tr, k, resets[i + ti])
            nrej[sig] = nrej.get(sig, 0) + 1
            if nrej[sig] > 3:
                continue
            e2 = dict(e or {})
            if len(e2.get("data", [])) > 32:
                e2["data"] = e2["data"][:32] + ["..."]
            small = [dict(x, data=x["data"][:16] + (["..."] if len(x["data"]) > 16 else [])) for x in tr[:k + 1]]
            ctx.violation(sig, "execution of the real SecretConnection not explained by SecretConn.tla: workload %s #%d, event %d %s "
                          "cannot follow the validated prefix" % (resets[i + ti]["fam"], resets[i + ti]["id"], k, json.dumps(e2)),
                          {"reset": resets[i + ti], "events_upto_rejection_data_truncated": small, "rejected_event": k,
                           "reproduce": "VERIF_SEED=%d c32 run %d <out>; trace id %d" % (ctx.seed, ntr, resets[i + ti]["id"])})
        accepted += [batch[ti] for ti in range(len(batch)) if ti not in bad]
    # ---- negative control: one corrupted data byte in an accepted trace must be rejected
    ctl = None
    for tr in accepted:
        idx = [k for k, e in enumerate(tr) if e["ev"] == "read" and e["err"] == "" and e["n"] > 0]
        if idx:
            ctl = copy.deepcopy(tr)
            ctl[idx[-1]]["data"][-1] ^= 0x40
            break
    if ctl is None and not ctx.violations:
        raise Infra("no accepted trace with a data-carrying read: nothing validated")
    if ctl is not None:
        rej, _ = tvlib.validate(ctx, "periph/TraceSecretConn", "cfg/TraceSecretConn.cfg", [ctl], reset=RESET,
                                tag="negative-control", timeout=600)
        if not rej:
            raise Infra("negative control: a corrupted delivered byte was accepted by TraceSecretConn.tla")
    s = h["summary"]
    ctx.finish("model_checking", dict(
        states=d.distinct + tstates, transitions=d.generated,
        traces_validated_against_impl=len(traces), samples=h["samples"][:1],
        traces_accepted=len(accepted), traces_rejected_by_signature=nrej,
        events=s.get("events"), bytes_written=s.get("bytes_written"), families=s.get("families"),
        stalled=s.get("stalled"), negative_control="flipped bit in a delivered byte rejected" if ctl is not None else "skipped: no trace was accepted (violations reported)",
        exhaustive=False,
        rule="%d seeded two-way workloads (1-7 writes of 1..3000 bytes per direction, read buffers 1..2000, boundary-biased; "
             "families large/mixed/tiny/exact/data-frame bit flip/handshake-frame bit flip), every event validated by TLC" % ntr,
    ), assumptions=[
        "sealed frames are 1042 bytes on the wire and the handshake sends 32 bytes + one sealed frame per direction (used only to aim the bit flip)",
        "one Write call starts a new frame (frame numbering of the modification plan)",
        "after a detected modification or failed handshake nothing further is required of the connection",
        "read buffers are never empty; the ephemeral public keys (plaintext) are not modified",
    ])
