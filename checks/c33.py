"""C33 — header and block sync responses are well-formed.

Specification: specs/chain/Sync.tla — LocateOk(req, resp) over a main chain m0..m8 and a
side branch s4..s6 (fork after m3): at most max items, all on the main chain, heights
strictly increasing, first item = highest main-chain locator entry (genesis if none),
nothing above the stop block, empty when the stop block is unknown / off the main chain /
below the start, no panic. The stride is left open, as in the property.
  design : SyncGen — for every enumerated request the post-condition is satisfiable
           (reference answers with strides 1, 2, 3, 8 satisfy LocateOk).
  E/T    : TLC enumerates the requests (locators of <= 3 entries from main/side/unknown
           hashes in any order x every stop hash x skip in {0,1,2,7,2^63,2^64-2,2^64-1}
           x item limits); the driver runs each (plus seeded random ones with longer
           locators and random 64-bit skips) through the real locateHeaders /
           locateBlocks under recover over a mock chain and records (request, response)
           pairs; TLC (TraceSync) evaluates every rule of LocateOk on every pair.
"""
import copy
import json
import os
from common import Infra, ndjson

RULES = ("nopanic", "max", "main", "incr", "start", "stop", "empty")
MAINLEN = 8


def skip_value(limbs):
    v = 0
    for x in reversed(limbs):
        v = (v << 15) | x
    return v


def cause(req):
    """Classification of the request for the signature (not a verdict)."""
    mains = [b["h"] for b in req["loc"] if b["c"] == "m"]
    c = []
    if mains and mains[0] != max(mains):
        c.append("unordered-locator")
    if skip_value(req["skip"]["limbs"]) + 1 + MAINLEN >= 2 ** 64:
        c.append("skip-wraps")
    return "+".join(c) or "plain"


def judge(ctx, pairs, tag):
    """TLC evaluates LocateOk on recorded pairs; returns list of (pair, verdict)."""
    out = []
    states = 0
    for i in range(0, len(pairs), 40000):
        batch = pairs[i:i + 40000]
        r = ctx.tlc("chain/TraceSync", "cfg/TraceSync.cfg", workers=1, timeout=1500, heap="8g", tag=tag,
                    files={"trace.ndjson": ndjson(batch)})
        if not r.ok:
            raise Infra("TraceSync failed: violated=%s error=%s\n%s" % (r.violated, r.error, r.out[-2000:]))
        n = 0
        for d in r.exports():
            out.append((batch[d["i"] - 1], d["v"]))
            n += 1
        if n != len(batch):
            raise Infra("TraceSync judged %d of %d pairs" % (n, len(batch)))
        states += r.distinct
    return out, states


def run(ctx):
    b = ctx.build("c33")
    quick = ctx.tier == "quick"
    g = ctx.tlc_design("chain/SyncGen", "cfg/SyncGen.%s.cfg" % ("quick" if quick else "thorough"),
                       workers=4, timeout=1500, tag="requests")
    if g.nexports < 10000:
        raise Infra("request enumeration unexpectedly small: %d" % g.nexports)
    pfile = os.path.join(ctx.work, "pairs.ndjson")
    h = ctx.harness([b, "run", g.path, pfile, str(4000 if quick else 40000)], timeout=1500)
    pairs = [json.loads(l) for l in open(pfile)]
    if len(pairs) != h["summary"].get("pairs") or h["summary"].get("enumerated") != g.nexports:
        raise Infra("driver recorded %d pairs for %d requests" % (len(pairs), g.nexports))
    verdicts, tstates = judge(ctx, pairs, "judge")
    nbad = 0
    classes = {}
    for p, v in verdicts:
        if v["ok"]:
            continue
        nbad += 1
        for rule in RULES:
            if v[rule]:
                continue
            sig = "%s:%s:%s" % (p["req"]["kind"], rule, cause(p["req"]))
            classes[sig] = classes.get(sig, 0) + 1
            if classes[sig] > 3:
                continue
            ctx.violation(sig, "%s request %s answered %s: rule '%s' of Sync!LocateOk fails (expected start %s, must be empty: %s)"
                          % (p["req"]["kind"], json.dumps(p["req"]), json.dumps(p["resp"])[:400], rule,
                             json.dumps(v["wantStart"]), v["wantEmpty"]),
                          {"pair": p, "verdict": v})
    # ---- negative controls: corrupted responses must be condemned by TLC
    ctl = []
    for p, v in verdicts:
        if v["ok"] and p["resp"]["n"] >= 3 and len(p["resp"]["items"]) == p["resp"]["n"]:
            a = copy.deepcopy(p)
            a["resp"]["items"][1], a["resp"]["items"][2] = a["resp"]["items"][2], a["resp"]["items"][1]
            c = copy.deepcopy(p)
            c["resp"]["items"] = c["resp"]["items"][1:]
            c["resp"]["n"] -= 1
            d = copy.deepcopy(p)
            d["resp"]["items"][-1] = {"c": "s", "h": 5}
            ctl = [a, c, d]
            break
    if not ctl:
        raise Infra("no accepted pair with three items for the negative control")
    cv, _ = judge(ctx, ctl, "negative-control")
    want = ("incr", "start", "main")
    for (p, v), rule in zip(cv, want):
        if v["ok"] or v[rule]:
            raise Infra("negative control: corrupted response (%s) accepted by TraceSync" % rule)
    s = h["summary"]
    ctx.finish("model_checking", dict(
        states=g.distinct + tstates, transitions=g.generated + tstates,
        traces_validated_against_impl=len(pairs),
        samples=h["samples"][:3],
        enumerated_requests=s.get("enumerated"), random_requests=s.get("random"),
        distinct_requests=s.get("distinct_requests"), nonempty_responses=s.get("nonempty"),
        responses_longer_than_64=s.get("longer_than_64"), pairs_rejected=nbad, rejected_classes=classes,
        negative_control="swapped items / dropped first item / side-chain item condemned (incr, start, main)",
        exhaustive=True,
        rule="every request of the bounded scenario (9 main + 3 side blocks; locators <= 3 of %s entries; 13 stop hashes; 7 skips; "
             "limits %s) plus seeded random requests (locators <= 6, random 64-bit skips); each (request, response) judged by TLC"
             % (("5", "1000/2, 64/2") if quick else ("7", "1000/3/1, 64/3")),
    ), assumptions=[
        "the chain behind the block keeper is test/mock.Chain (the Chain interface the package is written against)",
        "responses longer than 64 items are judged on their first 40 and last 2 items plus the true length "
        "(a rule failing on a subsequence fails on the whole answer)",
        "an error return is an empty response; the stride between items is not constrained (the property leaves it open)",
        "the handlers in handle.go are not driven (they need live peers); they pass the peer's fields unchanged to these functions",
    ])
