"""C34 — DHT routing table keeps its invariants.

Specification: specs/periph/Dht.tla (buckets = entries + replacement list; Add, Stuff,
Delete, DeleteReplace, Bump as table.go implements them) and DhtProps.tla (the property:
<= 16 distinct nodes per bucket, at the bucket's distance, local node absent, count =
number of entries).
  design : TLC proves the property for the repaired design variant (a node entering the
           entries is purged from the replacement list) and is run on the as-implemented
           variant (StaleRepl), where it finds a counterexample; the counterexample is not
           a verdict: it is tried on the real table by the replay below.
  R      : every transition of the as-implemented variant on a small instance (capacity 2:
           the real buckets are pre-filled with 14 nodes through the real add) is exported
           with its operation path and replayed on a real Table through the export shim;
           full-size random behaviours (capacity 16, 36 nodes colliding in one bucket) too.
  T      : every distinct state of the real table observed during the replay is judged by
           TLC (TraceDht.tla evaluates DhtProps on the snapshot); a broken state is
           attributed to the recorded operation that led into it from an intact state.
"""
import json
import os
import re
import sys
import threading
import time
from common import Infra

DIST_S = {"a": 256, "b": 256, "c": 256, "d": 256, "e": 255, "f": 255, "self": 0}
DIST_L = dict([("self", 0)] + [(str(i), 250 if i >= 37 else 256) for i in range(1, 41)])


def compact(snap):
    """Readable one-line form of a table snapshot (fill nodes summarised)."""
    out = []
    for b in snap["buckets"]:
        ids = [e["id"] for e in b["e"]]
        real = [i for i in ids if not i.startswith("~fill")]
        nfill = len(ids) - len(real)
        out.append("bucket %d: entries [%s%s] (%d) replacements [%s]"
                   % (b["idx"], " ".join(real), (" +%d fill" % nfill) if nfill else "", len(ids),
                      " ".join(e["id"] for e in b["r"])))
    return "count=%d; %s" % (snap["count"], "; ".join(out))


def judge(ctx, snaps, tag, chunk=1500):
    """TLC verdict for every recorded table state: {snapshot id: broken clause}; states judged."""
    verdict, lock, errs = {}, threading.Lock(), []
    chunks = [snaps[i:i + chunk] for i in range(0, len(snaps), chunk)]
    sem = threading.Semaphore(4)
    total = [0]

    def work(part):
        try:
            r = ctx.tlc("periph/TraceDht", "cfg/TraceDht.cfg", workers=1, timeout=1500, tag=tag,
                        files={"trace.ndjson": "".join(part)})
            if r.violated != "NotDone" or r.error:
                raise Infra("state judgement did not complete: violated=%s error=%s\n%s" % (r.violated, r.error, r.out[-1500:]))
            with lock:
                total[0] += r.distinct
                for note in r.prints:
                    m = re.match(r"broken (\d+) (\S+)", note)
                    if m:
                        verdict[int(m.group(1))] = m.group(2)
        except Exception as e:       # noqa
            errs.append(e)
        finally:
            sem.release()

    ths = []
    for part in chunks:
        sem.acquire()
        t = threading.Thread(target=work, args=(part,))
        t.start()
        ths.append(t)
        time.sleep(1.0)       # ctx.tlc numbers its scratch directories at call time
    for t in ths:
        t.join()
    if errs:
        raise errs[0] if isinstance(errs[0], Infra) else Infra("state judgement failed: %r" % errs[0])
    return verdict, total[0]


def replay(ctx, b):
    """./check C34 --replay <file>: re-execute one saved operation sequence on a real table; TLC judges every state."""
    o = json.load(open(ctx.replay))["replay"]
    path = os.path.join(ctx.work, "replay.ndjson")
    with open(path, "w") as fh:
        fh.write(json.dumps({"calls": o["calls"], "obs": {"count": 0, "broken": "", "buckets": {}}}) + "\n")
    prefix = os.path.join(ctx.work, "replay_real")
    ctx.harness([b, "replay", path, prefix, str(o["model_bucket_size"]), json.dumps(o["dist"])])
    verdict, _ = judge(ctx, open(prefix + ".snaps.ndjson").readlines(), "replay")
    found = False
    for line in open(prefix + ".trans.ndjson"):
        t = json.loads(line)
        if t["post"] in verdict and t["pre"] not in verdict:
            found = True
            c = o["calls"][t["step"]]
            print("REPRODUCED %s:%s at operation %d %s(%s)" % (t["op"], verdict[t["post"]], t["step"] + 1, c["op"],
                                                               c.get("x") or ",".join(c.get("xs", []))))
    if not found:
        print("not reproduced: every state of the real table satisfies the property on this sequence")
    sys.exit(1 if found else 0)


def run(ctx):
    b = ctx.build("c34")
    if ctx.replay:
        replay(ctx, b)
    quick = ctx.tier == "quick"
    samples = []
    # ---- design
    d_fixed = ctx.tlc_design("periph/DhtGen", "cfg/Dht.fixed.cfg", workers=4, timeout=900, tag="design-repaired")
    d_impl = ctx.tlc("periph/DhtGen", "cfg/Dht.impl.cfg", workers=1, timeout=900, tag="design-as-implemented")
    if d_impl.error:
        raise Infra("TLC error on the as-implemented design variant: %s\n%s" % (d_impl.error, d_impl.out[-2000:]))
    # ---- R: behaviours of the as-implemented variant
    runs = [("small", ctx.tlc_design("periph/DhtGen", "cfg/DhtGen.%s.cfg" % ("quick" if quick else "thorough"),
                                     workers=1, timeout=2400, heap="8g", tag="small"), 2, DIST_S)]
    for tag, cfg, num, depth in (("full", "cfg/DhtGen.sim.cfg", 3 if quick else 60, 70),
                                 ("full-overflow", "cfg/DhtGen.simr.cfg", 1 if quick else 8, 150)):
        r = ctx.tlc("periph/DhtGen", cfg, simulate=num, depth=depth, workers=2, timeout=1500, tag=tag)
        if r.violated or r.error:
            raise Infra("simulation %s failed: violated=%s error=%s\n%s" % (tag, r.violated, r.error, r.out[-2000:]))
        runs.append((tag, r, 16, DIST_L))
    tot = dict(cases=0, steps=0, tables=0, trans=0, mirror=0, model_broken=0)
    by_sig, conseq = {}, 0
    tstates = 0
    per_run = {}
    ctl = None
    for tag, r, msize, dist in runs:
        if r.nexports < 50:
            raise Infra("export of %s unexpectedly small (%d)" % (tag, r.nexports))
        prefix = os.path.join(ctx.work, "real_" + tag)
        h = ctx.harness([b, "replay", r.path, prefix, str(msize), json.dumps(dist)], timeout=1500)
        s = h["summary"]
        if s.get("cases") != r.nexports:
            raise Infra("replayed %s of %d exported behaviours (%s)" % (s.get("cases"), r.nexports, tag))
        samples += h["samples"][:1]
        snaps = open(prefix + ".snaps.ndjson").readlines()
        verdict, st = judge(ctx, snaps, "judge-" + tag)
        tstates += st
        if ctl is None:
            ctl = json.loads(snaps[-1])
        first = {}
        for line in open(prefix + ".trans.ndjson"):
            t = json.loads(line)
            if t["post"] in verdict:
                if t["pre"] in verdict:
                    conseq += 1
                    continue
                sig = "%s:%s" % (t["op"], verdict[t["post"]])
                by_sig[sig] = by_sig.get(sig, 0) + 1
                first.setdefault(sig, []).append(t)
        if verdict and not first:
            raise Infra("TLC found broken table states but none is reached from an intact state (%s)" % tag)
        want = {t["case"] for ts in first.values() for t in ts[:3]}
        docs = {}
        if want:
            for i, d in enumerate(r.exports()):
                if i in want:
                    docs[i] = d
                if i >= max(want):
                    break
        snapmap = None
        for sig, ts in first.items():
            for t in ts[:3]:
                if snapmap is None:
                    snapmap = {json.loads(x)["id"]: json.loads(x) for x in snaps}
                calls = docs[t["case"]]["calls"][:t["step"] + 1]
                ctx.violation(sig, "real table (%s instance) after %s breaks the property (%s): %s"
                              % (tag, " ".join("%s(%s)" % (c["op"], c.get("x") or ",".join(c.get("xs", []))) for c in calls),
                                 verdict[t["post"]], compact(snapmap[t["post"]]["snap"])[:900]),
                              {"mode": "replay", "instance": tag, "model_bucket_size": msize, "dist": dist, "calls": calls,
                               "table_after": snapmap[t["post"]]["snap"]})
        # the as-implemented variant predicted broken states: they must show up on the code,
        # unless the code no longer follows that variant (then the mirror comparison differs)
        if s.get("model_states_breaking_property", 0) and not verdict and not s.get("model_mirror_differences", 0):
            raise Infra("Dht.tla (as-implemented) predicts broken tables, the real table mirrors the model exactly, "
                        "yet TLC judged every real state intact (%s)" % tag)
        tot["cases"] += s.get("cases", 0)
        tot["steps"] += s.get("steps", 0)
        tot["tables"] += s.get("distinct_real_tables", 0)
        tot["trans"] += s.get("distinct_real_transitions", 0)
        tot["mirror"] += s.get("model_mirror_differences", 0)
        tot["model_broken"] += s.get("model_states_breaking_property", 0)
        per_run[tag] = dict(behaviours=s.get("cases"), operations=s.get("steps"), real_tables=s.get("distinct_real_tables"),
                            real_transitions=s.get("distinct_real_transitions"), broken_tables=len(verdict),
                            model_mirror_differences=s.get("model_mirror_differences"),
                            mirror_example=s.get("model_mirror_example") or None)
    # ---- negative control: a corrupted snapshot must be flagged by TLC
    bk = [x for x in ctl["snap"]["buckets"] if x["e"]]
    if not bk:
        raise Infra("no non-empty bucket for the negative control")
    bk[0]["e"].append(dict(bk[0]["e"][0]))
    ctl["id"] = 999999
    cv, _ = judge(ctx, [json.dumps(ctl) + "\n"], "negative-control")
    if 999999 not in cv:
        raise Infra("negative control: a table snapshot with a duplicated entry was judged intact by TraceDht.tla")

    ctx.finish("model_checking", dict(
        states=d_fixed.distinct + sum(r.distinct for _, r, _, _ in runs) + tstates,
        transitions=d_fixed.generated + sum(r.generated for _, r, _, _ in runs),
        traces_validated_against_impl=tot["cases"],
        samples=samples,
        behaviours_replayed=tot["cases"], operations_replayed=tot["steps"],
        real_tables_judged_by_tlc=tot["tables"], real_transitions=tot["trans"], per_run=per_run,
        broken_by_signature=by_sig, broken_consequences=conseq,
        design_repaired_variant="property proved on %d states" % d_fixed.distinct,
        design_as_implemented_variant="TLC counterexample: %s" % d_impl.violated if d_impl.violated else "no counterexample",
        model_states_breaking_property=tot["model_broken"], model_mirror_differences=tot["mirror"],
        negative_control="snapshot with duplicated entry flagged",
        exhaustive=True,
        rule="R: every transition of Dht.tla (as-implemented variant) over 4+2 nodes in 2 buckets of capacity 2 (real buckets "
             "pre-filled to 14), <=%d operations, with its path; seeded random behaviours of 70/150 operations over 36+4 nodes at "
             "the real capacity 16 (all successors of the last state); T: every distinct real table state judged by TLC"
             % (5 if quick else 9),
    ), assumptions=[
        "nodes are given chosen distance hashes through the export shim (one hash per identity); the network layer is not run",
        "the table is driven sequentially (the real table is only touched from the Network.loop goroutine)",
        "the operation the property calls bump is bucket.bump as reached through add",
    ])
