"""C35 — peer ban scores follow the documented decay rule.

Specification: specs/periph/BanScore.tla.  score(t) = persistent + floor(transient *
2^(-(t-last)/60)), transient forgotten after 1800 s, Increase adds to both parts and
reports score(t).  The transient part is carried as an exact rational enclosure
(8-digit enclosures of 2^(-k/60) checked for consistency by TLC, exact halving), so
every call has an interval of admitted integer results (two neighbouring integers
when the exact value sits on an integer boundary: counted as ambiguous, accepted).
  design : TLC checks TypeOK / NonNegative / Tight / Forgotten and the action property
           Monotone (an increase raises the persistent part by exactly the amount).
  R      : every transition of the bounded model (boundary clock steps 0, 1, 59, 60, 61,
           1799, 1800, 1801, negative; small persistent/transient amounts) is exported
           with its call path and admitted intervals and replayed through the
           explicit-time entry points of p2p/security and p2p/trust (hook files).
  T      : seeded random call sequences (arbitrary clock steps) are executed and the
           recorded results judged by TLC (TraceBanScore.tla).
  p2p/trust is additionally replayed without calling trust.Init() (the zero value is
  documented as ready for use).
"""
import copy
import json
import os
import re
import sys
from common import Infra, ndjson


def judge_traces(ctx, traces, tag):
    """Validate traces (lists of event dicts, each starting with a 'start' event) with
    TraceBanScore.tla.  Returns (deviations, rejected, states): deviations is a list of
    (trace_index, event_index, class) reported by the specification's NOTE lines,
    rejected a list of (trace_index, event_index)."""
    devs, rejected, states = [], [], 0
    todo = list(range(len(traces)))
    guard = 0
    while todo:
        guard += 1
        if guard > 12:
            break        # a dozen rejected traces are enough to classify the run
        lines, owner = [], []
        for ti in todo:
            for k, e in enumerate(traces[ti]):
                lines.append(e)
                owner.append((ti, k))
        r = ctx.tlc("periph/TraceBanScore", "cfg/TraceBanScore.cfg", workers=1, dfs=True, timeout=1500,
                    files={"trace.ndjson": ndjson(lines)}, tag=tag)
        states += r.distinct
        seen = set()
        hw = None
        for note in r.prints:
            m = re.match(r"dev (\d+) (\S+)", note)
            if m and int(m.group(1)) not in seen:
                seen.add(int(m.group(1)))
                ti, k = owner[int(m.group(1)) - 1]
                devs.append((ti, k, m.group(2)))
            m = re.match(r"hw (\d+)", note)
            if m:
                hw = int(m.group(1))
        if r.violated == "NotDone":
            break
        if r.violated is not None or r.error is not None:
            raise Infra("trace validation: unexpected TLC outcome violated=%s error=%s\n%s" % (r.violated, r.error, r.out[-2000:]))
        if hw is None:
            raise Infra("trace validation rejected without high-water mark\n%s" % r.out[-2000:])
        if hw > len(lines):
            break
        ti, k = owner[hw - 1]
        rejected.append((ti, k))
        devs = [d for d in devs if d[0] != ti or d[1] < k]
        todo = todo[todo.index(ti) + 1:]
    return devs, rejected, states


def fmt_trace(tr, upto):
    out, now = [], 100000
    for e in tr[1:upto + 1]:
        now += e["d"]
        if e["ev"] == "inc":
            out.append("Increase(%d,%d)@%d=%d" % (e["pa"], e["ta"], now, e["r"]))
        elif e["ev"] == "int":
            out.append("Int()@%d=%d" % (now, e["r"]))
        else:
            out.append("Reset()")
    return " ".join(out)


def replay(ctx, b):
    """./check C35 --replay <file>: re-execute one saved scenario and print the deviating call."""
    o = json.load(open(ctx.replay))["replay"]
    found = []
    if o.get("mode") == "trace":
        devs, rej, _ = judge_traces(ctx, [o["trace"]], "replay")
        found = ["%s: %s" % (cls, fmt_trace(o["trace"], k)) for _, k, cls in devs] + \
                ["outside-rule: %s" % fmt_trace(o["trace"], k) for _, k in rej]
        print("note: the recorded results are re-judged by TLC; the sequence itself is in the file")
    else:
        path = os.path.join(ctx.work, "replay.ndjson")
        with open(path, "w") as fh:
            fh.write(ndjson([o["calls"]]))
        h = ctx.harness([b, "replay", path, o.get("pkg", "security")])
        found = ["%s: %s" % (v["sig"], v["desc"]) for v in h["violations"]]
    for f in found:
        print("REPRODUCED " + f)
    if not found:
        print("not reproduced: every result lies in the interval admitted by BanScore.tla")
    sys.exit(1 if found else 0)


def run(ctx):
    b = ctx.build("c35")
    if ctx.replay:
        replay(ctx, b)
    quick = ctx.tier == "quick"
    samples = []
    runs = [("enum", ctx.tlc_design("periph/BanScoreGen", "cfg/BanScoreGen.%s.cfg" % ("quick" if quick else "thorough"),
                                    workers=1, timeout=2400, heap="8g", tag="enum")),
            ("deep", ctx.tlc_design("periph/BanScoreGen", "cfg/BanScoreGen.%s.cfg" % ("deepq" if quick else "deep"), workers=1,
                                    timeout=1200, tag="deep"))]
    big = ctx.tlc_design("periph/BanScoreBig", "cfg/BanScoreBig.cfg", workers=1, timeout=600, tag="big-transient-table")
    if big.nexports < 30:
        raise Infra("large-transient case table unexpectedly small (%d)" % big.nexports)
    runs.append(("big", big))
    tot = dict(cases=0, steps=0, exact=0, amb=0)
    by_sig = {}
    per_run = {}
    for tag, r in runs:
        if r.nexports < (1000 if tag != "big" else 30):
            raise Infra("export of %s unexpectedly small (%d)" % (tag, r.nexports))
        for pkg in ("security", "trust", "trust-noinit"):
            if pkg == "trust-noinit" and tag != "enum":
                continue
            h = ctx.harness([b, "replay", r.path, pkg], timeout=1500)
            s = h["summary"]
            if pkg != "trust-noinit" and s.get("cases") != r.nexports:
                raise Infra("replayed %s of %d exported sequences (%s/%s)" % (s.get("cases"), r.nexports, tag, pkg))
            tot["cases"] += s.get("cases", 0)
            tot["steps"] += s.get("steps", 0)
            tot["exact"] += s.get("results_exact", 0)
            tot["amb"] += s.get("results_ambiguous_boundary", 0)
            for sig, n in (s.get("deviations_by_signature") or {}).items():
                by_sig[sig] = by_sig.get(sig, 0) + n
            per_run[tag + ":" + pkg] = dict(cases=s.get("cases"), steps=s.get("steps"))
            if len(samples) < 3:
                samples += h["samples"][:1]

    # ---- T: random sequences judged by TLC
    ntr = 400 if quick else 6000
    ntraces, tstates, tevents = 0, 0, 0
    ctl = None
    for pkg in ("security", "trust"):
        tfile = os.path.join(ctx.work, "drive_%s.ndjson" % pkg)
        hd = ctx.harness([b, "drive", str(ntr), tfile, pkg], timeout=900)
        traces, cur = [], None
        for line in open(tfile):
            e = json.loads(line)
            if e["ev"] == "start":
                cur = []
                traces.append(cur)
            cur.append(e)
        ntraces += len(traces)
        tevents += hd["summary"].get("events", 0)
        for i in range(0, len(traces), 2000):
            batch = traces[i:i + 2000]
            devs, rej, st = judge_traces(ctx, batch, "trace-" + pkg)
            tstates += st
            for ti, k, cls in devs:
                tr = batch[ti]
                sig = "%s:%s:%s" % (pkg, tr[k]["ev"], cls) if not cls.startswith("transient0") else "%s:inc:%s" % (pkg, cls)
                by_sig[sig] = by_sig.get(sig, 0) + 1
                ctx.violation(sig, "random sequence: %s; BanScore.tla places this result in deviation class %s"
                              % (fmt_trace(tr, k), cls), {"mode": "trace", "pkg": pkg, "trace": tr[:k + 1]})
            for ti, k in rej:
                tr = batch[ti]
                ctx.violation("%s:%s:outside-rule" % (pkg, tr[k]["ev"]),
                              "random sequence: %s; the last result is not admitted by BanScore.tla" % fmt_trace(tr, k),
                              {"mode": "trace", "pkg": pkg, "trace": tr[:k + 1]})
        if ctl is None:
            for tr in traces:
                idx = [k for k, e in enumerate(tr) if e["ev"] in ("inc", "int")]
                if idx:
                    ctl = copy.deepcopy(tr[:idx[-1] + 1])
                    ctl[-1]["r"] += 1000
                    break
        if len(samples) < 5:
            samples += hd["samples"][:1]
    # ---- negative control: a corrupted recorded result must be rejected by TLC
    if ctl is None:
        raise Infra("no trace usable for the negative control")
    saved = (list(ctx.violations), list(ctx.known_hits))
    _, rej, _ = judge_traces(ctx, [ctl], "negative-control")
    ctx.violations, ctx.known_hits = saved
    if not rej:
        raise Infra("negative control: a corrupted recorded score was accepted by TraceBanScore.tla")

    ctx.finish("model_checking", dict(
        states=sum(r.distinct for _, r in runs) + tstates,
        transitions=sum(r.generated for _, r in runs) + tevents,
        traces_validated_against_impl=tot["cases"] + ntraces,
        samples=samples,
        sequences_replayed=tot["cases"], calls_replayed=tot["steps"], per_run=per_run,
        results_exact=tot["exact"], skipped_ambiguous=tot["amb"],
        random_traces=ntraces, random_events=tevents,
        deviations_by_signature=by_sig,
        negative_control="recorded score +1000 rejected",
        exhaustive=True,
        rule="R: every transition of BanScore.tla for clock steps %s, persistent %s, transient %s, <=3 calls, plus a deep "
             "instance (steps 1/60/1801, <=%d calls), each with its call path, and a TLC-evaluated table of one large transient amount (m*2^20, "
             "m in {777,1024,2047}) read after 14 delays around 1200/1800 s (forgetting clause), replayed on p2p/security and p2p/trust; "
             "T: %d seeded random sequences per package (2-8 calls, clock steps from boundaries, 0..200 and 0..4000) judged by TLC; "
             "results on an integer boundary of the exact value (two admitted integers) are accepted and counted as skipped_ambiguous"
             % ((("{0,1,60,61,1801,-1}", "{0,20}", "{0,1,20}") if quick else
                 ("{0,1,59,60,61,119,1799,1800,1801,-1,-61}", "{0,1,20}", "{0,1,2,20,100}")) + (4 if quick else 5, ntr)),
    ), assumptions=[
        "amounts stay far below 2^32 (no uint32 wrap-around); transient part below 1000 points",
        "a clock stepping backwards is outside the rule: any score between the persistent part and the undecayed sum is admitted",
        "the public Increase/Int (time.Now) are thin wrappers of the explicit-time entry points driven through the verif hook",
        "float64 results within 2e-6 points of the exact rational value",
    ])
