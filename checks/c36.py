"""C36 — RPC access control admits only authorised callers.

Specification: specs/periph/Authn.tla (tokens with id / fresh secret / deleted-at, cache window,
loopback vs non-loopback origin, the three local-only paths; credentials as atom sequences so
that every re-splitting of id \\o secret is a distinct request).
  design : TLC checks OnlyIssued / NoResplit on the rule itself.
  R      : every transition of the bounded model is exported with the call sequence reaching it
           and the outcome the specification allows ("admit" | "refuse" | "any"); the driver
           replays each against the real authn.API over a real CredentialStore (goleveldb).
           thorough tier adds the instance with a Wait step: one real 301 s sleep, after which
           a deleted token's pair must be refused.
"""
import json
import os
from common import Infra, ndjson


def run(ctx):
    b = ctx.build("c36")
    quick = ctx.tier == "quick"
    # sliding-window instance (both tiers): time advances in half-window steps, two real sleeps of 151 s; a pair used
    # every half window must still be refused once its token has been deleted for a whole window. Runs beside the rest.
    import threading
    rs = ctx.tlc_design("periph/AuthnGen", "cfg/AuthnGen.slide.cfg", timeout=600, tag="gen-slide", workers=4)
    slide = {}
    def _slide():
        try:
            slide["h"] = ctx.harness([b, "replay", rs.path, os.path.join(ctx.work, "dbs"), "half"], timeout=1500)
        except BaseException as e:      # re-raised in the main thread
            slide["err"] = e
    th = threading.Thread(target=_slide)
    th.start()
    # the design properties are asserted on every transition of the export runs; the separate
    # design instance (with Wait steps, `last` part of the state) is run in the thorough tier
    class _Z:
        distinct = generated = 0
    d = _Z() if quick else ctx.tlc_design("periph/Authn", "cfg/Authn.design.cfg", timeout=900, tag="design", workers=8)
    r = ctx.tlc_design("periph/AuthnGen", "cfg/AuthnGen.%s.cfg" % ("quick" if quick else "thorough"),
                       timeout=1500, tag="gen", workers=8)
    h = ctx.harness([b, "replay", r.path, os.path.join(ctx.work, "db")], timeout=1500)
    s = h["summary"]
    if s.get("cases", 0) != r.nexports or s.get("cases", 0) < 5000:
        raise Infra("replayed %s of %d exported behaviours" % (s.get("cases"), r.nexports))
    samples = h["samples"][:2]
    states, trans, cases = d.distinct + r.distinct, d.generated + r.generated, s["cases"]
    waited = None
    if not quick:
        rt = ctx.tlc_design("periph/AuthnGen", "cfg/AuthnGen.tried.cfg", timeout=1500, tag="gen-tried", workers=8)
        ht = ctx.harness([b, "replay", rt.path, os.path.join(ctx.work, "dbt")], timeout=1500)
        if ht["summary"].get("cases", 0) != rt.nexports:
            raise Infra("replayed %s of %d exported behaviours (tried instance)" % (ht["summary"].get("cases"), rt.nexports))
        states += rt.distinct
        trans += rt.generated
        cases += ht["summary"]["cases"]
        rw = ctx.tlc_design("periph/AuthnGen", "cfg/AuthnGen.wait.cfg", timeout=900, tag="gen-wait", workers=8)
        hw = ctx.harness([b, "replay", rw.path, os.path.join(ctx.work, "dbw"), "wait"], timeout=1500)
        waited = hw["summary"]
        if waited.get("cases", 0) < 1000 or waited.get("slept_s", 0) < 300.5:
            raise Infra("wait instance did not run as planned: %s" % waited)
        states += rw.distinct
        trans += rw.generated
        cases += waited["cases"]
        samples += hw["samples"][:1]
    th.join()
    if "err" in slide:
        raise slide["err"]
    slid = slide["h"]["summary"]
    if slid.get("cases", 0) < 100 or slid.get("slept_s", 0) < 301.5:
        raise Infra("sliding-window instance did not run as planned: %s" % slid)
    states += rs.distinct
    trans += rs.generated
    cases += slid["cases"]
    samples += slide["h"]["samples"][:1]
    # ---- negative control: flip one expected outcome, the driver must report it
    ctl = None
    for doc in r.exports():
        last = doc[-1]
        if last["op"] == "request" and last["allow"] == "admit" and last["origin"].startswith("ext"):
            ctl = json.loads(json.dumps(doc))
            ctl[-1]["allow"] = "refuse"
            break
    if ctl is None:
        raise Infra("no behaviour usable as negative control")
    cpath = os.path.join(ctx.work, "control.ndjson")
    with open(cpath, "w") as fh:
        fh.write(ndjson([ctl]))
    saved = (list(ctx.violations), list(ctx.known_hits))
    hc = ctx.harness([b, "replay", cpath, os.path.join(ctx.work, "dbc")], timeout=300)
    ctx.violations, ctx.known_hits = saved
    if not hc["violations"]:
        raise Infra("negative control: a flipped expected outcome was not reported by the driver")
    ctx.finish("model_checking", dict(
        states=states, transitions=trans, traces_validated_against_impl=cases, samples=samples,
        requests_replayed=s["requests"], requests_with_free_outcome=s["requests_any"],
        distinct_request_classes=s["distinct"], violations_by_signature=s.get("violations_by_sig"),
        wait_instance=waited, sliding_window_instance=slid, negative_control="flipped allow=admit to refuse was reported",
        exhaustive=True,
        rule="every transition of Authn.tla with ids {ab,a%s}, <=%d creates, 4 origin classes x 4 path classes x all "
             "generated credential pairs, replayed with its path; one earlier refused pair remembered as ghost state so that "
             "requests are also repeated/varied after a refusal (quick: 3x3 classes)" % (("", 2) if quick else (",b", 3)),
    ), assumptions=[
        "authentication enabled (disable=false); /dashboard and /equity static prefixes are not API requests and are not generated",
        "loopback requests without a live token are not constrained by the property (any outcome accepted)",
        "the 5 minute edge is exercised in real time: two 151 s sleeps (half-window steps, both tiers) and one 301 s sleep (thorough); all other steps of a behaviour take far less than half the window (checked)",
        "secrets are 32 random bytes: accidental equality of distinct atom sequences is ignored",
    ])
