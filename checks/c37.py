"""C37 — concurrent block, vote and transaction processing neither races nor deadlocks.

Specification: specs/chain/NodeLocks.tla, the synchronisation skeleton of the node as the code
structures it (block processor select loop, AuthVerification with the rollback request sent after
Casper.mu is released, cached-verification loop, ProcessBlock / ValidateTx / read-query callers,
bounded channels).
  design : TLC proves deadlock freedom and, under weak fairness per thread, <>AllCallsReturned
           and <>[]Quiescent on the bounded instances; on the variant DevHoldLockDuringRollback
           (the behaviour before the repair) TLC must FIND the deadlock, on DevCachedReadUnlocked
           (authCachedMsg as written) it must find the unsynchronised tree access.
  R      : every deadlock counterexample TLC produces on the DevHold variant (breadth-first
           shortest one, plus randomly simulated ones in the thorough tier) is replayed on the real
           node: the trace points (build tag verif) are blocking scheduler gates; a violation only
           if calls of the real node do not return (watchdog, confirmed by a second run).
  T      : seeded concurrent workloads on a real node (ProcessBlock of a forked block tree,
           ProcessBlockVerification of really signed verifications including the ones that
           justify a side-branch checkpoint and so change the best chain, ValidateTx, read
           queries) from up to 10 goroutines, half of them on the -race binary. Each call's
           begin/end and the lock / channel trace points are recorded with one atomic counter and
           validated by TLC against TraceNodeLocks.tla (silent steps are searched for).
  monitors: a call that does not return within the watchdog (reproduced once) -> blocked:<call>;
           a report of the Go race detector -> race:<access 1>/<access 2>.
"""
import copy
import json
import os
import sys

from common import Infra, NCPU

RESET = {"seq": 0, "th": "", "ev": "reset", "op": "", "k": ""}
TLC_WORKERS = min(8, NCPU)

POINT = {"VAcq": "mu.acq:auth", "VRel": "mu.rel:auth", "VSend": "rb.send",
         "BPTakeBlock": "bp.block", "BPTakeRb": "bp.rollback",
         "BPApplyAcq": "mu.acq:apply", "BPApplyRel": "mu.rel:apply",
         "CLAcq": "mu.acq:cached", "CLRel": "mu.rel:cached", "End": "end"}
BEGIN = {"VBegin": "vote", "FBegin": "block", "SBegin": "tx", "RBegin": "read"}


def schedule_of(cex_path):
    """Turn TLC's JSON counterexample (-dumpTrace json) into the gate schedule of the driver:
    the steps that have a trace point (or are a call's begin/end), in order, with their thread."""
    with open(cex_path) as fh:
        doc = json.load(fh)
    steps, actions = [], []
    for tr in doc["counterexample"]["action"]:
        act = tr[1]
        name, cx = act["name"], act.get("context", {})
        th = cx.get("v") or cx.get("f") or cx.get("s") or cx.get("r") or cx.get("t")
        if name.startswith("BP"):
            th = "bp"
        elif name.startswith("CL"):
            th = "cl"
        actions.append("%s(%s)" % (name, ",".join(str(v) for v in cx.values())))
        if name in BEGIN:
            arg = BEGIN[name]
            if name == "RBegin":
                arg = "read:" + cx.get("kind", "main")
            steps.append({"th": th, "pt": "begin", "arg": arg})
        elif name == "VWork" and cx.get("changed") in (True, "TRUE"):
            for s in reversed(steps):
                if s["th"] == th and s["pt"] == "begin":
                    s["arg"] = "vote:chg"
                    break
        elif name in POINT:
            steps.append({"th": th, "pt": POINT[name], "arg": ""})
    return steps, actions


def run_child(ctx, argv, timeout=240):
    """Run `c37 one|directed ...` and return its RES record (None when the process died)."""
    p = ctx.run(argv, timeout=timeout)
    res = None
    for line in p.stdout.splitlines():
        if line.startswith("RES "):
            res = json.loads(line[4:])
        elif line.startswith("VH ") and '"kind":"infra"' in line:
            raise Infra("c37 driver: %s" % line[3:300])
    return res, p


def read_trace(path):
    return [json.loads(l) for l in open(path) if l.strip()]


def replay_schedule(ctx, binary, steps, actions, label, stats):
    """Directed R: the schedule of a specification deadlock on the real node."""
    sfile = os.path.join(ctx.work, "sched_%s.json" % label)
    with open(sfile, "w") as fh:
        json.dump(steps, fh)
    tfile = os.path.join(ctx.work, "directed_%s.ndjson" % label)
    res, p = run_child(ctx, [binary, "directed", sfile, tfile])
    stats["replayed"] += 1
    if res is None:
        raise Infra("directed replay %s: driver died (rc %s): %s" % (label, p.returncode, p.stderr[-1500:]))
    stats["notes"].append("%s: %d gates, %s, blocked=%s" % (label, len(steps), res.get("schedule") or "free run", res.get("blocked")))
    if not res.get("blocked"):
        return None
    res2, _ = run_child(ctx, [binary, "directed", sfile, tfile + ".again"])
    if res2 is None or not res2.get("blocked"):
        stats["unreproduced"] += 1
        return None
    stats["reproduced"] += 1
    op = "driver"
    for cand in ("vote", "block", "tx", "read", "cachedloop"):
        if any(b.startswith(cand + "@") for b in res2["blocked"]):
            op = cand
            break
    ctx.violation("blocked:" + op,
                  "the real node stops making progress in a schedule the specification variant DevHoldLockDuringRollback "
                  "deadlocks in: calls %s did not return within the watchdog (twice). State: the node's own and validator 1's "
                  "verification are on side checkpoint B2, branch A (3 blocks) is the best chain; schedule: %s"
                  % (res2["blocked"], " ".join(actions)),
                  {"mode": "directed", "schedule": steps, "tlc_actions": actions, "blocked": res2["blocked"],
                   "trace": read_trace(tfile + ".again") if os.path.exists(tfile + ".again") else []})
    return res2


def replay(ctx, b, br):
    """./check C37 --replay <file>: re-run the saved workload / schedule on the real node."""
    o = json.load(open(ctx.replay))["replay"]
    out = os.path.join(ctx.work, "replay.ndjson")
    if o.get("mode") == "directed":
        sfile = os.path.join(ctx.work, "replay_sched.json")
        with open(sfile, "w") as fh:
            json.dump(o["schedule"], fh)
        res, p = run_child(ctx, [b, "directed", sfile, out])
    else:
        res, p = run_child(ctx, [br if o.get("binary") == "race" else b, "one", str(o["seed"]), out],
                           timeout=400)
    races = [l for l in p.stderr.splitlines() if "DATA RACE" in l]
    if res is not None and res.get("blocked"):
        print("REPRODUCED: calls did not return within the watchdog: %s" % res["blocked"])
        sys.exit(1)
    if races:
        print("REPRODUCED: the race detector reported %d data race(s):\n%s" % (len(races), p.stderr[:3000]))
        sys.exit(1)
    if res is None:
        print("REPRODUCED: the node process died (rc %s):\n%s" % (p.returncode, p.stderr[-2000:]))
        sys.exit(1)
    if "trace" in o and "rejected_event" in o:
        rej, _ = ctx.validate_traces("chain/TraceNodeLocks", "cfg/TraceNodeLocks.cfg", [o["trace"]], reset=RESET, tag="replay")
        if rej:
            print("REPRODUCED: the saved trace is rejected by TraceNodeLocks.tla at event %d: %s" % (rej[0][1], json.dumps(o["trace"][rej[0][1]])))
            sys.exit(1)
    print("not reproduced in this run (concurrent schedules vary): every call returned, no race report; %s" % json.dumps(res)[:400])
    sys.exit(0)


def run(ctx):
    quick = ctx.tier == "quick"
    b = ctx.build("c37")
    br = ctx.build("c37", race=True)
    if ctx.replay:
        replay(ctx, b, br)
    samples = []
    # ------------------------------------------------------------------ design
    designs = []
    cfgs = ["cfg/NodeLocks.quick.cfg", "cfg/NodeLocks.pool.cfg"] if quick else \
           ["cfg/NodeLocks.quick.cfg", "cfg/NodeLocks.pool.cfg", "cfg/NodeLocks.caps2.cfg", "cfg/NodeLocks.full.cfg"]
    for cfg in cfgs:
        r = ctx.tlc_design("chain/NodeLocks", cfg, deadlock=True, workers=TLC_WORKERS, timeout=3000,
                           heap="8g", tag="design:" + os.path.basename(cfg))
        if r.distinct < 1000:
            raise Infra("design instance %s unexpectedly small (%d states)" % (cfg, r.distinct))
        designs.append(r)
    # the model must be able to see both defects
    rdev = ctx.tlc("chain/NodeLocks", "cfg/NodeLocks.devhold.cfg", deadlock=True, workers=TLC_WORKERS, timeout=1200,
                   extra=["-dumpTrace", "json", "cex.json"], tag="dev:hold-lock-during-rollback")
    if rdev.violated != "deadlock":
        raise Infra("NodeLocks.tla with DevHoldLockDuringRollback=TRUE: TLC did not find the deadlock (violated=%s error=%s)\n%s"
                    % (rdev.violated, rdev.error, rdev.out[-1500:]))
    rrace = ctx.tlc("chain/NodeLocks", "cfg/NodeLocks.devrace.cfg", deadlock=True, workers=TLC_WORKERS, timeout=1200,
                    tag="dev:cached-read-unlocked")
    if rrace.violated != "NoUnsyncTreeAccess":
        raise Infra("NodeLocks.tla with DevCachedReadUnlocked=TRUE: TLC did not find the unsynchronised access (violated=%s error=%s)"
                    % (rrace.violated, rrace.error))
    if not quick:
        # design exploration of a candidate repair of the recorded C11 finding (cached verifications request no rollback):
        # letting the loop wait for the block processor closes a wait cycle through newEpochCh unless the queue has room
        rcw = ctx.tlc("chain/NodeLocks", "cfg/NodeLocks.cachedwait.cfg", deadlock=True, workers=TLC_WORKERS, timeout=600,
                      tag="candidate-repair:cached-rollback-waits")
        if rcw.violated != "deadlock":
            raise Infra("NodeLocks.tla with CachedRollback=TRUE, EpochCap=1: TLC did not find the wait cycle (violated=%s error=%s)"
                        % (rcw.violated, rcw.error))
        ctx.tlc_design("chain/NodeLocks", "cfg/NodeLocks.cachedroom.cfg", deadlock=True, workers=TLC_WORKERS, timeout=600,
                       tag="candidate-repair:cached-rollback-waits, queue with room")
    # ------------------------------------------------------------------ directed R
    stats = dict(replayed=0, reproduced=0, unreproduced=0, notes=[])
    cexes = [(os.path.join(rdev.scratch, "cex.json"), "bfs")]
    if not quick:
        for k in range(6):
            rs = ctx.tlc("chain/NodeLocks", "cfg/NodeLocks.devhold.cfg", deadlock=True, workers=1, timeout=600,
                         simulate=100000, depth=60, seed=ctx.seed * 31 + k,
                         extra=["-dumpTrace", "json", "cex.json"], tag="dev:hold-simulated-%d" % k)
            if rs.violated == "deadlock" and os.path.exists(os.path.join(rs.scratch, "cex.json")):
                cexes.append((os.path.join(rs.scratch, "cex.json"), "sim%d" % k))
    seen = set()
    for path, label in cexes:
        steps, actions = schedule_of(path)
        key = json.dumps(steps)
        if key in seen or not any(s["arg"] == "vote:chg" for s in steps):
            continue
        seen.add(key)
        replay_schedule(ctx, b, steps, actions, label, stats)
        if label == "bfs":
            samples.append({"tlc_deadlock_schedule": actions, "gates": steps[:12]})
    if stats["replayed"] == 0:
        raise Infra("no deadlock schedule of the specification could be turned into a replay")
    if stats["unreproduced"]:
        raise Infra("a directed schedule blocked once but not twice: %s" % stats["notes"])
    # ------------------------------------------------------------------ T: seeded concurrent workloads
    n = 28 if quick else 300
    par = max(2, min(8, NCPU // 2))
    traces, tot = [], {}
    for binary, kind in ((b, "plain"), (br, "race")):
        outdir = os.path.join(ctx.work, "traces_" + kind)
        h = ctx.harness([binary, "pool", str(n), outdir, str(par)], timeout=3000,
                        env={"VERIF_SEED": str(ctx.seed * 2 + (1 if kind == "race" else 0))})
        s = h["summary"]
        if s.get("unreproduced"):
            raise Infra("%d workload(s) of the %s binary blocked or died once but not when re-run with the same seed" % (s["unreproduced"], kind))
        for f in s.get("files", []):
            traces.append((kind, f, read_trace(f)))
        for k, v in s.items():
            if isinstance(v, int) and k != "unreproduced":
                tot[k] = tot.get(k, 0) + v
    if not ctx.violations and (tot.get("rollback_requests", 0) == 0 or tot.get("cached_sections", 0) == 0):
        raise Infra("vacuous run: the workloads never reached the rollback path / the cached-verification path: %s" % tot)
    tstates, rejected, tvalidated = 0, 0, 0
    for i in range(0, len(traces), 20):      # <= 20 per call: one TLC re-run per rejected trace stays below the helper's limit
        if rejected >= 8:                    # enough to classify a broken tree; the rest is not judged
            break
        batch = traces[i:i + 20]
        tvalidated += len(batch)
        rej, st = ctx.validate_traces("chain/TraceNodeLocks", "cfg/TraceNodeLocks.cfg", [t for _, _, t in batch],
                                      reset=RESET, tag="trace", timeout=2400, heap="8g")
        tstates += st
        for ti, k in rej:
            kind, f, tr = batch[ti]
            ev = tr[k] if 0 <= k < len(tr) else None
            rejected += 1
            ctx.violation("trace:%s:%s" % (ev and ev["ev"], ev and ev["op"]),
                          "concurrent execution of the real node not explained by NodeLocks.tla: event %d %s of thread %s cannot follow "
                          "the validated prefix (recorded order of lock / channel trace points and call begin/end contradicts the "
                          "synchronisation skeleton); preceding events: %s"
                          % (k, json.dumps(ev), ev and ev["th"], json.dumps(tr[max(0, k - 8):k])),
                          {"mode": "one", "binary": kind, "trace_file": f, "trace": tr, "rejected_event": k})
    # ------------------------------------------------------------------ negative controls (binding is live)
    controls = []
    saved = (list(ctx.violations), list(ctx.known_hits))
    for _, _, tr in traces:
        idx = [k for k, e in enumerate(tr) if e["ev"] == "rb.send"]
        if idx and "send-inside-lock" not in controls:
            # move the rollback request of a verifier in front of its release of Casper.mu
            k = idx[0]
            th = tr[k]["th"]
            j = max(q for q in range(k) if tr[q]["th"] == th and tr[q]["ev"] == "mu.rel")
            bad = copy.deepcopy(tr)
            bad.insert(j, bad.pop(k))
            rej, _ = ctx.validate_traces("chain/TraceNodeLocks", "cfg/TraceNodeLocks.cfg", [bad], reset=RESET, tag="negative-control")
            if not rej:
                raise Infra("negative control: a trace with the rollback request sent inside Casper.mu was accepted")
            controls.append("send-inside-lock")
        idx = [k for k, e in enumerate(tr) if e["ev"] == "mu.rel" and e["op"] == "apply"]
        if len(idx) > 2 and "overlapping-sections" not in controls:
            # drop a release: the next acquisition overlaps the section
            bad = copy.deepcopy(tr)
            del bad[idx[1]]
            rej, _ = ctx.validate_traces("chain/TraceNodeLocks", "cfg/TraceNodeLocks.cfg", [bad], reset=RESET, tag="negative-control")
            if not rej:
                raise Infra("negative control: a trace with overlapping write sections of Casper.mu was accepted")
            controls.append("overlapping-sections")
        if len(controls) == 2:
            break
    ctx.violations, ctx.known_hits = saved
    if len(controls) < 2 and not ctx.violations:
        raise Infra("negative controls could not be built from the recorded traces: %s" % controls)
    if traces:
        samples.append({"concurrent_trace_head": traces[0][2][:14]})
        rb = [t for _, _, t in traces if any(e["ev"] == "rb.send" for e in t)]
        if rb:
            k = [i for i, e in enumerate(rb[0]) if e["ev"] == "rb.send"][0]
            samples.append({"rollback_path": rb[0][max(0, k - 4):k + 6]})
    # ------------------------------------------------------------------ sustained contention (progress only)
    # "leaf sections" is an assumption of NodeLocks.tla about the callers' lock use; a leaf section that takes the same
    # read lock twice, or another lock, only blocks under sustained contention: every kind of caller is kept busy
    hs = ctx.harness([b, "stress", "6" if quick else "20", "2" if quick else "4"], timeout=1500)
    stress = hs["summary"]
    if stress.get("stress_calls", 0) < 10000 and not hs["violations"]:
        raise Infra("the contention rounds completed only %s calls" % stress.get("stress_calls"))
    ctx.finish("model_checking", dict(
        states=sum(r.distinct for r in designs) + rdev.distinct + rrace.distinct + tstates,
        transitions=sum(r.generated for r in designs) + rdev.generated + rrace.generated,
        traces_validated_against_impl=tvalidated,
        samples=samples,
        design_instances=[dict(cfg=c, distinct=r.distinct, generated=r.generated, depth=r.depth, wall_s=round(r.wall, 1))
                          for c, r in zip(cfgs, designs)],
        dev_variant_deadlock_depth=rdev.depth, dev_variant_race_invariant=rrace.violated,
        directed_schedules_replayed=stats["replayed"], directed_schedules_blocking_real_node=stats["reproduced"],
        directed_notes=stats["notes"],
        workloads=tot.get("workloads", 0), workloads_on_race_binary=n, events=tot.get("events", 0),
        calls=dict(block=tot.get("calls_block", 0), vote=tot.get("calls_vote", 0), tx=tot.get("calls_tx", 0), read=tot.get("calls_read", 0)),
        rollback_requests=tot.get("rollback_requests", 0), cached_verification_sections=tot.get("cached_sections", 0),
        race_reports=tot.get("race_reports", 0), blocked_workloads=tot.get("blocked_workloads", 0),
        caller_panics=tot.get("caller_panics", 0), sustained_contention=stress,
        traces_rejected=rejected, trace_validation_states=tstates, negative_controls=controls,
        exhaustive=True,
        rule="design: TLC exhaustive (deadlock + liveness under WF) on the bounded instances; R: TLC deadlock counterexamples of the "
             "DevHold variant replayed with gates; T: %d + %d seeded workloads (1-3 feeders, 2-3 verifiers, 1-2 submitters, 1-2 readers; "
             "block tree A/B/C with two competing checkpoints; verifications of validators 1 and 2 incl. bad signature, unknown target, "
             "duplicate)" % (n, n),
    ), assumptions=[
        "read sections of Casper.mu, the cond.L sections and the txpool calls of callers are leaf sections (no blocking operation inside, "
        "nothing else held), modelled as one step; Go's writer preference cannot close a waiting cycle through a leaf section",
        "channel capacities 1024/64/64 are scaled to 1 (and 2 in the thorough tier) in the design instances; the trace specification uses the real capacities",
        "sequence numbers come from one atomic counter read before a call starts, after it returned, and inside the critical section for lock trace points",
        "data races are decided by the Go race detector on the executed workloads (a monitor, not TLC); it reports only races it observes",
        "wallet, p2p and RPC goroutines are not part of the driven node; transactions are never included in blocks (no pool restore on reorganisation)",
    ])
