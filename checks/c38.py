"""C38 — blocks proposed by the node pass the node's own validation.

Scenarios come from specs/chain/Ledger.tla (chains with forks and reorganisations; menu transactions
— valid, conflicting, chained, immature, locked — submitted to the pool through Chain.ValidateTx). After
the last call of each replayed path the node, configured as validator 1 of 2, builds and signs a block
for its own slot with proposal.NewBlockTemplate and the block is fed back through ProcessBlock: it must
be accepted (not an orphan, no error) and become the best block. Heights 15 and 17 make the proposed
block pay the previous epoch's rewards (fees and subsidy accumulated on that branch).
Paths in which a stored branch does not apply are skipped (recorded finding of C11).
"""
import chain_lib


def run(ctx):
    parts = [chain_lib.run_ledger(ctx, mode="propose")]
    chain_lib.finish_chain(ctx, parts,
        rule="every k-th transition of Ledger.tla (configs and strides listed), replayed with its path; then NewBlockTemplate + ProcessBlock",
        assumptions=["no wallet (default coinbase program)", "pool content is whatever the real pool admitted from the submissions",
                     "gas-heavy transactions are not part of the menu"])
