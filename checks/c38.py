"""C38 — blocks proposed by the node pass the node's own validation.

Part 1 (chains and menu pools). Scenarios come from specs/chain/Ledger.tla (chains with forks and
reorganisations; menu transactions — valid, conflicting, chained, immature, locked — submitted to the pool
through Chain.ValidateTx). After the last call of each replayed path the node, configured as validator 1 of 2,
builds and signs a block for its own slot with proposal.NewBlockTemplate and the block is fed back through
ProcessBlock: it must be accepted (not an orphan, no error) and become the best block. Heights 15 and 17 make
the proposed block pay the previous epoch's rewards (fees and subsidy accumulated on that branch).
Paths in which a stored branch does not apply are skipped (recorded finding of C11).

Part 2 (gas-heavy, batched, chained and conflicting pools; checks/c38_lib.py). specs/chain/Proposer.tla states
what a template built from a pool may contain (any selection that applies to the ledger of the best block within
the block gas budget; never a child without its parent, both sides of a double spend, or more gas than the
budget); ProposerGen.tla enumerates pools of 50 transactions around the budget (32..36 transactions of ~293,000
gas, 34 fill a block) with a chained pair / chain of three / fork / conflicting pair placed relative to the
transaction that no longer fits and to the proposer's batches of 16. harness/cmd/c38 loads every pool into a real
mempool with real transactions, the node proposes at a mid-epoch or reward-paying height and is given its own
block back; ProposerJudge.tla judges the recorded template.
"""
import chain_lib
import c38_lib


def run(ctx):
    parts = [chain_lib.run_ledger(ctx, mode="propose"), c38_lib.run_heavy(ctx)]
    heavy = parts[1]
    samples = []
    for p in parts:
        samples += p["samples"][:2]
    if not samples:
        samples = [{"note": "no sample emitted by the replay workers"}]
    ctx.finish("model_checking", dict(
        states=sum(p["states"] for p in parts), transitions=sum(p["transitions"] for p in parts),
        traces_validated_against_impl=sum(p["cases"] for p in parts), samples=samples[:4],
        node_calls_replayed=sum(p["calls"] for p in parts),
        distinct_paths=sum(p["distinct"] for p in parts),
        divergences_attributed_to_other_properties=sum(p["other"] for p in parts),
        casper_configs=[c for p in parts for c in p.get("configs", [])],
        ledger_paths_replayed=parts[0]["cases"],
        heavy_pools_replayed=heavy["cases"], heavy_pools=heavy["counters"], judge_controls=heavy["controls"],
        exhaustive=True,
        rule="part 1: every k-th transition of Ledger.tla (configs and strides listed), replayed with its path; then NewBlockTemplate + "
             "ProcessBlock. part 2: every pool exported by ProposerGen.tla loaded into a real mempool, NewBlockTemplate + ProcessBlock, "
             "the template judged by ProposerJudge.tla"),
        assumptions=["no wallet (default coinbase program)",
                     "part 1: pool content is whatever the real pool admitted from the submissions",
                     "part 2: one input and one spendable output per pool transaction; a child arrives after its parent (no orphan "
                     "promotion); gas is storage gas (serialized size) of OP_TRUE spends; gas scale 1 unit = 285,715..293,976 gas "
                     "(checked on every transaction built)",
                     "the proposer's time limits are never reached (warn 1 h, critical 2 h)"])
