"""C38, second part: the proposer under gas-heavy, batched, chained and conflicting pools.

  shapes : specs/chain/ProposerGen.tla enumerates pools around the block gas budget (34 maximal
           transactions fill a block; batches of 16) with a chained pair / chain of three / fork /
           conflicting pair placed relative to the point where the gas runs out and to the batch
           boundaries; TLC checks the builder model's invariants (what a node must never put into a
           template) and exports every pool as a case.
  replay : harness/cmd/c38 loads each pool into a real node's mempool with real transactions
           (heavy = ~293,000 bytes of storage gas), lets the node build and sign a block for its own
           slot and feeds the block back; it records template, ProcessBlock's answer, best block.
  judge  : specs/chain/ProposerJudge.tla evaluates the property-level predicate on every recorded
           template (child without parent, conflict pair, over budget, duplicate, unknown transaction;
           and, independently, applying the template to the ledger of the best block).
A violation is raised when the node does not accept its own block (the signature names the clause
the specification finds broken in the template) or when it accepts a template the specification forbids.
"""
import json
import os

import chain_lib
from common import Infra, ndjson

HEAVY_CFGS = {
    "quick": ("cfg/ProposerGen.quick.cfg", 1, 20),
    "thorough": ("cfg/ProposerGen.thorough.cfg", 1, 300),
}
ORDER = ["child-without-parent", "conflict-pair", "over-budget", "duplicate", "unknown-transaction"]


def _rel(pool):
    return [dict(id=t["id"], w=t["w"], spends=t["in"]) for t in pool
            if t.get("parent") or t.get("conflicts") or any(u["in"] == t["id"] for u in pool)]


def _synthetic(case, pool, template):
    return dict(rec=0, case=case, pool=pool, template=template,
                gas=[293000 if t["w"] == "heavy" else 138 for t in pool])


def _controls(docs):
    """Negative (and one positive) controls built from the specification's own greedy template of
    exported pools: (case id, record, clause that must be reported; None = must be judged valid)."""
    out = []
    want = {"child-without-parent": None, "conflict-pair": None, "over-budget": None, "duplicate": None, None: None}
    for d in docs:
        pool, g = d["pool"], d["greedy"]
        gs = set(g)
        if want[None] is None:
            want[None] = _synthetic(0, pool, list(g))
        if want["duplicate"] is None and g:
            want["duplicate"] = _synthetic(0, pool, list(g) + [g[0]])
        for t in pool:
            if want["child-without-parent"] is None and t["parent"] and t["id"] in gs and t["parent"] in gs:
                want["child-without-parent"] = _synthetic(0, pool, [x for x in g if x != t["parent"]])
            if want["conflict-pair"] is None and t["conflicts"] and t["id"] in gs and t["conflicts"] not in gs:
                want["conflict-pair"] = _synthetic(0, pool, list(g) + [t["conflicts"]])
            if want["over-budget"] is None and t["w"] == "heavy" and t["id"] not in gs and not t["parent"] and not t["conflicts"] \
                    and sum(1 for x in g if pool[x - 1]["w"] == "heavy") == d["budget"]:
                want["over-budget"] = _synthetic(0, pool, list(g) + [t["id"]])
    k = 0
    for cls, rec in want.items():
        if rec is None:
            raise Infra("no exported pool lends itself to the control for %r" % cls)
        k += 1
        rec["case"] = -k
        out.append((-k, rec, cls))
    return out


def run_heavy(ctx, timeout=3000):
    b = ctx.build("c38")
    cfg, stride, min_cases = HEAVY_CFGS[ctx.tier]
    r = chain_lib.tlc_cached(ctx, "chain/ProposerGen", cfg, timeout=timeout, tag="proposer pools", workers=8, min_exports=min_cases)
    docs = list(r.exports())
    h = chain_lib.replay_cached(ctx, b, [str(stride)], r.path, timeout=timeout, verb="heavy")
    recs = [s for s in h["samples"] if isinstance(s, dict) and s.get("rec") == 1]
    s = h["summary"]
    want = (r.nexports + stride - 1) // stride
    if (len(recs) != s.get("cases", 0) or abs(len(recs) - want) > 1) and not h["violations"]:
        raise Infra("c38 replay covered %d (records %d) of %d exported pools" % (s.get("cases", 0), len(recs), want))

    # ---- judge every recorded template with the specification (plus controls)
    controls = _controls(docs)
    lines = recs + [c[1] for c in controls]
    j = ctx.tlc("chain/ProposerJudge", "cfg/ProposerJudge.cfg", workers=4, timeout=1200, tag="judge templates",
                files={"obs.ndjson": ndjson(lines)})
    if not j.ok:
        raise Infra("TLC failed while judging the recorded templates: violated=%s error=%s\n%s" % (j.violated, j.error, j.out[-2000:]))
    verdict = {}
    for v in j.exports():
        verdict[v["case"]] = v
    if len(verdict) != len(lines):
        raise Infra("TLC judged %d of %d records" % (len(verdict), len(lines)))
    for v in verdict.values():
        if not (v["wellformed"] and v["agree"] and v["scaled"]):
            raise Infra("judge: record %s: pool well-formed=%s, structural and ledger readings agree=%s, gas scaling holds=%s"
                        % (v["case"], v["wellformed"], v["agree"], v["scaled"]))
    for cid, rec, cls in controls:
        v = verdict[cid]
        if cls is None:
            if v["classes"] or not v["valid"]:
                raise Infra("positive control: the specification's own greedy template was judged %s" % v["classes"])
        elif cls not in v["classes"] or v["valid"]:
            raise Infra("negative control not rejected: corrupted template (%s) judged %s valid=%s" % (cls, v["classes"], v["valid"]))

    # ---- verdicts on the real node
    cnt = dict(accepted=0, full=0, greedy=0, not_in_arrival_order=0, pays_rewards=0, mid_epoch=0,
               pools_with_conflict=0, pools_child_in_later_batch=0, pools_child_of_unfit_parent=0,
               pools_unfit_parent_child_in_later_batch=0, pool_txs=0, heavy_txs=0, txs_in_templates=0)
    shapes = set()
    samples = []
    for rec in sorted(recs, key=lambda x: x["case"]):
        d = docs[rec["case"]]
        v = verdict[rec["case"]]
        rel = _rel(rec["pool"])
        cls = next((c for c in ORDER if c in v["classes"]), None)
        ro = dict(engine="c38", prop="C38", case=rec["case"], mode=rec["mode"], height=rec["height"], nheavy=d["nheavy"],
                  related=rel, first_unfit=d["firstunfit"], template=rec["template"], classes=v["classes"],
                  err=rec["err"], pool=[[t["id"], t["w"], t["in"]] for t in rec["pool"]])
        what = "pool of %d transactions (%d heavy; related: %s), node proposing at height %d (%s)" % (
            len(rec["pool"]), d["nheavy"], ", ".join("%d:%s spends %s" % (t["id"], t["w"], t["spends"]) for t in rel) or "none",
            rec["height"], rec["mode"])
        if rec.get("blocked"):
            raise Infra("ProcessBlock did not return within the watchdog time on the node's own block (%s)" % what)
        if not rec["built"]:
            ctx.violation("C38:proposer:template-fails:heavy", "%s: %s" % (what, rec["err"]), ro)
            continue
        missing = [t["id"] for t in rec["pool"] if t["id"] not in rec["template"]]
        tdesc = "template = the pool without %s" % missing if len(missing) <= 25 else "template = %s" % rec["template"]
        if not rec["accepted"]:
            ctx.violation("C38:proposer:own-block-rejected:heavy:%s" % (cls or "valid-template"),
                          "%s: the node did not accept the block it built and signed itself: orphan=%s err=%s; %s; the specification finds in it: %s"
                          % (what, rec["orphan"], rec["err"], tdesc, ", ".join(v["classes"]) or "nothing wrong (the template applies to the ledger of the best block within the gas budget)"), ro)
            continue
        if cls is not None:
            ctx.violation("C38:proposer:forbidden-template-accepted:heavy:%s" % cls,
                          "%s: the node built, signed and accepted a block whose transactions the specification forbids (%s); %s"
                          % (what, ", ".join(v["classes"]), tdesc), ro)
            continue
        if not rec["best"]:
            ctx.violation("C38:proposer:own-block-not-best:heavy", "%s: the block was stored but did not become the best block; %s" % (what, tdesc), ro)
            continue
        cnt["accepted"] += 1
        cnt["full"] += v["units"] == d["budget"]
        cnt["greedy"] += bool(v["greedy"])
        cnt["not_in_arrival_order"] += not v["inorder"]
        cnt["pays_rewards" if rec["mode"] == "pays-rewards" else "mid_epoch"] += 1
        cnt["pools_with_conflict"] += bool(d["hasconflict"])
        cnt["pools_child_in_later_batch"] += bool(d["crossbatch"])
        cnt["pools_child_of_unfit_parent"] += bool(d["parentunfit"])
        cnt["pools_unfit_parent_child_in_later_batch"] += bool(set(d["parentunfit"]) & set(d["crossbatch"]))
        cnt["pool_txs"] += len(rec["pool"])
        cnt["heavy_txs"] += d["nheavy"]
        cnt["txs_in_templates"] += len(rec["template"])
        shapes.add(json.dumps([d["nheavy"], rel]))
        if len(samples) < 2 and (d["parentunfit"] or d["hasconflict"]):
            samples.append(dict(case=rec["case"], nheavy=d["nheavy"], related=rel, first_unfit=d["firstunfit"], proposing=rec["mode"],
                                template_leaves_out=missing, gas_of_template=v["gas"], units=v["units"], accepted=True, best=True))
    return dict(tlc=[r, j], cases=len(recs), calls=s.get("calls", 0), distinct=len(shapes), samples=samples, other=len(h["other"]),
                states=r.distinct + j.distinct, transitions=r.generated + j.generated,
                configs=[dict(cfg=os.path.basename(cfg), exported_paths=r.nexports, replayed=len(recs), stride=stride, replay_cached=h["cached"])],
                counters=cnt, controls=len(controls))
