"""C39 — event subscribers see posted events in order, once each.

Specification: specs/periph/Event.tla (dispatcher as the code structures it:
Post = snapshot + per-receiver deliveries; Unsubscribe = del + close).
  design : TLC checks ExactlyDue / OnlyDueOnce / InOrder / Entitled / PosterOrder
           on the sequential instance and on the 2-poster non-atomic instance.
  R      : every transition of the sequential instance is exported with its call
           path and replayed against event.Dispatcher (results, channel lengths,
           Closed()); a second instance with channel capacity 2 is replayed with
           every model event scaled to 32768 real events (capacity 65536).
  T      : randomised concurrent workloads (posters, unsubscribers, Stop, blocking
           readers) are logged and validated by TraceEvent.tla, which searches for
           a placement of the silent internal steps that explains every result.
  storm  : long concurrent runs (6-11 subscribers of one type, 2-3 posters x 30-59 posts, 2-4
           subscribers from the middle of the list unsubscribing meanwhile); TLC evaluates
           EventStorm.tla (what OnlyDueOnce / InOrder / ExactlyDue say about a whole reception)
           over every run.
"""
import copy
import json
import os
from common import Infra


def run(ctx):
    b = ctx.build("c39")
    quick = ctx.tier == "quick"
    samples = []
    # ---- R: sequential replay of all transitions
    r = ctx.tlc_design("periph/EventSeq", "cfg/EventSeq.%s.cfg" % ("quick" if quick else "thorough"),
                       timeout=1500, tag="seq")
    out = os.path.join(r.scratch, "tlc.out")
    h1 = ctx.harness([b, "seq", out, "1"], timeout=1500)
    if h1["summary"].get("cases", 0) < 1000:
        raise Infra("sequential export unexpectedly small: %s" % h1["summary"])
    samples += h1["samples"][:2]
    r2 = ctx.tlc_design("periph/EventSeq", "cfg/EventSeq.full.cfg", timeout=600, tag="full-queue")
    h2 = ctx.harness([b, "seq", os.path.join(r2.scratch, "tlc.out"), "32768"], timeout=1500)
    # ---- design check of the concurrent instance
    r3 = ctx.tlc_design("periph/Event", "cfg/Event.conc.cfg", timeout=1500, tag="conc-design")
    # ---- T: concurrent traces
    ntr = 150 if quick else 3000
    tfile = os.path.join(ctx.work, "conc.ndjson")
    h3 = ctx.harness([b, "conc", str(ntr), tfile], timeout=1500)
    traces, cur = [], None
    for line in open(tfile):
        e = json.loads(line)
        if e["ev"] == "reset":
            cur = []
            traces.append(cur)
        else:
            cur.append(e)
    reset = {"seq": 0, "th": "", "ev": "reset", "op": "", "t": "", "id": 0, "s": "", "err": "", "r": "", "ts": []}
    tstates = 0
    for i in range(0, len(traces), 500):
        batch = traces[i:i + 500]
        rej, st = ctx.validate_traces("periph/TraceEvent", "cfg/TraceEvent.cfg", batch, reset=reset, tag="trace")
        tstates += st
        for ti, k in rej:
            tr = batch[ti]
            ev = tr[k] if 0 <= k < len(tr) else None
            ctx.violation("conc:%s:%s" % (ev and ev["ev"], ev and (ev["op"] or ev["r"])),
                          "concurrent execution not explained by Event.tla: event %d %s cannot follow the validated prefix"
                          % (k, json.dumps(ev)), {"mode": "conc", "trace": tr, "rejected_event": k})
    # ---- storm: long runs with many subscribers of one type, judged by EventStorm.tla (whole receptions)
    nst = 40 if quick else 400
    sfile = os.path.join(ctx.work, "storm.ndjson")
    h4 = ctx.harness([b, "storm", str(nst), sfile], timeout=1500)
    runs = [json.loads(l) for l in open(sfile)]
    if len(runs) < nst // 2 and not h4["violations"]:
        raise Infra("storm produced %d of %d runs" % (len(runs), nst))
    def judge(rs, tag):
        rr = ctx.tlc("periph/EventStorm", "cfg/EventStorm.cfg", workers=1, timeout=1200, tag=tag,
                     files={"storm.ndjson": "".join(json.dumps(x) + "\n" for x in rs)})
        docs = list(rr.exports())
        if rr.error or len(docs) != 1 or docs[0].get("runs") != len(rs):
            raise Infra("EventStorm.tla did not evaluate the runs: %s %s" % (rr.error, rr.out[-800:]))
        return docs[0]["bad"]
    for bad in judge(runs, "storm"):
        rn = runs[bad["run"] - 1]
        k = bad["subs"][0] - 1
        ids = rn["subs"][k]["ids"]
        dup = sorted({x for x in ids if ids.count(x) > 1})
        ctx.violation("storm:%s" % ("duplicate" if dup else ("lost" if rn["subs"][k]["stable"] else "order")),
                      "concurrent run with %d subscribers of one type and %d posters: subscriber %d (%s) received %d events for %d posted; "
                      "duplicates %s; EventStorm.tla (OnlyDueOnce / InOrder / ExactlyDue of Event.tla) rejects the reception"
                      % (len(rn["subs"]), len(rn["posted"]), k + 1, "subscribed throughout" if rn["subs"][k]["stable"] else "unsubscribed meanwhile",
                         len(ids), sum(len(p) for p in rn["posted"]), dup[:6]),
                      {"mode": "storm", "run": rn, "subscriber": k + 1})
    # negative control for the storm judge: a duplicated reception must be rejected
    if runs:
        c2 = copy.deepcopy(runs[0])
        tgt = [k for k, x in enumerate(c2["subs"]) if x["ids"]]
        if tgt:
            c2["subs"][tgt[0]]["ids"].append(c2["subs"][tgt[0]]["ids"][0])
            if not judge([c2], "storm-negative-control"):
                raise Infra("negative control: a duplicated reception was accepted by EventStorm.tla")
    # ---- negative control: a corrupted trace must be rejected (binding is live)
    ctl = None
    for tr in traces:
        idx = [k for k, e in enumerate(tr) if e["ev"] == "recv" and e["r"] == "ev"]
        if idx:
            ctl = copy.deepcopy(tr)
            ctl[idx[0]]["id"] += 7
            break
    if ctl is not None:
        saved = (list(ctx.violations), list(ctx.known_hits))
        rej, _ = ctx.validate_traces("periph/TraceEvent", "cfg/TraceEvent.cfg", [ctl], reset=reset, tag="negative-control")
        ctx.violations, ctx.known_hits = saved
        if not rej:
            raise Infra("negative control: corrupted trace was accepted by TraceEvent.tla")
    samples.append({"concurrent_trace": traces[0][:12]} if traces else {})
    ctx.finish("model_checking", dict(
        states=r.distinct + r2.distinct + r3.distinct + tstates,
        transitions=r.generated + r2.generated + r3.generated,
        traces_validated_against_impl=h1["summary"]["cases"] + h2["summary"]["cases"] + len(traces),
        samples=samples,
        seq_paths_replayed=h1["summary"]["cases"], seq_steps=h1["summary"]["steps"],
        seq_distinct_call_shapes=h1["summary"]["distinct"],
        full_queue_paths_replayed=h2["summary"]["cases"],
        concurrent_traces=len(traces), concurrent_events=h3["summary"].get("events"),
        storm=h4["summary"],
        negative_control="corrupted recv id rejected" if ctl is not None else "none available",
        exhaustive=True,
        rule="R: every transition of the bounded sequential model (2 subs, 2 types, <=%d posts, <=%d recv) with its path; "
             "T: %d seeded concurrent workloads (1-3 posters x 1-4 posts, 1-3 subscribers, random unsubscribe/stop)"
             % ((2, 2, ntr) if quick else (3, 3, ntr)),
    ), assumptions=[
        "subscriptions are created before concurrent posting starts (the created-time staleness filter is not modelled)",
        "channel capacity 65536 is bound by scaling each model event to 32768 real events",
        "sequence numbers come from one atomic counter read before a call starts and after it returns",
    ])
