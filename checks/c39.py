"""C39 — event subscribers see posted events in order, once each.

Specification: specs/periph/Event.tla (dispatcher as the code structures it:
Post = snapshot + per-receiver deliveries; Unsubscribe = del + close).
  design : TLC checks ExactlyDue / OnlyDueOnce / InOrder / Entitled / PosterOrder
           on the sequential instance and on the 2-poster non-atomic instance.
  R      : every transition of the sequential instance is exported with its call
           path and replayed against event.Dispatcher (results, channel lengths,
           Closed()); a second instance with channel capacity 2 is replayed with
           every model event scaled to 32768 real events (capacity 65536).
  T      : randomised concurrent workloads (posters, unsubscribers, Stop, blocking
           readers) are logged and validated by TraceEvent.tla, which searches for
           a placement of the silent internal steps that explains every result.
"""
import copy
import json
import os
from common import Infra


def run(ctx):
    b = ctx.build("c39")
    quick = ctx.tier == "quick"
    samples = []
    # ---- R: sequential replay of all transitions
    r = ctx.tlc_design("periph/EventSeq", "cfg/EventSeq.%s.cfg" % ("quick" if quick else "thorough"),
                       timeout=1500, tag="seq")
    out = os.path.join(r.scratch, "tlc.out")
    h1 = ctx.harness([b, "seq", out, "1"], timeout=1500)
    if h1["summary"].get("cases", 0) < 1000:
        raise Infra("sequential export unexpectedly small: %s" % h1["summary"])
    samples += h1["samples"][:2]
    r2 = ctx.tlc_design("periph/EventSeq", "cfg/EventSeq.full.cfg", timeout=600, tag="full-queue")
    h2 = ctx.harness([b, "seq", os.path.join(r2.scratch, "tlc.out"), "32768"], timeout=1500)
    # ---- design check of the concurrent instance
    r3 = ctx.tlc_design("periph/Event", "cfg/Event.conc.cfg", timeout=1500, tag="conc-design")
    # ---- T: concurrent traces
    ntr = 150 if quick else 3000
    tfile = os.path.join(ctx.work, "conc.ndjson")
    h3 = ctx.harness([b, "conc", str(ntr), tfile], timeout=1500)
    traces, cur = [], None
    for line in open(tfile):
        e = json.loads(line)
        if e["ev"] == "reset":
            cur = []
            traces.append(cur)
        else:
            cur.append(e)
    reset = {"seq": 0, "th": "", "ev": "reset", "op": "", "t": "", "id": 0, "s": "", "err": "", "r": "", "ts": []}
    tstates = 0
    for i in range(0, len(traces), 500):
        batch = traces[i:i + 500]
        rej, st = ctx.validate_traces("periph/TraceEvent", "cfg/TraceEvent.cfg", batch, reset=reset, tag="trace")
        tstates += st
        for ti, k in rej:
            tr = batch[ti]
            ev = tr[k] if 0 <= k < len(tr) else None
            ctx.violation("conc:%s:%s" % (ev and ev["ev"], ev and (ev["op"] or ev["r"])),
                          "concurrent execution not explained by Event.tla: event %d %s cannot follow the validated prefix"
                          % (k, json.dumps(ev)), {"mode": "conc", "trace": tr, "rejected_event": k})
    # ---- negative control: a corrupted trace must be rejected (binding is live)
    ctl = None
    for tr in traces:
        idx = [k for k, e in enumerate(tr) if e["ev"] == "recv" and e["r"] == "ev"]
        if idx:
            ctl = copy.deepcopy(tr)
            ctl[idx[0]]["id"] += 7
            break
    if ctl is not None:
        saved = (list(ctx.violations), list(ctx.known_hits))
        rej, _ = ctx.validate_traces("periph/TraceEvent", "cfg/TraceEvent.cfg", [ctl], reset=reset, tag="negative-control")
        ctx.violations, ctx.known_hits = saved
        if not rej:
            raise Infra("negative control: corrupted trace was accepted by TraceEvent.tla")
    samples.append({"concurrent_trace": traces[0][:12]} if traces else {})
    ctx.finish("model_checking", dict(
        states=r.distinct + r2.distinct + r3.distinct + tstates,
        transitions=r.generated + r2.generated + r3.generated,
        traces_validated_against_impl=h1["summary"]["cases"] + h2["summary"]["cases"] + len(traces),
        samples=samples,
        seq_paths_replayed=h1["summary"]["cases"], seq_steps=h1["summary"]["steps"],
        seq_distinct_call_shapes=h1["summary"]["distinct"],
        full_queue_paths_replayed=h2["summary"]["cases"],
        concurrent_traces=len(traces), concurrent_events=h3["summary"].get("events"),
        negative_control="corrupted recv id rejected" if ctl is not None else "none available",
        exhaustive=True,
        rule="R: every transition of the bounded sequential model (2 subs, 2 types, <=%d posts, <=%d recv) with its path; "
             "T: %d seeded concurrent workloads (1-3 posters x 1-4 posts, 1-3 subscribers, random unsubscribe/stop)"
             % ((2, 2, ntr) if quick else (3, 3, ntr)),
    ), assumptions=[
        "subscriptions are created before concurrent posting starts (the created-time staleness filter is not modelled)",
        "channel capacity 65536 is bound by scaling each model event to 32768 real events",
        "sequence numbers come from one atomic counter read before a call starts and after it returns",
    ])
