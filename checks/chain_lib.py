"""Shared orchestration of the chain-level engines (specs/chain + harness/cmd/forks ...)."""
import os
from common import Infra, NCPU


def mine(ctx):
    return lambda v: (v.get("replay") or {}).get("prop") == ctx.pid


def run_forks(ctx, cfg, epochs=(100, 2), timeout=1500):
    """TLC explores ForksGen with `cfg` (design invariants checked at the same time), every
    transition is replayed on a real node for each epoch length in `epochs`."""
    b = ctx.build("forks")
    r = ctx.tlc_design("chain/ForksGen", cfg, timeout=timeout, tag="forks")
    if r.nexports < 100:
        raise Infra("forks export unexpectedly small: %d" % r.nexports)
    out = dict(tlc=r, cases=0, delivers=0, distinct=0, samples=[], other=0, flaky=0)
    for e in epochs:
        h = ctx.harness([b, "replay", r.path, str(NCPU), str(e)], timeout=timeout, keep=mine(ctx))
        s = h["summary"]
        if s.get("cases", 0) != r.nexports:
            if not ctx.violations and not h["other"]:
                raise Infra("forks replay covered %s of %d exported paths" % (s.get("cases"), r.nexports))
        if s.get("unreproducible_worker_deaths", 0):
            raise Infra("a worker died on a case that did not reproduce the death")
        out["cases"] += s.get("cases", 0)
        out["delivers"] += s.get("delivers", 0)
        out["distinct"] = max(out["distinct"], s.get("distinct", 0))
        out["samples"] += h["samples"][:1]
        out["other"] += len(h["other"])
    return out
