"""Shared orchestration of the chain-level engines (specs/chain + harness/cmd/forks, casper ...).

Several properties are decided by the same exploration + replay (C11, C12, C16, C17, C18 ...);
each check registers only the divergences attributed to its own property. To keep the checks
affordable the two expensive artefacts are cached under work/cache:
  * TLC output, keyed by the content of every specification file and the cfg (independent of /repo);
  * replay output, keyed by the sha256 of the harness binary (built from /repo's working tree on
    every run, so any source change gives another key), the export file and the arguments.
"""
import hashlib
import os
import shutil
from common import Infra, NCPU, SPECS, WORK, ALT, TLCResult

CACHE = os.path.join(WORK, "cache")


def mine(ctx):
    def f(v):
        r = v.get("replay") or {}
        return r.get("prop") == ctx.pid or ctx.pid in (r.get("also") or [])
    return f


def _sha(paths, extra=""):
    h = hashlib.sha256(extra.encode())
    for p in paths:
        with open(p, "rb") as fh:
            while True:
                b = fh.read(1 << 20)
                if not b:
                    break
                h.update(b)
    return h.hexdigest()[:24]


def _spec_files(module=None):
    """The specification files a module depends on (transitive EXTENDS / INSTANCE)."""
    import re
    index = {}
    for root, _, fs in os.walk(SPECS):
        for f in fs:
            if f.endswith(".tla"):
                index[f[:-4]] = os.path.join(root, f)
    if module is None:
        return sorted(index.values())
    seen, todo = {}, [os.path.basename(module)]
    while todo:
        m = todo.pop()
        if m in seen or m not in index:
            continue
        seen[m] = index[m]
        with open(index[m]) as fh:
            txt = fh.read()
        for line in re.findall(r"^\s*EXTENDS\s+(.*)$", txt, re.M):
            todo += [x.strip() for x in line.split(",")]
        todo += re.findall(r"INSTANCE\s+(\w+)", txt)
    return sorted(seen.values())


def _prune(prefix, keep=2):
    fs = sorted((f for f in os.listdir(CACHE) if f.startswith(prefix)),
                key=lambda f: os.path.getmtime(os.path.join(CACHE, f)), reverse=True)
    for f in fs[keep:]:
        try:
            os.remove(os.path.join(CACHE, f))
        except OSError:
            pass


def tlc_cached(ctx, module, cfg, timeout=3000, tag=None, workers=None, min_exports=100, simulate=None, depth=None):
    """Design check + export of a generator module, cached by specification content."""
    os.makedirs(CACHE, exist_ok=True)
    key = _sha(_spec_files(module) + [os.path.join(SPECS, cfg)], module + cfg + ("|sim=%s,%s,%s" % (simulate, depth, ctx.seed) if simulate else ""))
    path = os.path.join(CACHE, "tlc_%s_%s.out" % (os.path.basename(cfg), key))
    if os.path.exists(path) and os.environ.get("VERIF_NOCACHE") != "1":
        r = TLCResult(path, 0, 0.0)
        r.scratch = os.path.dirname(path)
        if r.ok and r.nexports >= min_exports:
            ctx.tlc_runs.append(dict(module=os.path.basename(module), cfg=os.path.basename(cfg), tag=(tag or "") + " (cached TLC output)",
                                     generated=r.generated, distinct=r.distinct, depth=r.depth, wall_s=0.0,
                                     violated=None, error=None))
            return r
    r = ctx.tlc_design(module, cfg, timeout=timeout, tag=tag, workers=workers, simulate=simulate, depth=depth)
    if r.nexports < min_exports:
        raise Infra("export of %s/%s unexpectedly small: %d" % (module, cfg, r.nexports))
    tmp = path + ".tmp%d" % os.getpid()
    shutil.copy(r.path, tmp)
    os.replace(tmp, path)
    _prune("tlc_%s_" % os.path.basename(cfg))
    r.path = path
    return r


def replay_cached(ctx, binary, args, export_path, timeout=3000, verb="replay", env=None):
    """Runs `binary replay <export> <workers> args...` (VH protocol) with a result cache keyed by the
    binary and the export; returns the parsed result of ctx.harness with only this property's violations
    registered."""
    os.makedirs(CACHE, exist_ok=True)
    key = _sha([binary, export_path], verb + " " + " ".join(args) + "|seed=%d" % ctx.seed + ("|env=%s" % sorted(env.items()) if env else ""))
    path = os.path.join(CACHE, "replay_%s_%s.vh" % (os.path.basename(binary), key))
    if os.path.exists(path) and os.environ.get("VERIF_NOCACHE") != "1":
        h = ctx.harness(["cat", path], timeout=600, keep=mine(ctx))
        h["cached"] = True
        return h
    h = ctx.harness([binary, verb, export_path, str(NCPU)] + list(args), timeout=timeout, keep=mine(ctx), env=env)
    if h["summary"].get("unreproducible_worker_deaths", 0):
        raise Infra("a worker died on a case that did not reproduce the death")
    tmp = path + ".tmp%d" % os.getpid()
    with open(tmp, "w") as fh:
        fh.write("".join(l + "\n" for l in h["stdout"].splitlines() if l.startswith("VH ")))
    os.replace(tmp, path)
    _prune("replay_%s_" % os.path.basename(binary), keep=24)
    h["cached"] = False
    return h


def run_forks(ctx, cfg, epochs=(100, 2), timeout=3000):
    """TLC explores ForksGen with `cfg` (design invariants checked at the same time), every
    transition is replayed on a real node for each epoch length in `epochs`."""
    b = ctx.build("forks")
    r = tlc_cached(ctx, "chain/ForksGen", cfg, timeout=timeout, tag="forks")
    out = dict(tlc=[r], cases=0, calls=0, distinct=0, samples=[], other=0, states=r.distinct, transitions=r.generated)
    for e in epochs:
        h = replay_cached(ctx, b, [str(e)], r.path, timeout=timeout)
        s = h["summary"]
        if s.get("cases", 0) != r.nexports and not h["violations"]:
            raise Infra("forks replay covered %s of %d exported paths" % (s.get("cases"), r.nexports))
        out["cases"] += s.get("cases", 0)
        out["calls"] += s.get("delivers", 0)
        out["distinct"] = max(out["distinct"], s.get("distinct", 0))
        out["samples"] += h["samples"][:1]
        out["other"] += len(h["other"])
    return out


# casper family: (cfg name, N, Me (99 = the node's key is not a validator), stride quick, stride thorough)
CASPER_CFGS = {
    "quick": [("cfg/CasperGen.n1.quick.cfg", 1, 0, 1), ("cfg/CasperGen.n3me.quick.cfg", 3, 0, 1),
              ("cfg/CasperGen.n3ext.quick.cfg", 3, 99, 4), ("cfg/CasperGen.deep.cfg", 4, 0, 1, 12, 90), ("cfg/CasperGen.deepbyz.cfg", 4, 0, 1, 6, 90),
              ("cfg/CasperGen.restart.quick.cfg", 4, 99, 4)],
    "thorough": [("cfg/CasperGen.n1.thorough.cfg", 1, 0, 4), ("cfg/CasperGen.n3me.thorough.cfg", 3, 0, 12),
                 ("cfg/CasperGen.n3ext.quick.cfg", 3, 99, 2), ("cfg/CasperGen.n4byz.thorough.cfg", 4, 99, 24),
                 ("cfg/CasperGen.deep.cfg", 4, 0, 1, 150, 90), ("cfg/CasperGen.deepbyz.cfg", 4, 0, 1, 100, 90),
                 ("cfg/CasperGen.restart.quick.cfg", 4, 99, 2)],
}


def run_casper(ctx, timeout=6000):
    b = ctx.build("casper")
    out = dict(tlc=[], cases=0, calls=0, distinct=0, samples=[], other=0, states=0, transitions=0, configs=[])
    for ent in CASPER_CFGS[ctx.tier]:
        cfg, n, me, stride = ent[:4]
        sim, depth = (ent[4], ent[5]) if len(ent) > 4 else (None, None)   # random deep walks: behaviours per worker, depth
        r = tlc_cached(ctx, "chain/CasperGen", cfg, timeout=timeout, tag="casper N=%d Me=%d%s" % (n, me, " (simulation)" if sim else ""),
                       workers=8 if sim else NCPU, simulate=sim, depth=depth, min_exports=20 if sim else 100)
        h = replay_cached(ctx, b, [str(n), str(me), str(stride)], r.path, timeout=timeout)
        s = h["summary"]
        want = (r.nexports + stride - 1) // stride
        if abs(s.get("cases", 0) - want) > 1 and not h["violations"]:
            raise Infra("casper replay covered %s of %d exported paths (%s)" % (s.get("cases"), want, cfg))
        out["tlc"].append(r)
        out["states"] += r.distinct
        out["transitions"] += r.generated
        out["cases"] += s.get("cases", 0)
        out["calls"] += s.get("calls", 0)
        out["distinct"] += s.get("distinct", 0)
        out["samples"] += h["samples"][:1]
        out["other"] += len(h["other"])
        out["configs"].append(dict(cfg=os.path.basename(cfg), N=n, Me=me, exported_paths=r.nexports, replayed=s.get("cases", 0),
                                   replay_cached=h["cached"]))
    return out



def run_sets(ctx, timeout=3000):
    """ValidatorSets.tla (who may vote when the validator table changes between epochs): every transition replayed on
    the real finality engine over a real store (cmd/c18 sets)."""
    b = ctx.build("c18")
    cfg = "cfg/ValidatorSetsGen.%s.cfg" % ("quick" if ctx.tier == "quick" else "thorough")
    r = tlc_cached(ctx, "chain/ValidatorSetsGen", cfg, timeout=timeout, tag="validator-sets", workers=8)
    h = replay_cached(ctx, b, [], r.path, timeout=timeout, verb="sets")
    s = h["summary"]
    if s.get("cases", 0) != r.nexports and not h["violations"]:
        raise Infra("validator-set replay covered %s of %d exported paths" % (s.get("cases"), r.nexports))
    return dict(tlc=[r], cases=s.get("cases", 0), calls=s.get("calls", 0), distinct=s.get("distinct", 0), samples=h["samples"][:1],
                other=len(h["other"]), states=r.distinct, transitions=r.generated,
                configs=[dict(cfg=os.path.basename(cfg), exported_paths=r.nexports, replayed=s.get("cases", 0), replay_cached=h["cached"])])

# ledger family: (cfg, stride quick) per tier
LEDGER_CFGS = {
    "quick": [("cfg/LedgerGen.quick.cfg", 8), ("cfg/LedgerGen.pool.quick.cfg", 4), ("cfg/LedgerGen.vote.quick.cfg", 24), ("cfg/LedgerGen.votestep.quick.cfg", 24, {"VERIF_LOCKTABLE": "1,17,3"}),
              ("cfg/LedgerGen.contract.quick.cfg", 96), ("cfg/LedgerGen.rules.quick.cfg", 2)],
    "thorough": [("cfg/LedgerGen.quick.cfg", 2), ("cfg/LedgerGen.pool.quick.cfg", 1), ("cfg/LedgerGen.vote.quick.cfg", 4),
                 ("cfg/LedgerGen.votestep.quick.cfg", 6, {"VERIF_LOCKTABLE": "1,17,3"}),
                 ("cfg/LedgerGen.thorough.cfg", 64), ("cfg/LedgerGen.contract.quick.cfg", 16), ("cfg/LedgerGen.rules.quick.cfg", 1)],
}


PROPOSE_CFGS = {
    "quick": [("cfg/LedgerGen.pool.quick.cfg", 3), ("cfg/LedgerGen.quick.cfg", 24)],
    "thorough": [("cfg/LedgerGen.pool.quick.cfg", 1), ("cfg/LedgerGen.quick.cfg", 2), ("cfg/LedgerGen.thorough.cfg", 64)],
}


def run_ledger(ctx, timeout=6000, mode="replay", only=None):
    b = ctx.build("ledger")
    out = dict(tlc=[], cases=0, calls=0, distinct=0, samples=[], other=0, states=0, transitions=0, configs=[])
    for ent in (LEDGER_CFGS if mode == "replay" else PROPOSE_CFGS)[ctx.tier]:
        cfg, stride = ent[:2]
        env = ent[2] if len(ent) > 2 else None
        if only and not any(o in cfg for o in only):
            continue
        r = tlc_cached(ctx, "chain/LedgerGen", cfg, timeout=timeout, tag="ledger", workers=NCPU)
        h = replay_cached(ctx, b, [str(stride)], r.path, timeout=timeout, verb=mode, env=env)
        s = h["summary"]
        want = (r.nexports + stride - 1) // stride
        if abs(s.get("cases", 0) - want) > 1 and not h["violations"]:
            raise Infra("ledger replay covered %s of %d exported paths (%s)" % (s.get("cases"), want, cfg))
        out["tlc"].append(r)
        out["states"] += r.distinct
        out["transitions"] += r.generated
        out["cases"] += s.get("cases", 0)
        out["calls"] += s.get("calls", 0)
        out["distinct"] += s.get("distinct", 0)
        out["samples"] += h["samples"][:1]
        out["other"] += len(h["other"])
        out["configs"].append(dict(cfg=os.path.basename(cfg), exported_paths=r.nexports, replayed=s.get("cases", 0),
                                   stride=stride, replay_cached=h["cached"]))
    return out


def finish_chain(ctx, parts, rule, assumptions):
    states = sum(p["states"] for p in parts)
    trans = sum(p["transitions"] for p in parts)
    cases = sum(p["cases"] for p in parts)
    samples = []
    for p in parts:
        samples += p["samples"][:2]
    if not samples:
        samples = [{"note": "no sample emitted by the replay workers"}]
    ctx.finish("model_checking", dict(
        states=states, transitions=trans, traces_validated_against_impl=cases, samples=samples[:4],
        node_calls_replayed=sum(p["calls"] for p in parts),
        distinct_paths=sum(p["distinct"] for p in parts),
        divergences_attributed_to_other_properties=sum(p["other"] for p in parts),
        casper_configs=[c for p in parts for c in p.get("configs", [])],
        exhaustive=True, rule=rule), assumptions=assumptions)
