"""Shared machinery of the /verif checks.

Every check is `./check <ID> [--tier quick|thorough] [--replay PATH]`.
The per-property module checks/<id>.py exposes `run(ctx)`; it uses the
helpers here to (1) build the Go harness against /repo's *working tree* with
`-tags verif`, (2) run TLC on the specification (design check, behaviour /
case export, trace validation), (3) classify and (4) write evidence.

Exit codes: 0 held (possibly KNOWN-FINDING lines), 1 VIOLATION (only from
real-code behaviour), 2 infrastructure problem (never a verdict).
"""
import json
import os
import re
import shutil
import subprocess
import sys
import time

VERIF = os.path.dirname(os.path.dirname(os.path.abspath(__file__)))
REPO = os.path.abspath(os.environ.get("VERIF_REPO", "/repo"))
# When VERIF_REPO points at a scratch worktree (used to try seeded changes without touching
# /repo) everything is kept apart: own work dir, own binaries, own go.mod with the replaces
# pointing at that tree.
ALT = "" if REPO == "/repo" else "@" + re.sub(r"[^A-Za-z0-9]+", "_", REPO).strip("_")
SPECS = os.path.join(VERIF, "specs")
HARNESS = os.path.join(VERIF, "harness")
WORK = os.path.join(VERIF, "work")
KNOWN = os.path.join(VERIF, "KNOWN_FINDINGS.txt")
NCPU = os.cpu_count() or 4

GOENV = dict(os.environ)
GOENV.update(
    GOFLAGS="-mod=mod", GOPROXY="off", GOSUMDB="off", GOTOOLCHAIN="local",
    CGO_ENABLED=os.environ.get("CGO_ENABLED", "1"),
)


class Infra(Exception):
    """Anything that prevents a verdict (exit 2)."""


class TLCResult:
    """Outcome of one TLC run. The raw output is in `path`; `out` keeps only the
    non-export lines (exports can be hundreds of MB and are read by the harness)."""

    def __init__(self, path, rc, wall):
        self.path = path
        self.rc = rc
        self.wall = wall
        self.generated = 0
        self.distinct = 0
        self.depth = 0
        self.nexports = 0
        self.prints = []
        self.violated = None      # violated invariant / property / "deadlock"
        self.error = None         # TLC evaluation / parse error text
        self.coverage = {}
        keep = []
        nstate = 0
        with open(path, errors="replace") as fh:
            for line in fh:
                if line.startswith('"EXPORT '):
                    self.nexports += 1
                    continue
                if line.startswith('"NOTE '):
                    try:
                        self.prints.append(json.loads(line)[len("NOTE "):])
                    except Exception:
                        self.prints.append(line.strip())
                    continue
                if line.startswith("/\\ ") or line.startswith("  ") or line.startswith("   "):
                    nstate += 1
                    if nstate > 400:      # body of a long counterexample: keep the head only
                        continue
                keep.append(line)
                if len(keep) > 60000:
                    keep = keep[:20000] + keep[-20000:]
        out = self.out = "".join(keep)
        m = None
        for m in re.finditer(r"(\d+) states generated, (\d+) distinct states found", out):
            pass
        if m:
            self.generated, self.distinct = int(m.group(1)), int(m.group(2))
        m = re.search(r"depth of the complete state graph search is (\d+)", out)
        if m:
            self.depth = int(m.group(1))
        m = re.search(r"Invariant (\S+) is violated", out)
        if m:
            self.violated = m.group(1)
        elif re.search(r"Action property (\S+) is violated", out):
            self.violated = re.search(r"Action property (\S+) is violated", out).group(1)
        elif "Temporal properties were violated" in out:
            self.violated = "temporal"
        elif "Deadlock reached" in out:
            self.violated = "deadlock"
        if self.violated is None and rc != 0:
            m = re.search(r"Error: (.*)", out)
            self.error = m.group(1) if m else "tlc exit %d" % rc
        for m in re.finditer(r"^<(\w+) line (\d+), col \d+ to line \d+, col \d+ of module (\w+)>: (\d+):(\d+)", out, re.M):
            self.coverage[m.group(1)] = self.coverage.get(m.group(1), 0) + int(m.group(5))

    def exports(self):
        """Iterate over the exported JSON documents (lazy)."""
        with open(self.path, errors="replace") as fh:
            for line in fh:
                if line.startswith('"EXPORT '):
                    yield json.loads(json.loads(line)[len("EXPORT "):])

    @property
    def ok(self):
        return self.rc == 0 and self.violated is None and self.error is None


class Ctx:
    def __init__(self, pid, tier, seed, replay=None):
        self.pid = pid
        self.tier = tier
        self.seed = seed
        self.replay = replay
        self.t0 = time.time()
        self.work = os.path.join(WORK, pid + ALT)
        self.violations = []   # dicts: sig, desc, replay
        self.known_hits = []
        self._tlc_n = 0
        self.tlc_runs = []
        self.notes = []
        if replay is None:
            shutil.rmtree(self.work, ignore_errors=True)
        os.makedirs(self.work, exist_ok=True)
        os.makedirs(os.path.join(self.work, "replay"), exist_ok=True)
        self.known, self.fixed = load_known(pid)
        self.known_all = load_known(None)[0]     # every property's entries (engines serve several properties)

    # ---------------------------------------------------------------- build
    def build(self, cmd, race=False, tags="verif"):
        """go build ./cmd/<cmd> of the harness against /repo's working tree."""
        out = os.path.join(WORK, "bin" + ALT, cmd + ("-race" if race else ""))
        os.makedirs(os.path.dirname(out), exist_ok=True)
        gosum = os.path.join(HARNESS, "go.sum")
        if not os.path.exists(gosum):
            shutil.copy(os.path.join(REPO, "go.sum"), gosum)
        args = ["go", "build", "-tags", tags]
        if ALT:
            moddir = os.path.join(WORK, "mod" + ALT)
            os.makedirs(moddir, exist_ok=True)
            with open(os.path.join(HARNESS, "go.mod")) as fh:
                gm = fh.read().replace("=> /repo", "=> " + REPO)
            with open(os.path.join(moddir, "go.mod"), "w") as fh:
                fh.write(gm)
            shutil.copy(gosum, os.path.join(moddir, "go.sum"))
            args.append("-modfile=" + os.path.join(moddir, "go.mod"))
        if race:
            args.append("-race")
        args += ["-o", out, "./cmd/" + cmd]
        t = time.time()
        p = subprocess.run(args, cwd=HARNESS, env=GOENV, stdout=subprocess.PIPE,
                           stderr=subprocess.STDOUT, text=True, timeout=1500)
        if p.returncode != 0:
            raise Infra("harness build failed (%s):\n%s" % (cmd, p.stdout[-4000:]))
        self.notes.append("build %s %.1fs" % (cmd, time.time() - t))
        return out

    def run(self, argv, stdin=None, timeout=600, env=None, cwd=None, check=False):
        e = dict(GOENV)
        e["VERIF_SEED"] = str(self.seed)
        e["VERIF_TIER"] = self.tier
        e["VERIF_WORK"] = self.work
        e["VERIF_KNOWN_SIGS"] = "\n".join(k["sig"] for k in self.known_all)
        if env:
            e.update(env)
        try:
            p = subprocess.run(argv, input=stdin, cwd=cwd or self.work, env=e,
                               stdout=subprocess.PIPE, stderr=subprocess.PIPE,
                               text=True, timeout=timeout)
        except subprocess.TimeoutExpired as ex:
            class R:  # noqa
                returncode = -9
                stdout = (ex.stdout or b"").decode("utf8", "replace") if isinstance(ex.stdout, bytes) else (ex.stdout or "")
                stderr = "TIMEOUT after %ss" % timeout
                timed_out = True
            return R()
        p.timed_out = False
        if check and p.returncode != 0:
            raise Infra("%s exited %d:\n%s\n%s" % (argv[0], p.returncode, p.stdout[-2000:], p.stderr[-4000:]))
        return p

    # ------------------------------------------------------------------ TLC
    def tlc(self, module, cfg, workers=None, simulate=None, depth=None, timeout=600,
            files=None, deadlock=False, dfs=False, coverage=False, seed=None,
            heap=None, extra=None, tag=None):
        """Run TLC on specs/<module>.tla with specs/<cfg> in a scratch copy.

        module: path relative to specs/ without .tla (e.g. "periph/Event").
        files: dict name -> content (e.g. {"trace.ndjson": "..."}) placed next to the module.
        simulate: number of behaviours (per worker) for -simulate.
        """
        self._tlc_n += 1
        scratch = os.path.join(self.work, "tlc%d" % self._tlc_n)
        shutil.rmtree(scratch, ignore_errors=True)
        os.makedirs(scratch)
        # flatten all spec modules into the scratch dir so EXTENDS resolves
        for root, _, fs in os.walk(SPECS):
            for f in fs:
                if f.endswith(".tla") or f.endswith(".cfg"):
                    shutil.copy(os.path.join(root, f), os.path.join(scratch, f))
        for name, content in (files or {}).items():
            mode = "wb" if isinstance(content, bytes) else "w"
            with open(os.path.join(scratch, name), mode) as fh:
                fh.write(content)
        mod = os.path.basename(module)
        cfgname = os.path.basename(cfg)
        if workers is None:
            workers = NCPU
        argv = ["java", "-XX:+UseParallelGC"]
        if heap:
            argv.append("-Xmx" + heap)
        argv.append("-Xss256m")
        if dfs:
            argv.append("-Dtlc2.tool.queue.IStateQueue=StateDeque")
        argv += ["-cp", "/opt/veriftools/tla/tla2tools.jar:/opt/veriftools/tla/CommunityModules-deps.jar",
                 "tlc2.TLC", "-workers", str(workers), "-metadir", os.path.join(scratch, "md"),
                 "-noGenerateSpecTE", "-config", cfgname]
        if not deadlock:
            argv.append("-deadlock")   # -deadlock DISABLES deadlock checking
        if simulate:
            argv += ["-simulate", "num=%d" % simulate]
            argv += ["-seed", str(seed if seed is not None else self.seed)]
        if depth:
            argv += ["-depth", str(depth)]
        if coverage:
            argv += ["-coverage", "1"]
        if extra:
            argv += list(extra)
        argv.append(mod + ".tla")
        t = time.time()
        outpath = os.path.join(scratch, "tlc.out")
        timed_out = False
        with open(outpath, "w") as ofh:
            try:
                p = subprocess.run(argv, cwd=scratch, stdout=ofh, stderr=subprocess.STDOUT, timeout=timeout)
                rc = p.returncode
            except subprocess.TimeoutExpired:
                subprocess.run(["pkill", "-f", scratch], check=False)
                timed_out = True
                rc = 0
        if timed_out and not simulate:
            raise Infra("TLC timeout after %ss on %s/%s" % (timeout, mod, cfgname))
        r = TLCResult(outpath, rc, time.time() - t)
        r.scratch = scratch
        out = r.out
        self.tlc_runs.append(dict(module=mod, cfg=cfgname, tag=tag, generated=r.generated,
                                  distinct=r.distinct, depth=r.depth, wall_s=round(r.wall, 2),
                                  violated=r.violated, error=r.error))
        if r.error and ("Parse" in out or "parsing" in out.lower() and "error" in out.lower() and r.generated == 0 and not r.exports):
            raise Infra("TLC error on %s/%s: %s\n%s" % (mod, cfgname, r.error, out[-3000:]))
        return r

    def tlc_design(self, module, cfg, **kw):
        """Design check: the specification itself must satisfy its invariants.
        A counterexample here is NOT a verdict about the code (exit 2)."""
        r = self.tlc(module, cfg, **kw)
        if not r.ok:
            raise Infra("design check failed on the specification %s/%s: violated=%s error=%s\n%s"
                        % (module, cfg, r.violated, r.error, r.out[-3000:]))
        return r

    # ------------------------------------------------------------- harness
    def harness(self, argv, timeout=900, allow_rc=(0,), env=None, stdin=None, keep=None):
        """Run a harness command speaking the `VH {json}` protocol.
        Violations it reports are registered; returns dict(summary, samples, violations, rc)."""
        p = self.run(argv, timeout=timeout, env=env, stdin=stdin)
        res = dict(summary={}, samples=[], violations=[], rc=p.returncode, stdout=p.stdout, stderr=p.stderr)
        for line in p.stdout.splitlines():
            if not line.startswith("VH "):
                continue
            try:
                o = json.loads(line[3:])
            except Exception:
                raise Infra("bad harness line: %r" % line[:300])
            k = o.get("kind")
            if k == "summary":
                for a, b in o.items():
                    if a in ("kind", "partial"):
                        continue
                    if o.get("partial") and isinstance(b, (int, float)) and not isinstance(b, bool) \
                            and isinstance(res["summary"].get(a), (int, float)):
                        res["summary"][a] += b      # partial summaries of pool workers add up
                    else:
                        res["summary"][a] = b
            elif k == "sample":
                res["samples"].append(o.get("case"))
            elif k == "violation":
                res["violations"].append(o)
            elif k == "infra":
                raise Infra("harness %s: %s" % (os.path.basename(argv[0]), o.get("msg")))
        if getattr(p, "timed_out", False):
            raise Infra("harness %s timed out after %ss" % (os.path.basename(argv[0]), timeout))
        if p.returncode not in allow_rc:
            raise Infra("harness %s exited %d: %s" % (os.path.basename(argv[0]), p.returncode, p.stderr[-3000:]))
        res["other"] = []
        for v in res["violations"]:
            if keep is not None and not keep(v):
                res["other"].append(v)      # belongs to another property's check
                continue
            self.violation(v.get("sig", "?"), v.get("desc", ""), v.get("replay"))
        return res

    # ----------------------------------------------------- trace validation
    def validate_traces(self, module, cfg, traces, reset=None, timeout=600, dfs=True, heap=None, tag=None):
        """Validate a list of traces (each a list of event dicts) against a trace
        specification that reads `trace.ndjson`, uses the NotDone acceptance witness
        and prints `NOTE hw <n>` from its POSTCONDITION when it rejects.
        Returns (rejected, states): rejected is a list of (trace_index, event_index_in_trace)."""
        reset = reset or {"ev": "reset"}
        rejected, states = [], 0
        todo = list(range(len(traces)))
        guard = 0
        while todo:
            guard += 1
            if guard > 25:
                raise Infra("too many rejected traces in one batch; giving up after 25")
            lines, owner = [], []
            for ti in todo:
                lines.append(reset)
                owner.append((ti, -1))
                for k, e in enumerate(traces[ti]):
                    lines.append(e)
                    owner.append((ti, k))
            r = self.tlc(module, cfg, workers=1, dfs=dfs, timeout=timeout, heap=heap, tag=tag,
                         files={"trace.ndjson": ndjson(lines)})
            states += r.distinct
            if r.violated == "NotDone":
                break            # whole batch consumed
            if r.violated is not None or r.error is not None:
                raise Infra("trace validation %s: unexpected TLC outcome violated=%s error=%s\n%s"
                            % (module, r.violated, r.error, r.out[-2000:]))
            hw = None
            for n in r.prints:
                m = re.match(r"hw (\d+)", n)
                if m:
                    hw = int(m.group(1))
            if hw is None:
                raise Infra("trace validation %s rejected without high-water mark\n%s" % (module, r.out[-2000:]))
            if hw > len(lines):
                break
            ti, k = owner[hw - 1]      # first event that could not be consumed
            rejected.append((ti, k))
            todo = todo[todo.index(ti) + 1:]
        return rejected, states

    # ------------------------------------------------------------ verdicts
    def violation(self, sig, desc, replay_obj):
        """Record a violation observed on the real code.
        sig: structural signature used to match KNOWN_FINDINGS entries."""
        for k in self.known:
            if re.search(k["sig"], sig):
                if not any(h["sig"] == k["sig"] for h in self.known_hits):
                    self.known_hits.append(dict(sig=k["sig"], desc=k["desc"], example=sig))
                return False
        n = len(self.violations)
        if n < 50:
            path = os.path.join(self.work, "replay", "%s_%d.json" % (self.pid, n))
            with open(path, "w") as fh:
                json.dump(dict(property=self.pid, sig=sig, desc=desc, seed=self.seed,
                               tier=self.tier, replay=replay_obj), fh, indent=1, default=str)
        else:
            path = os.path.join(self.work, "replay", "%s_%d.json" % (self.pid, 49))
        self.violations.append(dict(sig=sig, desc=desc, replay=path))
        return True

    def finish(self, level, coverage, assumptions=None):
        ev = dict(property_id=self.pid, tier=self.tier, seed=self.seed, level=level,
                  coverage=coverage, assumptions=assumptions or [],
                  wall_s=round(time.time() - self.t0, 2), violations=len(self.violations))
        coverage.setdefault("tlc_runs", self.tlc_runs)
        coverage.setdefault("known_findings_hit", [h["sig"] for h in self.known_hits])
        evdir = os.path.join(VERIF, "evidence") if not ALT else self.work
        os.makedirs(evdir, exist_ok=True)
        tmp = os.path.join(evdir, self.pid + ".json.tmp")
        with open(tmp, "w") as fh:
            json.dump(ev, fh, indent=1, default=str)
            fh.write("\n")
        os.replace(tmp, os.path.join(evdir, self.pid + ".json"))
        for h in self.known_hits:
            print("KNOWN-FINDING: property=%s %s [%s]" % (self.pid, h["desc"], h["sig"]))
        seen = set()
        for v in self.violations:
            if v["sig"] in seen:
                continue
            seen.add(v["sig"])
            if len(seen) > 10:
                break
            print("VIOLATION property=%s replay=%s" % (self.pid, v["replay"]))
            print("  " + v["desc"][:600].replace("\n", "\n  "))
        if self.violations:
            print("%s: %d violation(s) in %.1fs" % (self.pid, len(self.violations), time.time() - self.t0))
            sys.exit(1)
        print("%s: held on everything explored (%s, %.1fs)" % (self.pid, self.tier, time.time() - self.t0))
        sys.exit(0)


def load_known(pid):
    known, fixed = [], []
    if os.path.exists(KNOWN):
        for line in open(KNOWN):
            line = line.strip()
            if not line or line.startswith("#"):
                continue
            m = re.match(r"known: property=(\S+) sig=(\S+) (.*)", line)
            if m and (pid is None or m.group(1) == pid):
                known.append(dict(sig=m.group(2), desc=m.group(3)))
            m = re.match(r"fixed: property=(\S+) (\S+) (.*)", line)
            if m and m.group(1) == pid:
                fixed.append(dict(commit=m.group(2), desc=m.group(3)))
    return known, fixed


def ndjson(objs):
    return "".join(json.dumps(o, separators=(",", ":")) + "\n" for o in objs)


def read_ndjson(text):
    out = []
    for line in text.splitlines():
        line = line.strip()
        if line.startswith("{") or line.startswith("["):
            out.append(json.loads(line))
    return out


def main(argv):
    import argparse
    import importlib
    ap = argparse.ArgumentParser()
    ap.add_argument("pid")
    ap.add_argument("--tier", default=os.environ.get("VERIF_TIER", "quick"), choices=["quick", "thorough"])
    ap.add_argument("--replay", default=None)
    a = ap.parse_args(argv)
    try:
        seed = int(os.environ.get("VERIF_SEED", "1"))
    except ValueError:
        seed = 1
    seed = seed % (2 ** 31 - 1) or 1
    sys.path.insert(0, os.path.join(VERIF, "checks"))
    ctx = None
    try:
        mod = importlib.import_module(a.pid.lower())
        ctx = Ctx(a.pid.upper(), a.tier, seed, a.replay)
        mod.run(ctx)
        raise Infra("check module returned without calling ctx.finish")
    except Infra as e:
        print("INFRA-ERROR property=%s: %s" % (a.pid, e), file=sys.stderr)
        sys.exit(2)
    except SystemExit:
        raise
    except Exception:
        import traceback
        traceback.print_exc()
        print("INFRA-ERROR property=%s: internal error in check" % a.pid, file=sys.stderr)
        sys.exit(2)
