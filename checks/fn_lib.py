"""Helpers shared by the function-table checks C28..C31 (specs/fn)."""
import json
import os
from common import Infra, ndjson


TLC_WORKERS = 8     # upper bound on TLC worker threads used by the function-table checks


def judge_cases(ctx, module, cfg, cases_path, chunk, heap="6g", timeout=3000, tag="cases", workers=TLC_WORKERS):
    """Let TLC evaluate the specification on the cases recorded by the Go driver.

    The case file is cut into chunks of `chunk` lines (bounded TLC memory: a whole chunk is
    deserialised into one TLA+ value); each chunk is judged by one TLC run of <module>/<cfg>,
    which reads `cases.ndjson` and exports batches of results carrying the case index.
    Returns (path of an ndjson file with all exported batches, list of TLCResult)."""
    lines = open(cases_path).read().splitlines(True)
    if not lines:
        raise Infra("no cases recorded in %s" % cases_path)
    out = os.path.join(ctx.work, "expect.ndjson")
    runs = []
    with open(out, "w") as fh:
        for k in range(0, len(lines), chunk):
            part = lines[k:k + chunk]
            r = ctx.tlc(module, cfg, workers=workers, timeout=timeout, heap=heap, tag="%s[%d]" % (tag, k // chunk),
                        files={"cases.ndjson": "".join(part)})
            if not r.ok:
                raise Infra("TLC failed while judging the recorded cases: violated=%s error=%s\n%s"
                            % (r.violated, r.error, r.out[-2000:]))
            n = 0
            for doc in r.exports():
                fh.write(ndjson([doc]))
                n += len(doc)
            if n != len(part):
                raise Infra("TLC judged %d of %d cases of chunk %d" % (n, len(part), k // chunk))
            runs.append(r)
    return out, runs


def load_batches(path):
    return [json.loads(l) for l in open(path) if l.strip()]
