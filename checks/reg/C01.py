CHECK = dict(
    category="model_checking",
    text="TxValidate.tla states the property in exact limb arithmetic (Conserves, BtmDiff) next to the rule set a validator "
         "must apply (checked-int64 mux parity, per-entry rules, gas set-up). TLC proves rule set => property on every case and "
         "exports its judgement for (E) the enumerated families (all multisets of boundary amounts 0,1,2,1e8,2^62,2^63-2..2^63,"
         "2^64-1 on both sides of BTM and of a non-BTM asset; every <=2x<=2 combination of spend/issuance/veto/coinbase inputs and "
         "original/vote/retire outputs over the assets) and (T) for seeded random / wrapped-sum / mutated transactions generated on "
         "the Go side with limb-encoded amounts. Every case is concretised into a real types.Tx and run through "
         "validation.ValidateTx and TxData.Fee(); whenever the code accepts, conservation must hold exactly and both "
         "GasState.BTMValue and TxData.Fee() must equal BTM in - BTM out as computed by TLC.",
    design_ref="DESIGN.md §6 C01",
    note="Input programs are a template whose witness decides success (VM semantics are C08). Accept/reject disagreements with "
         "the rule set are counted, not reported; gas acceptance is three-valued (yes/no/depends on serialized size). A coinbase "
         "input is worth the sum of the outputs, as the protocol's mapping defines it.",
    technique="TLA+ spec + TLC-evaluated case tables (enumerated and Go-generated inputs judged by TLC) replayed into "
              "validation.ValidateTx / TxData.Fee",
    engine="cases",
)
ENGINE = dict(name="cases", path="check + harness/cmd/c01..c03 + specs/ledger/TxValidate*.tla, specs/vm/StdWitness*.tla, specs/wire/TxId*.tla",
              serves_properties=["C01", "C02", "C03"],
              kind_free_text="TLC enumerates / judges abstract cases and exports [case, expected]; a Go driver concretises each case into "
                             "real transactions, keys, signatures and headers and compares the real functions' results")
