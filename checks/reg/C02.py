CHECK = dict(
    category="model_checking",
    text="StdWitness.tla models the standard programs over symbolic keys, signatures and hashes with two definitions: "
         "Authorised (declarative: committed key / committed script, q signatures by distinct committed keys in committed key "
         "order over this transaction's signature hash) and Runs (the segwit-converted program executed on a stack machine with "
         "the CHECKSIG, CHECKMULTISIG and CHECKPREDICATE rules). TLC proves Runs = Authorised on every case and exports the "
         "expected verdict for P2WPKH with every <=3-argument witness, every q-of-n multisig (P2WSH and bare) with every "
         "arrangement of <=q+1 signature slots over {Sig(Ki,m), Sig(K1,m'), Sig(outsider,m), junk}, altered redeem scripts, "
         "13 post-signing transaction mutations, plus Go-generated 5..6-key cases. The driver binds symbols to real "
         "chainkd/ed25519 keys and signatures in real transactions and requires validation.ValidateTx to accept exactly the "
         "authorised spends (both directions are violations).",
    design_ref="DESIGN.md §6 C02",
    note="Unforgeability/determinism of ed25519 and collision freeness of the hashes are assumed (symbolic model); only the "
         "program shapes the repository builds are covered; arguments below those the program consumes are ignored.",
    technique="TLA+ spec + TLC exhaustive case enumeration (operational vs declarative equivalence) replayed into "
              "validation.ValidateTx with real keys and signatures",
    engine="cases",
)
