CHECK = dict(
    category="model_checking",
    text="TxId.tla models identifiers as terms under collision freeness: TxIdTerm / SigHashTerm / MerkleTerm / BlockHashTerm "
         "contain every field the property requires to be committed; Muts / BlockMuts are all single mutations (field edits of "
         "every input and output kind, order swaps, drops, duplications, kind changes, header fields, block signature, "
         "supLinks, per-transaction committed / witness changes) with their class. TLC proves that committed mutations change "
         "and witness mutations preserve the terms and exports [base, mutated, expected changes]; the driver builds the real "
         "types.TxData / types.BlockHeader before and after and requires the same change pattern of Tx.ID, every Tx.SigHash(i), "
         "TxMerkleRoot, BlockHeader.Hash() and MapBlock().ID.",
    design_ref="DESIGN.md §6 C03",
    note="'Changes the id' is checked for the enumerated edits under collision freeness; transactions have >= 1 output; "
         "commitment suffixes are not mutated.",
    technique="TLA+ spec + TLC exhaustive enumeration of base values x single mutations replayed into types.NewTx / "
              "BlockHeader.Hash / TxMerkleRoot",
    engine="cases",
)
