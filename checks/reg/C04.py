CHECK = dict(
    category="model_checking",
    text="specs/wire/{Varint,WireTx,WireBlock}.tla specify the wire format as total decoders and token-level encoders over "
         "abstract values (U64 as varint digit strings, so 64-bit values are exact in TLC). TLC checks Dec(Enc(v)) = v and "
         "SerializedSize(v) = Len(Enc(v)) on a structured family of small well-formed transactions, headers and blocks (every "
         "field over its boundary domain, suffix combinations, all pairs of input/output kinds, sparse supLinks, three block "
         "flags) and exports it; the Go driver builds each value with the real constructors (empty strings as nil and as empty "
         "slices), and seeded random larger values, runs MarshalText/UnmarshalText/NewTx/JSON, and WireJudge.tla judges every "
         "recorded observation: bytes = Enc(v), decoded value = v, recorded sizes = Len(Enc), ids and JSON form equal.",
    design_ref="DESIGN.md §6 C04",
    note="sha3 is uninterpreted (ids are compared built-vs-decoded, the issuance asset id is taken from the code); values with "
         ">= 2^31 elements/bytes out of scope; inputs of asset version != 1 excluded from well-formedness (they cannot be mapped, see C05).",
    technique="TLA+ wire-format spec + TLC theorem check on enumerated values; TLC-exported values replayed into types.* and "
              "recorded observations (enumerated + random) judged by TLC evaluating Enc/Dec",
    engine="wire",
)
ENGINE = dict(name="wire", path="check + harness/cmd/{c04,c05} + harness/internal/wire + specs/wire", serves_properties=["C04", "C05"],
              kind_free_text="wire-format specification: TLC-enumerated values / adversarial byte strings executed by the real codecs, "
                             "recorded observations judged by TLC evaluating the specification's Enc/Dec")
