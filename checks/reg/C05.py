CHECK = dict(
    category="exploration",
    text="specs/wire/{Varint,WireTx,WireBlock,WireMsg}.tla give TOTAL decoders for transactions, headers, blocks and the "
         "go-wire envelopes of all netsync/consensus messages (every byte string maps to a value or an error class at a named "
         "grammar element) and state the memory budget AllocBound(n) = 256*n + 64 KiB. WireAdv.tla derives the adversarial "
         "family from the token structure of small valid encodings (all truncations, every length/count prefix replaced by "
         "0, n-1, n+1, 0x7f, 2^24, 2^31-1, 2^31, 2^63, every number/type/flag byte replaced, trailing garbage, text damage, payload "
         "mutants inside valid envelopes); TLC evaluates every member (totality) and exports input, class and budget. The Go "
         "driver runs each input, and seeded random damage of real encodings (classified afterwards by TLC), through "
         "Tx/Block/BlockHeader.UnmarshalText and both decodeMessage functions plus payload accessors in a 4 GiB child process "
         "under recover with a TotalAlloc meter; panic, child death, hang or allocation above the budget is a violation whose "
         "signature carries the specification's class of the input.",
    design_ref="DESIGN.md §6 C05",
    note="The allocation model is a runtime monitor, not part of TLC's state space; JSON payloads only in the quoted-hex shape; "
         "the go-wire reflection decoder is exercised and its envelope specified, not its internals; inputs up to ~1.5 KB.",
    technique="TLA+ wire-format spec with total decoders; TLC-derived adversarial input family + random inputs classified by TLC, "
              "executed by the real decoders under a panic/allocation monitor in a memory-limited child process",
    engine="wire",
)
