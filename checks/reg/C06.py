CHECK = dict(
    category="model_checking",
    text="VMOps.tla is a value-semantic reference VM (stacks of byte sequences; an operation can only produce new values). "
         "TLC enumerates all programs of <= 3 / <= 4 instructions over the aliasing-relevant alphabet (DUP 2DUP OVER PICK "
         "SWAP ROT TUCK TOALTSTACK FROMALTSTACK CAT CATPUSHDATA SUBSTR LEFT RIGHT SIZE DROP INVERT, small pushes) x 3 "
         "argument lists and computes the reference execution of each (VMRun.tla); seeded random programs over a wider "
         "alphabet are added. The real vm.Verify runs every case three times - independent exact-capacity buffers, "
         "buffers with spare capacity, and all arguments / state / program as sub-slices of ONE buffer produced by the "
         "repository's own decoder - and in all three the vm.TraceOut step trace, result and gas must equal the "
         "reference and every caller-visible buffer (spare capacity included) must be unchanged, checked after every step.",
    design_ref="DESIGN.md §6 C06",
    note="Alt-stack contents are only observed once they return to the data stack; failure classes are left to C08. "
         "Unchanged tree: CAT / CATPUSHDATA append into shared capacity (known finding, fix proposed).",
    technique="TLA+ reference semantics evaluated by TLC on TLC-enumerated and seeded cases; real code executed under "
              "three memory layouts and compared step by step with the TLC export",
    engine="vm-cases",
)
ENGINE = dict(name="vm-cases", path="check + harness/cmd/c06..c09 + harness/internal/vmh + specs/vm + specs/lib/VMNat*.tla",
              serves_properties=["C06", "C07", "C08", "C09"],
              kind_free_text="case source (TLC enumeration or seeded input generator) -> TLC evaluates the VM reference "
                             "(VMRun.tla) or judges recorded observations (VMParseJudge.tla) -> real protocol/vm code "
                             "executed and compared (E / T bindings)")
