CHECK = dict(
    category="model_checking",
    text="VMGas.tla states the accounting discipline (base cost first, memory cost 8+len charged on push and refunded on "
         "pop, deferred settlement, transient charges, child machine for CHECKPREDICATE, an item is on a stack only if it "
         "was paid for) with the potential Phi = gas + memory cost of both stacks. VMRun.tla runs the reference VM; TLC "
         "checks on every state of every execution: gas >= 0, Phi <= limit, a child never returns more than it received, "
         "0 <= gasLeft <= limit. Cases: all programs of <= 2 (thorough: part of <= 3) symbols over a 27-symbol gas "
         "alphabet (refunding pops, back/forward jumps, seven kinds of CHECKPREDICATE calls, size-dependent costs, "
         "expansion opcodes) x gas limits, and seeded programs (random instruction sequences / bytes up to 200 bytes with "
         "limits up to 300000, loops around a predicate call for every opcode with too little gas, every opcode once). "
         "The real vm.Verify must show the reference's remaining gas before every instruction at every depth, the same "
         "run-limit failures and gasLeft; executions longer than 1.25*limit+256 instructions are aborted and reported; "
         "completed instructions consuming < 1 unit are reported; GasState.updateUsage is replayed against a TLC case table.",
    design_ref="DESIGN.md §6 C07",
    note="Executions handed to TLC are bounded to 600 steps (gas limits are shrunk until they fit). Unchanged tree: a failed "
         "child's unpaid deferred push is refunded to the parent (gas is created; a 131-byte program never terminates), "
         "0-of-0 CHECKMULTISIG costs nothing (known findings; fix proposed for the first).",
    technique="TLA+ gas model with invariants model-checked by TLC on every reference execution; TLC-enumerated and "
              "seeded programs replayed on the real VM with per-step gas comparison; step-capped execution",
    engine="vm-cases",
)
