CHECK = dict(
    category="model_checking",
    text="VMOps.tla defines every opcode from its documented semantics over unbounded naturals (lib/VMNat.tla, checked by "
         "TLC against its own integers and against ring/division/shift identities): number range < 2^255 and <= 32 bytes, "
         "int64 sizes and indexes, shifts on the 256-bit word, splice bounds, bitwise ops on unequal lengths, stack "
         "manipulation, CHECKSIG / CHECKMULTISIG matching, CHECKPREDICATE child machine, failure classes and the cost "
         "table of VMGas.tla; hashes and ed25519 are uninterpreted (facts from the Go standard library). A seeded "
         "generator builds inputs only: every one of the 256 opcode bytes as a single-instruction program on boundary "
         "stacks (empty, 1..8 items, 0..40-byte items, values at 0 / 2^63 / 2^64 / 2^255, 33-byte and non-minimal "
         "encodings), gas limits around the exact cost, context variants, real keys, CHECKPREDICATE combinations, random "
         "stacks and two-instruction programs. TLC computes trace, result class and gas for every case; the real "
         "vm.Verify is compared line by line.",
    design_ref="DESIGN.md §6 C08",
    note="Unchanged tree: PICK / ROLL / CHECKOUTPUT truncate operands to 64 bits (index 2^64 acts as 0, 2^63 panics) - "
         "known findings, fix proposed. LSHIFT follows the property text (256-bit word).",
    technique="TLA+ reference semantics per opcode evaluated by TLC on seeded boundary / random inputs; real code "
              "compared on step trace, result class and gas",
    engine="vm-cases",
)
