CHECK = dict(
    category="model_checking",
    text="VMParse.tla specifies the instruction encoding (ParseOp / ParseProgram, tiling theorem, canonical pushes, "
         "equivalence of instruction sequences up to push encoding and jump relocation); Standard.tla the program "
         "builders, with recognisers defined as the image of the builders. TLC checks the tiling theorem on every byte "
         "string of <= 3 / <= 4 chunks over a 15-chunk alphabet (all push forms complete / truncated / empty, jumps to "
         "instruction starts, into instructions, beyond the end) and exports them. For these, for seeded random strings "
         "(<= 300 bytes) and for programs built by the real builders from hashes of length 0..40, BCRP contract length "
         "classes, key sets and all quorums, plus one-byte mutations and non-canonical encodings, the driver records "
         "ParseProgram, Disassemble, Assemble of the disassembly, the six recognisers, builder bytes and extract/convert "
         "helpers; TLC (VMParseJudge.tla) judges every observation.",
    design_ref="DESIGN.md §6 C09",
    note="'Same instruction sequence' is read up to push encoding (the assembler infers push opcodes) and jump relocation. "
         "Unchanged tree: disassemblies with empty PUSHDATAn, jumps to non-instruction addresses or expansion opcodes do "
         "not re-assemble; IsBCRPScript accepts programs RegisterProgram never emits (known findings; fixes proposed for "
         "three of the four).",
    technique="TLA+ parse / builder specification; TLC-enumerated strings (design check + export) and seeded inputs; "
              "observations of the real code judged by TLC",
    engine="vm-cases",
)
