CHECK = dict(
    category="model_checking",
    text="Ledger.tla defines the ledger as a function of the main chain (apply from scratch; persistence rule; first-registration-wins contracts). TLC explores all bounded trees of blocks carrying a menu of real transaction kinds with every delivery order; each explored transition is replayed on a real node (14-block funding prefix, real spends/votes/vetoes/registrations) and the store's UTXO entry of every coin and the contract record are compared with the from-scratch value of the specification's main chain.",
    design_ref="DESIGN.md §6 C10, core node model",
    note='3-4 blocks above the prefix, <=2-3 placed transactions, <=3-4 calls; quick replays a seed-dependent 1/k sample of the exported paths; creation height compared for coinbase/vote outputs only.',
    technique="TLA+ spec + TLC exhaustive model check; TLC transitions replayed into the real Chain (ledger projection compared)",
    engine="node-replay",
)
