CHECK = dict(
    category="model_checking",
    text="Forks.tla states the fork-choice rule declaratively (BestOf over all stored blocks: height, then largest hash, with "
         "genesis the only justified checkpoint) and the index invariants; TLC checks them exhaustively on the bounded model and "
         "every transition is replayed on a real node comparing best block, height index for every height and InMainChain for "
         "every block. Hash ties are bound by grinding real block hashes to the rank the model chose.",
    design_ref="DESIGN.md §6 C11",
    note="Forks family only so far: justification-driven reorganisations to shorter branches belong to the casper family.",
    technique="TLA+ spec + TLC exhaustive model check; every TLC transition replayed into the real Chain (state projection compared)",
    engine="node-replay",
)
