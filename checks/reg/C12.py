CHECK = dict(
    category="model_checking",
    text="Forks.tla specifies ProcessBlock (exist-check, orphan pool, transitive connection of waiting orphans, fork choice) at "
         "the level the property states; TLC checks NoStrandedOrphan/StoredClosed exhaustively over all block trees of the bounded "
         "size with all delivery orders and redeliveries, and every explored transition is replayed, with its path, against a real "
         "protocol.Chain in worker processes (a dead or blocked node is the violation of the scenario it was running).",
    design_ref="DESIGN.md §6 C12, core node model",
    note="Bounded trees (quick: 4 blocks/height 3; thorough: 5 blocks/height 4); valid coinbase-only blocks; in-memory ordered "
         "KV store with LevelDB semantics; orphan limit/expiry not reached.",
    technique="TLA+ spec + TLC exhaustive model check; every TLC transition replayed into the real Chain (state projection compared)",
    engine="node-replay",
)
ENGINE = dict(name="node-replay", path="harness/cmd/forks (+ internal/node, internal/memkv) + specs/chain",
              serves_properties=["C11", "C12", "C24", "C25"],
              kind_free_text="TLC-exported behaviours of the chain specifications replayed against a real protocol.Chain in worker processes")
