CHECK = dict(
    category="model_checking",
    text='Ledger.tla states MainChainValid and BadNeverStored; the environment mints contextually invalid blocks (missing/spent/immature/locked inputs, in-block, cross-block and cross-fork double spends) and blocks with one rule-breaking header or coinbase mutation; TLC checks the invariants and every explored transition is replayed on a real node comparing result class, stored set, best block and index. Forks.tla supplies the acceptance of valid blocks in every order. A configuration with a stepped vote lock table (LockAt: read at the height of the spending block) makes the choice of the table row observable.',
    design_ref="DESIGN.md §6 C13, core node model",
    note='Bounded as C10; wall-clock upper timestamp bound not exercised; per-transaction rules are decided by C01/C02/C07/C08.',
    technique="TLA+ spec + TLC exhaustive model check; TLC transitions replayed into the real Chain (ledger projection compared)",
    engine="node-replay",
)
