CHECK = dict(
    category="model_checking",
    text="Rewards.tla (with the LedgerBigNat limb arithmetic) specifies the per-epoch reward table (fees + exact rational subsidy "
         "min(R, floor((2V+S)R/2S)) per block, credited to the block's proposer, reset per epoch) and the coinbase rule (first block "
         "of an epoch pays exactly the previous table, others one zero output). TLC exports every transition of the accumulation "
         "machine and a subsidy case table around the 50% pledge threshold and for totals up to 2^63; the driver replays them "
         "through state.NewCheckpoint/Checkpoint.Increase and compares the table with the specification's interval (a point except "
         "within 1e-6 of an integer, float64 in the code). For every resulting table a family of coinbases is offered to "
         "validation.ValidateBlock on a real chain and proposal.NewBlockTemplate is asked for its coinbase; TLC judges each recorded "
         "accept/reject/proposal with CoinbaseOk.",
    design_ref="DESIGN.md §6 C14",
    note="Function level (synthetic blocks for accumulation, table planted in the stored checkpoint of a short real chain); the "
         "chain-level supply invariant belongs to the node replay. Heights < 3e10, totals < 2^63.",
    technique="TLA+ spec + TLC exhaustive enumeration; TLC-exported behaviours replayed into state.Checkpoint; recorded "
              "validation/proposal behaviour judged by TLC",
    engine="ledger-functions",
)
