CHECK = dict(
    category="model_checking",
    text="Validators.tla defines the vote tally over vote/veto histories (saturating veto), the ranking (votes desc, key desc), "
         "EffectiveValidators (<= 10 qualified keys with orders 0..n-1, federation otherwise) and the slot owner "
         "((ts-start) div interval) mod n; TLC checks order/uniqueness properties of the reference on every reachable tally, "
         "exports every transition of the history machine and a 11..16-key case table with expected AllValidators / "
         "EffectiveValidators / schedule over three rotation rounds incl. slot edges; the driver replays them through "
         "state.NewCheckpoint/Checkpoint.Increase with real blocks (one event per block, all events in one block, tally set "
         "directly), 20 repetitions per case because of map iteration, and checks the federation schedule through "
         "Chain.GetValidator/ProcessBlock on a real three-epoch chain.",
    design_ref="DESIGN.md §6 C15",
    note="Chain-level part covers federation validators only; key order = hex string order; amounts concretised around the "
         "real minimum by an additive order-preserving map; timestamps before the epoch start excluded.",
    technique="TLA+ spec + TLC exhaustive enumeration; TLC-exported behaviours and case tables replayed into state.Checkpoint "
              "and protocol.Chain",
    engine="ledger-functions",
)
ENGINE = dict(name="ledger-functions", path="check + harness/cmd/c14,c15 + specs/ledger", serves_properties=["C14", "C15"],
              kind_free_text="TLC-enumerated histories / case tables with expected values replayed into state.Checkpoint, "
                             "validation and proposal code")
