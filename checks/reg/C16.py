CHECK = dict(
    category="model_checking",
    text='CasperNode.tla models the node with its finality engine (own votes, delivered/carried/cached verifications, justification, finalisation, fork choice). TLC checks NoConflictingFinal, FinalMonotone and FinalInMain on every reachable state of the bounded configurations (1, 3 and 4 validators, node key inside/outside the set, one Byzantine signer among four), and every explored transition is replayed with its path against a real protocol.Chain with real signatures; the finalized root, the in-memory tree and the stored checkpoint statuses are compared with the specification. Random deep walks with a Byzantine validator (cross-branch and garbage votes, votes carried in headers) run in both tiers.',
    design_ref="DESIGN.md §6 C16, core node model",
    note='Bounded: E=2, <=4-5 blocks, <=3-4 votes, <=5-6 calls; honest validators as specified (globally justified source, no slashable pair).',
    technique="TLA+ spec + TLC exhaustive model check; every TLC transition replayed into the real Chain/Casper (state projection compared)",
    engine="node-replay",
)
