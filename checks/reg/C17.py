CHECK = dict(
    category="model_checking",
    text="The justification/finalisation rule is an operator of CasperNode.tla (AddVer: >2N/3 distinct admitted validators on one link from a justified source; finalize only the direct parent checkpoint). TLC checks JustifiedHasSupermajority and FinalizedHasJustifiedChild; the replay of every explored transition compares each checkpoint's status in the stored record and in the in-memory tree, with invalid signatures in delivered and block-carried votes."
         " ValidatorSets.tla adds the validator table that changes from epoch to epoch (vote / veto transactions): header slots and verification messages count only for the parent epoch's validators in their order there; every transition (blocks with rightful, next-epoch and foreign signatures, messages of every key, restarts) is replayed on the real engine over a real store.",
    design_ref="DESIGN.md §6 C17, core node model",
    note='Bounded as C16; validator-set sizes 1, 3, 4; the across-restart part belongs to the crash family.',
    technique="TLA+ spec + TLC exhaustive model check; every TLC transition replayed into the real Chain/Casper (state projection compared)",
    engine="node-replay",
)
