CHECK = dict(
    category="model_checking",
    text="The admission rules (same target height, surround) are operators of CasperNode.tla evaluated against exactly the data the node consults; TLC checks NoSlashableAdmitted and NoSlashableSent, and the replay of every explored transition compares the set of admitted verifications per checkpoint, the multiset of published verification events and each call's result class.",
    design_ref="DESIGN.md §6 C18, core node model",
    note='Bounded as C16.',
    technique="TLA+ spec + TLC exhaustive model check; every TLC transition replayed into the real Chain/Casper (state projection compared)",
    engine="node-replay",
)
