CHECK = dict(
    category="fault_enumeration",
    text="The behaviours explored by TLC on CasperNode.tla (block delivery, orphan connection, own/foreign/cached votes, justification, "
         "finalisation, reorganisation) supply the histories; for the last call of each sampled history the store is killed inside "
         "every one of its write operations in turn, the records are reopened with NewChain, and the restarted node is compared with "
         "the crash-free twin: start succeeds, each state component has a value the twin passed through, index and finality are "
         "consistent with the best block, a clean restart is the identity, and re-delivery converges to the twin. After a restart the whole persisted height index (entries above the best height included) must be the one the crash-free node had with that best block (index and chain status are one atomic commit).",
    design_ref="DESIGN.md §6 C19",
    note="Write = Set/Delete/batch commit on an in-memory KV with LevelDB semantics (batch atomic); histories bounded as the casper "
         "family; convergence is required only when no volatile input (orphan, cached vote) was pending at the crash.",
    technique="TLC-generated histories (TLA+ spec) + crash injection at every storage write of the real node, restart, comparison with crash-free twin",
    engine="node-replay",
)
