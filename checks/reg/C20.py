CHECK = dict(
    category="model_checking",
    text="KV.tla specifies the dbm.DB contract (ordered map of byte strings; Get/Set/Delete/Batch; prefix iterators "
         "positioned before the first key; start-bounded iterators positioned on the first key >= start inside the prefix "
         "range; iterators are snapshots; an empty value is not a missing key). TLC checks the design invariants and "
         "exports every transition of bounded instances (keys sharing prefixes, empty values, start at/after/before/beyond "
         "the range, batches, writes interleaved with an open iterator) with the call path and the required result of "
         "every call; each sequence is executed on MemDB and on GoLevelDB (real files). A disagreement between the "
         "backends is the violation, the specification names the wrong side; protocol.NewChain is started on both "
         "backends and compared.",
    design_ref="DESIGN.md §6 C20",
    note="Reverse iteration, Seek, *Sync, Print/Stats and Key()/Value() after Next() returned false are not compared; caller "
         "buffers are not reused; one open iterator at a time. Known findings: MemDB.IteratorPrefixWithStart ignores the "
         "prefix (node on memdb cannot start), MemDB iterators read values live, MemDB reports a nil value as missing.",
    technique="TLA+ spec + TLC exhaustive model check; TLC-exported behaviours with expected results replayed "
              "differentially into both real backends",
    engine="periphery",
)
ENGINE = dict(name="periphery", path="check + harness/cmd/{c20,c21,c34,c35} + specs/periph",
              serves_properties=["C20", "C21", "C34", "C35"],
              kind_free_text="TLC-exported behaviours (with expected observations) of one peripheral component's specification "
                             "replayed into the real component; recorded states/results of the real component judged by TLC")
