CHECK = dict(
    category="model_checking",
    text="StoreCache.tla specifies database.Store as records (headers with their supLinks, transactions, hashes by height, "
         "main-chain index, checkpoints, chain status) plus one cache per kind; every read must return what a cache-less "
         "read of the records returns and reads never change records. TLC checks the design (cache soundness, reads pure, "
         "read-your-writes) and exports every transition with its call path, the reference result of every read and, after "
         "a final write, a probe of all cached reads. The driver runs each behaviour on a long-lived Store over real "
         "goleveldb, issues every read twice and compares with a brand-new Store on the same DB and with the reference.",
    design_ref="DESIGN.md §6 C21",
    note="Cache eviction (2048/1024/256 entries) and concurrent fills are not exercised; returned objects are not modified by "
         "the harness. Known findings: GetCheckpoint appends the header's supLinks to the cached checkpoint (every read "
         "grows it); SaveBlock leaves a stale header cache entry when a stored block is saved again.",
    technique="TLA+ spec + TLC exhaustive model check; TLC-exported behaviours with reference read results replayed into "
              "database.Store on goleveldb, three-way comparison (cached store, fresh store, specification)",
    engine="periphery",
)
