CHECK = dict(
    category="model_checking",
    text="TxPool.tla states the mempool bookkeeping as the property fixes it: output index and orphan index are functions "
         "of (pooled txs, orphans); Submit/Remove/Expire with transitive promotion; TLC checks the index/disjointness/"
         "promotion invariants on the whole state graph over a DAG universe (chain, double spend, diamond join, retirement "
         "output, two-parent orphans in both input orders) and exports every transition with its call path, call results "
         "and expected maps; each is replayed on a fresh real protocol.TxPool and the four internal maps are compared.",
    design_ref="DESIGN.md §6 C22",
    note="Confirmed outputs fixed per behaviour; pool-size limits, vote outputs and dispatcher events not modelled. "
         "Known findings: loop-variable aliasing in checkOrphanUtxos; orphans not re-indexed when a pooled parent is removed.",
    technique="TLA+ spec + TLC exhaustive model check; TLC-exported behaviours replayed into protocol.TxPool with map snapshots",
    engine="component",
)
