CHECK = dict(
    category="model_checking",
    text='The scenarios come from Ledger.tla (submissions interleaved with block deliveries and reorganisations); the property (pool disjoint from MainTxs(best), notifications paired) is evaluated on the real pool and dispatcher after every replayed path.',
    design_ref="DESIGN.md §6 C23, core node model",
    note='Pool content itself is not predicted (C22 models the pool); 2-block trees with <=2 submissions.',
    technique="TLA+ spec + TLC exhaustive model check; TLC transitions replayed into the real Chain (ledger projection compared)",
    engine="node-replay",
)
