CHECK = dict(
    category="model_checking",
    text="WalletLedger.tla defines the wallet's unspent outputs as a function of the main chain (scan from genesis: outputs locked by a program of a wallet account, with asset, amount, program, owning account, vote key) on top of the node model of Ledger.tla. TLC explores all bounded block trees carrying a menu of real signed wallet transactions (coinbase rewards to the wallet, spends between two accounts, vote and veto, conflicting spends on forks, immature spend, foreign outputs) with every delivery order; each explored transition is replayed on a real node followed by a real wallet.Wallet (account manager, wallet DB, block walker) and the wallet's UTXO listings are compared field by field with the specification's scan.",
    design_ref="DESIGN.md §6 C24/C25, core node model",
    note="3-4 blocks above the prefix, <=2-3 placed transactions; quick replays a seed-dependent 1/k sample of the exported paths; the comparison waits for the wallet to name the chain's best block (one extra empty block after a same-height reorganisation); ValidHeight is judged by C25.",
    technique="TLA+ spec + TLC exhaustive model check; TLC transitions replayed into the real Chain + Wallet (wallet projection compared)",
    engine="node-replay",
)
