CHECK = dict(
    category="model_checking",
    text="WalletLedger.tla states on the consensus ledger of Ledger.tla which outputs a block at the next height may spend (unspent on the main chain, coinbase maturity 10, vote lock) and proves by TLC that the scan wallet's usable outputs (valid height <= best height) are always among them. Every explored transition (bounded block trees, wallet-owned coinbase/vote/normal outputs spent and un-spent by reorganisations, every delivery order) is replayed on a real node followed by a real wallet; every wallet UTXO the keeper would treat as usable must be spendable according to the specification and is spent in a real block at the next height, which the node must accept as its new best block.",
    design_ref="DESIGN.md §6 C24/C25, core node model",
    note="One constant vote lock (2 blocks); heights 14-18; scenarios with a stored branch that does not apply are judged by the specification only; shares exploration and replay with C24.",
    technique="TLA+ spec + TLC exhaustive model check; TLC transitions replayed into the real Chain + Wallet (maturity verdict compared, probe blocks)",
    engine="node-replay",
)
