CHECK = dict(
    category="model_checking",
    text="Keeper.tla specifies the reservation keeper over a fixed UTXO universe (one output present both confirmed and "
         "unconfirmed, an immature one, other account / vote key / asset): Reserve may pick ANY distinct unreserved mature "
         "outputs of the requested key summing to >= the amount with change = excess, failures are classed from the totals; "
         "ReserveParticular, Cancel, Expire. TLC checks NoOverlap/Consistent on every call sequence of the bounded instance "
         "and exports the calls; each sequence is run on a fresh real utxoKeeper and the recorded results and table snapshots "
         "are validated by TLC (trace validation), as are seeded concurrent workloads, for which TLC searches a linearisation."
         " A second instance lets the listing of outputs move between the calls (pool announcement, pool removal event, confirmation: Keeper.tla Move): a move never changes who holds an output.",
    design_ref="DESIGN.md §6 C26",
    note="UTXO sets and height fixed per behaviour; amounts > 0. Known finding: an output listed as confirmed and "
         "unconfirmed is counted (and can be reserved) twice.",
    technique="TLA+ spec + TLC exhaustive model check; TLC-generated call sequences executed on the real utxoKeeper; "
              "trace validation (sequential and concurrent with linearisation search) with TLC",
    engine="component",
)
