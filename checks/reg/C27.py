CHECK = dict(
    category="model_checking",
    text="Builder.tla states the wallet post-condition over (accounts, funding set, actions, template): inputs from the funding set "
         "of the spending accounts, recipients exactly as requested (address / program / vote / retirement), all other outputs change "
         "to programs of the spending account, each spending account debited exactly the requested amount, BTM fee = inputs - outputs "
         "= what the request left, other assets balanced, fundable requests built and unfundable ones refused, fully signed, accepted "
         "by validation.ValidateTx. TLC proves on an abstract template space that the post-condition implies conservation. Seeded "
         "random cases (6 accounts incl. 2-of-3, 1-of-2, 2-of-2, 3-of-3 multisig with keys in a real pseudo-HSM and every ordered quorum of co-signers as part of the case, 3 assets, random UTXO sets in the wallet DB, "
         "random action lists) run through txbuilder.Build/Sign/ValidateTx are recorded with limb-encoded amounts and judged rule by "
         "rule by TLC (TraceBuilder).",
    design_ref="DESIGN.md §6 C27",
    note="Requests scoped as the API layer produces them (merged spends); veto / register / chained spends not generated; most cases "
         "sign with HSM-loaded keys outside XSign because of scrypt cost.",
    technique="TLA+ spec + TLC design check; recorded executions of the real builder/signer/validator judged by TLC",
    engine="wallet-builder",
)
ENGINE = dict(name="wallet-builder", path="check + harness/cmd/c27 + specs/wallet/Builder*.tla", serves_properties=["C27"],
              kind_free_text="seeded wallet build scenarios on the real account manager / pseudo-HSM, judged by TLC against Builder.tla")
