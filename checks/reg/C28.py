CHECK = dict(
    category="model_checking",
    text="KeyAlgebra.tla is a free term algebra (Root, Child, Pub, ChildPub, Sig, Enc) with the single equation "
         "ChildPub(Pub(k),s) = Pub(Child(k,s)); TLC normalises every public-key term over 2 seeds and all paths of depth <= 3 "
         "(every split between private and public derivation) and emits all pairwise (in)equalities, all verification "
         "outcomes and the Enc/Dec table, which the driver interprets with chainkd (RootXPrv, Child, XPub, XPub.Child, "
         "Derive, Sign, Verify) and pseudohsm.EncryptKey/DecryptKey. KeyStoreSeq.tla models the key store (import, load, "
         "sign, reset, delete under right/wrong passwords); every transition is replayed on a real HSM directory and "
         "signatures through the store must equal the directly derived key's. Random paths to depth 8 recorded as terms "
         "are normalised by TLC and compared.",
    design_ref="DESIGN.md §6 C28",
    note="Decides consistency of the API algebra (commutation, sign/verify pairing, password gating); cryptographic strength "
         "is out of scope; distinct terms are assumed to denote distinct values. Hardened derivation is not in the property.",
    technique="TLA+ term algebra normalised by TLC; TLC-exported equality/verification tables and key-store behaviours "
              "interpreted with the real chainkd/pseudohsm code; recorded random terms judged by TLC",
    engine="function-tables",
)
