CHECK = dict(
    category="model_checking",
    text="TextEnc.tla makes bit regrouping, bech32 (BCH polymod on 30-bit integers), version-0 segwit addresses per "
         "network prefix, RFC 4648 base32 and mnemonic word indices executable. TLC proves on a family of programs that "
         "addresses round-trip on their network only and that every single-character substitution is rejected on every "
         "network, and exports them for replay against EncodeAddress/DecodeAddress. Random programs, payloads, byte "
         "strings, entropy, well-formed-but-invalid bech32, mutated and arbitrary strings recorded by the driver are "
         "evaluated by TLC and the real address/bech32/base32/mnemonic functions must agree; arbitrary strings must not "
         "panic any decoder.",
    design_ref="DESIGN.md §6 C29",
    note="SHA-256 checksum byte of mnemonics supplied by the harness; the result of base32/mnemonic decoding of arbitrary "
         "strings is left open (panic-freedom only).",
    technique="TLA+ spec + TLC check of the substitution theorem on enumerated addresses; TLC-exported tables replayed into "
              "the real codecs; recorded inputs judged by TLC-evaluated reference operators",
    engine="function-tables",
)
