CHECK = dict(
    category="model_checking",
    text="Merkle.tla models hashes as a free term algebra and defines the tree shape, Root, Proof (hashes + 3-valued flags) "
         "and the validation automaton. TLC proves completeness and soundness under every single substitution of a proof "
         "hash, flag, root or related hash for all list sizes up to 7 (thorough 10) with all subsets, and exports each case "
         "with the outcome of every variant; the driver concretises them with random ids against TxMerkleRoot, "
         "GetTxMerkleTreeProof and ValidateTxMerkleTreeProof. For random lists of up to 64 ids the real generator's proof is "
         "mapped back to terms, randomly tampered and validated by the real code, and TLC assigns the outcome to every "
         "recorded case.",
    design_ref="DESIGN.md §6 C30",
    note="Assumes collision-freeness, distinct ids, related hashes in list order; leftover proof elements are not judged.",
    technique="TLA+ spec + TLC exhaustive check of the proof theorems; TLC-exported case table replayed into the real "
              "generator/validator; recorded proofs and tamperings judged by TLC",
    engine="function-tables",
)
