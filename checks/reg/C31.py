CHECK = dict(
    category="model_checking",
    text="Checked.tla gives one definition for all 26 functions of math/checked (operation defined on the operands, exact "
         "integer result, success iff it lies in the type's range) in two forms: over TLC integers and over limb integers "
         "(FnBigNat.tla). TLC proves both forms equal exhaustively on 6-8 bit types, exports the complete width-5 table "
         "(12320 rows) which the driver lifts to int32/int64/uint32/uint64 by identity and power-of-two scaling, and "
         "evaluates the definition on boundary-biased and random 32/64-bit operands recorded by the driver; every real "
         "result is compared with TLC's.",
    design_ref="DESIGN.md §6 C31",
    note="Shift counts outside 0..width-1 and zero divisors are treated as outside the domain (failure expected); the value "
         "returned with a failure is unconstrained. Known finding: ModInt32/ModInt64(min, -1) report failure although the "
         "exact result 0 fits. NewUInt256 (string parsing) is not covered.",
    technique="TLA+ spec + TLC exhaustive check of the reference on small widths; TLC-exported case table lifted into the real "
              "functions; Go-recorded operands judged by TLC-evaluated limb arithmetic",
    engine="function-tables",
)
ENGINE = dict(name="function-tables", path="check + harness/cmd/c28..c31 + specs/fn",
              serves_properties=["C28", "C29", "C30", "C31"],
              kind_free_text="TLC evaluates reference operators of specs/fn on enumerated small spaces and on inputs recorded by the "
                             "Go driver; the driver concretises the cases, runs the real functions and compares")
