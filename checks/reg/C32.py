CHECK = dict(
    category="model_checking",
    text="SecretConn.tla specifies each direction of an established secret connection as a byte stream cut into frames "
         "of <=1024 data bytes: Read returns 1..min(|buf|, available) bytes that continue the stream, a frame modified in "
         "transit is never delivered and produces an error, EOF only after everything was delivered, and the handshake "
         "gives each side the peer's key. TLC checks the stream invariants on a bounded instance; seeded two-way workloads "
         "over two real SecretConnections on in-memory pipes (write sizes 1..3000, read buffers 1..2000, bit flips in "
         "sealed data and handshake frames) are recorded event by event and validated by TLC against TraceSecretConn.tla.",
    design_ref="DESIGN.md §6 C32",
    note="Wire constants (1042-byte sealed frame, 32+1042 handshake bytes) are used only to aim the bit flip. "
         "Known finding: Read served from recvBuffer returns n=0 although bytes were copied.",
    technique="TLA+ spec + TLC model check; trace validation of recorded executions of the real SecretConnection with TLC",
    engine="component",
)
