CHECK = dict(
    category="model_checking",
    text="Sync.tla states the post-condition LocateOk(req, resp) of header/block locate requests over a main chain of 9 blocks and "
         "a 3-block side branch (item limit, all on main chain, strictly increasing heights, first item = highest main-chain locator "
         "entry or genesis, nothing above the stop block, empty when the stop hash is unknown/off-chain/below start, no panic). TLC "
         "enumerates all requests of the bounded scenario (locators from main/side/unknown hashes in any order, every stop hash, skip "
         "up to 2^64-1 as limbs, protocol and small item limits) and proves the post-condition satisfiable; the driver runs them and "
         "seeded random requests through the real blockKeeper.locateHeaders/locateBlocks and TLC judges every recorded "
         "(request, response) pair rule by rule.",
    design_ref="DESIGN.md §6 C33",
    note="Chain behind the keeper is test/mock.Chain; long answers judged on a subsequence plus length; handle.go wrappers not driven.",
    technique="TLA+ spec + TLC enumeration of requests; recorded request/response pairs of the real functions judged by TLC",
    engine="sync-locate",
)
ENGINE = dict(name="sync-locate", path="check + harness/cmd/c33 + specs/chain/Sync*.tla", serves_properties=["C33"],
              kind_free_text="TLC-enumerated requests executed on the real locate functions; responses judged by TLC against LocateOk")
