CHECK = dict(
    category="model_checking",
    text="Dht.tla specifies the Kademlia table (entries + replacement list per bucket; Add, Stuff, Delete, DeleteReplace, "
         "Bump) in two variants: repaired (TLC proves: <= capacity distinct nodes per bucket at the bucket's distance, "
         "local node absent, count exact) and as implemented (TLC finds DeleteReplace re-inserting a node that Add/Stuff "
         "already moved into the entries). Every transition of the as-implemented variant (capacity 2 via pre-filled real "
         "buckets; full-size random behaviours with 36 colliding nodes) is replayed on a real Table through an export "
         "shim; every distinct real table state is judged by TLC (TraceDht.tla evaluates the property on the snapshot).",
    design_ref="DESIGN.md §6 C34",
    note="The network layer is not run; nodes get chosen distance hashes (one per identity). Only the stated invariants are "
         "judged, not the eviction/ordering policy. Known finding: add/stuff do not purge the replacement list, so "
         "deleteReplace inserts a duplicate entry.",
    technique="TLA+ spec + TLC exhaustive model check (design counterexample concretised); TLC-exported behaviours replayed "
              "into the real table; recorded real states validated by TLC",
    engine="periphery",
)
