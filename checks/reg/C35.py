CHECK = dict(
    category="model_checking",
    text="BanScore.tla specifies score(t) = persistent + floor(transient * 2^(-(t-last)/60)), forgotten after 1800 s, with the "
         "transient part carried as an exact rational enclosure (8-digit enclosures of 2^(-k/60) checked by TLC for "
         "multiplicative consistency, exact halving), so every call admits an interval of integers. TLC checks "
         "non-negativity, tightness, forgetting and monotonicity, exports every transition over boundary clock steps with "
         "the admitted interval of every call, replayed through the explicit-time entry points of p2p/security and "
         "p2p/trust; seeded random sequences are recorded and judged by TLC (TraceBanScore.tla).",
    design_ref="DESIGN.md §6 C35",
    note="Amounts far below 2^32; backwards clock steps only bounded (persistent <= score <= undecayed sum); results whose "
         "exact value lies on an integer boundary are accepted and counted as skipped_ambiguous. Known findings: Increase "
         "with transient 0 reports the undecayed stored transient; a transient <= 1 point is carried without decay; "
         "p2p/trust needs an explicit Init() that nothing calls.",
    technique="TLA+ spec + TLC exhaustive model check; TLC-exported behaviours with admitted result intervals replayed into "
              "DynamicBanScore; recorded random executions validated by TLC",
    engine="periphery",
)
