CHECK = dict(
    category="model_checking",
    text="Authn.tla states the admission rule over tokens (id, fresh secret, deleted-at), the documented 5 minute cache "
         "window, loopback/non-loopback origins and the three local-only paths, with credentials as atom sequences so "
         "every re-splitting of id+secret is a separate request. TLC checks the rule (OnlyIssued, NoResplit) and exports "
         "every transition of the bounded model with the call path and the allowed outcome; each is replayed against the "
         "real authn.API over a real CredentialStore on goleveldb (thorough: plus one real 301 s wait for the expiry edge)."
         " The specification's clock counts half cache windows; an instance with two half-window waits (2 x 151 s of real time, both tiers) checks that using a deleted token's pair does not extend the window.",
    design_ref="DESIGN.md §6 C36",
    note="Loopback requests without a live token are left unconstrained; static /dashboard and /equity prefixes excluded. "
         "Known finding: cache key user+pw admits a re-split of an authenticated token.",
    technique="TLA+ spec + TLC exhaustive model check; TLC-exported behaviours replayed into authn.API/CredentialStore",
    engine="component",
)
