CHECK = dict(
    category="model_checking",
    text="NodeLocks.tla is the synchronisation skeleton of the node as the code structures it: the block processor's select over "
         "block requests and rollback requests (ApplyBlock: epoch announcement, then Casper.mu; BestChain; setState: LastFinalized, "
         "then cond.L; pool fix-ups), AuthVerification (Casper.mu, work, unlock, THEN rollback request and wait for the reply), the "
         "cached-verification loop, ProcessBlock / ValidateTx / read-query callers, bounded channels. TLC proves deadlock freedom and, "
         "under weak fairness, that every call returns and the node comes to rest on the bounded instances, and finds the deadlock / "
         "the unsynchronised tree access on the two as-it-was variants. Binding: (R) every deadlock schedule TLC finds on the "
         "hold-lock-during-rollback variant is replayed on the real node with the trace points as scheduler gates; (T) seeded "
         "concurrent workloads on a real node (forked block tree, really signed verifications that justify a side-branch checkpoint "
         "and change the best chain, transactions, queries), half of them under the Go race detector, with call begin/end and "
         "lock/channel trace points validated by TLC against TraceNodeLocks.tla; a call that does not return (watchdog, reproduced) "
         "or a race report is the violation."
         " Rounds of sustained contention (6 submitters, pool readers, a block feeder, a finality reader) watch progress for lock windows that the traced workloads are too short to hit; only a stall seen twice is reported.",
    design_ref="DESIGN.md §6 C37",
    note="Leaf sections (reads of Casper.mu, cond.L, txpool calls of callers) are one step; data races are decided by the race "
         "detector on the executed workloads, not by TLC; wallet/p2p/RPC goroutines are not driven. Known findings: authCachedMsg "
         "reads the checkpoint tree before taking Casper.mu; saveVerificationToHeader edits the store's cached header in place.",
    technique="TLA+ spec + TLC exhaustive model check (deadlock, liveness under weak fairness); TLC deadlock counterexamples replayed "
              "on the real node through gating trace points; trace validation of concurrent executions with TLC; Go race detector "
              "and progress watchdog as monitors",
    engine="conc",
)
ENGINE = dict(name="conc", path="check + harness/cmd/c37 (+ internal/node, internal/memkv) + specs/chain/NodeLocks.tla, TraceNodeLocks.tla",
              serves_properties=["C37"],
              kind_free_text="seeded concurrent workloads on a real node in child processes (plain and -race builds), lock/channel trace "
                             "points validated by TLC against the lock skeleton, TLC deadlock schedules replayed with gates, watchdog")
