CHECK = dict(
    category="model_checking",
    text="Ledger.tla supplies the chain and mempool histories (all bounded block trees with menu transactions, all delivery orders, "
         "pool submissions before/after confirmation); TLC checks the ledger invariants on them and every sampled transition is "
         "replayed on a real node that then proposes a block for its own slot (real proposal.NewBlockTemplate, real signature) which "
         "must be accepted by ProcessBlock and become the best block, including reward-paying heights.",
    design_ref="DESIGN.md §6 C38",
    note="The specification does not predict the template's content, it states the property (accepted and best); menu of 7 transaction "
         "kinds, no gas-heavy transactions; paths with a stored non-applying branch are skipped (known C11 finding).",
    technique="TLC-generated histories from the TLA+ ledger spec replayed into the real Chain + proposer; acceptance of the proposed block checked",
    engine="node-replay",
)
