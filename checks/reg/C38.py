CHECK = dict(
    category="model_checking",
    text="Two engines. (1) Ledger.tla supplies chain and mempool histories (all bounded block trees with menu transactions, all delivery "
         "orders, pool submissions before/after confirmation); every sampled transition is replayed on a real node that then proposes a "
         "block for its own slot (real proposal.NewBlockTemplate, real signature) which must be accepted by ProcessBlock and become the "
         "best block, including reward-paying heights. (2) Proposer.tla specifies what a template built from a pool may contain (a "
         "selection that applies to the ledger of the best block within the block gas budget: no child without its parent, no two spends "
         "of one coin, budget respected); TLC checks these invariants on a nondeterministic builder and enumerates pools of 50 "
         "transactions around the budget (33..35 transactions of ~293,000 gas; 34 fill a block) with chained, forked and conflicting "
         "transactions placed relative to the first transaction that no longer fits and to the proposer's batches of 16; each pool is "
         "loaded into a real mempool with real ~293 KB transactions, the node builds, signs and processes its own block, and "
         "ProposerJudge.tla judges the recorded template.",
    design_ref="DESIGN.md §6 C38",
    note="Part 1 does not predict the template's content (menu of 7 transaction kinds; paths with a stored non-applying branch are skipped, "
         "known C11 finding). Part 2 accepts any template the specification allows (arrival order is reported, not demanded); one input per "
         "transaction, children arrive after their parents, gas scaled 1 unit = one maximal transaction.",
    technique="TLC-generated histories / pool shapes replayed into the real Chain + mempool + proposer; acceptance of the proposed block "
              "checked and the recorded template judged by TLC against the property-level specification",
    engine="node-replay",
)
