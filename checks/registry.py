"""Registry of claimed checks; tools/genmanifest.py turns it into MANIFEST.json.
Properties not listed here are emitted under not_applicable with the reason in PENDING."""

CHECKS = {
    "C39": dict(
        category="model_checking",
        text="Event.tla models the dispatcher as the code structures it (Post = snapshot + per-receiver delivery, "
             "Unsubscribe = del + close). TLC proves the per-subscriber delivery invariants on the bounded sequential "
             "and 2-poster concurrent instances; every transition of the sequential instance is replayed against "
             "event.Dispatcher with results and channel state compared, and randomised concurrent executions of the "
             "real dispatcher are validated as behaviours of the specification (TLC searches the placement of the "
             "silent internal steps).",
        design_ref="DESIGN.md §6 C39",
        note="Assumes subscriptions are created before concurrent posting (created-time filter not modelled); channel "
             "capacity bound by scaling; atomic sequence counter orders call begin/end events.",
        technique="TLA+ spec + TLC exhaustive model check; TLC-exported behaviours replayed into event.Dispatcher; "
                  "trace validation of concurrent executions with TLC",
        engine="component",
    ),
}

# reason shown under not_applicable until the check exists
PENDING = "check not built yet in this round (planned in DESIGN.md §6); not claimed"

ENGINES = [
    dict(name="component", path="check + harness/cmd/<id> + specs/periph", serves_properties=["C39"],
         kind_free_text="TLC behaviours replayed into one real component and/or recorded traces validated by a Trace*.tla"),
]

# per-property fragments: checks/reg/<ID>.py defining CHECK (same keys as above) and optionally ENGINE
import glob as _glob, os as _os, importlib.util as _ilu
for _f in sorted(_glob.glob(_os.path.join(_os.path.dirname(_os.path.abspath(__file__)), "reg", "C*.py"))):
    _spec = _ilu.spec_from_file_location("reg_" + _os.path.basename(_f)[:-3], _f)
    _m = _ilu.module_from_spec(_spec)
    _spec.loader.exec_module(_m)
    CHECKS[_os.path.basename(_f)[:-3]] = _m.CHECK
    if hasattr(_m, "ENGINE"):
        ENGINES.append(_m.ENGINE)
NA = {}   # property id -> reason, for properties deliberately not claimed
