"""Trace validation helper for checks whose unchanged tree already hits a known defect often.

`ctx.validate_traces` (common.py) restarts TLC after every rejected trace and gives up after 25
rejections per batch.  Here the trace specification has an always-enabled `TSkip` step that
abandons the current trace and jumps to the next `reset` line, so ONE TLC run judges every trace
of the batch independently:

  * python adds to every line  `tr` (1-based number of the trace the line belongs to; a reset
    line carries the number of the trace it starts) and `nr` (1-based line number of the next
    reset line, or number of lines + 1);
  * the specification keeps, in TLC register 2, for every trace the largest line number it could
    explain (`HW` state constraint) and prints it from the POSTCONDITION as `NOTE hwmap [..]`;
  * a trace is accepted iff its high-water mark is its last line.

Required shape of the trace specification (see specs/periph/TraceSecretConn.tla):
    Trace == ndJsonDeserialize("trace.ndjson")
    VARIABLES l, sk            \\* line position, "arrived here by skipping"
    TSkip == l <= Len(Trace) /\\ Trace[l].ev # "reset" /\\ l' = Trace[l].nr /\\ sk' = TRUE /\\ <all other variables := initial values>
    TReset == Trace[l].ev = "reset" /\\ ... /\\ sk' = FALSE
    NTr == Trace[Len(Trace)].tr
    ASSUME TLCSet(2, [i \\in 1..NTr |-> 0])
    HW == (~sk /\\ l > 1) => LET t == Trace[l-1].tr IN
             IF TLCGet(2)[t] < l - 1 THEN TLCSet(2, [TLCGet(2) EXCEPT ![t] = l - 1]) ELSE TRUE
    Report == PrintT("NOTE hwmap " \\o ToJson(TLCGet(2)))
  cfg: CONSTRAINT HW, POSTCONDITION Report, no NotDone invariant (TLC runs to exhaustion).
"""
import json
from common import Infra, ndjson


def validate(ctx, module, cfg, traces, reset, tag=None, timeout=1200, heap=None, files=None):
    """traces: list of lists of event dicts (without reset lines). reset: dict or function
    trace_index -> dict giving the reset line of each trace.
    Returns (rejected, states): rejected = list of (trace_index, index_of_first_unexplained_event)."""
    if not traces:
        return [], 0
    lines, spans = [], []
    for ti, tr in enumerate(traces):
        start = len(lines) + 1
        rs = dict(reset(ti) if callable(reset) else reset)
        rs["ev"] = "reset"
        rs["tr"] = ti + 1
        lines.append(rs)
        for e in tr:
            e = dict(e)
            e["tr"] = ti + 1
            lines.append(e)
        spans.append((start, len(lines)))
    total = len(lines)
    for ti, (start, end) in enumerate(spans):
        nxt = end + 1
        for k in range(start - 1, end):
            lines[k]["nr"] = nxt
    fs = {"trace.ndjson": ndjson(lines)}
    fs.update(files or {})
    r = ctx.tlc(module, cfg, workers=1, timeout=timeout, heap=heap, tag=tag, files=fs)
    if r.violated is not None or r.error is not None or r.rc != 0:
        raise Infra("trace validation %s: unexpected TLC outcome violated=%s error=%s\n%s"
                    % (module, r.violated, r.error, r.out[-2500:]))
    hw = None
    for n in r.prints:
        if n.startswith("hwmap "):
            hw = json.loads(n[len("hwmap "):])
    if hw is None or len(hw) != len(traces):
        raise Infra("trace validation %s: no high-water map in the TLC output\n%s" % (module, r.out[-2000:]))
    rejected = []
    for ti, (start, end) in enumerate(spans):
        h = hw[ti]
        if h < start:
            raise Infra("trace validation %s: trace %d was never started (hw %d < %d)" % (module, ti, h, start))
        if h < end:
            rejected.append((ti, h - start))      # index within traces[ti] of the first unexplained event
    return rejected, r.distinct
