"""Shared orchestration of the VM checks C06-C08 (helper module, see notes/C06.md).

Pipeline of every family of cases:
   case source (TLC enumeration spec, or the seeded Go generator of the property)
     -> `cNN prep`  numbers the cases, adds hash/signature facts (standard library), shards
     -> TLC VMRun.tla: the reference execution of every case, gas-discipline invariants
        checked on every state; exports [id, result class, gas left, per-step trace]
     -> `cNN cmp`   executes the real vm.Verify (vm.TraceOut step trace) and compares
"""
import os
import re
from common import Infra

INVS = "GasNonNeg PhiBounded ResultBounded ChildBounded"


def known_env(ctx):
    return {"VERIF_KNOWN_SIGS": "\n".join(k["sig"] for k in ctx.known)}


def reference_runs(ctx, casedir, nshards, tag, timeout=1700, workers=None):
    """Run VMRun.tla on every shard in casedir; returns (list of tlc.out paths, states, transitions)."""
    outs, states, trans = [], 0, 0
    with open(os.path.join(casedir, "ctxs.ndjson")) as fh:
        ctxs = fh.read()
    for k in range(nshards):
        with open(os.path.join(casedir, "cases.%d.ndjson" % k)) as fh:
            cases = fh.read()
        if not cases.strip():
            continue
        r = ctx.tlc_design("vm/VMRun", "cfg/VMRun.cfg", files={"cases.ndjson": cases, "ctxs.ndjson": ctxs},
                           timeout=timeout, workers=workers or 8, tag="%s-shard%d" % (tag, k))
        n = cases.count("\n")
        if r.nexports != n:
            raise Infra("VMRun exported %d reference executions for %d cases (%s)" % (r.nexports, n, tag))
        outs.append(os.path.join(r.scratch, "tlc.out"))
        states += r.distinct
        trans += r.generated
    return outs, states, trans


def family(ctx, binary, raw_inputs, tag, nshards=1, keep=None, timeout=1700):
    """prep -> TLC -> cmp for one family of raw cases. Returns dict(summary, samples, states, transitions, other)."""
    casedir = os.path.join(ctx.work, "cases_" + tag)
    hp = ctx.harness([binary, "prep"] + list(raw_inputs) + [casedir, str(nshards)], timeout=timeout, env=known_env(ctx), keep=keep)
    if hp["summary"].get("hang"):
        return dict(summary=hp["summary"], samples=[], states=0, transitions=0, other=hp.get("other", []), casedir=casedir, outs=[])
    if not hp["summary"].get("prepared"):
        raise Infra("no cases prepared for %s: %s" % (tag, hp["summary"]))
    outs, states, trans = reference_runs(ctx, casedir, nshards, tag, timeout=timeout)
    hc = ctx.harness([binary, "cmp", casedir] + outs, timeout=timeout, env=known_env(ctx), keep=keep)
    s = dict(hc["summary"])
    s["prepared"] = hp["summary"]["prepared"]
    s["dropped_too_long"] = hp["summary"].get("dropped_too_long", 0)
    return dict(summary=s, samples=hc["samples"], states=states, transitions=trans, other=hc.get("other", []),
                casedir=casedir, outs=outs)


def negative_control(ctx, binary, fam):
    """Corrupt one expected value of every reference execution: each must be detected."""
    hc = ctx.harness([binary, "cmp", fam["casedir"]] + fam["outs"][:1] + ["corrupt"], timeout=900, env=known_env(ctx))
    s = hc["summary"]
    if not s.get("control_corrupted") or s.get("control_detected") != s.get("control_corrupted"):
        raise Infra("negative control: %s corrupted expected results, %s detected"
                    % (s.get("control_corrupted"), s.get("control_detected")))
    return "%d corrupted expected results, all detected" % s["control_corrupted"]


def merge(total, part):
    for k, v in part.items():
        if isinstance(v, bool):
            total[k] = total.get(k, False) or v
        elif isinstance(v, (int, float)):
            total[k] = total.get(k, 0) + v
        elif isinstance(v, dict):
            d = total.setdefault(k, {})
            for a, b in v.items():
                d[a] = d.get(a, 0) + b if isinstance(b, (int, float)) else b
        else:
            total[k] = v
    return total
