"""Helpers shared by the wire-format checks C04 and C05.

`judge_shards` runs the same single-worker TLC specification on several input
shards concurrently (one JVM per shard): TLC evaluates recorded observations one
after the other, so sharding is what uses the cores. It mirrors Ctx.tlc (scratch
copy of all specs, same JVM flags) and registers every run in ctx.tlc_runs.
"""
import json
import os
import shutil
import subprocess
import threading
import time

from common import Infra, TLCResult, SPECS, NCPU

CP = "/opt/veriftools/tla/tla2tools.jar:/opt/veriftools/tla/CommunityModules-deps.jar"


def _one(ctx, scratch, module, cfg, files, heap, timeout, tag, out, k):
    shutil.rmtree(scratch, ignore_errors=True)
    os.makedirs(scratch)
    for root, _, fs in os.walk(SPECS):
        for f in fs:
            if f.endswith(".tla") or f.endswith(".cfg"):
                shutil.copy(os.path.join(root, f), os.path.join(scratch, f))
    for name, content in files.items():
        with open(os.path.join(scratch, name), "wb" if isinstance(content, bytes) else "w") as fh:
            fh.write(content)
    argv = ["java", "-XX:+UseParallelGC", "-XX:ParallelGCThreads=2", "-Xmx" + heap, "-Xss256m", "-cp", CP, "tlc2.TLC",
            "-workers", "1", "-metadir", os.path.join(scratch, "md"), "-noGenerateSpecTE", "-deadlock",
            "-config", os.path.basename(cfg), os.path.basename(module) + ".tla"]
    t = time.time()
    outpath = os.path.join(scratch, "tlc.out")
    with open(outpath, "w") as ofh:
        try:
            rc = subprocess.run(argv, cwd=scratch, stdout=ofh, stderr=subprocess.STDOUT, timeout=timeout).returncode
        except subprocess.TimeoutExpired:
            subprocess.run(["pkill", "-f", scratch], check=False)
            out[k] = Infra("TLC timeout after %ss on %s shard %d" % (timeout, module, k))
            return
    r = TLCResult(outpath, rc, time.time() - t)
    r.scratch = scratch
    out[k] = r


def judge_shards(ctx, module, cfg, fname, records, tag, shard_size=1500, par=None, heap="3g", timeout=1500):
    """Split `records` (list of ndjson lines, str) into shards, run TLC on each, return list of TLCResult."""
    par = par or max(1, min(NCPU // 2, 6))
    shards = [records[i:i + shard_size] for i in range(0, len(records), shard_size)] or [[]]
    out = [None] * len(shards)
    sem = threading.Semaphore(par)

    def work(k):
        with sem:
            try:
                _one(ctx, os.path.join(ctx.work, "tlc_%s_%d" % (tag, k)), module, cfg,
                     {fname: "".join(shards[k])}, heap, timeout, tag, out, k)
            except Exception as e:  # noqa
                out[k] = Infra("TLC shard %d of %s: %r" % (k, module, e))

    ths = [threading.Thread(target=work, args=(k,)) for k in range(len(shards))]
    for t in ths:
        t.start()
    for t in ths:
        t.join()
    for k, r in enumerate(out):
        if isinstance(r, Exception):
            raise r
        if r is None:
            raise Infra("TLC shard %d of %s produced nothing" % (k, module))
        ctx.tlc_runs.append(dict(module=os.path.basename(module), cfg=os.path.basename(cfg), tag="%s[%d]" % (tag, k),
                                 generated=r.generated, distinct=r.distinct, depth=r.depth, wall_s=round(r.wall, 2),
                                 violated=r.violated, error=r.error))
        if not r.ok:
            raise Infra("TLC failed on %s shard %d (%s): violated=%s error=%s\n%s"
                        % (module, k, tag, r.violated, r.error, r.out[-3000:]))
        if r.nexports != len(shards[k]):
            raise Infra("TLC judged %d of %d records in shard %d of %s (%s)\n%s"
                        % (r.nexports, len(shards[k]), k, module, tag, r.out[-2000:]))
    return out


def hexs(ints):
    return bytes(ints).hex()


def short(o, n=400):
    s = json.dumps(o, separators=(",", ":"))
    return s if len(s) <= n else s[:n] + "..."


def replay_exit(ctx):
    """End a --replay run: report like Ctx.finish but leave evidence/<ID>.json alone."""
    import sys
    for h in ctx.known_hits:
        print("KNOWN-FINDING: property=%s %s [%s]" % (ctx.pid, h["desc"], h["sig"]))
    for v in ctx.violations:
        print("VIOLATION property=%s replay=%s\n  %s" % (ctx.pid, v["replay"], v["desc"][:600]))
    print("%s: replay %s" % (ctx.pid, "reproduces a violation" if ctx.violations else "does not violate the property (or is a known finding)"))
    sys.exit(1 if ctx.violations else 0)
