// c01: binds specs/ledger/TxValidate.tla to protocol/validation.ValidateTx.
//
//	c01 run <exports>       concretise every TLC-judged abstract transaction into a real
//	                        types.Tx, run validation.ValidateTx and TxData.Fee(), and compare
//	                        with the judgement of the specification (property as oracle)
//	c01 gen <n> <out.ndjson> write n random / boundary-biased / mutated abstract transactions
//	                        (limb-encoded amounts) for TxValidateJudge.tla to judge
package main

import (
	"encoding/json"
	"fmt"
	"math"
	"math/rand"
	"os"
	"sort"
	"strconv"
	"strings"

	"github.com/bytom/bytom/consensus"
	"github.com/bytom/bytom/crypto/sha3pool"
	"github.com/bytom/bytom/protocol/bc"
	"github.com/bytom/bytom/protocol/bc/types"
	"github.com/bytom/bytom/protocol/validation"
	"github.com/bytom/bytom/protocol/vm"

	"verifharness/internal/vh"
)

const nl = 6 // limbs, base 2^15, little endian (specs/ledger/LedgerNat.tla)

type aIn struct {
	K    string `json:"k"`
	A    string `json:"a"`
	V    []int  `json:"v"`
	Key  string `json:"key"`
	Prog string `json:"prog"`
}
type aOut struct {
	K   string `json:"k"`
	A   string `json:"a"`
	V   []int  `json:"v"`
	Key string `json:"key"`
}
type aTx struct {
	Ins   []aIn  `json:"ins"`
	Outs  []aOut `json:"outs"`
	First bool   `json:"first"`
	Tr    string `json:"tr"`
	Size  string `json:"size"`
}
type judgement struct {
	Acc   string `json:"acc"`
	Cons  bool   `json:"cons"`
	Why   string `json:"why"`
	Fee   []int  `json:"fee"`
	Mixed bool   `json:"mixed"`
}
type export struct {
	ID  int       `json:"id"`
	Src string    `json:"src"`
	Tx  aTx       `json:"tx"`
	Exp judgement `json:"exp"`
}

func toLimbs(x uint64) []int {
	l := make([]int, nl)
	for i := 0; i < nl; i++ {
		l[i] = int(x & 32767)
		x >>= 15
	}
	return l
}

// fromLimbs returns the value and whether it fits 64 bits.
func fromLimbs(l []int) (uint64, bool) {
	var x uint64
	ok := len(l) == nl
	for i := len(l) - 1; i >= 0; i-- {
		if i*15 >= 64 && l[i] != 0 {
			ok = false
		}
		if i == 4 && l[i] >= 16 {
			ok = false
		}
		if i*15 < 64 {
			x |= uint64(l[i]) << (uint(i) * 15)
		}
	}
	return x, ok
}

func hashOf(s string) bc.Hash {
	var b [32]byte
	sha3pool.Sum256(b[:], []byte(s))
	return bc.NewHash(b)
}

var progNop = []byte{byte(vm.OP_NOP)} // the witness argument decides: [1] succeeds, [] fails

func assetOf(name string) bc.AssetID {
	if name == "BTM" {
		return *consensus.BTMAssetID
	}
	h := hashOf(name) // == IssuanceInput.AssetDefinitionHash() for AssetDefinition = name
	return bc.ComputeAssetID(progNop, 1, &h)
}

func key(k string) []byte {
	n := 64
	if k != "ok" {
		n = 63
	}
	b := make([]byte, n)
	for i := range b {
		b[i] = byte(i + 1)
	}
	return b
}

func args(p string) [][]byte {
	if p == "ok" {
		return [][]byte{{1}}
	}
	return [][]byte{{}}
}

const height = 100

// build makes the TxData of an abstract transaction. Amounts above 2^63-1 cannot be written by the
// wire format; clamp=true replaces them by 2^63-1 (same encoded length) to measure the serialized size.
func build(t *aTx, clamp bool) (types.TxData, error) {
	data := types.TxData{Version: 1}
	for i, in := range t.Ins {
		amt, ok := fromLimbs(in.V)
		if !ok {
			return data, fmt.Errorf("input %d amount does not fit uint64", i)
		}
		if clamp && amt > math.MaxInt64 {
			amt = math.MaxInt64
		}
		src := hashOf("src" + strconv.Itoa(i))
		switch in.K {
		case "spend":
			data.Inputs = append(data.Inputs, types.NewSpendInput(args(in.Prog), src, assetOf(in.A), amt, uint64(i), progNop, nil))
		case "veto":
			data.Inputs = append(data.Inputs, types.NewVetoInput(args(in.Prog), src, assetOf(in.A), amt, uint64(i), progNop, key(in.Key), nil))
		case "issue":
			data.Inputs = append(data.Inputs, types.NewIssuanceInput([]byte("nonce"+strconv.Itoa(i)), amt, progNop, args(in.Prog), []byte(in.A)))
		case "coinbase":
			data.Inputs = append(data.Inputs, types.NewCoinbaseInput([]byte("cb"+strconv.Itoa(i))))
		default:
			return data, fmt.Errorf("unknown input kind %q", in.K)
		}
	}
	for j, o := range t.Outs {
		amt, ok := fromLimbs(o.V)
		if !ok {
			return data, fmt.Errorf("output %d amount does not fit uint64", j)
		}
		if clamp && amt > math.MaxInt64 {
			amt = math.MaxInt64
		}
		switch o.K {
		case "orig":
			data.Outputs = append(data.Outputs, types.NewOriginalTxOutput(assetOf(o.A), amt, []byte{byte(vm.OP_TRUE)}, nil))
		case "retire":
			data.Outputs = append(data.Outputs, types.NewOriginalTxOutput(assetOf(o.A), amt, []byte{byte(vm.OP_FAIL)}, nil))
		case "vote":
			data.Outputs = append(data.Outputs, types.NewVoteOutput(assetOf(o.A), amt, []byte{byte(vm.OP_TRUE)}, key(o.Key), nil))
		default:
			return data, fmt.Errorf("unknown output kind %q", o.K)
		}
	}
	switch t.Tr {
	case "ok":
		data.TimeRange = height + 5
	case "past":
		data.TimeRange = height - 1
	}
	return data, nil
}

// concretise builds the real transaction and the block context.
func concretise(t *aTx) (*types.Tx, *bc.Block, error) {
	data, err := build(t, false)
	if err != nil {
		return nil, nil, err
	}
	if t.Size != "zero" {
		raw, err := data.MarshalText()
		if err != nil {
			shadow, _ := build(t, true)
			if raw, err = shadow.MarshalText(); err != nil {
				return nil, nil, err
			}
		}
		data.SerializedSize = uint64(len(raw) / 2)
	}
	tx := types.NewTx(data)
	blk := &bc.Block{BlockHeader: &bc.BlockHeader{Version: 1, Height: height}}
	if t.First {
		blk.Transactions = []*bc.Tx{tx.Tx}
	} else {
		other := types.NewTx(types.TxData{Version: 1, SerializedSize: 1,
			Inputs:  []*types.TxInput{types.NewCoinbaseInput([]byte("other"))},
			Outputs: []*types.TxOutput{types.NewOriginalTxOutput(*consensus.BTMAssetID, 0, []byte{byte(vm.OP_TRUE)}, nil)}})
		blk.Transactions = []*bc.Tx{other.Tx, tx.Tx}
	}
	return tx, blk, nil
}

type outcome struct {
	accepted bool
	panicked string
	reported uint64
	txfee    uint64
	errClass string
}

func execute(tx *types.Tx, blk *bc.Block) (o outcome) {
	defer func() {
		if r := recover(); r != nil {
			o.panicked = fmt.Sprint(r)
		}
	}()
	conv := func(p []byte) ([]byte, error) { return p, nil }
	gs, err := validation.ValidateTx(tx.Tx, blk, conv)
	o.txfee = tx.TxData.Fee()
	if err != nil {
		o.errClass = err.Error()
		return
	}
	o.accepted = true
	o.reported = gs.BTMValue
	return
}

func shape(t *aTx) string {
	var a, b []string
	for _, i := range t.Ins {
		a = append(a, i.K[:1]+i.A[:1])
	}
	for _, o := range t.Outs {
		b = append(b, o.K[:1]+o.A[:1])
	}
	return strings.Join(a, "") + ">" + strings.Join(b, "")
}

func nCoinbase(t *aTx) int {
	n := 0
	for _, i := range t.Ins {
		if i.K == "coinbase" {
			n++
		}
	}
	return n
}

// report emits at most two violations per signature (the orchestrator classifies by signature;
// known findings must not stop the run early).
var perSig = map[string]int{}

func report(sig, desc string, rep interface{}) {
	perSig[sig]++
	if perSig[sig] <= 2 {
		vh.Violation(sig, desc, rep)
	}
}

func run(path string) {
	cnt := map[string]int{}
	shapes := map[string]bool{}
	acceptedShapes := map[string]bool{}
	nsample := 0
	n, err := vh.EachExport(path, func(idx int, doc []byte) error {
		var e export
		if err := json.Unmarshal(doc, &e); err != nil {
			return fmt.Errorf("export %d: %v", idx, err)
		}
		tx, blk, err := concretise(&e.Tx)
		if err != nil {
			return fmt.Errorf("export %d: %v", idx, err)
		}
		o := execute(tx, blk)
		cnt["cases"]++
		cnt[e.Src+"_cases"]++
		shapes[shape(&e.Tx)] = true
		cls := "plain"
		if e.Exp.Mixed {
			cls = "coinbase-mixed"
		}
		rep := map[string]interface{}{"export": json.RawMessage(doc), "tx": e.Tx, "spec": e.Exp, "code_accepted": o.accepted, "code_fee": o.reported,
			"code_txfee": o.txfee, "code_err": o.errClass, "panic": o.panicked}
		if o.panicked != "" {
			cnt["panics"]++
			ncb := strconv.Itoa(nCoinbase(&e.Tx))
			if nCoinbase(&e.Tx) >= 2 {
				ncb = "2+"
			}
			report("panic:coinbase-inputs="+ncb,
				fmt.Sprintf("validation.ValidateTx panicked (%s) on %s", o.panicked, string(doc)), rep)
			return nil
		}
		if o.accepted {
			cnt["code_accepted"]++
			acceptedShapes[shape(&e.Tx)] = true
			fee, _ := fromLimbs(e.Exp.Fee)
			if !e.Exp.Cons {
				report("accept:unconserved:"+e.Exp.Why+":"+cls,
					fmt.Sprintf("ValidateTx accepted a transaction that does not conserve value (%s): %s", e.Exp.Why, string(doc)), rep)
			} else {
				if o.reported != fee {
					report("fee:reported:"+cls,
						fmt.Sprintf("GasState.BTMValue=%d but BTM in - BTM out = %d: %s", o.reported, fee, string(doc)), rep)
				}
				if o.txfee != fee {
					report("fee:txfee:"+cls,
						fmt.Sprintf("TxData.Fee()=%d but BTM in - BTM out = %d (validator reported %d): %s", o.txfee, fee, o.reported, string(doc)), rep)
				}
			}
			switch e.Exp.Acc {
			case "yes":
				cnt["agree_accept"]++
			case "no":
				cnt["spec_rejects_code_accepts"]++
			default:
				cnt["gas_unknown"]++
			}
		} else {
			switch e.Exp.Acc {
			case "no":
				cnt["agree_reject"]++
			case "yes":
				cnt["completeness_disagreements"]++
				if cnt["completeness_disagreements"] <= 3 {
					vh.Sample(map[string]interface{}{"completeness_disagreement": rep})
				}
			default:
				cnt["gas_unknown"]++
			}
		}
		if (o.accepted && nsample < 2) || (idx%20011 == 7 && nsample < 5) {
			nsample++
			vh.Sample(rep)
		}
		if len(perSig) >= 12 {
			return fmt.Errorf("stop")
		}
		return nil
	})
	if err != nil && err.Error() != "stop" {
		vh.Fatal("reading %s: %v", path, err)
	}
	s := map[string]interface{}{"exports": n, "distinct_shapes": len(shapes), "accepted_shapes": len(acceptedShapes)}
	for k, v := range cnt {
		s[k] = v
	}
	s["violations_by_signature"] = perSig
	vh.Summary(s)
}

// ------------------------------------------------------------------ generator

var boundary = []uint64{0, 1, 2, 3, 1e8 - 1, 1e8, 1e8 + 1, 2e8, 1 << 62, 1<<62 + 1, math.MaxInt64 - 2, math.MaxInt64 - 1, math.MaxInt64,
	1 << 63, 1<<63 + 1, 1<<63 + 2, math.MaxUint64 - 2, math.MaxUint64 - 1, math.MaxUint64}

func amount(r *rand.Rand) uint64 {
	switch r.Intn(6) {
	case 0, 1:
		return boundary[r.Intn(len(boundary))]
	case 2:
		return uint64(r.Intn(1000))
	case 3:
		return uint64(r.Int63n(4e9)) + 1e6
	case 4:
		return r.Uint64()
	default:
		return boundary[r.Intn(len(boundary))] + uint64(r.Intn(5)) - 2
	}
}

var assets = []string{"BTM", "A", "B", "C", "D"}

func randIn(r *rand.Rand, nassets int) aIn {
	in := aIn{Key: "ok", Prog: "ok"}
	switch k := r.Intn(20); {
	case k < 11:
		in.K = "spend"
	case k < 15:
		in.K = "issue"
	case k < 19:
		in.K = "veto"
	default:
		in.K = "coinbase"
	}
	in.A = assets[r.Intn(nassets)]
	if in.K == "issue" && in.A == "BTM" {
		in.A = "A"
	}
	in.V = toLimbs(amount(r))
	if in.K == "coinbase" {
		in.A, in.V = "BTM", toLimbs(0)
	}
	if r.Intn(40) == 0 {
		in.Prog = "fail"
	}
	if in.K == "veto" && r.Intn(20) == 0 {
		in.Key = "short"
	}
	return in
}

func randOut(r *rand.Rand, nassets int) aOut {
	o := aOut{Key: "ok", K: []string{"orig", "orig", "orig", "retire", "vote"}[r.Intn(5)]}
	o.A = assets[r.Intn(nassets)]
	o.V = toLimbs(amount(r))
	if o.K == "vote" {
		if r.Intn(4) != 0 {
			o.A = "BTM"
		}
		if r.Intn(20) == 0 {
			o.Key = "short"
		}
	}
	return o
}

// balanced: outputs first, then inputs that cover them exactly per asset (split in 1-3 parts), plus a BTM fee.
func balanced(r *rand.Rand) aTx {
	na := 1 + r.Intn(4)
	t := aTx{Tr: "zero", Size: "pos"}
	nout := 1 + r.Intn(5)
	need := map[string]uint64{}
	for j := 0; j < nout; j++ {
		o := randOut(r, na)
		v := uint64(0)
		switch r.Intn(4) {
		case 0:
			v = uint64(r.Intn(1000))
		case 1:
			v = 1e8 + uint64(r.Intn(1000))
		case 2:
			v = (math.MaxInt64 - need[o.A]) / uint64(1+r.Intn(3))
		default:
			v = uint64(r.Int63n(1e12))
		}
		if need[o.A]+v < need[o.A] || need[o.A]+v > math.MaxInt64 {
			v = 0
		}
		o.V = toLimbs(v)
		need[o.A] += v
		t.Outs = append(t.Outs, o)
	}
	fee := uint64(1e6 + r.Intn(1e6))
	if need["BTM"]+fee <= math.MaxInt64 {
		need["BTM"] += fee
	}
	names := make([]string, 0, len(need))
	for a := range need {
		names = append(names, a)
	}
	sort.Strings(names)
	for _, a := range names {
		left := need[a]
		parts := 1 + r.Intn(3)
		for p := 0; p < parts && len(t.Ins) < 7; p++ {
			v := left
			if p < parts-1 && left > 0 {
				v = uint64(r.Int63n(int64(left/2 + 1)))
			}
			left -= v
			k := "spend"
			if a != "BTM" && r.Intn(3) == 0 {
				k = "issue"
			} else if r.Intn(5) == 0 {
				k = "veto"
			}
			t.Ins = append(t.Ins, aIn{K: k, A: a, V: toLimbs(v), Key: "ok", Prog: "ok"})
		}
		if left > 0 {
			t.Ins = append(t.Ins, aIn{K: "spend", A: a, V: toLimbs(left), Key: "ok", Prog: "ok"})
		}
	}
	r.Shuffle(len(t.Ins), func(i, j int) { t.Ins[i], t.Ins[j] = t.Ins[j], t.Ins[i] })
	return t
}

// wrapped: per asset, sum(in) == sum(out) (+fee) modulo 2^64 or 2^63 although the exact sums differ:
// the shapes that an unchecked or mis-signed parity computation would let through.
func wrapped(r *rand.Rand) aTx {
	t := aTx{Tr: "zero", Size: "pos"}
	a := assets[r.Intn(2)]
	big := []uint64{math.MaxInt64, math.MaxInt64 - 1, 1 << 62, 1 << 63, math.MaxUint64, 1<<63 + 1}
	var sin, sout uint64
	nin, nout := 1+r.Intn(3), 1+r.Intn(3)
	side := r.Intn(2) // which side carries the huge values
	for i := 0; i < nin; i++ {
		v := uint64(r.Intn(5))
		if side == 0 {
			v = big[r.Intn(len(big))]
		}
		sin += v
		t.Ins = append(t.Ins, aIn{K: "spend", A: a, V: toLimbs(v), Key: "ok", Prog: "ok"})
	}
	for j := 0; j < nout; j++ {
		v := uint64(r.Intn(5))
		if side == 1 {
			v = big[r.Intn(len(big))]
		}
		sout += v
		t.Outs = append(t.Outs, aOut{K: "orig", A: a, V: toLimbs(v), Key: "ok"})
	}
	fee := uint64(0)
	if a == "BTM" {
		fee = 2e6
	}
	mod := uint64(0) // 2^64
	if r.Intn(3) == 0 {
		mod = 1 << 63
	}
	// add one balancing entry so that sin == sout + fee (mod 2^64 / 2^63)
	d := sout + fee - sin
	if mod != 0 {
		d &= mod - 1
	}
	if r.Intn(2) == 0 {
		t.Ins = append(t.Ins, aIn{K: "spend", A: a, V: toLimbs(d), Key: "ok", Prog: "ok"})
	} else {
		d = sin - sout - fee
		if mod != 0 {
			d &= mod - 1
		}
		t.Outs = append(t.Outs, aOut{K: "orig", A: a, V: toLimbs(d), Key: "ok"})
	}
	if a != "BTM" {
		t.Ins = append(t.Ins, aIn{K: "spend", A: "BTM", V: toLimbs(2e6), Key: "ok", Prog: "ok"})
	}
	return t
}

func mutate(r *rand.Rand, t aTx) aTx {
	// deep copy
	b, _ := json.Marshal(t)
	var m aTx
	json.Unmarshal(b, &m)
	switch r.Intn(9) {
	case 0:
		if len(m.Ins) > 0 {
			i := r.Intn(len(m.Ins))
			v, _ := fromLimbs(m.Ins[i].V)
			m.Ins[i].V = toLimbs(v + uint64(r.Intn(3)) - 1)
		}
	case 1:
		if len(m.Outs) > 0 {
			j := r.Intn(len(m.Outs))
			v, _ := fromLimbs(m.Outs[j].V)
			m.Outs[j].V = toLimbs(v + uint64(r.Intn(3)) - 1)
		}
	case 2:
		if len(m.Outs) > 0 {
			m.Outs[r.Intn(len(m.Outs))].A = assets[r.Intn(len(assets))]
		}
	case 3:
		if len(m.Ins) > 0 {
			i := r.Intn(len(m.Ins))
			if m.Ins[i].K != "coinbase" {
				m.Ins[i].A = assets[1+r.Intn(len(assets)-1)]
			}
		}
	case 4:
		if len(m.Outs) > 0 {
			m.Outs[r.Intn(len(m.Outs))].K = []string{"orig", "retire", "vote"}[r.Intn(3)]
		}
	case 5:
		if len(m.Ins) > 0 {
			i := r.Intn(len(m.Ins))
			k := []string{"spend", "veto", "issue", "coinbase"}[r.Intn(4)]
			if !(k == "issue" && m.Ins[i].A == "BTM") {
				m.Ins[i].K = k
				if k == "coinbase" {
					m.Ins[i].A, m.Ins[i].V = "BTM", toLimbs(0)
					m.First = true
					m.Ins[0], m.Ins[i] = m.Ins[i], m.Ins[0]
				}
			}
		}
	case 6:
		if len(m.Outs) > 1 {
			m.Outs = m.Outs[:len(m.Outs)-1]
		} else if len(m.Ins) > 1 {
			m.Ins = m.Ins[:len(m.Ins)-1]
		}
	case 7:
		if len(m.Outs) > 0 && len(m.Outs) < 6 {
			m.Outs = append(m.Outs, m.Outs[r.Intn(len(m.Outs))])
		}
	case 8:
		m.Tr = []string{"zero", "ok", "past"}[r.Intn(3)]
		if r.Intn(4) == 0 {
			m.Size = "zero"
		}
	}
	return m
}

func gen(n int, out string) {
	r := rand.New(rand.NewSource(vh.Seed()*7919 + 1))
	f, err := os.Create(out)
	if err != nil {
		vh.Fatal("create %s: %v", out, err)
	}
	defer f.Close()
	enc := json.NewEncoder(f)
	kinds := map[string]int{}
	for id := 1; id <= n; id++ {
		var t aTx
		var kind string
		switch k := r.Intn(10); {
		case k < 3:
			kind = "balanced"
			t = balanced(r)
		case k < 6:
			kind = "mutated"
			t = mutate(r, balanced(r))
		case k < 8:
			kind = "wrapped"
			t = wrapped(r)
		case k < 9:
			kind = "coinbase"
			t = aTx{Tr: "zero", Size: "pos", First: r.Intn(4) != 0}
			t.Ins = append(t.Ins, aIn{K: "coinbase", A: "BTM", V: toLimbs(0), Key: "ok", Prog: "ok"})
			for j, no := 0, 1+r.Intn(3); j < no; j++ {
				o := randOut(r, 1+r.Intn(2))
				if r.Intn(3) != 0 {
					o.K = "orig"
				}
				t.Outs = append(t.Outs, o)
			}
			if r.Intn(3) == 0 {
				t.Ins = append(t.Ins, randIn(r, 2))
			}
		default:
			kind = "random"
			t = aTx{Tr: "zero", Size: "pos"}
			na := 1 + r.Intn(5)
			for i, ni := 0, 1+r.Intn(6); i < ni; i++ {
				t.Ins = append(t.Ins, randIn(r, na))
			}
			for j, no := 0, r.Intn(7); j < no; j++ {
				t.Outs = append(t.Outs, randOut(r, na))
			}
			if t.Ins[0].K == "coinbase" {
				t.First = r.Intn(3) != 0
			}
		}
		if t.Ins == nil {
			t.Ins = []aIn{}
		}
		if t.Outs == nil {
			t.Outs = []aOut{}
		}
		kinds[kind]++
		if err := enc.Encode(map[string]interface{}{"id": id, "tx": t}); err != nil {
			vh.Fatal("write: %v", err)
		}
	}
	s := map[string]interface{}{"generated": n}
	for k, v := range kinds {
		s["gen_"+k] = v
	}
	vh.Summary(s)
}

func main() {
	vh.Quiet()
	if len(os.Args) < 3 {
		vh.Fatal("usage: c01 run <exports> | gen <n> <out>")
	}
	switch os.Args[1] {
	case "run":
		run(os.Args[2])
	case "gen":
		n, _ := strconv.Atoi(os.Args[2])
		gen(n, os.Args[3])
	default:
		vh.Fatal("unknown command %s", os.Args[1])
	}
}
