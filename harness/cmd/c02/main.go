// c02: binds specs/vm/StdWitness.tla to validation.ValidateTx for the standard programs.
//
//	c02 run <exports>        every TLC-judged case [lock, witness arrangement, tx mutation] is concretised
//	                         with real chainkd/ed25519 keys and signatures into a real transaction spending a
//	                         real P2WPKH / P2WSH / bare multisig output; ValidateTx must accept exactly when
//	                         the specification says the witness is authorised
//	c02 gen <n> <out.ndjson> random larger cases (5..6 keys, perturbed witnesses) for TLC to judge
package main

import (
	"crypto/ed25519"
	"encoding/json"
	"fmt"
	"math/rand"
	"os"
	"strconv"
	"strings"

	"github.com/bytom/bytom/consensus"
	"github.com/bytom/bytom/crypto"
	"github.com/bytom/bytom/crypto/ed25519/chainkd"
	"github.com/bytom/bytom/crypto/sha3pool"
	"github.com/bytom/bytom/protocol/bc"
	"github.com/bytom/bytom/protocol/bc/types"
	"github.com/bytom/bytom/protocol/validation"
	"github.com/bytom/bytom/protocol/vm"
	"github.com/bytom/bytom/protocol/vm/vmutil"

	"verifharness/internal/vh"
)

type value struct {
	T    string `json:"t"`
	K    int    `json:"k"`
	M    string `json:"m"`
	Keys []int  `json:"keys"`
	Q    int    `json:"q"`
}
type lock struct {
	Kind string `json:"kind"`
	Kc   int    `json:"kc"`
	Keys []int  `json:"keys"`
	Q    int    `json:"q"`
}
type acase struct {
	Lock  lock    `json:"lock"`
	Wit   []value `json:"wit"`
	TxMut string  `json:"txmut"`
}
type export struct {
	ID  int    `json:"id"`
	Src string `json:"src"`
	Cs  acase  `json:"cs"`
	Exp bool   `json:"exp"`
}

// ------------------------------------------------------------------ keys
const nkeys = 8

var xprvs [nkeys]chainkd.XPrv
var pubs [nkeys]ed25519.PublicKey

func initKeys() {
	for k := 0; k < nkeys; k++ {
		root := chainkd.RootXPrv([]byte(fmt.Sprintf("verif-c02-key-%d-seed-%d", k, vh.Seed())))
		x := root.Derive([][]byte{{0, 1}, {byte(k)}}) // wallet style derived key
		xprvs[k] = x
		pubs[k] = x.XPub().PublicKey()
	}
}

func h(s string) bc.Hash {
	var b [32]byte
	sha3pool.Sum256(b[:], []byte(s))
	return bc.NewHash(b)
}

func scriptOf(keys []int, q int) ([]byte, error) {
	var ps []ed25519.PublicKey
	for _, k := range keys {
		ps = append(ps, pubs[k])
	}
	return vmutil.P2SPMultiSigProgram(ps, q)
}

func programOf(l *lock) ([]byte, error) {
	switch l.Kind {
	case "p2wpkh":
		return vmutil.P2WPKHProgram(crypto.Ripemd160(pubs[l.Kc]))
	case "p2wsh":
		s, err := scriptOf(l.Keys, l.Q)
		if err != nil {
			return nil, err
		}
		var hh [32]byte
		sha3pool.Sum256(hh[:], s)
		return vmutil.P2WSHProgram(hh[:])
	case "bare":
		return scriptOf(l.Keys, l.Q)
	}
	return nil, fmt.Errorf("unknown lock kind %q", l.Kind)
}

const height = 100

var opTrue = []byte{byte(vm.OP_TRUE)}

// buildTx makes the two-input two-output transaction; input 0 spends the locked output.
func buildTx(prog []byte, mut string) (*types.TxData, error) {
	btm := *consensus.BTMAssetID
	in0 := types.NewSpendInput(nil, h("c02/src0"), btm, 1000000000, 0, prog, nil)
	in1 := types.NewSpendInput([][]byte{{7}}, h("c02/src1"), btm, 1000000000, 1, opTrue, nil)
	out0 := types.NewOriginalTxOutput(btm, 800000000, opTrue, nil)
	out1 := types.NewOriginalTxOutput(btm, 900000000, []byte{byte(vm.OP_TRUE), byte(vm.OP_TRUE)}, nil)
	d := &types.TxData{Version: 1, Inputs: []*types.TxInput{in0, in1}, Outputs: []*types.TxOutput{out0, out1}}
	s0 := in0.TypedInput.(*types.SpendInput)
	s1 := in1.TypedInput.(*types.SpendInput)
	switch mut {
	case "none":
	case "timerange":
		d.TimeRange = height + 10
	case "in0src":
		s0.SourceID = h("c02/src0'")
	case "in0pos":
		s0.SourcePosition = 1
	case "in0state":
		s0.StateData = [][]byte{{1}}
	case "in1src":
		s1.SourceID = h("c02/src1'")
	case "in1amount":
		s1.Amount++
	case "out0prog":
		out0.ControlProgram = []byte{byte(vm.OP_TRUE), byte(vm.OP_NOP)}
	case "out0amount":
		out0.Amount--
	case "out1state":
		out1.StateData = [][]byte{{2}}
	case "swapouts":
		d.Outputs[0], d.Outputs[1] = d.Outputs[1], d.Outputs[0]
	case "dropout1":
		d.Outputs = d.Outputs[:1]
	case "in1args":
		s1.Arguments = [][]byte{{8}}
	case "another-transaction": // not a mutation of the specification: the transaction "m2" signatures may refer to
		d.TimeRange = height + 999
		out0.Amount -= 7
	default:
		return nil, fmt.Errorf("unknown transaction mutation %q", mut)
	}
	raw, err := d.MarshalText()
	if err != nil {
		return nil, err
	}
	d.SerializedSize = uint64(len(raw) / 2)
	return d, nil
}

type signer struct {
	m, m2, m3 bc.Hash // sighash of input 0 of the signed tx; of input 1; of input 0 of another transaction
	sigs      map[string][]byte
}

func newSigner(prog []byte) (*signer, error) {
	d, err := buildTx(prog, "none")
	if err != nil {
		return nil, err
	}
	tx := types.NewTx(*d)
	d3, err := buildTx(prog, "another-transaction")
	if err != nil {
		return nil, err
	}
	return &signer{m: tx.SigHash(0), m2: tx.SigHash(1), m3: types.NewTx(*d3).SigHash(0), sigs: map[string][]byte{}}, nil
}

func (s *signer) sig(k int, m string) []byte {
	key := strconv.Itoa(k) + "/" + m
	if b, ok := s.sigs[key]; ok {
		return b
	}
	msg := s.m
	if m != "m" { // "m2": the signature hash of something else (another input / another transaction)
		msg = s.m2
		if k%2 == 0 {
			msg = s.m3
		}
	}
	b := xprvs[k].Sign(msg.Bytes())
	s.sigs[key] = b
	return b
}

var junk = func() []byte {
	b := make([]byte, 64)
	for i := range b {
		b[i] = byte(37*i + 11)
	}
	return b
}()

func (s *signer) bytesOf(v *value) ([]byte, error) {
	switch v.T {
	case "sig":
		return s.sig(v.K, v.M), nil
	case "tsig":
		return s.sig(v.K, v.M)[:63], nil
	case "junk":
		return junk, nil
	case "pk":
		return pubs[v.K], nil
	case "spk":
		return pubs[v.K][:31], nil
	case "empty":
		return []byte{}, nil
	case "script":
		return scriptOf(v.Keys, v.Q)
	}
	return nil, fmt.Errorf("unknown witness value %q", v.T)
}

var signers = map[string]*signer{}
var progs = map[string][]byte{}

func execute(c *acase) (accepted bool, errText string, panicked string, err error) {
	lk, _ := json.Marshal(c.Lock)
	prog, ok := progs[string(lk)]
	if !ok {
		if prog, err = programOf(&c.Lock); err != nil {
			return
		}
		progs[string(lk)] = prog
	}
	sg, ok := signers[string(lk)]
	if !ok {
		if sg, err = newSigner(prog); err != nil {
			return
		}
		signers[string(lk)] = sg
	}
	d, err := buildTx(prog, c.TxMut)
	if err != nil {
		return
	}
	args := [][]byte{}
	for i := range c.Wit {
		b, e := sg.bytesOf(&c.Wit[i])
		if e != nil {
			err = e
			return
		}
		args = append(args, b)
	}
	d.Inputs[0].SetArguments(args)
	raw, err := d.MarshalText()
	if err != nil {
		return
	}
	d.SerializedSize = uint64(len(raw) / 2)
	tx := types.NewTx(*d)
	blk := &bc.Block{BlockHeader: &bc.BlockHeader{Version: 1, Height: height}}
	defer func() {
		if r := recover(); r != nil {
			panicked = fmt.Sprint(r)
		}
	}()
	_, verr := validation.ValidateTx(tx.Tx, blk, func(p []byte) ([]byte, error) { return p, nil })
	if verr != nil {
		t := verr.Error()
		if i := strings.Index(t, " [prog "); i > 0 {
			t = t[:i]
		}
		return false, t, "", nil
	}
	return true, "", "", nil
}

func shape(c *acase) string {
	var p []string
	for _, v := range c.Wit {
		switch v.T {
		case "sig", "tsig":
			p = append(p, fmt.Sprintf("%s%d%s", v.T, v.K, strings.TrimPrefix(v.M, "m")))
		case "pk", "spk":
			p = append(p, fmt.Sprintf("%s%d", v.T, v.K))
		case "script":
			p = append(p, fmt.Sprintf("script%v/%d", v.Keys, v.Q))
		default:
			p = append(p, v.T)
		}
	}
	return strings.Join(p, ",")
}

var perSig = map[string]int{}

func report(sig, desc string, rep interface{}) {
	perSig[sig]++
	if perSig[sig] <= 2 {
		vh.Violation(sig, desc, rep)
	}
}

func run(path string) {
	cnt := map[string]int{}
	kinds := map[string]bool{}
	nsample := 0
	_, err := vh.EachExport(path, func(idx int, doc []byte) error {
		var e export
		if err := json.Unmarshal(doc, &e); err != nil {
			return fmt.Errorf("export %d: %v", idx, err)
		}
		acc, etxt, pan, err := execute(&e.Cs)
		if err != nil {
			return fmt.Errorf("export %d: %v", idx, err)
		}
		cnt["cases"]++
		cnt[e.Src+"_cases"]++
		cls := fmt.Sprintf("%s:%dof%d:%s", e.Cs.Lock.Kind, e.Cs.Lock.Q, len(e.Cs.Lock.Keys), e.Cs.TxMut)
		kinds[cls] = true
		rep := map[string]interface{}{"export": json.RawMessage(doc), "case": e.Cs, "witness": shape(&e.Cs), "spec_authorised": e.Exp, "code_accepted": acc, "code_err": etxt, "panic": pan}
		switch {
		case pan != "":
			report("panic:"+cls, "ValidateTx panicked ("+pan+") on "+string(doc), rep)
		case acc && !e.Exp:
			cnt["code_accepted"]++
			report("accept-unauthorised:"+cls, fmt.Sprintf("ValidateTx accepted a spend whose witness [%s] is not authorised: %s", shape(&e.Cs), string(doc)), rep)
		case !acc && e.Exp:
			report("reject-authorised:"+cls, fmt.Sprintf("ValidateTx rejected (%s) a spend with a correct witness [%s]: %s", etxt, shape(&e.Cs), string(doc)), rep)
		case acc:
			cnt["code_accepted"]++
			cnt["agree_accept"]++
		default:
			cnt["agree_reject"]++
		}
		if e.Cs.TxMut != "none" {
			cnt["txmut_cases"]++
		}
		if (acc && nsample < 2) || (idx%3001 == 17 && nsample < 5) {
			nsample++
			vh.Sample(rep)
		}
		if len(perSig) >= 40 {
			return fmt.Errorf("stop")
		}
		return nil
	})
	if err != nil && err.Error() != "stop" {
		vh.Fatal("reading %s: %v", path, err)
	}
	s := map[string]interface{}{"distinct_lock_classes": len(kinds), "violations_by_signature": perSig}
	for k, v := range cnt {
		s[k] = v
	}
	vh.Summary(s)
}

// ------------------------------------------------------------------ generator
func gen(n int, out string) {
	r := rand.New(rand.NewSource(vh.Seed()*104729 + 3))
	f, err := os.Create(out)
	if err != nil {
		vh.Fatal("create %s: %v", out, err)
	}
	defer f.Close()
	enc := json.NewEncoder(f)
	muts := []string{"timerange", "in0src", "in0pos", "in0state", "in1src", "in1amount", "out0prog", "out0amount", "out1state", "swapouts", "dropout1", "in1args"}
	for id := 1; id <= n; id++ {
		nk := 5 + r.Intn(2)
		q := 1 + r.Intn(nk)
		keys := make([]int, nk)
		for i := range keys {
			keys[i] = i + 1
		}
		l := lock{Kind: []string{"p2wsh", "bare"}[r.Intn(2)], Keys: keys, Q: q}
		// a correct selection: q keys in increasing order
		sel := r.Perm(nk)[:q]
		for i := 0; i < len(sel); i++ {
			for j := i + 1; j < len(sel); j++ {
				if sel[j] < sel[i] {
					sel[i], sel[j] = sel[j], sel[i]
				}
			}
		}
		var wit []value
		for _, k := range sel {
			wit = append(wit, value{T: "sig", K: k + 1, M: "m"})
		}
		for p, np := 0, r.Intn(3); p < np && len(wit) > 0; p++ {
			i := r.Intn(len(wit))
			switch r.Intn(7) {
			case 0:
				wit[i] = value{T: "sig", K: 1 + r.Intn(nk), M: "m"}
			case 1:
				wit[i] = value{T: "sig", K: wit[i].K, M: "m2"}
			case 2:
				wit[i] = value{T: "sig", K: 0, M: "m"}
			case 3:
				j := r.Intn(len(wit))
				wit[i], wit[j] = wit[j], wit[i]
			case 4:
				wit[i] = value{T: "junk"}
			case 5:
				wit = append(wit[:i], wit[i+1:]...)
			case 6:
				wit = append([]value{{T: []string{"junk", "empty", "tsig"}[r.Intn(3)], K: 1, M: "m"}}, wit...)
			}
		}
		if l.Kind == "p2wsh" {
			s := value{T: "script", Keys: keys, Q: q}
			switch r.Intn(12) {
			case 0:
				if q < nk {
					s.Q = q + 1
				}
			case 1:
				ks := append([]int{}, keys...)
				ks[r.Intn(nk)] = 0
				s.Keys = ks
			case 2:
				ks := append([]int{}, keys...)
				i, j := r.Intn(nk), r.Intn(nk)
				ks[i], ks[j] = ks[j], ks[i]
				s.Keys = ks
			}
			wit = append(wit, s)
		}
		mut := "none"
		if r.Intn(8) == 0 {
			mut = muts[r.Intn(len(muts))]
		}
		for i := range wit {
			if wit[i].Keys == nil {
				wit[i].Keys = []int{}
			}
		}
		if wit == nil {
			wit = []value{}
		}
		if err := enc.Encode(map[string]interface{}{"id": id, "cs": acase{Lock: l, Wit: wit, TxMut: mut}}); err != nil {
			vh.Fatal("write: %v", err)
		}
	}
	vh.Summary(map[string]interface{}{"generated": n})
}

func main() {
	vh.Quiet()
	initKeys()
	if len(os.Args) < 3 {
		vh.Fatal("usage: c02 run <exports> | gen <n> <out>")
	}
	switch os.Args[1] {
	case "run":
		run(os.Args[2])
	case "gen":
		n, _ := strconv.Atoi(os.Args[2])
		gen(n, os.Args[3])
	default:
		vh.Fatal("unknown command %s", os.Args[1])
	}
}
