// c03: binds specs/wire/TxId.tla to the real identity functions.
//
//	c03 run <exports>
//
// Every export is [kind, base, after, m, class, exp]: an abstract transaction (or block) before and
// after one mutation, with the change TLC expects for the tx id and every input's signature hash
// (or the merkle root and the block hash). Both values are concretised into real types.TxData /
// types.BlockHeader objects, mapped with types.NewTx / TxMerkleRoot / BlockHeader.Hash(), and the
// observed change is compared with the expectation.
package main

import (
	"encoding/json"
	"fmt"
	"os"

	"github.com/bytom/bytom/consensus"
	"github.com/bytom/bytom/crypto/sha3pool"
	"github.com/bytom/bytom/protocol/bc"
	"github.com/bytom/bytom/protocol/bc/types"

	"verifharness/internal/vh"
)

type aIn struct {
	K     string `json:"k"`
	Src   int    `json:"src"`
	A     string `json:"a"`
	V     uint64 `json:"v"`
	Pos   uint64 `json:"pos"`
	Vmv   uint64 `json:"vmv"`
	Prog  int    `json:"prog"`
	State int    `json:"state"`
	Vote  int    `json:"vote"`
	Nonce int    `json:"nonce"`
	Def   int    `json:"def"`
	Arb   int    `json:"arb"`
	Args  int    `json:"args"`
	Wsuf  int    `json:"wsuf"`
}
type aOut struct {
	K     string `json:"k"`
	A     string `json:"a"`
	V     uint64 `json:"v"`
	Vmv   uint64 `json:"vmv"`
	Prog  int    `json:"prog"`
	State int    `json:"state"`
	Vote  int    `json:"vote"`
}
type aTx struct {
	Ver  uint64 `json:"ver"`
	Tr   uint64 `json:"tr"`
	Ins  []aIn  `json:"ins"`
	Outs []aOut `json:"outs"`
}
type aSup struct {
	H    uint64 `json:"h"`
	Hash int    `json:"hash"`
	Sigs int    `json:"sigs"`
}
type aBlockTx struct {
	N  int `json:"n"`
	Cm int `json:"cm"`
	Wv int `json:"wv"`
}
type aBlock struct {
	Ver    uint64     `json:"ver"`
	Height uint64     `json:"height"`
	Prev   int        `json:"prev"`
	Ts     uint64     `json:"ts"`
	Bsig   int        `json:"bsig"`
	Sup    []aSup     `json:"sup"`
	Txs    []aBlockTx `json:"txs"`
}
type mut struct {
	T string `json:"t"`
	F string `json:"f"`
	I int    `json:"i"`
}
type export struct {
	Kind  string          `json:"kind"`
	Base  json.RawMessage `json:"base"`
	After json.RawMessage `json:"after"`
	M     mut             `json:"m"`
	Class string          `json:"class"`
	Exp   struct {
		ID   bool   `json:"id"`
		Sig  []bool `json:"sig"`
		Root bool   `json:"root"`
		Hash bool   `json:"hash"`
	} `json:"exp"`
}

func h(tag string, n int) bc.Hash {
	var b [32]byte
	sha3pool.Sum256(b[:], []byte(fmt.Sprintf("%s/%d", tag, n)))
	return bc.NewHash(b)
}
func asset(a string) bc.AssetID {
	if a == "BTM" {
		return *consensus.BTMAssetID
	}
	x := h("asset"+a, 0)
	return bc.NewAssetID(x.Byte32())
}
func bytesOf(tag byte, n int) []byte { return []byte{tag, byte(n >> 8), byte(n)} }
func prog(n int) []byte              { return []byte{0x51, byte(n >> 8), byte(n)} } // OP_TRUE-headed, never a retirement
func retireProg(n int) []byte        { return []byte{0x6a, byte(n >> 8), byte(n)} } // OP_FAIL-headed
func state(n int) [][]byte {
	if n == 0 {
		return nil
	}
	return [][]byte{bytesOf('s', n)}
}
func vote(n int) []byte {
	b := make([]byte, 64)
	for i := range b {
		b[i] = byte(n + i)
	}
	return b
}

func concretiseTx(t *aTx) *types.Tx {
	d := types.TxData{Version: t.Ver, TimeRange: t.Tr, SerializedSize: 1}
	for _, x := range t.Ins {
		var in *types.TxInput
		args := [][]byte{bytesOf('w', x.Args)}
		switch x.K {
		case "spend":
			in = types.NewSpendInput(args, h("src", x.Src), asset(x.A), x.V, x.Pos, prog(x.Prog), state(x.State))
			in.TypedInput.(*types.SpendInput).VMVersion = x.Vmv
		case "veto":
			in = types.NewVetoInput(args, h("src", x.Src), asset(x.A), x.V, x.Pos, prog(x.Prog), vote(x.Vote), state(x.State))
			in.TypedInput.(*types.VetoInput).VMVersion = x.Vmv
		case "issue":
			in = types.NewIssuanceInput(bytesOf('n', x.Nonce), x.V, prog(x.Prog), args, bytesOf('d', x.Def))
			in.TypedInput.(*types.IssuanceInput).VMVersion = x.Vmv
		case "coinbase":
			in = types.NewCoinbaseInput(bytesOf('c', x.Arb))
		default:
			vh.Fatal("unknown input kind %q", x.K)
		}
		if x.Wsuf != 0 {
			in.WitnessSuffix = bytesOf('x', x.Wsuf)
		}
		d.Inputs = append(d.Inputs, in)
	}
	for _, o := range t.Outs {
		var out *types.TxOutput
		switch o.K {
		case "orig":
			out = types.NewOriginalTxOutput(asset(o.A), o.V, prog(o.Prog), state(o.State))
		case "retire":
			out = types.NewOriginalTxOutput(asset(o.A), o.V, retireProg(o.Prog), state(o.State))
		case "vote":
			out = types.NewVoteOutput(asset(o.A), o.V, prog(o.Prog), vote(o.Vote), state(o.State))
		default:
			vh.Fatal("unknown output kind %q", o.K)
		}
		out.VMVersion = o.Vmv
		d.Outputs = append(d.Outputs, out)
	}
	return types.NewTx(d)
}

func blockTx(t aBlockTx) *types.Tx {
	d := types.TxData{Version: 1, SerializedSize: 1,
		Inputs:  []*types.TxInput{types.NewSpendInput([][]byte{bytesOf('w', t.Wv)}, h("btx", t.N), *consensus.BTMAssetID, 5000, 0, prog(1), nil)},
		Outputs: []*types.TxOutput{types.NewOriginalTxOutput(*consensus.BTMAssetID, uint64(1000+t.Cm), prog(2), nil)}}
	return types.NewTx(d)
}

// concretiseBlock returns the merkle root and the header hash of the abstract block.
func concretiseBlock(b *aBlock) (bc.Hash, bc.Hash, bc.Hash) {
	var txs []*bc.Tx
	var ttxs []*types.Tx
	for _, t := range b.Txs {
		tx := blockTx(t)
		txs = append(txs, tx.Tx)
		ttxs = append(ttxs, tx)
	}
	root, err := types.TxMerkleRoot(txs)
	if err != nil {
		vh.Fatal("TxMerkleRoot: %v", err)
	}
	hdr := types.BlockHeader{Version: b.Ver, Height: b.Height, PreviousBlockHash: h("blk", b.Prev), Timestamp: b.Ts,
		BlockCommitment: types.BlockCommitment{TransactionsMerkleRoot: root}}
	hdr.BlockWitness.Set(vote(b.Bsig))
	for _, s := range b.Sup {
		sl := &types.SupLink{SourceHeight: s.H, SourceHash: h("cp", s.Hash)}
		sl.Signatures[0] = vote(s.Sigs)
		sl.Signatures[2] = vote(s.Sigs + 1)
		hdr.SupLinks = append(hdr.SupLinks, sl)
	}
	blk := &types.Block{BlockHeader: hdr, Transactions: ttxs}
	return root, hdr.Hash(), types.MapBlock(blk).ID
}

var perSig = map[string]int{}

func report(sig, desc string, rep interface{}) {
	perSig[sig]++
	if perSig[sig] <= 2 {
		vh.Violation(sig, desc, rep)
	}
}

func word(changed bool) string {
	if changed {
		return "changed"
	}
	return "unchanged"
}

func run(path string) {
	cnt := map[string]int{}
	classes := map[string]bool{}
	nsample := 0
	_, err := vh.EachExport(path, func(idx int, doc []byte) error {
		var e export
		if err := json.Unmarshal(doc, &e); err != nil {
			return fmt.Errorf("export %d: %v", idx, err)
		}
		cnt["cases"]++
		cnt[e.Kind+"_cases"]++
		cnt["class_"+e.Class]++
		switch e.Kind {
		case "tx":
			var base, after aTx
			if err := json.Unmarshal(e.Base, &base); err != nil {
				return err
			}
			if err := json.Unmarshal(e.After, &after); err != nil {
				return err
			}
			t1, t2 := concretiseTx(&base), concretiseTx(&after)
			// name of the mutated place: kind of the entry + field
			place := e.M.T + "." + e.M.F
			if e.M.T == "in" {
				place = "in." + base.Ins[e.M.I-1].K + "." + e.M.F
			} else if e.M.T == "out" || e.M.T == "outkind" {
				place = e.M.T + "." + base.Outs[e.M.I-1].K + "." + e.M.F
			}
			classes[place] = true
			idch := t1.ID != t2.ID
			rep := map[string]interface{}{"export": json.RawMessage(doc), "base": base, "after": after, "mutation": e.M, "class": e.Class,
				"id_before": t1.ID.String(), "id_after": t2.ID.String(), "expected_id_change": e.Exp.ID}
			if idch != e.Exp.ID {
				report("txid:"+word(idch)+":"+place,
					fmt.Sprintf("%s mutation %s: transaction id %s but the specification says %s (%s -> %s): %s",
						e.Class, place, word(idch), word(e.Exp.ID), t1.ID.String(), t2.ID.String(), string(doc)), rep)
			}
			for i, want := range e.Exp.Sig {
				s1, s2 := t1.SigHash(uint32(i)), t2.SigHash(uint32(i))
				if (s1 != s2) != want {
					report("sighash:"+word(s1 != s2)+":"+place,
						fmt.Sprintf("%s mutation %s: signature hash of input %d %s but the specification says %s: %s",
							e.Class, place, i, word(s1 != s2), word(want), string(doc)), rep)
				}
				cnt["sighash_comparisons"]++
			}
			if idch {
				cnt["id_changed"]++
			}
			if nsample < 3 && idx%997 == 5 {
				nsample++
				vh.Sample(rep)
			}
		case "block":
			var base, after aBlock
			if err := json.Unmarshal(e.Base, &base); err != nil {
				return err
			}
			if err := json.Unmarshal(e.After, &after); err != nil {
				return err
			}
			r1, h1, m1 := concretiseBlock(&base)
			r2, h2, m2 := concretiseBlock(&after)
			place := e.M.T + "." + e.M.F
			classes["block."+place] = true
			rep := map[string]interface{}{"export": json.RawMessage(doc), "base": base, "after": after, "mutation": e.M, "class": e.Class,
				"hash_before": h1.String(), "hash_after": h2.String(), "root_before": r1.String(), "root_after": r2.String()}
			if (r1 != r2) != e.Exp.Root {
				report("merkleroot:"+word(r1 != r2)+":"+place,
					fmt.Sprintf("%s mutation %s: transactions merkle root %s but the specification says %s: %s",
						e.Class, place, word(r1 != r2), word(e.Exp.Root), string(doc)), rep)
			}
			if (h1 != h2) != e.Exp.Hash {
				report("blockhash:"+word(h1 != h2)+":"+place,
					fmt.Sprintf("%s mutation %s: block hash %s but the specification says %s: %s",
						e.Class, place, word(h1 != h2), word(e.Exp.Hash), string(doc)), rep)
			}
			if h1 != m1 || h2 != m2 {
				report("blockhash:mapblock-differs:"+place, "MapBlock(block).ID differs from BlockHeader.Hash(): "+string(doc), rep)
			}
			if nsample < 5 && idx%499 == 3 {
				nsample++
				vh.Sample(rep)
			}
		default:
			return fmt.Errorf("export %d: unknown kind %q", idx, e.Kind)
		}
		if len(perSig) >= 40 {
			return fmt.Errorf("stop")
		}
		return nil
	})
	if err != nil && err.Error() != "stop" {
		vh.Fatal("reading %s: %v", path, err)
	}
	s := map[string]interface{}{"distinct_mutation_places": len(classes), "violations_by_signature": perSig}
	for k, v := range cnt {
		s[k] = v
	}
	vh.Summary(s)
}

func main() {
	vh.Quiet()
	if len(os.Args) < 3 || os.Args[1] != "run" {
		vh.Fatal("usage: c03 run <exports>")
	}
	run(os.Args[2])
}
