// c04: builds the abstract values exported by specs/wire/WireCases.tla (and seeded
// random ones) with the real types of protocol/bc/types, runs them through
// MarshalText / UnmarshalText / JSON / NewTx and records what the code did, one
// ndjson record per value, for specs/wire/WireJudge.tla to judge.
//
//	c04 observe <tlc output with exports> <number of random values> <obs.ndjson>
package main

import (
	"bufio"
	"encoding/hex"
	"encoding/json"
	"fmt"
	"math/rand"
	"os"
	"reflect"
	"strconv"

	"github.com/bytom/bytom/protocol/bc"
	"github.com/bytom/bytom/protocol/bc/types"

	"verifharness/internal/vh"
	"verifharness/internal/wire"
)

// Obs is one observation; every field is always present (TLC reads them all).
type Obs struct {
	I      int         `json:"i"`
	Src    string      `json:"src"`  // tlc | rand
	K      string      `json:"k"`    // tx | header | block
	Flag   int         `json:"flag"` // block serialisation flag (1,2,3), else 0
	Mode   string      `json:"mode"` // nil | empty : how empty strings/lists were materialised
	V      interface{} `json:"v"`
	Hex    wire.B      `json:"hex"`  // bytes MarshalText produced
	Merr   string      `json:"merr"` // "" or error of MarshalText
	Derr   string      `json:"derr"` // "" or error of UnmarshalText
	V2     interface{} `json:"v2"`   // projection of the decoded value ([] if none)
	Size   int         `json:"size"` // SerializedSize of the decoded tx (sum over a block's txs)
	Bsize  int         `json:"bsize"`
	IdEq   bool        `json:"idEq"`   // ids (tx id, input ids, result ids, block hash) of built and decoded value agree
	JSONOk bool        `json:"jsonOk"` // json.Marshal = quoted text, json.Unmarshal gives the same value and id
	Panic  string      `json:"panic"`
}

func unhex(t []byte) wire.B {
	b, err := hex.DecodeString(string(t))
	if err != nil {
		vh.Fatal("MarshalText produced non-hex text: %v", err)
	}
	return wire.B(b)
}

func sameTxIDs(a, b *types.Tx) bool {
	if a.Tx == nil || b.Tx == nil || a.ID != b.ID || len(a.InputIDs) != len(b.InputIDs) || len(a.ResultIds) != len(b.ResultIds) {
		return false
	}
	for i := range a.InputIDs {
		if a.InputIDs[i] != b.InputIDs[i] {
			return false
		}
	}
	for i := range a.ResultIds {
		if *a.ResultIds[i] != *b.ResultIds[i] {
			return false
		}
	}
	return a.SerializedSize == b.SerializedSize && a.TxData.SerializedSize == b.TxData.SerializedSize
}

func mode(e wire.Empty) string {
	if e == wire.AsEmpty {
		return "empty"
	}
	return "nil"
}

func guard(o *Obs) {
	if r := recover(); r != nil {
		o.Panic = fmt.Sprint(r)
	}
}

// mkTx builds the transaction the way the node does: serialise, record the size, map.
func mkTx(v wire.Tx, e wire.Empty) (*types.Tx, []byte, error) {
	d := wire.MkTxData(v, e)
	text, err := d.MarshalText()
	if err != nil {
		return nil, nil, err
	}
	d.SerializedSize = uint64(len(text) / 2)
	return types.NewTx(*d), text, nil
}

func obsTx(v wire.Tx, e wire.Empty) (o Obs) {
	o = Obs{K: "tx", Mode: mode(e), V: v, V2: []int{}, Hex: wire.B{}}
	defer guard(&o)
	tx, text, err := mkTx(v, e)
	if err != nil {
		o.Merr = err.Error()
		return
	}
	o.Hex, o.Bsize = unhex(text), len(text)/2
	if t2, err := tx.MarshalText(); err != nil || string(t2) != string(text) {
		o.Merr = "Tx.MarshalText differs from TxData.MarshalText"
		return
	}
	var tx2 types.Tx
	if err := tx2.UnmarshalText(text); err != nil {
		o.Derr = err.Error()
		return
	}
	o.V2, o.Size = wire.PrTx(&tx2.TxData), int(tx2.TxData.SerializedSize)
	o.IdEq = sameTxIDs(tx, &tx2)
	j, err := json.Marshal(tx)
	var tx3 types.Tx
	o.JSONOk = err == nil && string(j) == `"`+string(text)+`"` && json.Unmarshal(j, &tx3) == nil &&
		sameTxIDs(tx, &tx3) && reflect.DeepEqual(wire.PrTx(&tx3.TxData), o.V2)
	return
}

func obsHeader(v wire.Header, e wire.Empty) (o Obs) {
	o = Obs{K: "header", Mode: mode(e), V: v, V2: []int{}, Hex: wire.B{}}
	defer guard(&o)
	bh := wire.MkHeader(v, e)
	text, err := bh.MarshalText()
	if err != nil {
		o.Merr = err.Error()
		return
	}
	o.Hex, o.Bsize = unhex(text), len(text)/2
	var bh2 types.BlockHeader
	if err := bh2.UnmarshalText(text); err != nil {
		o.Derr = err.Error()
		return
	}
	o.V2, o.Size = wire.PrHeader(&bh2), len(text)/2
	o.IdEq = bh.Hash() == bh2.Hash()
	j, err := json.Marshal(bh)
	var bh3 types.BlockHeader
	o.JSONOk = err == nil && string(j) == `"`+string(text)+`"` && json.Unmarshal(j, &bh3) == nil &&
		bh3.Hash() == bh.Hash() && reflect.DeepEqual(wire.PrHeader(&bh3), o.V2)
	return
}

func obsBlock(v wire.Block, e wire.Empty, flag int) (o Obs) {
	o = Obs{K: "block", Flag: flag, Mode: mode(e), V: v, V2: []int{}, Hex: wire.B{}}
	defer guard(&o)
	b := &types.Block{BlockHeader: *wire.MkHeader(v.H, e)}
	if e == wire.AsEmpty {
		b.Transactions = []*types.Tx{}
	}
	size := 0
	for _, t := range v.Txs {
		tx, text, err := mkTx(t, e)
		if err != nil {
			o.Merr = err.Error()
			return
		}
		size += len(text) / 2
		b.Transactions = append(b.Transactions, tx)
	}
	var text []byte
	var err error
	switch flag {
	case 1:
		text, err = b.MarshalTextForBlockHeader()
	case 2:
		text, err = b.MarshalTextForTransactions()
	default:
		text, err = b.MarshalText()
	}
	if err != nil {
		o.Merr = err.Error()
		return
	}
	o.Hex, o.Bsize = unhex(text), size
	var b2 types.Block
	if err := b2.UnmarshalText(text); err != nil {
		o.Derr = err.Error()
		return
	}
	o.V2 = wire.PrBlock(&b2)
	for _, t := range b2.Transactions {
		o.Size += int(t.TxData.SerializedSize)
	}
	if flag == 1 {
		o.Size, o.Bsize = 0, 0 // no transactions travel under this flag
	}
	o.IdEq = true
	if flag != 2 {
		o.IdEq = b.Hash() == b2.Hash()
	}
	if flag != 1 {
		o.IdEq = o.IdEq && len(b.Transactions) == len(b2.Transactions)
		for i := 0; o.IdEq && i < len(b.Transactions); i++ {
			o.IdEq = sameTxIDs(b.Transactions[i], b2.Transactions[i])
		}
	}
	o.JSONOk = true
	if flag == 3 {
		j, err := json.Marshal(b)
		var b3 types.Block
		o.JSONOk = err == nil && string(j) == `"`+string(text)+`"` && json.Unmarshal(j, &b3) == nil &&
			b3.Hash() == b.Hash() && reflect.DeepEqual(wire.PrBlock(&b3), o.V2)
	}
	return
}

type tlcCase struct {
	K string          `json:"k"`
	V json.RawMessage `json:"v"`
}

func main() {
	vh.Quiet()
	if len(os.Args) != 5 || os.Args[1] != "observe" {
		vh.Fatal("usage: c04 observe <exports> <nrandom> <obs.ndjson>")
	}
	nrand, _ := strconv.Atoi(os.Args[3])
	f, err := os.Create(os.Args[4])
	if err != nil {
		vh.Fatal("%v", err)
	}
	w := bufio.NewWriterSize(f, 1<<20)
	n, panics, kinds := 0, 0, map[string]int{}
	var sample []Obs
	emit := func(o Obs, src string) {
		o.I, o.Src = n, src
		n++
		kinds[o.K+":"+src]++
		if o.Panic != "" {
			panics++
		}
		b, err := json.Marshal(o)
		if err != nil {
			vh.Fatal("%v", err)
		}
		w.Write(b)
		w.WriteByte('\n')
		if len(sample) < 3 && o.Hex != nil && len(o.Hex) > 40 && len(o.Hex) < 160 && n%97 == 5 {
			sample = append(sample, o)
		}
	}
	all := func(k string, raw json.RawMessage, src string, modes []wire.Empty) {
		switch k {
		case "tx":
			var v wire.Tx
			if err := json.Unmarshal(raw, &v); err != nil {
				vh.Fatal("bad tx value: %v", err)
			}
			wire.RealAssetIDs(&v)
			for _, e := range modes {
				emit(obsTx(v, e), src)
			}
		case "header":
			var v wire.Header
			if err := json.Unmarshal(raw, &v); err != nil {
				vh.Fatal("bad header value: %v", err)
			}
			for _, e := range modes {
				emit(obsHeader(v, e), src)
			}
		case "block":
			var v wire.Block
			if err := json.Unmarshal(raw, &v); err != nil {
				vh.Fatal("bad block value: %v", err)
			}
			for k := range v.Txs {
				wire.RealAssetIDs(&v.Txs[k])
			}
			for _, e := range modes {
				for _, fl := range []int{3, 1, 2} {
					emit(obsBlock(v, e, fl), src)
				}
			}
		default:
			vh.Fatal("unknown case kind %q", k)
		}
	}
	ntlc, err := vh.EachExport(os.Args[2], func(_ int, doc []byte) error {
		var c tlcCase
		if err := json.Unmarshal(doc, &c); err != nil {
			return err
		}
		all(c.K, c.V, "tlc", []wire.Empty{wire.AsNil, wire.AsEmpty})
		return nil
	})
	if err != nil {
		vh.Fatal("reading exports: %v", err)
	}
	g := wire.Gen{R: rand.New(rand.NewSource(vh.Seed()))}
	for i := 0; i < nrand; i++ {
		e := wire.Empty(g.R.Intn(2) == 0)
		var raw []byte
		k := "tx"
		switch g.R.Intn(10) {
		case 0, 1:
			k = "header"
			raw, _ = json.Marshal(g.Header())
		case 2, 3:
			k = "block"
			raw, _ = json.Marshal(g.Block())
		default:
			raw, _ = json.Marshal(g.Tx(3))
		}
		all(k, raw, "rand", []wire.Empty{e})
	}
	w.Flush()
	f.Close()
	for _, s := range sample {
		vh.Sample(s)
	}
	_ = bc.Hash{}
	vh.Summary(map[string]interface{}{"observations": n, "tlc_cases": ntlc, "random_values": nrand, "panics": panics, "kinds": kinds})
}
