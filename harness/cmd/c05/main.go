// c05: feeds untrusted byte strings to the real decoders under a monitor.
//
//	c05 run <inputs: TLC output with exports | ndjson> <outcomes.ndjson>
//	    parent: runs every input in a child process (memory-limited, one input at a
//	    time, in order); a child that dies or hangs is blamed on the input it was
//	    decoding, which is then re-run alone in a fresh child to confirm.
//	c05 child
//	    reads {i,target,data(hex)} lines, answers {i,out,alloc,panic,err} lines.
//	c05 gen <n> <inputs.ndjson>
//	    seeded random mutations of real encodings (the T family), judged afterwards
//	    by specs/wire/WireClass.tla.
//
// Violation conditions (decided by the orchestrator from the outcomes and the
// specification's AllocBound): recovered panic, child death, hang, TotalAlloc
// delta above the bound.
package main

import (
	"bufio"
	"bytes"
	"encoding/hex"
	"encoding/json"
	"fmt"
	"io"
	"math/rand"
	"os"
	"os/exec"
	"runtime"
	"runtime/debug"
	"strconv"
	"strings"
	"syscall"
	"time"

	gowire "github.com/tendermint/go-wire"

	"github.com/bytom/bytom/netsync/chainmgr"
	"github.com/bytom/bytom/netsync/consensusmgr"
	msgs "github.com/bytom/bytom/netsync/messages"
	"github.com/bytom/bytom/protocol/bc"
	"github.com/bytom/bytom/protocol/bc/types"

	"verifharness/internal/vh"
	"verifharness/internal/wire"
)

const memLimit = 4 << 30 // RLIMIT_AS of the child

// In is one input as exported by WireAdv.tla or written by `gen`.
type In struct {
	I      int    `json:"i"`
	ID     string `json:"id"`
	Target string `json:"target"`
	Mut    string `json:"mut"`
	Class  string `json:"class"`
	B      wire.B `json:"b"`
	T      wire.B `json:"t"`
	IsText bool   `json:"istext"`
	Bound  int    `json:"bound"`
	// "#subst" records
	Def   wire.B `json:"def"`
	Vmver wire.U `json:"vmver"`
	Prog  wire.B `json:"prog"`
}

type job struct {
	I      int    `json:"i"`
	Target string `json:"target"`
	Data   string `json:"data"` // hex of what the decoder receives (text bytes or raw message)
}

type result struct {
	I     int    `json:"i"`
	Out   string `json:"out"` // ok | err | ok/ok | ok/err | panic | death | hang
	Alloc uint64 `json:"alloc"`
	Panic string `json:"panic"`
	Err   string `json:"err"`
	Note  string `json:"note"`
	Len   int    `json:"len"`
}

// ------------------------------------------------------------------ child

func decode(target string, data []byte) (out string, errmsg string) {
	e := func(err error) string {
		if err != nil {
			return "err"
		}
		return "ok"
	}
	m := func(err error) string {
		if err != nil {
			return err.Error()
		}
		return ""
	}
	switch target {
	case "tx":
		var tx types.Tx
		err := tx.UnmarshalText(data)
		return e(err), m(err)
	case "header":
		var bh types.BlockHeader
		err := bh.UnmarshalText(data)
		return e(err), m(err)
	case "block":
		var b types.Block
		err := b.UnmarshalText(data)
		return e(err), m(err)
	case "chainmsg":
		_, msg, err := chainmgr.DecodeMessageVerif(data)
		if err != nil || msg == nil {
			return e(err), m(err)
		}
		_ = msg.String() // processMsg logs it before dispatching
		var err2 error
		switch mm := msg.(type) {
		case *msgs.BlockMessage:
			_, err2 = mm.GetBlock()
		case *msgs.HeadersMessage:
			_, err2 = mm.GetHeaders()
		case *msgs.BlocksMessage:
			_, err2 = mm.GetBlocks()
		case *msgs.TransactionMessage:
			_, err2 = mm.GetTransaction()
		case *msgs.TransactionsMessage:
			_, err2 = mm.GetTransactions()
		case *msgs.MineBlockMessage:
			_, err2 = mm.GetMineBlock()
		case *msgs.GetHeadersMessage:
			mm.GetBlockLocator()
			return "ok", ""
		case *msgs.GetBlocksMessage:
			mm.GetBlockLocator()
			return "ok", ""
		default:
			return "ok", ""
		}
		return "ok/" + e(err2), m(err2)
	case "consmsg":
		_, msg, err := consensusmgr.DecodeMessageVerif(data)
		if err != nil || msg == nil {
			return e(err), m(err)
		}
		_ = msg.String()
		if p, ok := msg.(*consensusmgr.BlockProposeMsg); ok {
			_, err2 := p.GetProposeBlock()
			return "ok/" + e(err2), m(err2)
		}
		return "ok", ""
	// self-tests of the monitor (negative control)
	case "self:panic":
		var x []int
		_ = x[len(data)]
	case "self:alloc":
		sink = make([]byte, 64<<20)
		return "ok", ""
	case "self:oom":
		sink2 = make([]*int, 1<<31)
		return "ok", ""
	case "self:hang":
		select {}
	}
	return "err", "unknown target"
}

var sink []byte
var sink2 []*int

func measure(target string, data []byte) (r result) {
	var m0, m1 runtime.MemStats
	runtime.ReadMemStats(&m0)
	func() {
		defer func() {
			if p := recover(); p != nil {
				r.Out, r.Panic = "panic", fmt.Sprint(p)
			}
		}()
		r.Out, r.Err = decode(target, data)
	}()
	runtime.ReadMemStats(&m1)
	r.Alloc = m1.TotalAlloc - m0.TotalAlloc
	sink, sink2 = nil, nil
	return
}

func child() {
	vh.Quiet()
	debug.SetGCPercent(50)
	lim := syscall.Rlimit{Cur: memLimit, Max: memLimit}
	if err := syscall.Setrlimit(syscall.RLIMIT_AS, &lim); err != nil {
		fmt.Fprintln(os.Stderr, "setrlimit:", err)
		os.Exit(3)
	}
	in := bufio.NewReaderSize(os.Stdin, 1<<20)
	out := bufio.NewWriter(os.Stdout)
	for {
		line, err := in.ReadBytes('\n')
		if len(line) > 1 {
			var j job
			if e := json.Unmarshal(line, &j); e != nil {
				fmt.Fprintln(os.Stderr, "bad job:", e)
				os.Exit(3)
			}
			data, _ := hex.DecodeString(j.Data)
			r := measure(j.Target, data)
			if r.Alloc > 16<<10 && r.Alloc < 1<<30 && r.Out != "panic" {
				// lazily initialised pools / reflection caches are charged to the first caller: measure again
				if r2 := measure(j.Target, data); r2.Alloc < r.Alloc {
					r2.Note = "second measurement"
					r = r2
				}
			}
			r.I, r.Len = j.I, len(data)
			b, _ := json.Marshal(r)
			out.Write(b)
			out.WriteByte('\n')
			out.Flush()
		}
		if err != nil {
			return
		}
	}
}

// ------------------------------------------------------------------ parent

type proc struct {
	cmd    *exec.Cmd
	in     io.WriteCloser
	lines  chan []byte
	stderr *bytes.Buffer
}

func start() *proc {
	p := &proc{cmd: exec.Command(os.Args[0], "child"), lines: make(chan []byte, 64), stderr: &bytes.Buffer{}}
	p.cmd.Stderr = p.stderr
	var err error
	if p.in, err = p.cmd.StdinPipe(); err != nil {
		vh.Fatal("%v", err)
	}
	so, err := p.cmd.StdoutPipe()
	if err != nil {
		vh.Fatal("%v", err)
	}
	if err := p.cmd.Start(); err != nil {
		vh.Fatal("cannot start child: %v", err)
	}
	go func() {
		r := bufio.NewReaderSize(so, 1<<20)
		for {
			l, err := r.ReadBytes('\n')
			if len(l) > 1 {
				p.lines <- l
			}
			if err != nil {
				close(p.lines)
				return
			}
		}
	}()
	return p
}

func (p *proc) stop() {
	p.in.Close()
	p.cmd.Process.Kill()
	p.cmd.Wait()
}

// runOne sends one job and waits for its result; ok=false means the child died or hung.
func (p *proc) runOne(j job, wait time.Duration) (r result, how string, ok bool) {
	b, _ := json.Marshal(j)
	if _, err := p.in.Write(append(b, '\n')); err != nil {
		return r, "death", false
	}
	select {
	case l, open := <-p.lines:
		if !open {
			return r, "death", false
		}
		if err := json.Unmarshal(l, &r); err != nil || r.I != j.I {
			vh.Fatal("child protocol error: %q", l)
		}
		return r, "", true
	case <-time.After(wait):
		return r, "hang", false
	}
}

func tail(s string, n int) string {
	s = strings.TrimSpace(s)
	if i := strings.Index(s, "\n\ngoroutine "); i > 0 {
		s = s[:i]
	}
	if len(s) > n {
		s = s[:n]
	}
	return s
}

func loadInputs(path string) (ins []In, substs []In, k, c int) {
	n := 0
	_, err := vh.EachExport(path, func(_ int, doc []byte) error {
		var x In
		if err := json.Unmarshal(doc, &x); err != nil {
			return err
		}
		switch x.ID {
		case "#bound":
			var kc struct{ K, C int }
			json.Unmarshal(doc, &kc)
			k, c = kc.K, kc.C
		case "#subst":
			substs = append(substs, x)
		default:
			if !strings.Contains(string(doc), `"i":`) {
				x.I = n
			}
			n++
			ins = append(ins, x)
		}
		return nil
	})
	if err != nil {
		vh.Fatal("reading inputs: %v", err)
	}
	return
}

// payload returns what the decoder receives: the text for text-form targets, the raw bytes for messages.
func payload(x In, pairs [][2][]byte) []byte {
	var d []byte
	switch {
	case x.IsText:
		d = []byte(x.T)
	case x.Target == "tx" || x.Target == "header" || x.Target == "block":
		d = []byte(hex.EncodeToString(x.B))
	default:
		d = []byte(x.B)
	}
	for _, p := range pairs {
		d = bytes.Replace(d, p[0], p[1], -1)
	}
	return d
}

func run(inPath, outPath string) {
	ins, substs, k, c := loadInputs(inPath)
	// concretise the uninterpreted asset-id hash: placeholder -> real id, in raw and in hex-text form
	var pairs [][2][]byte
	for _, s := range substs {
		v := wire.Tx{Inputs: []wire.Input{{Av: 1, Kind: "issuance", AssetId: s.B, Def: s.Def, Vmver: s.Vmver, Prog: s.Prog}}}
		for _, p := range wire.RealAssetIDs(&v) {
			h0, h1 := hex.EncodeToString(p[0]), hex.EncodeToString(p[1])
			pairs = append(pairs, [2][]byte{p[0], p[1]}, [2][]byte{[]byte(h0), []byte(h1)},
				[2][]byte{[]byte(strings.ToUpper(h0)), []byte(strings.ToUpper(h1))})
		}
	}
	f, err := os.Create(outPath)
	if err != nil {
		vh.Fatal("%v", err)
	}
	w := bufio.NewWriterSize(f, 1<<20)
	p := start()
	restarts, deaths, hangs, unrepro, maxAlloc := 0, 0, 0, 0, uint64(0)
	counts := map[string]int{}
	emit := func(r result) {
		counts[r.Out]++
		if r.Alloc > maxAlloc {
			maxAlloc = r.Alloc
		}
		b, _ := json.Marshal(r)
		w.Write(b)
		w.WriteByte('\n')
	}
	for _, x := range ins {
		data := payload(x, pairs)
		j := job{I: x.I, Target: x.Target, Data: hex.EncodeToString(data)}
		r, how, ok := p.runOne(j, 120*time.Second)
		if !ok {
			// blame this input; confirm alone in a fresh child
			p.stop()
			first := tail(p.stderr.String(), 300)
			restarts++
			q := start()
			r2, how2, ok2 := q.runOne(j, 120*time.Second)
			q.stop()
			if ok2 {
				// not reproducible (memory left over from earlier inputs, or a stalled machine): the
				// measurement taken alone is the observation of this input
				unrepro++
				r = r2
				r.Note = strings.TrimSpace(r.Note + " measured alone after the shared child ended with " + how + ": " + first)
			} else {
				r = result{I: x.I, Out: how2, Len: len(data), Err: tail(q.stderr.String(), 300), Note: "reproduced alone in a fresh child; first: " + how}
				if how2 == "death" {
					deaths++
				} else {
					hangs++
				}
			}
			p = start()
		} else if r.Alloc > 256<<20 {
			// keep the children small: a fresh process after every very large allocation
			p.stop()
			p = start()
		}
		emit(r)
	}
	p.stop()
	w.Flush()
	f.Close()
	vh.Summary(map[string]interface{}{"inputs": len(ins), "outcomes": counts, "child_restarts": restarts, "deaths": deaths, "hangs": hangs, "unreproduced_child_failures": unrepro,
		"max_alloc": maxAlloc, "alloc_k": k, "alloc_c": c, "substitutions": len(pairs) / 3, "mem_limit": memLimit})
}

// ------------------------------------------------------------------ random family (T)

func mutate(r *rand.Rand, b []byte) ([]byte, string) {
	b = append([]byte(nil), b...)
	var tags []string
	for n := 1 + r.Intn(3); n > 0; n-- {
		if len(b) == 0 {
			b = append(b, byte(r.Intn(256)))
			tags = append(tags, "ins")
			continue
		}
		p := r.Intn(len(b))
		switch r.Intn(9) {
		case 0:
			b[p] ^= 1 << uint(r.Intn(8))
			tags = append(tags, "flip")
		case 1:
			b[p] = []byte{0, 1, 2, 0x7f, 0x80, 0xff}[r.Intn(6)]
			tags = append(tags, "set")
		case 2:
			b = append(b[:p], b[p+1:]...)
			tags = append(tags, "del")
		case 3:
			b = append(b[:p], append([]byte{byte(r.Intn(256))}, b[p:]...)...)
			tags = append(tags, "ins")
		case 4:
			b = b[:p]
			tags = append(tags, "trunc")
		case 5:
			huge := [][]byte{{0xff, 0xff, 0xff, 0xff, 0x07}, {0x80, 0x80, 0x80, 0x08}, {0x80, 0x80, 0x80, 0x80, 0x08},
				{0xff, 0xff, 0xff, 0xff, 0xff, 0xff, 0xff, 0xff, 0x7f}, {0x80, 0x80, 0x80, 0x80, 0x80, 0x80, 0x80, 0x80, 0x80, 0x01}, {0xff, 0xff, 0x03}}[r.Intn(6)]
			b = append(b[:p], append(append([]byte{}, huge...), b[p+1:]...)...)
			tags = append(tags, "bigvarint")
		case 6:
			q := r.Intn(len(b))
			if q < p {
				p, q = q, p
			}
			b = append(b[:q], append(append([]byte{}, b[p:q]...), b[q:]...)...)
			tags = append(tags, "dup")
		case 7:
			b[p] = byte(r.Intn(256))
			tags = append(tags, "rnd")
		default:
			b = append(b, byte(r.Intn(256)))
			tags = append(tags, "app")
		}
		if len(b) > 700 {
			b = b[:700]
		}
	}
	return b, strings.Join(tags, "+")
}

func gen(n int, outPath string) {
	r := rand.New(rand.NewSource(vh.Seed()*7919 + 5))
	g := wire.Gen{R: r}
	f, err := os.Create(outPath)
	if err != nil {
		vh.Fatal("%v", err)
	}
	w := bufio.NewWriterSize(f, 1<<20)
	raw := func(k string) []byte { // a real encoding, produced by the repository's own writers
		for {
			var text []byte
			var err error
			switch k {
			case "tx":
				text, err = wire.MkTxData(g.Tx(2), wire.AsNil).MarshalText()
			case "header":
				text, err = wire.MkHeader(g.Header(), wire.AsNil).MarshalText()
			default:
				v := g.Block()
				b := &types.Block{BlockHeader: *wire.MkHeader(v.H, wire.AsNil)}
				for _, t := range v.Txs {
					d := wire.MkTxData(t, wire.AsNil)
					b.Transactions = append(b.Transactions, &types.Tx{TxData: *d})
				}
				switch r.Intn(4) {
				case 0:
					text, err = b.MarshalTextForBlockHeader()
				case 1:
					text, err = b.MarshalTextForTransactions()
				default:
					text, err = b.MarshalText()
				}
			}
			if err != nil {
				vh.Fatal("MarshalText of a generated value failed: %v", err)
			}
			if b, _ := hex.DecodeString(string(text)); len(b) <= 420 {
				return b
			}
		}
	}
	h32 := func() (h [32]byte) { r.Read(h[:]); return }
	for i := 0; i < n; i++ {
		x := In{I: i, ID: "rand", B: wire.B{}, T: wire.B{}}
		switch c := r.Intn(20); {
		case c < 6:
			x.Target = "tx"
			x.B, x.Mut = mutate(r, raw("tx"))
		case c < 9:
			x.Target = "header"
			x.B, x.Mut = mutate(r, raw("header"))
		case c < 13:
			x.Target = "block"
			x.B, x.Mut = mutate(r, raw("block"))
		case c == 13:
			x.Target = []string{"tx", "header", "block"}[r.Intn(3)]
			b := make([]byte, r.Intn(60))
			r.Read(b)
			if len(b) > 0 && r.Intn(2) == 0 {
				b[0] = []byte{7, 1, 3, 2}[r.Intn(4)]
			}
			x.B, x.Mut = b, "random"
		case c == 14: // text-level damage
			x.Target = []string{"tx", "header", "block"}[r.Intn(3)]
			t := []byte(hex.EncodeToString(raw(x.Target)))
			t, x.Mut = mutate(r, t)
			x.T, x.IsText, x.Mut = t, true, "text:"+x.Mut
		default: // network messages: real envelope (go-wire writer) around a real or damaged payload, then damaged
			var msg interface{}
			x.Target = "chainmsg"
			pl := func(k string) []byte {
				b := raw(k)
				if r.Intn(2) == 0 {
					b, _ = mutate(r, b)
				}
				return []byte(hex.EncodeToString(b))
			}
			js := func(k string) []byte { return []byte(`"` + string(pl(k)) + `"`) }
			switch r.Intn(12) {
			case 0:
				msg = struct{ msgs.BlockchainMessage }{&msgs.GetBlockMessage{Height: r.Uint64(), RawHash: h32()}}
			case 1:
				msg = struct{ msgs.BlockchainMessage }{&msgs.BlockMessage{RawBlock: pl("block")}}
			case 2:
				msg = struct{ msgs.BlockchainMessage }{&msgs.GetHeadersMessage{RawBlockLocator: [][32]byte{h32(), h32()}, RawStopHash: h32(), Skip: r.Uint64()}}
			case 3:
				msg = struct{ msgs.BlockchainMessage }{&msgs.HeadersMessage{RawHeaders: [][]byte{js("header"), js("header")}}}
			case 4:
				msg = struct{ msgs.BlockchainMessage }{&msgs.BlocksMessage{RawBlocks: [][]byte{js("block")}}}
			case 5:
				msg = struct{ msgs.BlockchainMessage }{&msgs.TransactionMessage{RawTx: pl("tx")}}
			case 6:
				msg = struct{ msgs.BlockchainMessage }{&msgs.TransactionsMessage{RawTxs: [][]byte{pl("tx"), pl("tx")}}}
			case 7:
				msg = struct{ msgs.BlockchainMessage }{&msgs.MineBlockMessage{RawBlock: pl("block")}}
			case 8:
				msg = struct{ msgs.BlockchainMessage }{&msgs.StatusMessage{BestHeight: r.Uint64(), BestHash: h32(), JustifiedHash: h32()}}
			case 9:
				msg = struct{ msgs.BlockchainMessage }{&msgs.FilterLoadMessage{Addresses: [][]byte{{1, 2}, {}}}}
			case 10:
				x.Target = "consmsg"
				msg = struct{ consensusmgr.ConsensusMessage }{&consensusmgr.BlockProposeMsg{RawBlock: pl("block")}}
			default:
				x.Target = "consmsg"
				sh, th := h32(), h32()
				msg = struct{ consensusmgr.ConsensusMessage }{consensusmgr.NewBlockVerificationMsg(bc.NewHash(sh), bc.NewHash(th), sh[:], append(sh[:], th[:]...))}
			}
			b := gowire.BinaryBytes(msg)
			x.Mut = "msg"
			if r.Intn(3) > 0 {
				// damage the envelope itself (mostly near the front, where the type byte and the length prefixes are)
				head := b
				if len(b) > 12 && r.Intn(2) == 0 {
					head = b[:12]
				}
				hm, tag := mutate(r, head)
				b = append(hm, b[len(head):]...)
				x.Mut = "msg:" + tag
			}
			if len(b) > 1500 {
				b = b[:1500]
			}
			x.B = b
		}
		if x.B == nil {
			x.B = wire.B{}
		}
		if x.T == nil {
			x.T = wire.B{}
		}
		j, _ := json.Marshal(struct {
			I      int    `json:"i"`
			ID     string `json:"id"`
			Target string `json:"target"`
			Mut    string `json:"mut"`
			B      wire.B `json:"b"`
			T      wire.B `json:"t"`
			IsText bool   `json:"istext"`
		}{x.I, x.ID, x.Target, x.Mut, x.B, x.T, x.IsText})
		w.Write(j)
		w.WriteByte('\n')
	}
	w.Flush()
	f.Close()
	vh.Summary(map[string]interface{}{"generated": n})
}

func main() {
	if len(os.Args) >= 2 && os.Args[1] == "child" {
		child()
		return
	}
	vh.Quiet()
	switch {
	case len(os.Args) == 4 && os.Args[1] == "run":
		run(os.Args[2], os.Args[3])
	case len(os.Args) == 4 && os.Args[1] == "gen":
		n, _ := strconv.Atoi(os.Args[2])
		gen(n, os.Args[3])
	default:
		vh.Fatal("usage: c05 run <inputs> <outcomes.ndjson> | c05 gen <n> <inputs.ndjson> | c05 child")
	}
}
