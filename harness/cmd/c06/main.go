// c06: VM values behave as immutable byte strings.
//
//	c06 gen  <out.ndjson> <n>            seeded random programs over the aliasing alphabet
//	c06 prep <raw cases>... <dir> <k>    number the cases (TLC export or ndjson), add hash facts, k shards
//	c06 cmp  <dir> <tlc.out>... [corrupt]  run the real VM in three buffer layouts, compare with the TLC export
package main

import (
	"math/rand"
	"strconv"

	"verifharness/internal/vh"
	"verifharness/internal/vmh"
)

// instructions that copy, move, cut or join items, and pushes
var alphabet = [][]byte{
	{0x76}, {0x6e}, {0x6f}, {0x70}, {0x71}, {0x72}, {0x73}, {0x78}, {0x7b}, {0x7c}, {0x7d}, {0x77},
	{0x00, 0x79}, {0x51, 0x79}, {0x52, 0x79}, {0x00, 0x7a}, {0x51, 0x7a}, {0x52, 0x7a}, // PICK / ROLL with a small index
	{0x6b}, {0x6c}, {0x7e}, {0x89}, {0x7f}, {0x80}, {0x81}, {0x82}, {0x75}, {0x6d}, {0x83}, {0x84}, {0x85}, {0x86},
	{0x00}, {0x51}, {0x52}, {0x53}, {0x01, 0x7a}, {0x02, 0x78, 0x79}, {0x74},
	{0x8b}, {0x93}, {0x98}, // 1ADD ADD LSHIFT on small numbers
	{0xc4}, {0xca}, // PROGRAM ENTRYID: items that alias the caller's program / context
}

func randItem(rng *rand.Rand, base byte) vmh.Bytes {
	l := rng.Intn(5)
	a := make(vmh.Bytes, l)
	for k := range a {
		a[k] = base + byte(rng.Intn(26))
	}
	return a
}

// sequences that pop, replace and extend the state data through the alt stack
var stateMoves = [][]byte{
	{0x6c, 0x75, 0x02, 0x6e, 0x77, 0x6b},       // FROMALTSTACK DROP "nw" TOALTSTACK   (pop and replace)
	{0x6c, 0x8b, 0x76, 0x6b},                   // FROMALTSTACK 1ADD DUP TOALTSTACK    (counter)
	{0x6c, 0x6c, 0x7c, 0x6b, 0x6b},             // FROMALTSTACK FROMALTSTACK SWAP TOALTSTACK TOALTSTACK
	{0x01, 0x71, 0x6b},                         // "q" TOALTSTACK                      (push more)
	{0x6b}, {0x6b, 0x6b},                       // TOALTSTACK (an argument)
	{0x6c}, {0x6c, 0x6c}, {0x6c, 0x75},         // pop only
	{0x6c, 0x76, 0x7e, 0x6b},                   // FROMALTSTACK DUP CAT TOALTSTACK
	{0x6c, 0x51, 0x80, 0x6b},                   // FROMALTSTACK 1 LEFT TOALTSTACK
	{0x6c, 0x83, 0x6b},                         // FROMALTSTACK INVERT TOALTSTACK
}

func gen(args []string) []*vmh.Case {
	n, _ := strconv.Atoi(args[0])
	rng := rand.New(rand.NewSource(vh.Seed()*7919 + 6))
	var cs []*vmh.Case
	ctx := func() vmh.Ctx {
		x := vmh.DefaultCtx()
		x.Entry = vmh.Bytes{0x65, 0x66, 0x67}
		return x
	}
	// ---- directed: contracts that read and rewrite their state
	B := func(b ...byte) vmh.Bytes { return vmh.Bytes(b) }
	directed := []struct {
		prog  vmh.Bytes
		state []vmh.Bytes
		args  []vmh.Bytes
	}{
		{B(0x6c, 0x8b, 0x76, 0x6b, 0x56, 0x9c), []vmh.Bytes{{5}}, nil},                                   // counter: FROMALTSTACK 1ADD DUP TOALTSTACK 6 NUMEQUAL
		{B(0x6c, 0x75, 0x09, 'n', 'e', 'w', ' ', 's', 't', 'a', 't', 'e', 0x6b, 0x51), []vmh.Bytes{[]byte("owner"), []byte("old state")}, nil},
		{B(0x01, 0x78, 0x6b, 0x51), []vmh.Bytes{[]byte("only")}, nil},                                     // "x" TOALTSTACK 1
		{B(0x01, 0x78, 0x6b, 0x51), nil, nil},
		{B(0x6b, 0x51), []vmh.Bytes{[]byte("s0")}, []vmh.Bytes{[]byte("arg")}},
		{B(0x6c, 0x6c, 0x6c, 0x01, 0x7a, 0x6b, 0x6b, 0x6b, 0x6b, 0x51), []vmh.Bytes{{1}, {2}, {3}}, nil},
		{B(0x6c, 0x6c, 0x7e, 0x6b, 0x51), []vmh.Bytes{[]byte("ab"), []byte("cd")}, nil},
	}
	for _, d := range directed {
		cs = append(cs, &vmh.Case{Prog: d.prog, State: d.state, Args: d.args, Limit: 20000, Fam: "state-directed", Ctx: ctx()})
	}
	for i := 0; i < n; i++ {
		c := &vmh.Case{Limit: 20000, Fam: "random", Ctx: ctx()}
		nargs := 1 + rng.Intn(4)
		for j := 0; j < nargs; j++ {
			c.Args = append(c.Args, randItem(rng, 'a'))
		}
		// initial state data: 1..3 items in two cases out of three
		if rng.Intn(3) != 0 {
			for j := 1 + rng.Intn(3); j > 0; j-- {
				c.State = append(c.State, randItem(rng, 'A'))
			}
			c.Fam = "random-state"
		}
		ninst := 3 + rng.Intn(10)
		for j := 0; j < ninst; j++ {
			if len(c.State) > 0 && rng.Intn(4) == 0 {
				c.Prog = append(c.Prog, stateMoves[rng.Intn(len(stateMoves))]...)
			} else {
				c.Prog = append(c.Prog, alphabet[rng.Intn(len(alphabet))]...)
			}
		}
		cs = append(cs, c)
	}
	return cs
}

func main() {
	vmh.FailClassesEqual = true
	vmh.Main(vmh.CmpOptions{Prefix: "alias", Layouts: vmh.Layouts, Twice: true}, gen)
}
