// c06: VM values behave as immutable byte strings.
//
//	c06 gen  <out.ndjson> <n>            seeded random programs over the aliasing alphabet
//	c06 prep <raw cases>... <dir> <k>    number the cases (TLC export or ndjson), add hash facts, k shards
//	c06 cmp  <dir> <tlc.out>... [corrupt]  run the real VM in three buffer layouts, compare with the TLC export
package main

import (
	"math/rand"
	"strconv"

	"verifharness/internal/vh"
	"verifharness/internal/vmh"
)

// instructions that copy, move, cut or join items, and pushes
var alphabet = [][]byte{
	{0x76}, {0x6e}, {0x6f}, {0x70}, {0x71}, {0x72}, {0x73}, {0x78}, {0x7b}, {0x7c}, {0x7d}, {0x77},
	{0x00, 0x79}, {0x51, 0x79}, {0x52, 0x79}, {0x00, 0x7a}, {0x51, 0x7a}, {0x52, 0x7a}, // PICK / ROLL with a small index
	{0x6b}, {0x6c}, {0x7e}, {0x89}, {0x7f}, {0x80}, {0x81}, {0x82}, {0x75}, {0x6d}, {0x83}, {0x84}, {0x85}, {0x86},
	{0x00}, {0x51}, {0x52}, {0x53}, {0x01, 0x7a}, {0x02, 0x78, 0x79}, {0x74},
	{0x8b}, {0x93}, {0x98}, // 1ADD ADD LSHIFT on small numbers
	{0xc4}, {0xca}, // PROGRAM ENTRYID: items that alias the caller's program / context
}

func gen(args []string) []*vmh.Case {
	n, _ := strconv.Atoi(args[0])
	rng := rand.New(rand.NewSource(vh.Seed()*7919 + 6))
	var cs []*vmh.Case
	for i := 0; i < n; i++ {
		c := &vmh.Case{Limit: 20000, Fam: "random"}
		c.Ctx = vmh.DefaultCtx()
		c.Ctx.Entry = vmh.Bytes{0x65, 0x66, 0x67}
		nargs := 1 + rng.Intn(4)
		for j := 0; j < nargs; j++ {
			l := rng.Intn(5)
			a := make([]byte, l)
			for k := range a {
				a[k] = byte('a' + rng.Intn(26))
			}
			c.Args = append(c.Args, a)
		}
		if rng.Intn(3) == 0 {
			c.State = append(c.State, vmh.Bytes{byte('A' + rng.Intn(26)), byte('A' + rng.Intn(26))})
		}
		ninst := 3 + rng.Intn(10)
		for j := 0; j < ninst; j++ {
			c.Prog = append(c.Prog, alphabet[rng.Intn(len(alphabet))]...)
		}
		cs = append(cs, c)
	}
	return cs
}

func main() {
	vmh.FailClassesEqual = true
	vmh.Main(vmh.CmpOptions{Prefix: "alias", Layouts: vmh.Layouts}, gen)
}
