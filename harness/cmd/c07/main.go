// c07: VM execution terminates within the gas limit.
//
//	c07 gen   <out.ndjson> <quick|thorough>   seeded programs (inputs only): random byte strings biased to jumps,
//	                                          predicates and refunding instructions; predicate loops; zero-cost candidates
//	c07 prep  <raw>... <dir> <k>              number the cases, add hash facts, k shards
//	c07 cmp   <dir> <tlc.out>... [corrupt]    run the real vm.Verify (step-capped), compare gas at every step with TLC
//	c07 usage <tlc.out>                       replay the TLC case table of VMGasUsage.tla on validation.GasState
package main

import (
	"encoding/json"
	"fmt"
	"math/rand"
	"os"

	"github.com/bytom/bytom/errors"
	"github.com/bytom/bytom/protocol/validation"

	"verifharness/internal/vh"
	"verifharness/internal/vmh"
)

type B = vmh.Bytes

func cat(parts ...B) B {
	r := B{}
	for _, p := range parts {
		r = append(r, p...)
	}
	return r
}

func push(it B) B {
	switch {
	case len(it) == 0:
		return B{0}
	case len(it) <= 75:
		return cat(B{byte(len(it))}, it)
	case len(it) < 256:
		return cat(B{0x4c, byte(len(it))}, it)
	}
	return cat(B{0x4d, byte(len(it)), byte(len(it) >> 8)}, it)
}

func le(v uint64) B { return vmh.LE(v) }

var definedOps = func() []int {
	var r []int
	for op := 0; op < 256; op++ {
		switch {
		case op == 0, op >= 0x51 && op <= 0x61, op >= 0x69 && op <= 0x89,
			op >= 0x8b && op <= 0x8e, op >= 0x91 && op <= 0xa5, op == 0xa8, op >= 0xaa && op <= 0xae,
			op >= 0xc0 && op <= 0xc4, op >= 0xc9 && op <= 0xcb, op == 0xcd:
			r = append(r, op)
		}
	}
	return r
}()

type gen struct {
	cs  []*vmh.Case
	rng *rand.Rand
}

func (g *gen) add(fam string, prog B, args []B, limit int64) *vmh.Case {
	c := &vmh.Case{Prog: prog, Args: args, Limit: limit, Fam: fam, Ctx: vmh.DefaultCtx()}
	c.Ctx.Amount = vmh.Opt{Has: true, V: le(100000)}
	c.Ctx.Height = vmh.Opt{Has: true, V: le(1234)}
	c.Ctx.DestPos = vmh.Opt{Has: true, V: le(1)}
	c.Ctx.Asset = vmh.Opt{Has: true, V: cat(B{0xa5}, make(B, 31))}
	c.Ctx.OutID = vmh.Opt{Has: true, V: cat(B{0x0d}, make(B, 31))}
	c.Ctx.Entry = cat(B{0xe7}, make(B, 31))
	c.Ctx.SigHash = vmh.Opt{Has: true, V: cat(B{0x5e}, make(B, 31))}
	g.cs = append(g.cs, c)
	return c
}

func (g *gen) smallItem() B {
	switch g.rng.Intn(6) {
	case 0:
		return B{}
	case 1:
		return B{byte(1 + g.rng.Intn(16))}
	case 2:
		return B{byte(g.rng.Intn(256)), byte(g.rng.Intn(3))}
	case 3:
		r := make(B, g.rng.Intn(40))
		g.rng.Read(r)
		return r
	case 4:
		r := make(B, 32)
		g.rng.Read(r)
		r[31] &= 0x7f
		return r
	}
	return B{byte(g.rng.Intn(256))}
}

// a random instruction, biased to what matters for the gas discipline
func (g *gen) randInst(proglen int) B {
	switch x := g.rng.Intn(100); {
	case x < 22:
		return push(g.smallItem())
	case x < 30: // jump to a random address around the program
		t := g.rng.Intn(proglen + 4)
		return B{byte(0x63 + g.rng.Intn(2)), byte(t), byte(t >> 8), 0, 0}
	case x < 42: // predicate call: n predicate limit CHECKPREDICATE
		var pred B
		for k := g.rng.Intn(4); k >= 0; k-- {
			pred = append(pred, g.randSimple()...)
		}
		lims := []B{{}, {1}, {byte(g.rng.Intn(80))}, {byte(g.rng.Intn(256)), byte(g.rng.Intn(4))}, b63m1, b63, b63p1, b64m1, b64}
		if len(pred) == 0 {
			pred = B{0x51}
		}
		return cat(push(B{byte(g.rng.Intn(3))}), push(pred), push(lims[g.rng.Intn(len(lims))]), B{0xc0})
	case x < 72: // refunding / copying stack instructions
		ops := []byte{0x75, 0x6d, 0x76, 0x6e, 0x6f, 0x77, 0x78, 0x7d, 0x6b, 0x6c, 0x73, 0x74, 0x82, 0x7e, 0x89, 0x7c, 0x7b, 0x69, 0x87, 0x9a}
		return B{ops[g.rng.Intn(len(ops))]}
	case x < 80:
		return cat(push(B{byte(g.rng.Intn(4))}), B{byte(0x79 + g.rng.Intn(2))}) // k PICK / ROLL
	case x < 84:
		if g.rng.Intn(4) == 0 {
			bo := boundaryOperands()
			return cat(push(bo[g.rng.Intn(len(bo))]), B{byte(0x7f + g.rng.Intn(3))}) // boundary size: SUBSTR / LEFT / RIGHT
		}
		return cat(push(B{byte(g.rng.Intn(6))}), B{byte(0x80 + g.rng.Intn(2))}) // k LEFT / RIGHT
	case x < 88:
		return B{[]byte{0xa8, 0xaa, 0xab, 0xae}[g.rng.Intn(4)]}
	case x < 90:
		return B{byte(0xe0 + g.rng.Intn(16))} // expansion
	}
	return B{byte(definedOps[g.rng.Intn(len(definedOps))])}
}

func (g *gen) randSimple() B {
	switch g.rng.Intn(5) {
	case 0:
		return push(g.smallItem())
	case 1:
		return B{0x63, 0, 0, 0, 0}
	}
	return B{byte(definedOps[g.rng.Intn(len(definedOps))])}
}

func (g *gen) randLimit() int64 {
	switch g.rng.Intn(5) {
	case 0:
		return int64(g.rng.Intn(60))
	case 1:
		return int64(60 + g.rng.Intn(600))
	case 2:
		return int64(600 + g.rng.Intn(6000))
	case 3:
		return 300000 // consensus maximum
	}
	return int64(g.rng.Intn(300000))
}

func (g *gen) random(n int) {
	for i := 0; i < n; i++ {
		ninst := 1 + g.rng.Intn(18)
		target := 20 + g.rng.Intn(180)
		var prog B
		for k := 0; k < ninst && len(prog) < target; k++ {
			prog = append(prog, g.randInst(target)...)
		}
		var args []B
		for k := g.rng.Intn(4); k > 0; k-- {
			args = append(args, g.smallItem())
		}
		g.add("random", prog, args, g.randLimit())
	}
	// raw random bytes
	for i := 0; i < n/4; i++ {
		prog := make(B, 1+g.rng.Intn(60))
		g.rng.Read(prog)
		g.add("random-bytes", prog, []B{g.smallItem()}, g.randLimit())
	}
}

// loops around a predicate call: does any instruction, used as a predicate with too little gas, give the
// parent more than the call costs?  (padding makes the program long without being executed)
func (g *gen) predicateLoops(quick bool) {
	preds := []B{}
	for _, op := range definedOps {
		preds = append(preds, B{byte(op)})
	}
	preds = append(preds, B{0x51, 0x8b}, B{0x76, 0x82}, B{0x52, 0x52, 0x95}, B{0x01, 0xff, 0x8b}, B{0x01, 0xff, 0x58, 0x98}, B{0xc4, 0xc4}, B{0x6b, 0xc4})
	pads := []int{0, 120}
	lims := []B{{1}, {2}, {4}, {12}, {}}
	for pi, p := range preds {
		for _, pad := range pads {
			for li, lim := range lims {
				if quick && ((pi+li)%2 != 0 || pad == 0) {
					continue
				}
				for ii, item := range []B{nil, {0x21}} {
					if quick && ii > 0 {
						continue
					}
					body := B{}
					if item != nil {
						body = push(item)
					}
					prog := cat(body, B{0x00}, push(p), push(lim), B{0xc0, 0x75, 0x63, 0, 0, 0, 0}, make(B, 0))
					for k := 0; k < pad; k++ {
						prog = append(prog, 0x61)
					}
					g.add("predicate-loop", prog, nil, 900)
				}
			}
		}
	}
	// straight-line variants (no loop): the refund of one failing child
	for pi, p := range preds {
		for li, lim := range lims {
			if quick && (pi+li)%2 != 1 {
				continue
			}
			g.add("predicate-once", cat(B{0x52}, B{0x00}, push(p), push(lim), B{0xc0, 0x51}), nil, 2500)
		}
	}
}

// operands at the int64 / uint64 boundaries (and small ones next to them)
var (
	b63m1 = B{0xff, 0xff, 0xff, 0xff, 0xff, 0xff, 0xff, 0x7f}
	b63   = B{0, 0, 0, 0, 0, 0, 0, 0x80}
	b63p1 = B{1, 0, 0, 0, 0, 0, 0, 0x80}
	b64m1 = B{0xff, 0xff, 0xff, 0xff, 0xff, 0xff, 0xff, 0xff}
	b64   = B{0, 0, 0, 0, 0, 0, 0, 0, 1}
)

func boundaryOperands() []B {
	return []B{{}, {1}, {40}, {0x2c, 0x01}, b63m1, b63, b63p1, b64m1, b64, {0xfe, 0xff, 0xff, 0xff, 0xff, 0xff, 0xff, 0x7f}, {0, 0, 0, 0, 0, 0, 0, 0xc0}}
}

// operands that instructions turn into gas amounts: the limit of CHECKPREDICATE (with non-empty predicates), the size of
// SUBSTR / LEFT / RIGHT, the index of PICK / ROLL - at 2^63-1, 2^63, 2^63+1, 2^64-1, 2^64 next to small values.
// A value that is not an int64 must fail as a bad value; it can never move the parent's gas upwards.
func (g *gen) operandBoundaries() {
	preds := []B{{0x51}, {0x61, 0x51}, {0x76}, {0x93}, {0x6a}, {0x82}, {0x63, 0, 0, 0, 0}, {0x00, 0x01, 0x51, 0x00, 0xc0}}
	for _, lim := range boundaryOperands() {
		for pi, p := range preds {
			for _, n := range []B{{}, {1}, {2}} {
				for _, glim := range []int64{10000, 400} {
					if (len(n) > 0 && n[0] == 2 || glim == 400) && pi > 3 {
						continue
					}
					// items ; n predicate limit CHECKPREDICATE ; then some more work that needs gas
					prog := cat(B{0x52, 0x53}, push(n), push(p), push(lim), B{0xc0, 0x75, 0x51, 0x76, 0x75})
					g.add("limit-boundary", prog, nil, glim)
				}
			}
		}
		// the call followed by far more instructions than the gas limit pays for
		long := cat(B{0x00}, push(B{0x51}), push(lim), B{0xc0})
		for k := 0; k < 3000; k++ {
			long = append(long, 0x61)
		}
		g.add("limit-boundary-long", append(long, 0x51), nil, 900)
		// nested: the boundary limit is used by a child
		inner := cat(B{0x00}, push(B{0x51}), push(lim), B{0xc0})
		g.add("limit-boundary", cat(B{0x00}, push(inner), B{0x00, 0xc0, 0x51}), nil, 10000)
		// sizes / indexes
		str := B{0x61, 0x62, 0x63, 0x64, 0x65, 0x66}
		for _, glim := range []int64{10000, 60} {
			g.add("size-boundary", cat(push(str), push(lim), B{0x80, 0x51}), nil, glim)               // LEFT
			g.add("size-boundary", cat(push(str), push(lim), B{0x81, 0x51}), nil, glim)               // RIGHT
			g.add("size-boundary", cat(push(str), push(B{1}), push(lim), B{0x7f, 0x51}), nil, glim)   // SUBSTR size
			g.add("size-boundary", cat(push(str), push(lim), push(B{1}), B{0x7f, 0x51}), nil, glim)   // SUBSTR offset
			g.add("size-boundary", cat(push(str), push(str), push(lim), B{0x79, 0x51}), nil, glim)    // PICK
			g.add("size-boundary", cat(push(str), push(str), push(lim), B{0x7a, 0x51}), nil, glim)    // ROLL
			g.add("size-boundary", cat(push(str), push(lim), push(B{1}), B{0xad}), nil, glim)         // CHECKMULTISIG count
			g.add("size-boundary", cat(B{0x00}, push(cat(push(str), push(lim), B{0x80})), B{0x00, 0xc0, 0x51}), nil, glim) // LEFT in a child
		}
	}
}

func (g *gen) zeroCost() {
	msg := make(B, 32)
	g.rng.Read(msg)
	g.add("zero-cost", cat(push(msg), B{0x00, 0x00, 0xad}), nil, 1000)
	g.add("zero-cost", cat(B{0x51}, push(msg), B{0x00, 0x00, 0xad, 0x75}), nil, 1000)
	// every defined opcode once, on a comfortable stack, so that each one's consumption is measured
	for _, op := range definedOps {
		args := []B{{3}, {2}, {5}, {1}, {2}, {1}}
		g.add("each-opcode", B{byte(op)}, args, 5000)
		g.add("each-opcode", B{byte(op), byte(op)}, args, 5000)
	}
}

func generate(args []string) []*vmh.Case {
	quick := len(args) == 0 || args[0] != "thorough"
	g := &gen{rng: rand.New(rand.NewSource(vh.Seed()*15485863 + 7))}
	g.zeroCost()
	g.operandBoundaries()
	g.predicateLoops(quick)
	if quick {
		g.random(900)
	} else {
		g.random(10000)
	}
	return g.cs
}

type usageCase struct {
	G struct {
		Left    int64 `json:"left"`
		Used    int64 `json:"used"`
		Storage int64 `json:"storage"`
	} `json:"g"`
	Ret   int64  `json:"ret"`
	Err   string `json:"err"`
	After struct {
		Left    int64 `json:"left"`
		Used    int64 `json:"used"`
		Storage int64 `json:"storage"`
	} `json:"after"`
}

func usage(path string) {
	n, bad := 0, 0
	_, err := vh.EachExport(path, func(_ int, doc []byte) error {
		var u usageCase
		if e := json.Unmarshal(doc, &u); e != nil {
			return e
		}
		n++
		g := &validation.GasState{GasLeft: u.G.Left, GasUsed: u.G.Used, StorageGas: u.G.Storage}
		e := g.VerifUpdateUsage(u.Ret)
		got := "none"
		switch {
		case e == nil:
		case errors.Root(e) == validation.ErrGasCalculate:
			got = "gascalc"
		case errors.Root(e) == validation.ErrOverGasCredit:
			got = "overcredit"
		default:
			got = "other"
		}
		if got != u.Err || g.GasLeft != u.After.Left || g.GasUsed != u.After.Used || g.StorageGas != u.After.Storage {
			bad++
			cls := "accepted"
			if u.Ret < 0 {
				cls = "negative"
			}
			vh.Violation(fmt.Sprintf("gas:updateUsage:%s:%s/%s", cls, u.Err, got),
				fmt.Sprintf("GasState{GasLeft:%d GasUsed:%d StorageGas:%d}.updateUsage(%d): implementation returns %s with state {%d %d %d}, specification %s with state {%d %d %d}",
					u.G.Left, u.G.Used, u.G.Storage, u.Ret, got, g.GasLeft, g.GasUsed, g.StorageGas, u.Err, u.After.Left, u.After.Used, u.After.Storage), u)
		}
		return nil
	})
	if err != nil {
		vh.Fatal("usage: %v", err)
	}
	vh.Summary(map[string]interface{}{"usage_cases": n, "usage_mismatches": bad})
}

func main() {
	if len(os.Args) > 2 && os.Args[1] == "usage" {
		vh.Quiet()
		usage(os.Args[2])
		return
	}
	vmh.Main(vmh.CmpOptions{Prefix: "gas", Layouts: []string{"indep"}, ZeroCost: true}, generate)
}
