// c08: every VM opcode matches the reference semantics of specs/vm/VMOps.tla.
//
//	c08 gen  <out.ndjson> <quick|thorough>   single-opcode programs on boundary and random stacks (inputs only)
//	c08 prep <raw>... <dir> <k>              number the cases, add hash / signature facts (standard library)
//	c08 cmp  <dir> <tlc.out>... [corrupt]    run the real vm.Verify, compare trace / result class / gas with TLC
//
// The generator only builds inputs; what each opcode must do with them is computed by TLC.
package main

import (
	"crypto/ed25519"
	"math/rand"

	"verifharness/internal/vh"
	"verifharness/internal/vmh"
)

type B = vmh.Bytes

func rep(b byte, n int) B {
	r := make(B, n)
	for i := range r {
		r[i] = b
	}
	return r
}

func cat(parts ...B) B {
	var r B
	for _, p := range parts {
		r = append(r, p...)
	}
	if r == nil {
		r = B{}
	}
	return r
}

// numbers and near-numbers at the documented boundaries
var (
	n0      = B{}
	n0pad   = B{0}
	n0pad2  = B{0, 0}
	n1      = B{1}
	n2      = B{2}
	n3      = B{3}
	n7      = B{7}
	n8      = B{8}
	n16     = B{16}
	n127    = B{0x7f}
	n128    = B{0x80}
	n255    = B{255}
	n256    = B{0, 1}
	n257    = B{1, 1}
	n65535  = B{255, 255}
	p63m1   = cat(rep(0xff, 7), B{0x7f})
	p63     = cat(rep(0, 7), B{0x80})
	p64m1   = rep(0xff, 8)
	p64     = cat(rep(0, 8), B{1})
	p64p1   = cat(B{1}, rep(0, 7), B{1})
	p64p2   = cat(B{2}, rep(0, 7), B{1})
	p128    = cat(rep(0, 16), B{1})
	p254    = cat(rep(0, 31), B{0x40})
	p254p1  = cat(B{1}, rep(0, 30), B{0x40})
	p255m1  = cat(rep(0xff, 31), B{0x7f})
	p255    = cat(rep(0, 31), B{0x80})
	p256m1  = rep(0xff, 32)
	one32   = cat(B{1}, rep(0, 31))  // 1, padded to 32 bytes
	one33   = cat(B{1}, rep(0, 32))  // 33 bytes: not a number
	zero33  = rep(0, 33)             // 33 zero bytes: not a number, false as a boolean
	str40   = func() B { r := make(B, 40); for i := range r { r[i] = byte(0x41 + i) }; return r }()
	mid     = B{0x39, 0x30, 0xab, 0x54, 0xa9, 0x8c, 0xeb, 0x1f, 0x0a, 0xd2} // 80-bit value
	sq127   = cat(rep(0xff, 15), B{0x7f})                                       // 2^127-1 (squares to just under 2^254)
	sq128   = cat(rep(0, 16), B{1})
)

var numsQuick = []B{n0, n0pad, n1, n2, n255, n256, p63m1, p63, p64, p128, p254p1, p255m1, p255, one32, one33}
var numsFull = []B{n0, n0pad, n0pad2, n1, n2, n3, n7, n8, n16, n127, n128, n255, n256, n257, n65535, p63m1, p63, p64m1, p64, p64p1,
	p128, sq127, mid, p254, p254p1, p255m1, p255, p256m1, one32, one33, zero33, str40}

type gen struct {
	cs    []*vmh.Case
	rng   *rand.Rand
	quick bool
}

func (g *gen) add(fam string, prog B, args []B, mod func(c *vmh.Case)) *vmh.Case {
	c := &vmh.Case{Prog: prog, Args: args, Limit: 100000, Fam: fam, Ctx: vmh.DefaultCtx()}
	if mod != nil {
		mod(c)
	}
	g.cs = append(g.cs, c)
	return c
}

func (g *gen) nums() []B {
	if g.quick {
		return numsQuick
	}
	return numsFull
}

// markers: short distinct items for stack manipulation
func markers(n int) []B {
	r := make([]B, n)
	for i := range r {
		r[i] = B{byte(0xa0 + i), byte(i)}
	}
	return r
}

func (g *gen) randItem() B {
	switch g.rng.Intn(4) {
	case 0:
		return numsFull[g.rng.Intn(len(numsFull))]
	case 1:
		l := g.rng.Intn(9)
		r := make(B, l)
		g.rng.Read(r)
		return r
	case 2:
		l := 28 + g.rng.Intn(8)
		r := make(B, l)
		g.rng.Read(r)
		if g.rng.Intn(2) == 0 {
			r[l-1] &= 0x7f
		}
		return r
	}
	l := g.rng.Intn(41)
	r := make(B, l)
	g.rng.Read(r)
	return r
}

func (g *gen) randStack(max int) []B {
	n := g.rng.Intn(max + 1)
	r := make([]B, n)
	for i := range r {
		r[i] = g.randItem()
	}
	return r
}

var definedOps = func() []int {
	var r []int
	for op := 0; op < 256; op++ {
		switch {
		case op <= 0x4e, op >= 0x51 && op <= 0x61, op == 0x63, op == 0x64, op >= 0x69 && op <= 0x89,
			op >= 0x8b && op <= 0x8e, op >= 0x91 && op <= 0xa5, op == 0xa8, op >= 0xaa && op <= 0xae,
			op >= 0xc0 && op <= 0xc4, op >= 0xc9 && op <= 0xcb, op == 0xcd:
			r = append(r, op)
		}
	}
	return r
}()

// instruction bytes for an opcode (immediate data filled in)
func (g *gen) inst(op int) B {
	switch {
	case op >= 1 && op <= 75:
		d := make(B, op)
		g.rng.Read(d)
		return cat(B{byte(op)}, d)
	case op == 0x4c:
		return B{0x4c, 3, 1, 2, 3}
	case op == 0x4d:
		return B{0x4d, 2, 0, 9, 8}
	case op == 0x4e:
		return B{0x4e, 1, 0, 0, 0, 7}
	case op == 0x63 || op == 0x64:
		return B{byte(op), 5, 0, 0, 0}
	}
	return B{byte(op)}
}

func (g *gen) pushdata() {
	g.add("push", B{0x00}, nil, nil)
	for op := 0x51; op <= 0x60; op++ {
		g.add("push", B{byte(op)}, []B{n1}, nil)
	}
	for n := 1; n <= 75; n++ {
		if g.quick && n > 3 && n < 74 && n%8 != 0 {
			continue
		}
		g.add("push", g.inst(n), nil, nil)
		d := g.inst(n)
		g.add("push-truncated", d[:len(d)-1], []B{n1}, nil)
	}
	for _, l := range []int{0, 1, 75, 76, 255} {
		d := make(B, l)
		g.rng.Read(d)
		g.add("push", cat(B{0x4c, byte(l)}, d), nil, nil)
		g.add("push", cat(B{0x4d, byte(l), 0}, d), nil, nil)
		g.add("push", cat(B{0x4e, byte(l), 0, 0, 0}, d), nil, nil)
	}
	d := make(B, 256)
	g.rng.Read(d)
	g.add("push", cat(B{0x4d, 0, 1}, d), nil, nil)
	g.add("push", cat(B{0x4e, 0, 1, 0, 0}, d), nil, nil)
	// truncated forms
	for _, p := range []B{{0x4c}, {0x4c, 2, 1}, {0x4d}, {0x4d, 1}, {0x4d, 2, 0, 1}, {0x4e}, {0x4e, 1, 0, 0}, {0x4e, 2, 0, 0, 0, 1},
		{0x4e, 0xff, 0xff, 0xff, 0xff, 1}, {0x4e, 0, 0, 0, 0x80}, {0x4d, 0xff, 0xff}, {0x63}, {0x63, 0, 0, 0}, {0x64, 1, 2}} {
		g.add("push-truncated", p, []B{n1}, nil)
	}
	// gas boundaries of pushes
	for lim := int64(0); lim <= 12; lim++ {
		l := lim
		g.add("push-gas", B{0x02, 7, 7}, nil, func(c *vmh.Case) { c.Limit = l })
	}
}

func (g *gen) control() {
	tv := uint64(2)
	_ = tv
	for _, exp := range []bool{true, false} {
		e := exp
		for op := 0; op < 256; op++ {
			def := false
			for _, d := range definedOps {
				if d == op {
					def = true
				}
			}
			if def {
				continue
			}
			if g.quick && op%5 != 0 && op != 0x4f && op != 0x50 && op != 0x62 && op != 0xff {
				continue
			}
			g.add("expansion", B{byte(op), 0x51}, []B{n1}, func(c *vmh.Case) { c.Ctx.ExpRes = e })
		}
		g.add("expansion-gas", B{0xf0}, nil, func(c *vmh.Case) { c.Ctx.ExpRes = e; c.Limit = 0 })
	}
	g.add("nop", B{0x61}, []B{n1}, nil)
	g.add("nop", B{0x61}, nil, nil)
	g.add("nop-gas", B{0x61}, nil, func(c *vmh.Case) { c.Limit = 0 })
	// vm version
	g.add("vmversion", B{0x51}, nil, func(c *vmh.Case) { c.Ctx.VMVer = 2 })
	g.add("vmversion", B{0x51}, nil, func(c *vmh.Case) { c.Ctx.VMVer = 0; c.Ctx.Entry = B{1} })
	// jumps: JUMP target ; JUMPIF cond target ; programs laid out so that every target class occurs
	for _, t := range []B{{0, 0, 0, 0}, {5, 0, 0, 0}, {6, 0, 0, 0}, {7, 0, 0, 0}, {8, 0, 0, 0}, {200, 0, 0, 0}, {0, 1, 0, 0}, {0, 0, 0, 1}, {255, 255, 255, 127}, {255, 255, 255, 255}} {
		// JUMP t ; OP_0 ; OP_1 ; OP_2    (instruction boundaries at 5, 6, 7; end at 8)
		g.add("jump", cat(B{0x63}, t, B{0x00, 0x51, 0x52}), nil, func(c *vmh.Case) { c.Limit = 300 })
		for _, cond := range []B{n0, n0pad, n1, zero33, p255} {
			g.add("jumpif", cat(B{0x64}, t, B{0x00, 0x51, 0x52}), []B{n2, cond}, func(c *vmh.Case) { c.Limit = 300 })
		}
	}
	g.add("jumpif", B{0x64, 0, 0, 0, 0}, nil, nil)
	// jump into the middle of a push: JUMP 7 ; DATA_2 0x51 0x51  -> executes the data bytes
	g.add("jump", B{0x63, 7, 0, 0, 0, 0x02, 0x51, 0x51}, nil, nil)
	for _, it := range []B{n0, n0pad, n0pad2, n1, n128, zero33, one33, str40} {
		g.add("verify", B{0x69}, []B{n1, it}, nil)
		g.add("final-result", B{0x61}, []B{it}, nil)
	}
	g.add("verify", B{0x69}, nil, nil)
	g.add("fail", B{0x6a}, []B{n1}, nil)
	g.add("fail-gas", B{0x6a}, nil, func(c *vmh.Case) { c.Limit = 0 })
	g.add("empty-program", B{}, []B{n1}, nil)
	g.add("empty-program", B{}, nil, nil)
	g.add("args-gas", B{}, []B{n1, n2}, func(c *vmh.Case) { c.Limit = 17 })
	g.add("args-gas", B{}, []B{n1, n2}, func(c *vmh.Case) { c.Limit = 18 })
	g.add("state-gas", B{0x6c}, nil, func(c *vmh.Case) { c.State = []B{n1}; c.Limit = 8 })
	g.add("state-gas", B{0x6c}, nil, func(c *vmh.Case) { c.State = []B{n1}; c.Limit = 11 })
}

func (g *gen) stackops() {
	ops := []int{0x6b, 0x6c, 0x6d, 0x6e, 0x6f, 0x70, 0x71, 0x72, 0x73, 0x74, 0x75, 0x76, 0x77, 0x78, 0x7b, 0x7c, 0x7d, 0x82}
	for _, op := range ops {
		for depth := 0; depth <= 8; depth++ {
			m := markers(depth)
			g.add("stack", B{byte(op)}, m, func(c *vmh.Case) { c.State = []B{{0xee}, {0xef, 1}} })
			if depth > 0 {
				// top is false / empty
				m2 := append(append([]B{}, m[:depth-1]...), n0pad2)
				g.add("stack", B{byte(op)}, m2, nil)
				m3 := append(append([]B{}, m[:depth-1]...), n0)
				g.add("stack", B{byte(op)}, m3, nil)
			}
		}
		g.add("stack", B{byte(op)}, []B{str40, zero33}, nil)
		// gas boundaries: just enough / not enough for the instruction
		base := int64(2 * 10)
		for k := int64(0); k <= 14; k++ {
			lim := base + k
			g.add("stack-gas", B{byte(op)}, markers(2), func(c *vmh.Case) { c.Limit = lim })
		}
	}
	g.add("stack", B{0x6c}, markers(1), nil) // FROMALTSTACK with empty alt stack
	// PICK / ROLL: index operand at every boundary
	idx := []B{n0, n0pad, n1, n2, n3, n7, n8, n255, n256, p63m1, p63, p64m1, p64, p64p1, p64p2, p128, p255m1, p255, one32, one33, zero33}
	for _, op := range []int{0x79, 0x7a} {
		for _, depth := range []int{0, 1, 3, 8} {
			for _, n := range idx {
				g.add("pick-roll", B{byte(op)}, append(markers(depth), n), nil)
			}
		}
		g.add("pick-roll", B{byte(op)}, nil, nil)
		for k := int64(0); k <= 14; k++ {
			lim := 3*10 + 9 + k
			g.add("pick-roll-gas", B{byte(op)}, append(markers(3), n1), func(c *vmh.Case) { c.Limit = lim })
		}
	}
}

func (g *gen) splice() {
	lens := []int{0, 1, 2, 40, 75, 76, 255, 256}
	if g.quick {
		lens = []int{0, 1, 40, 76, 256}
	}
	mk := func(l int, b byte) B { r := make(B, l); for i := range r { r[i] = b + byte(i%7) }; return r }
	for _, op := range []int{0x7e, 0x89} {
		for _, la := range lens {
			for _, lb := range lens {
				g.add("cat", B{byte(op)}, []B{{0x99}, mk(la, 0x10), mk(lb, 0x80)}, nil)
			}
		}
		g.add("cat", B{byte(op)}, []B{n1}, nil)
		g.add("cat", B{byte(op)}, nil, nil)
		for k := int64(0); k <= 24; k++ {
			lim := 2*8 + 5 + k
			g.add("cat-gas", B{byte(op)}, []B{{1, 2, 3}, {4, 5}}, func(c *vmh.Case) { c.Limit = lim })
		}
	}
	str := B{0x61, 0x62, 0x63, 0x64, 0x65, 0x66}
	sizes := []B{n0, n0pad, n1, n2, n3, {5}, {6}, n7, n255, n256, p63m1, p63, p64, p255m1, p255, one32, one33}
	for _, s := range []B{str, {}, str40} {
		for _, size := range sizes {
			g.add("left-right", B{0x80}, []B{s, size}, nil)
			g.add("left-right", B{0x81}, []B{s, size}, nil)
			for _, off := range sizes {
				if g.quick && len(off) > 2 && len(size) > 2 {
					continue
				}
				g.add("substr", B{0x7f}, []B{s, off, size}, nil)
			}
		}
	}
	for _, op := range []int{0x7f, 0x80, 0x81} {
		g.add("splice-underflow", B{byte(op)}, nil, nil)
		g.add("splice-underflow", B{byte(op)}, []B{n1}, nil)
		g.add("splice-underflow", B{byte(op)}, []B{n1, n1}, nil)
		for k := int64(0); k <= 16; k++ {
			lim := 14 + 2*9 + k
			g.add("splice-gas", B{byte(op)}, []B{str, n1, n3}, func(c *vmh.Case) { c.Limit = lim })
		}
	}
}

func (g *gen) bitwise() {
	items := []B{n0, n0pad, n1, n255, {0xf0, 0x0f}, {0x0f, 0xf0, 0xaa}, p64, str40, zero33, one33, p255}
	for _, a := range items {
		g.add("invert", B{0x83}, []B{n2, a}, nil)
		for _, b := range items {
			for _, op := range []int{0x84, 0x85, 0x86, 0x87, 0x88, 0x9a, 0x9b} {
				g.add("bitwise", B{byte(op)}, []B{n3, a, b}, nil)
			}
		}
	}
	for _, op := range []int{0x83, 0x84, 0x85, 0x86, 0x87, 0x88, 0x9a, 0x9b} {
		g.add("bitwise-underflow", B{byte(op)}, nil, nil)
		g.add("bitwise-underflow", B{byte(op)}, []B{n1}, nil)
		for k := int64(0); k <= 12; k++ {
			lim := 11 + 10 + k
			g.add("bitwise-gas", B{byte(op)}, []B{{1, 2, 3}, {4, 5}}, func(c *vmh.Case) { c.Limit = lim })
		}
	}
}

func (g *gen) numeric() {
	un := []int{0x8b, 0x8c, 0x8d, 0x8e, 0x91, 0x92}
	bin := []int{0x93, 0x94, 0x95, 0x96, 0x97, 0x98, 0x99, 0x9c, 0x9d, 0x9e, 0x9f, 0xa0, 0xa1, 0xa2, 0xa3, 0xa4}
	for _, op := range un {
		for _, x := range numsFull {
			g.add("numeric-unary", B{byte(op)}, []B{n7, x}, nil)
		}
		g.add("numeric-unary", B{byte(op)}, nil, nil)
		for k := int64(0); k <= 6; k++ {
			lim := 10 + k
			g.add("numeric-gas", B{byte(op)}, []B{{9, 9}}, func(c *vmh.Case) { c.Limit = lim })
		}
	}
	for _, op := range bin {
		for _, x := range g.nums() {
			for _, y := range g.nums() {
				g.add("numeric-binary", B{byte(op)}, []B{n7, x, y}, nil)
			}
		}
		g.add("numeric-binary", B{byte(op)}, nil, nil)
		g.add("numeric-binary", B{byte(op)}, []B{n1}, nil)
		for k := int64(0); k <= 12; k++ {
			lim := 20 + k
			g.add("numeric-gas", B{byte(op)}, []B{{9, 9}, {3, 1}}, func(c *vmh.Case) { c.Limit = lim })
		}
	}
	// shifts: amounts around the word size, values whose high bits fall off
	amts := []B{n0, n1, n7, n8, {9}, {63}, {64}, {65}, {127}, {128}, {247}, {248}, {253}, {254}, n255, n256, n257, p63, p64, p255m1, p255, one33}
	vals := []B{n0, n1, n3, n255, p63, p64m1, p128, p254, p254p1, p255m1, {0x81}, cat(rep(0, 30), B{0x81}), one32}
	for _, op := range []int{0x98, 0x99} {
		for _, v := range vals {
			for _, a := range amts {
				g.add("shift", B{byte(op)}, []B{v, a}, nil)
			}
		}
	}
	// products at the range boundary
	for _, pr := range [][2]B{{sq127, sq127}, {sq128, sq127}, {sq128, sq128}, {p128, p128}, {p254, n2}, {p254p1, n2}, {p255m1, n1}, {p255m1, n2}, {p64, p64}, {p64m1, p64m1}, {mid, mid}} {
		for _, op := range []int{0x95, 0x96, 0x97, 0x93, 0x94} {
			g.add("numeric-boundary", B{byte(op)}, []B{pr[0], pr[1]}, nil)
			g.add("numeric-boundary", B{byte(op)}, []B{pr[1], pr[0]}, nil)
		}
	}
	// WITHIN x min max
	w := []B{n0, n1, n2, n255, p63, p64, p255m1, p255, one33}
	if g.quick {
		w = []B{n0, n1, n2, p64, p255m1, p255}
	}
	for _, x := range w {
		for _, lo := range w {
			for _, hi := range w {
				g.add("within", B{0xa5}, []B{x, lo, hi}, nil)
			}
		}
	}
	g.add("within", B{0xa5}, []B{n1, n2}, nil)
}

func (g *gen) crypto() {
	for _, op := range []int{0xa8, 0xaa, 0xab} {
		for _, l := range []int{0, 1, 31, 32, 63, 64, 65, 100, 200} {
			d := make(B, l)
			g.rng.Read(d)
			g.add("hash", B{byte(op)}, []B{n1, d}, nil)
			lim := int64(9 + 8 + l + 60)
			g.add("hash-gas", B{byte(op)}, []B{n1, d}, func(c *vmh.Case) { c.Limit = lim })
			g.add("hash-gas", B{byte(op)}, []B{n1, d}, func(c *vmh.Case) { c.Limit = lim + 20 })
		}
		g.add("hash", B{byte(op)}, nil, nil)
	}
	// signatures with real keys
	type kp struct {
		pub  ed25519.PublicKey
		priv ed25519.PrivateKey
	}
	var keys []kp
	for i := 0; i < 4; i++ {
		seed := make([]byte, 32)
		g.rng.Read(seed)
		priv := ed25519.NewKeyFromSeed(seed)
		keys = append(keys, kp{priv.Public().(ed25519.PublicKey), priv})
	}
	msg := make(B, 32)
	g.rng.Read(msg)
	msg2 := make(B, 32)
	g.rng.Read(msg2)
	sig := func(k int, m B) B { return B(ed25519.Sign(keys[k].priv, m)) }
	pub := func(k int) B { return B(keys[k].pub) }
	bad := func(s B) B { r := append(B{}, s...); r[5] ^= 1; return r }
	// CHECKSIG  sig msg pubkey
	g.add("checksig", B{0xac}, []B{sig(0, msg), msg, pub(0)}, nil)
	g.add("checksig", B{0xac}, []B{sig(0, msg), msg2, pub(0)}, nil)
	g.add("checksig", B{0xac}, []B{sig(0, msg), msg, pub(1)}, nil)
	g.add("checksig", B{0xac}, []B{bad(sig(0, msg)), msg, pub(0)}, nil)
	g.add("checksig", B{0xac}, []B{sig(0, msg)[:63], msg, pub(0)}, nil)
	g.add("checksig", B{0xac}, []B{cat(sig(0, msg), B{0}), msg, pub(0)}, nil)
	g.add("checksig", B{0xac}, []B{sig(0, msg), msg[:31], pub(0)}, nil)
	g.add("checksig", B{0xac}, []B{sig(0, msg), cat(msg, B{0}), pub(0)}, nil)
	g.add("checksig", B{0xac}, []B{sig(0, msg), msg, pub(0)[:31]}, nil)
	g.add("checksig", B{0xac}, []B{sig(0, msg), msg, cat(pub(0), B{0})}, nil)
	g.add("checksig", B{0xac}, []B{sig(0, msg), msg[:31], pub(0)[:31]}, nil)
	g.add("checksig", B{0xac}, []B{msg, pub(0)}, nil)
	g.add("checksig", B{0xac}, nil, nil)
	g.add("checksig-gas", B{0xac}, []B{sig(0, msg), msg, pub(0)}, func(c *vmh.Case) { c.Limit = 8*3 + 64 + 32 + 32 + 1023 })
	g.add("checksig-gas", B{0xac}, []B{sig(0, msg), msg, pub(0)}, func(c *vmh.Case) { c.Limit = 8*3 + 64 + 32 + 32 + 1024 })
	// CHECKMULTISIG  sig... msg pub... m n
	ms := func(sigs []B, m B, pubs []B, nreq, npub B) []B {
		r := []B{{0x77}}
		r = append(r, sigs...)
		r = append(r, m)
		r = append(r, pubs...)
		return append(r, nreq, npub)
	}
	p3 := []B{pub(0), pub(1), pub(2)}
	s := func(ks ...int) []B {
		var r []B
		for _, k := range ks {
			r = append(r, sig(k, msg))
		}
		return r
	}
	for _, sg := range [][]B{s(0, 1), s(1, 2), s(0, 2), s(1, 0), s(2, 1), s(0, 0), s(0, 3), s(3, 1), {bad(sig(0, msg)), sig(1, msg)}, {sig(0, msg), sig(1, msg2)}} {
		g.add("checkmultisig", B{0xad}, ms(sg, msg, p3, n2, n3), nil)
	}
	for _, sg := range [][]B{s(0), s(1), s(2), s(3)} {
		g.add("checkmultisig", B{0xad}, ms(sg, msg, p3, n1, n3), nil)
	}
	g.add("checkmultisig", B{0xad}, ms(s(0, 1, 2), msg, p3, n3, n3), nil)
	g.add("checkmultisig", B{0xad}, ms(s(2, 1, 0), msg, p3, n3, n3), nil)
	g.add("checkmultisig", B{0xad}, ms(s(0), msg, []B{pub(0)}, n1, n1), nil)
	g.add("checkmultisig", B{0xad}, ms(s(0), msg, []B{pub(0)[:31]}, n1, n1), nil)
	g.add("checkmultisig", B{0xad}, ms(s(0), msg, []B{pub(0), pub(1)[:31]}, n1, n2), nil)
	g.add("checkmultisig", B{0xad}, ms(s(0), msg[:31], []B{pub(0)}, n1, n1), nil)
	g.add("checkmultisig", B{0xad}, ms(nil, msg, nil, n0, n0), nil)       // 0-of-0
	g.add("checkmultisig", B{0xad}, ms(nil, msg[:31], nil, n0, n0), nil)
	g.add("checkmultisig", B{0xad}, ms(nil, msg, p3, n0, n3), nil)        // 0-of-3: bad value
	g.add("checkmultisig", B{0xad}, ms(s(0, 1), msg, []B{pub(0)}, n2, n1), nil) // 2-of-1
	g.add("checkmultisig", B{0xad}, ms(s(0), msg, p3, n1, B{4}), nil)     // not enough keys on the stack
	g.add("checkmultisig", B{0xad}, ms(nil, msg, p3, n2, n3), nil)        // not enough signatures
	g.add("checkmultisig", B{0xad}, []B{n1}, nil)
	g.add("checkmultisig", B{0xad}, nil, nil)
	for _, big := range []B{p63m1, p63, p64, p255m1, p255, one33, {0, 0, 0, 0, 0, 0, 0x20}, {100}} {
		g.add("checkmultisig", B{0xad}, ms(s(0), msg, p3, n1, big), nil)
		g.add("checkmultisig", B{0xad}, ms(s(0), msg, p3, big, n3), nil)
	}
	for k := int64(0); k <= 3; k++ {
		lim := int64(8*8+1+64*2+32+32*3+2) + 3*1024 - 2 + k
		g.add("checkmultisig-gas", B{0xad}, ms(s(0, 1), msg, p3, n2, n3), func(c *vmh.Case) { c.Limit = lim })
	}
	g.add("txsighash", B{0xae}, []B{n1}, func(c *vmh.Case) { c.Ctx.SigHash = vmh.Opt{Has: true, V: msg} })
	g.add("txsighash", B{0xae}, []B{n1}, nil)
	g.add("txsighash-gas", B{0xae}, nil, func(c *vmh.Case) { c.Ctx.SigHash = vmh.Opt{Has: true, V: msg}; c.Limit = 255 })
	g.add("txsighash-gas", B{0xae}, nil, func(c *vmh.Case) { c.Ctx.SigHash = vmh.Opt{Has: true, V: msg}; c.Limit = 256 + 39 })
	g.add("txsighash-gas", B{0xae}, nil, func(c *vmh.Case) { c.Ctx.SigHash = vmh.Opt{Has: true, V: msg}; c.Limit = 256 + 40 })
}

func (g *gen) introspection() {
	asset := make(B, 32)
	g.rng.Read(asset)
	outid := make(B, 32)
	g.rng.Read(outid)
	full := func(c *vmh.Case) {
		c.Ctx.Asset = vmh.Opt{Has: true, V: asset}
		c.Ctx.OutID = vmh.Opt{Has: true, V: outid}
		c.Ctx.Entry = B{0xe1, 0xe2, 0xe3}
	}
	for _, op := range []int{0xc2, 0xc3, 0xc4, 0xc9, 0xca, 0xcb, 0xcd} {
		g.add("introspection", B{byte(op)}, []B{n1}, nil)
		g.add("introspection", B{byte(op), 0x51}, nil, full)
		for _, v := range []uint64{0, 1, 255, 256, 1 << 32, 1<<63 - 1, 1 << 63, 1<<64 - 1} {
			vv := v
			g.add("introspection", B{byte(op)}, []B{n1}, func(c *vmh.Case) {
				full(c)
				c.Ctx.Amount = vmh.Opt{Has: true, V: vmh.LE(vv)}
				c.Ctx.DestPos = vmh.Opt{Has: true, V: vmh.LE(vv)}
				c.Ctx.Height = vmh.Opt{Has: true, V: vmh.LE(vv)}
			})
		}
		for k := int64(0); k <= 3; k++ {
			lim := k
			g.add("introspection-gas", B{byte(op)}, nil, func(c *vmh.Case) { full(c); c.Ctx.Amount = vmh.Opt{Has: true, V: B{5}}; c.Limit = lim + 8 })
		}
	}
	// CHECKOUTPUT  index amount assetid vmversion code
	code := B{0x51, 0x52}
	outs := []vmh.Out{
		{Amount: vmh.LE(1000), Asset: asset, Ver: B{1}, Code: code},
		{Amount: vmh.LE(1<<64 - 1), Asset: outid, Ver: B{2}, Code: B{}},
		{Amount: B{}, Asset: asset, Ver: B{1}, Code: code},
	}
	co := func(c *vmh.Case) { c.Ctx.CO = vmh.CO{Has: true, Outs: outs} }
	am := vmh.LE(1000)
	for _, idx := range []B{n0, n0pad, n1, n2, n3, n255, p63, p64m1, p64, p64p1, p64p2, p255m1, p255, one33} {
		g.add("checkoutput", B{0xc1}, []B{idx, am, asset, n1, code}, co)
	}
	for _, a := range []B{n0, n1, vmh.LE(999), vmh.LE(1000), cat(vmh.LE(1000), B{0}), p64m1, p64, cat(vmh.LE(1000), rep(0, 6), B{1}), p255, one33} {
		g.add("checkoutput", B{0xc1}, []B{n0, a, asset, n1, code}, co)
		g.add("checkoutput", B{0xc1}, []B{n1, a, outid, n2, B{}}, co)
		g.add("checkoutput", B{0xc1}, []B{n2, a, asset, n1, code}, co)
	}
	for _, v := range []B{n0, n1, n0pad, B{1, 0}, n2, p64, p64p1, p64p2, p255, one33} {
		g.add("checkoutput", B{0xc1}, []B{n0, am, asset, v, code}, co)
		g.add("checkoutput", B{0xc1}, []B{n1, p64m1, outid, v, B{}}, co)
	}
	g.add("checkoutput", B{0xc1}, []B{n0, am, outid, n1, code}, co)
	g.add("checkoutput", B{0xc1}, []B{n0, am, asset, n1, B{0x51}}, co)
	g.add("checkoutput", B{0xc1}, []B{n0, am, asset, n1, code}, nil) // no context
	g.add("checkoutput", B{0xc1}, []B{am, asset, n1, code}, co)
	g.add("checkoutput", B{0xc1}, nil, co)
	for k := int64(0); k <= 3; k++ {
		lim := int64(5*8+1+2+32+1+2) + 16 - 2 + k
		g.add("checkoutput-gas", B{0xc1}, []B{n0, am, asset, n1, code}, func(c *vmh.Case) { co(c); c.Limit = lim })
	}
}

func pushes(items ...B) B {
	var r B
	for _, it := range items {
		switch {
		case len(it) == 0:
			r = append(r, 0)
		case len(it) <= 75:
			r = append(append(r, byte(len(it))), it...)
		default:
			r = append(append(r, 0x4c, byte(len(it))), it...)
		}
	}
	return r
}

// CHECKPREDICATE  (args...) n predicate limit
func (g *gen) predicate() {
	preds := []B{
		{0x51},             // TRUE
		{0x00},             // FALSE
		{},                 // empty: result is the moved stack
		{0x6a},             // FAIL
		{0x93},             // ADD (fails on underflow; consumes operands)
		{0x93, 0x51, 0x6a}, // ADD 1 FAIL: fails after work
		{0x75, 0x75},       // DROP DROP
		{0x76, 0x76, 0x76}, // DUP x3: leaves items behind
		{0x6b, 0x51},       // TOALTSTACK TRUE: leaves an alt-stack item behind
		{0xf0, 0x51},       // expansion opcode inside the predicate
		{0x63, 0, 0, 0, 0}, // infinite loop: runs out of gas
		{0x4c},             // unparsable
		{0x7e},             // CAT
		{0x51, 0x00, 0x01, 0x51, 0x00, 0xc0},                   // nested: TRUE 0 <TRUE> 0 CHECKPREDICATE
		{0x00, 0x03, 0x51, 0x6a, 0x52, 0x00, 0xc0, 0x51},       // nested failing child, then TRUE
		{0x79}, {0x7a}, // PICK / ROLL on the moved items
		{0xa8}, // SHA256 of a moved item
		{0x77}, {0x7d}, // NIP / TUCK (partial effects when they fail)
		{0x82}, {0xc4}, {0x8b}, // SIZE / PROGRAM / 1ADD: result item bigger than what the child can pay
	}
	stacks := [][]B{nil, {n1}, {n1, n2}, {n2, n3, n1}, {str40, n0, n1}, {n1, p64}, {n1, p63}}
	ns := []B{n0, n1, n2, n3, {4}, p63, p64, p255, one33}
	lims := []B{n0, n1, {20}, {64}, {200}, {0x10, 0x27}, p63m1, p63, p64, one33}
	for pi, p := range preds {
		for si, st := range stacks {
			for ni, n := range ns {
				for li, lim := range lims {
					if g.quick && (pi+si+ni+li)%6 != 0 {
						continue
					}
					if !g.quick && (pi+si+ni+li)%2 != 0 && ni > 3 && li > 4 {
						continue
					}
					args := append(append([]B{}, st...), n, p, lim)
					g.add("checkpredicate", B{0xc0}, args, func(c *vmh.Case) { c.Limit = 5000 })
				}
			}
		}
	}
	for _, exp := range []bool{true, false} {
		e := exp
		g.add("checkpredicate-expansion", B{0xc0}, []B{n0, {0xf0, 0x51}, n0}, func(c *vmh.Case) { c.Ctx.ExpRes = e; c.Limit = 5000 })
	}
	g.add("checkpredicate", B{0xc0}, nil, nil)
	g.add("checkpredicate", B{0xc0}, []B{n1}, nil)
	g.add("checkpredicate", B{0xc0}, []B{n1, n1}, nil)
	for k := int64(200); k <= 420; k += 4 {
		lim := k
		g.add("checkpredicate-gas", B{0xc0}, []B{n2, n3, n0, {0x93}, n0}, func(c *vmh.Case) { c.Limit = lim })
		g.add("checkpredicate-gas", B{0xc0}, []B{n2, n3, n2, {0x93, 0x76}, {40}}, func(c *vmh.Case) { c.Limit = lim })
	}
	// standard shape: P2SH-like  DUP SHA3 <hash> EQUALVERIFY 0 SWAP 0 CHECKPREDICATE is covered by C02; here: program as data
	g.add("checkpredicate-program", cat(pushes(n1, n2), B{0x00}, pushes(B{0x93, 0x53, 0x9c}), B{0x00, 0xc0}), nil, nil)
}

func (g *gen) random(n int) {
	ops := append([]int{}, definedOps...)
	for i := 0; i < n; i++ {
		op := ops[g.rng.Intn(len(ops))]
		if op >= 1 && op <= 0x4e && g.rng.Intn(4) != 0 {
			op = 0x76 + g.rng.Intn(0x30) // fewer pushes
		}
		st := g.randStack(8)
		lim := int64(100000)
		if g.rng.Intn(4) == 0 {
			lim = int64(g.rng.Intn(400))
		}
		g.add("random", g.inst(op), st, func(c *vmh.Case) {
			c.Limit = lim
			if g.rng.Intn(3) == 0 {
				c.State = []B{g.randItem()}
			}
			if g.rng.Intn(2) == 0 {
				c.Ctx.Amount = vmh.Opt{Has: true, V: vmh.LE(g.rng.Uint64() >> uint(g.rng.Intn(64)))}
				c.Ctx.Height = vmh.Opt{Has: true, V: vmh.LE(uint64(g.rng.Intn(100000)))}
				c.Ctx.DestPos = vmh.Opt{Has: true, V: vmh.LE(uint64(g.rng.Intn(4)))}
				c.Ctx.Asset = vmh.Opt{Has: true, V: rep(byte(g.rng.Intn(256)), 32)}
				c.Ctx.Entry = rep(byte(g.rng.Intn(256)), 32)
			}
		})
	}
	// two-instruction programs: cross-op consistency (result of one is the operand of the next)
	for i := 0; i < n/2; i++ {
		a := ops[g.rng.Intn(len(ops))]
		b := 0x6b + g.rng.Intn(0xa5-0x6b)
		g.add("random-pair", cat(g.inst(a), B{byte(b)}), g.randStack(6), nil)
	}
}

func generate(args []string) []*vmh.Case {
	g := &gen{rng: rand.New(rand.NewSource(vh.Seed()*104729 + 8)), quick: len(args) == 0 || args[0] != "thorough"}
	g.pushdata()
	g.control()
	g.stackops()
	g.splice()
	g.bitwise()
	g.numeric()
	g.crypto()
	g.introspection()
	g.predicate()
	if g.quick {
		g.random(1500)
	} else {
		g.random(30000)
	}
	return g.cs
}

func main() {
	vmh.Main(vmh.CmpOptions{Prefix: "opcode", Layouts: []string{"indep"}, ArgClass: true}, generate)
}
