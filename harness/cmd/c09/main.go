// c09: program parsing and assembly are consistent; standard-program recognisers agree with the builders.
//
//	c09 obs <enum tlc.out> <cases.ndjson>   observe the real code on the byte strings enumerated by VMParseEnum.tla
//	c09 gen <cases.ndjson> <quick|thorough> seeded random strings (<= 300 bytes), standard programs built from
//	                                        arbitrary hashes / keys / contracts, and their mutations
//
// Each case records inputs and what the real code returned (vm.ParseProgram, vm.Disassemble, vm.Assemble,
// segwit / bcrp recognisers, vmutil builders); TLC (VMParseJudge.tla) decides whether it is allowed.
package main

import (
	"bufio"
	"crypto/ed25519"
	"encoding/json"
	"math/rand"
	"os"

	"github.com/bytom/bytom/consensus/bcrp"
	"github.com/bytom/bytom/consensus/segwit"
	"github.com/bytom/bytom/protocol/vm"
	"github.com/bytom/bytom/protocol/vm/vmutil"

	"verifharness/internal/vh"
	"verifharness/internal/vmh"
)

type B = vmh.Bytes

type inst struct {
	Op   int `json:"op"`
	Len  int `json:"len"`
	Data B   `json:"data"`
}

// one judged observation (all fields always present: TLC reads records)
type obs struct {
	ID    int    `json:"id"`
	K     string `json:"k"`
	P     B      `json:"p"`
	Q     B      `json:"q"`
	OK1   bool   `json:"ok1"`
	OK2   bool   `json:"ok2"`
	Insts []inst `json:"insts"`
	Flags []bool `json:"flags"`
	Which string `json:"which"`
	M     int    `json:"m"`
	Keys  []B    `json:"keys"`
	Fam   string `json:"fam"`
	Text  string `json:"text"` // disassembly (for reports; not read by the spec)
}

type out struct {
	w  *bufio.Writer
	n  int
	by map[string]int
}

func (o *out) put(x *obs) {
	o.n++
	x.ID = o.n
	if x.P == nil {
		x.P = B{}
	}
	if x.Q == nil {
		x.Q = B{}
	}
	if x.Insts == nil {
		x.Insts = []inst{}
	}
	if x.Flags == nil {
		x.Flags = []bool{}
	}
	if x.Keys == nil {
		x.Keys = []B{}
	}
	b, err := json.Marshal(x)
	if err != nil {
		vh.Fatal("marshal: %v", err)
	}
	o.w.Write(b)
	o.w.WriteByte('\n')
	o.by[x.K+"/"+x.Fam]++
}

func safe(f func()) (panicked bool) {
	defer func() {
		if r := recover(); r != nil {
			panicked = true
		}
	}()
	f()
	return
}

// program: parse, round trip and recognisers of one byte string
func (o *out) program(p B, fam string) {
	// parse
	x := &obs{K: "parse", P: p, Fam: fam}
	if safe(func() {
		insts, err := vm.ParseProgram(p)
		x.OK1 = err == nil
		for _, i := range insts {
			x.Insts = append(x.Insts, inst{int(i.Op), int(i.Len), append(B{}, i.Data...)})
		}
	}) {
		vh.Violation("parse:panic", "vm.ParseProgram panicked", map[string]interface{}{"program": p})
	}
	o.put(x)
	// disassemble / assemble
	y := &obs{K: "rt", P: p, Fam: fam}
	if safe(func() {
		text, err := vm.Disassemble(p)
		y.OK1 = err == nil
		y.Text = text
		if err == nil {
			q, err2 := vm.Assemble(text)
			y.OK2 = err2 == nil
			y.Q = q
		}
	}) {
		vh.Violation("roundtrip:panic", "vm.Disassemble / vm.Assemble panicked", map[string]interface{}{"program": p})
	}
	if len(y.Text) > 300 {
		y.Text = y.Text[:300]
	}
	o.put(y)
	o.recog(p, fam)
}

func (o *out) recog(p B, fam string) {
	z := &obs{K: "recog", P: p, Fam: fam}
	if safe(func() {
		z.Flags = []bool{segwit.IsP2WPKHScript(p), segwit.IsP2WSHScript(p), segwit.IsStraightforward(p), segwit.IsP2WScript(p),
			bcrp.IsBCRPScript(p), bcrp.IsCallContractScript(p)}
	}) {
		vh.Violation("recogniser:panic", "a recogniser panicked", map[string]interface{}{"program": p})
		z.Flags = []bool{false, false, false, false, false, false}
	}
	o.put(z)
	// helpers that take standard programs apart
	for _, h := range []struct {
		which string
		f     func() ([]byte, error)
	}{
		{"hash", func() ([]byte, error) { return segwit.GetHashFromStandardProg(p) }},
		{"contract", func() ([]byte, error) { return bcrp.ParseContract(p) }},
		{"contracthash", func() ([]byte, error) { h, e := bcrp.ParseContractHash(p); return h[:], e }},
		{"convert-p2pkh", func() ([]byte, error) { return segwit.ConvertP2PKHSigProgram(p) }},
		{"convert-p2sh", func() ([]byte, error) { return segwit.ConvertP2SHProgram(p) }},
	} {
		// these helpers index the instruction list without checking: only call them on programs their
		// recogniser accepts (that is how the repository uses them)
		ok := false
		switch h.which {
		case "hash":
			ok = z.Flags[0] || z.Flags[1]
		case "contract":
			ok = z.Flags[4]
		case "contracthash":
			ok = z.Flags[5]
		case "convert-p2pkh":
			ok = z.Flags[0]
		case "convert-p2sh":
			ok = z.Flags[1]
		}
		if !ok {
			continue
		}
		e := &obs{K: "extract", P: p, Which: h.which, Fam: fam}
		hh := h
		if safe(func() {
			q, err := hh.f()
			e.OK1 = err == nil
			e.Q = q
		}) {
			vh.Violation("extract:"+h.which+":panic", "helper panicked on a recognised program", map[string]interface{}{"program": p})
		}
		o.put(e)
	}
}

func (o *out) build(which string, arg B, keys []B, m int, f func() ([]byte, error), fam string) B {
	x := &obs{K: "build", P: arg, Which: which, Keys: keys, M: m, Fam: fam}
	if safe(func() {
		q, err := f()
		x.OK1 = err == nil
		x.Q = q
	}) {
		vh.Violation("builder:"+which+":panic", "builder panicked", map[string]interface{}{"arg": arg})
	}
	o.put(x)
	return x.Q
}

func rnd(rng *rand.Rand, n int) B {
	r := make(B, n)
	rng.Read(r)
	return r
}

func gen(path string, quick bool) {
	f, err := os.Create(path)
	if err != nil {
		vh.Fatal("%v", err)
	}
	o := &out{w: bufio.NewWriterSize(f, 1<<20), by: map[string]int{}}
	rng := rand.New(rand.NewSource(vh.Seed()*32452843 + 9))
	// ---- standard programs from arbitrary hashes / contracts / keys, all lengths
	var progs, mutate []B
	interesting := map[int]bool{0: true, 1: true, 19: true, 20: true, 21: true, 31: true, 32: true, 33: true, 40: true}
	for l := 0; l <= 40; l++ {
		h := rnd(rng, l)
		from := len(progs)
		progs = append(progs, o.build("p2wpkh", h, nil, 0, func() ([]byte, error) { return vmutil.P2WPKHProgram(h) }, "standard"))
		progs = append(progs, o.build("p2wsh", h, nil, 0, func() ([]byte, error) { return vmutil.P2WSHProgram(h) }, "standard"))
		progs = append(progs, o.build("call", h, nil, 0, func() ([]byte, error) { return vmutil.CallContractProgram(h) }, "standard"))
		progs = append(progs, o.build("retire", h, nil, 0, func() ([]byte, error) { return vmutil.RetireProgram(h) }, "standard"))
		progs = append(progs, o.build("p2pkhsig", h, nil, 0, func() ([]byte, error) { return vmutil.P2PKHSigProgram(h) }, "standard"))
		progs = append(progs, o.build("p2sh", h, nil, 0, func() ([]byte, error) { return vmutil.P2SHProgram(h) }, "standard"))
		if interesting[l] || !quick {
			mutate = append(mutate, progs[from:]...)
		}
	}
	nhash := len(progs)
	clens := []int{0, 1, 2, 74, 75, 76, 77, 254, 255, 256, 257, 1000}
	if !quick {
		clens = append(clens, 65535, 65536, 65537)
	} else {
		clens = append(clens, 65535, 65536)
	}
	for _, l := range clens {
		c := rnd(rng, l)
		progs = append(progs, o.build("register", c, nil, 0, func() ([]byte, error) { return vmutil.RegisterProgram(c) }, "standard"))
	}
	progs = append(progs, o.build("coinbase", nil, nil, 0, func() ([]byte, error) { return vmutil.DefaultCoinbaseProgram() }, "standard"))
	for n := 0; n <= 4; n++ {
		var keys []B
		var pubs []ed25519.PublicKey
		for i := 0; i < n; i++ {
			k := rnd(rng, 32)
			keys = append(keys, k)
			pubs = append(pubs, ed25519.PublicKey(k))
		}
		for m := -1; m <= n+1; m++ {
			mm := m
			progs = append(progs, o.build("multisig", nil, keys, m, func() ([]byte, error) { return vmutil.P2SPMultiSigProgram(pubs, mm) }, "standard"))
		}
	}
	// ---- recognisers and parsing on the builder outputs and on their neighbours
	seen := map[string]bool{}
	try := func(p B, fam string) {
		if p == nil {
			p = B{}
		}
		if seen[string(p)] || len(p) > 70000 {
			return
		}
		seen[string(p)] = true
		if len(p) > 400 {
			o.recog(p, fam) // long programs: recognisers only (the round trip is judged on <= 300 bytes)
			return
		}
		o.program(p, fam)
	}
	for _, p := range progs {
		try(p, "standard")
	}
	mutate = append(mutate, progs[nhash:]...) // register, coinbase, multisig outputs
	deltas := []byte{1, 0xff}
	if !quick {
		deltas = []byte{1, 0x80, 0xff}
	}
	for _, p := range mutate {
		if len(p) == 0 {
			continue
		}
		lim := len(p)
		if lim > 12 {
			lim = 12
		}
		if len(p) > 2000 {
			lim = 2 // huge contracts: a few neighbours only
		}
		for i := 0; i < lim; i++ { // change one of the first bytes
			for _, d := range deltas {
				q := append(B{}, p...)
				q[i] ^= d
				try(q, "standard-mutated")
			}
		}
		try(p[:len(p)-1], "standard-mutated")
		try(append(append(B{}, p...), 0x61), "standard-mutated")
		try(append(append(B{}, p...), 0x00), "standard-mutated")
	}
	// non-canonical encodings of the standard shapes
	h20, h32 := rnd(rng, 20), rnd(rng, 32)
	hdr := B{0x6a, 0x04, 'b', 'c', 'r', 'p', 0x01, 0x01}
	cat := func(parts ...B) B {
		r := B{}
		for _, p := range parts {
			r = append(r, p...)
		}
		return r
	}
	for _, p := range []B{
		cat(B{0x00, 0x4c, 20}, h20), cat(B{0x00, 0x4d, 20, 0}, h20), cat(B{0x00, 0x4c, 32}, h32), cat(B{0x00, 0x4e, 32, 0, 0, 0}, h32),
		cat(B{0x4c, 0, 20}, h20), cat(B{0x51, 20}, h20),
		cat(B{0x4c, 4, 'b', 'c', 'r', 'p', 32}, h32), cat(B{4, 'b', 'c', 'r', 'p', 0x4c, 32}, h32),
		cat(hdr, B{0x51}), cat(hdr, B{0x60}), cat(hdr, B{0x63, 1, 0, 0, 0}), cat(hdr, B{0x64, 0, 0, 0, 0}), cat(hdr, B{0x4c, 1, 7}), cat(hdr, B{0x4d, 1, 0, 7}),
		cat(hdr, B{0x4e, 1, 0, 0, 0, 7}), cat(hdr, B{0x00}), cat(hdr, B{0x4c, 0}), cat(hdr, B{0x61}), cat(hdr, B{1, 7, 0x61}), cat(hdr, B{1, 7}),
		cat(B{0x6a, 0x4c, 4, 'b', 'c', 'r', 'p', 0x01, 0x01, 1, 7}), cat(B{0x6a, 4, 'b', 'c', 'r', 'p', 0x51, 1, 7}), cat(B{0x6a, 4, 'b', 'c', 'r', 'p', 0x4c, 1, 1, 1, 7}),
		{0x51}, {0x6a}, {0x52}, {0x51, 0x51}, {0x6a, 0x61}, {0x4c, 1, 0x51}, {}, {0x01, 0x51}, {0x6a, 0x01, 0x01},
	} {
		try(p, "non-canonical")
	}
	// ---- random strings
	nr := 1500
	if !quick {
		nr = 12000
	}
	pushy := []byte{0x00, 0x01, 0x02, 0x14, 0x20, 0x4b, 0x4c, 0x4d, 0x4e, 0x51, 0x60, 0x63, 0x64, 0x61, 0x6a, 0x76, 0x87, 0xc0}
	for i := 0; i < nr; i++ {
		var p B
		switch i % 3 {
		case 0: // raw bytes
			p = rnd(rng, rng.Intn(60))
		case 1: // bytes biased to the opcodes with immediate data
			p = make(B, rng.Intn(120))
			for k := range p {
				if rng.Intn(2) == 0 {
					p[k] = pushy[rng.Intn(len(pushy))]
				} else {
					p[k] = byte(rng.Intn(8))
				}
			}
		default: // well-formed instruction sequences (pushes of all forms, jumps inside / outside, plain opcodes)
			n := 1 + rng.Intn(12)
			var parts []B
			total := 0
			for k := 0; k < n; k++ {
				var in B
				switch rng.Intn(9) {
				case 0:
					in = cat(B{byte(1 + rng.Intn(75))})
					in = append(in, rnd(rng, int(in[0]))...)
				case 1:
					l := rng.Intn(3) * rng.Intn(100)
					in = cat(B{0x4c, byte(l)}, rnd(rng, l))
				case 2:
					l := rng.Intn(2) * rng.Intn(280)
					in = cat(B{0x4d, byte(l), byte(l >> 8)}, rnd(rng, l))
				case 3:
					l := rng.Intn(2) * rng.Intn(40)
					in = cat(B{0x4e, byte(l), 0, 0, 0}, rnd(rng, l))
				case 4:
					in = B{byte(0x51 + rng.Intn(16))}
				case 5, 6:
					t := rng.Intn(total + 12)
					in = B{byte(0x63 + rng.Intn(2)), byte(t), byte(t >> 8), 0, 0}
				default:
					in = B{byte(rng.Intn(256))}
				}
				parts = append(parts, in)
				total += len(in)
				if total > 300 {
					break
				}
			}
			p = cat(parts...)
			if len(p) > 300 {
				p = p[:300]
			}
		}
		try(p, "random")
	}
	if err := o.w.Flush(); err != nil {
		vh.Fatal("%v", err)
	}
	f.Close()
	vh.Summary(map[string]interface{}{"observations": o.n, "by_kind_family": o.by})
}

func observe(in, path string) {
	f, err := os.Create(path)
	if err != nil {
		vh.Fatal("%v", err)
	}
	o := &out{w: bufio.NewWriterSize(f, 1<<20), by: map[string]int{}}
	n, err := vh.EachExport(in, func(_ int, doc []byte) error {
		var x struct {
			P B `json:"p"`
		}
		if e := json.Unmarshal(doc, &x); e != nil {
			return e
		}
		o.program(x.P, "enumerated")
		return nil
	})
	if err != nil {
		vh.Fatal("obs: %v", err)
	}
	o.w.Flush()
	f.Close()
	vh.Summary(map[string]interface{}{"strings": n, "observations": o.n, "by_kind_family": o.by})
}

func main() {
	vh.Quiet()
	if len(os.Args) < 4 {
		vh.Fatal("usage: c09 obs <tlc.out> <out> | gen <out> <tier>")
	}
	switch os.Args[1] {
	case "obs":
		observe(os.Args[2], os.Args[3])
	case "gen":
		gen(os.Args[2], os.Args[3] != "thorough")
	default:
		vh.Fatal("unknown command %q", os.Args[1])
	}
}
