// c14: coinbase rewards.
//
//	c14 replay  <RewardsGen tlc.out> <records.ndjson> <maxtables>
//	    replays every exported reward history through state.NewCheckpoint /
//	    Checkpoint.Increase with synthetic blocks (fees, vote totals, proposers from the
//	    specification) and compares the checkpoint's reward table with the interval the
//	    specification computed; then, for the resulting table, offers a family of coinbase
//	    transactions to the node's validation (validation.ValidateBlock on a real chain whose
//	    stored checkpoint carries that table) and asks the proposer (proposal.NewBlockTemplate)
//	    for its coinbase; what the code did is *recorded* for TLC (TraceRewards) to judge.
//	c14 subsidy <RewardsSubsidy tlc.out>
//	    the subsidy case table (vote totals around the pledge threshold, huge totals).
package main

import (
	"encoding/hex"
	"encoding/json"
	"fmt"
	"math/rand"
	"os"
	"sort"
	"strconv"
	"time"

	"github.com/bytom/bytom/consensus"
	"github.com/bytom/bytom/crypto/ed25519/chainkd"
	"github.com/bytom/bytom/proposal"
	"github.com/bytom/bytom/protocol/bc"
	"github.com/bytom/bytom/protocol/bc/types"
	"github.com/bytom/bytom/protocol/state"
	"github.com/bytom/bytom/protocol/validation"

	"verifharness/internal/lchain"
	"verifharness/internal/vh"
)

type limbs []uint64

func (l limbs) val() (uint64, bool) {
	var v uint64
	for i := len(l) - 1; i >= 0; i-- {
		if v>>(64-15) != 0 {
			return 0, false
		}
		v = v<<15 | l[i]
	}
	return v, true
}
func toLimbs(v uint64) limbs {
	out := limbs{}
	for v > 0 {
		out = append(out, v&32767)
		v >>= 15
	}
	return out
}
func must(l limbs) uint64 {
	v, ok := l.val()
	if !ok {
		vh.Fatal("exported number exceeds 64 bits: %v", l)
	}
	return v
}

type txm struct {
	In  limbs `json:"in"`
	Out limbs `json:"out"`
}
type call struct {
	P        string `json:"p"`
	Fees     []txm  `json:"fees"`
	Votes    limbs  `json:"votes"`
	H        limbs  `json:"h"`
	FeeName  string `json:"feeName"`
	VoteName string `json:"voteName"`
}
type rng struct {
	Lo limbs `json:"lo"`
	Hi limbs `json:"hi"`
}
type obsT struct {
	N           int            `json:"n"`
	H           limbs          `json:"h"`
	Votes       limbs          `json:"votes"`
	Table       map[string]rng `json:"table"`
	Prev        map[string]rng `json:"prev"`
	Amb         bool           `json:"amb"`
	Epoch       uint64         `json:"epoch"`
	Reward      limbs          `json:"reward"`
	Init        limbs          `json:"init"`
	NextResidue uint64         `json:"nextResidue"`
}
type docT struct {
	Calls []call `json:"calls"`
	Obs   obsT   `json:"obs"`
}

// model program name -> real control program. "a" is the node's own default coinbase
// program (OP_TRUE) so that the proposer's "own entry" branch is exercised.
var progBytes = map[string][]byte{
	"a": {0x51},
	"b": append([]byte{0x00, 0x14}, make([]byte, 20)...),
	"c": append([]byte{0x00, 0x20}, make([]byte, 32)...),
	"y": append([]byte{0x00, 0x14}, []byte("yyyyyyyyyyyyyyyyyyyy")...),
	"z": append([]byte{0x00, 0x14}, []byte("zzzzzzzzzzzzzzzzzzzz")...),
}
var progName = map[string]string{}

func init() {
	for i := range progBytes["b"][2:] {
		progBytes["b"][2+i] = byte(0xb0 + i)
	}
	for i := range progBytes["c"][2:] {
		progBytes["c"][2+i] = byte(0xc0 + i%16)
	}
	for n, b := range progBytes {
		progName[hex.EncodeToString(b)] = n
	}
}

var voteKey = make([]byte, 64)
var btm = *consensus.BTMAssetID
var otherAsset = bc.NewAssetID([32]byte{7, 7, 7})

func spendTx(in, out uint64, salt byte, withOther bool) *types.Tx {
	d := types.TxData{Version: 1,
		Inputs:  []*types.TxInput{types.NewSpendInput(nil, bc.NewHash([32]byte{salt, 9}), btm, in, 0, []byte{0x51}, nil)},
		Outputs: []*types.TxOutput{types.NewOriginalTxOutput(btm, out, []byte{0x51}, nil)}}
	if withOther { // a balanced movement of another asset never contributes to the fee
		d.Inputs = append(d.Inputs, types.NewSpendInput(nil, bc.NewHash([32]byte{salt, 8}), otherAsset, 1000+uint64(salt), 1, []byte{0x51}, nil))
		d.Outputs = append(d.Outputs, types.NewOriginalTxOutput(otherAsset, 1000+uint64(salt), []byte{0x51}, nil))
	}
	return types.NewTx(d)
}

func voteTx(amt uint64) *types.Tx {
	return types.NewTx(types.TxData{Version: 1,
		Inputs:  []*types.TxInput{types.NewSpendInput(nil, bc.NewHash([32]byte{3, 3}), btm, amt, 0, []byte{0x51}, nil)},
		Outputs: []*types.TxOutput{types.NewVoteOutput(btm, amt, []byte{0x51}, voteKey, nil)}})
}
func vetoTx(amt uint64) *types.Tx {
	return types.NewTx(types.TxData{Version: 1,
		Inputs:  []*types.TxInput{types.NewVetoInput(nil, bc.NewHash([32]byte{4, 4}), btm, amt, 0, []byte{0x51}, voteKey, nil)},
		Outputs: []*types.TxOutput{types.NewOriginalTxOutput(btm, amt, []byte{0x51}, nil)}})
}

type out struct {
	Prog string `json:"prog"`
	Amt  limbs  `json:"amt"`
	amt  uint64
}

func coinbaseTx(h uint64, outs []out) *types.Tx {
	d := types.TxData{Version: 1, Inputs: []*types.TxInput{types.NewCoinbaseInput(append([]byte{0}, []byte(strconv.FormatUint(h, 10))...))}}
	for _, o := range outs {
		d.Outputs = append(d.Outputs, types.NewOriginalTxOutput(btm, o.amt, progBytes[o.Prog], [][]byte{}))
	}
	return lchain.FinishTx(&d)
}

type failure struct{ sig, desc string }

// payout is the content of a synthetic block's coinbase: the proposer's program first and,
// for the first block of an epoch, the parent checkpoint's table (Increase does not check it;
// it only has to be a realistic coinbase with non-zero outputs).
func payout(p string, parent map[string]uint64, first bool) []out {
	outs := []out{{Prog: p}}
	if !first {
		return outs
	}
	var keys []string
	for k := range parent {
		keys = append(keys, k)
	}
	sort.Strings(keys)
	for _, k := range keys {
		n, ok := progName[k]
		if !ok || parent[k] == 0 {
			continue
		}
		if n == p {
			outs[0].amt = parent[k]
		} else {
			outs = append(outs, out{Prog: n, amt: parent[k]})
		}
	}
	return outs
}

// replayPath drives Checkpoint.Increase along the exported path; returns the final checkpoint.
func replayPath(d *docT, r *rand.Rand) (cp *state.Checkpoint, f *failure) {
	defer func() {
		if p := recover(); p != nil {
			f = &failure{"increase:panic", fmt.Sprintf("panic: %v", p)}
		}
	}()
	E := d.Obs.Epoch
	var h0 [32]byte
	r.Read(h0[:])
	first := must(d.Calls[0].H)
	cp = &state.Checkpoint{Height: first - 1, Hash: bc.NewHash(h0), Timestamp: 1600000000000, Status: state.Justified,
		Votes: map[string]uint64{}, Rewards: map[string]uint64{}}
	var cur uint64 // vote total so far
	for i, c := range d.Calls {
		h := must(c.H)
		isFirst := h%E == 1 || E == 1
		parentTable := cp.Rewards
		if isFirst {
			cp = state.NewCheckpoint(cp)
		}
		var txs []*types.Tx
		txs = append(txs, coinbaseTx(h, payout(c.P, parentTable, isFirst && i > 0)))
		v := must(c.Votes)
		if v > cur {
			txs = append(txs, voteTx(v-cur))
		} else if v < cur {
			txs = append(txs, vetoTx(cur-v))
		}
		cur = v
		for k, t := range c.Fees {
			txs = append(txs, spendTx(must(t.In), must(t.Out), byte(k+1), r.Intn(2) == 0))
		}
		// transactions other than the coinbase in a seeded order (fees do not depend on it);
		// the vote/veto stays in the block, its position is irrelevant for the total
		rest := txs[1:]
		r.Shuffle(len(rest), func(a, b int) { rest[a], rest[b] = rest[b], rest[a] })
		b := &types.Block{BlockHeader: types.BlockHeader{Version: 1, Height: h, PreviousBlockHash: cp.Hash,
			Timestamp: cp.Timestamp + 6000}, Transactions: txs}
		if err := cp.Increase(b); err != nil {
			return nil, &failure{"increase:error", "Increase rejected a block extending the checkpoint: " + err.Error()}
		}
	}
	return cp, nil
}

func checkTable(d *docT, cp *state.Checkpoint) *failure {
	last := d.Calls[len(d.Calls)-1]
	cls := "vote=" + last.VoteName + ":fees=" + last.FeeName
	if must(last.H)%d.Obs.Epoch == 1 {
		cls += ":newepoch"
	}
	for k, v := range cp.Rewards {
		n, ok := progName[k]
		if !ok {
			return &failure{"table:foreign-program:" + cls, fmt.Sprintf("reward table has an entry for an unknown program %s = %d", k, v)}
		}
		if _, ok := d.Obs.Table[n]; !ok {
			return &failure{"table:foreign-program:" + cls, fmt.Sprintf("reward table has an entry for program %s = %d the specification does not credit", n, v)}
		}
	}
	for n, iv := range d.Obs.Table {
		got := cp.Rewards[hex.EncodeToString(progBytes[n])]
		lo, hi := must(iv.Lo), must(iv.Hi)
		if got < lo || got > hi {
			return &failure{"table:amount:" + cls, fmt.Sprintf("after %d blocks (last: height %d proposer %s fees %s votes %s=%d) reward of program %s is %d, specification [%d, %d]; table %v",
				len(d.Calls), must(last.H), last.P, last.FeeName, last.VoteName, must(last.Votes), n, got, lo, hi, cp.Rewards)}
		}
	}
	return nil
}

// ---------------------------------------------------------------- stage 2: real chain

type record struct {
	ID       int              `json:"id"`
	Residue  uint64           `json:"residue"`
	Table    map[string]limbs `json:"table"`
	Outs     []out            `json:"outs"`
	Accepted bool             `json:"accepted"`
	Src      string           `json:"src"`
	Shape    string           `json:"shape"`
	Err      string           `json:"err"`
}

type node struct {
	env     *lchain.Env
	headers []*types.BlockHeader // by height 0..best
}

var nodeKey chainkd.XPrv

func newNode(tag string, best uint64) *node {
	env, err := lchain.Open(tag)
	if err != nil {
		vh.Fatal("open chain: %v", err)
	}
	n := &node{env: env}
	g := env.Chain.BestBlockHeader()
	n.headers = append(n.headers, g)
	for h := uint64(1); h <= best; h++ {
		prev := n.headers[h-1]
		b := lchain.Block(prev, prev.Timestamp+6000, nodeKey, coinbaseTx(h, []out{{Prog: "z"}}), nil)
		if orphan, err := env.Chain.ProcessBlock(b); err != nil || orphan {
			vh.Fatal("funding chain block %d refused: %v", h, err)
		}
		n.headers = append(n.headers, &b.BlockHeader)
	}
	if env.Chain.BestBlockHeight() != best {
		vh.Fatal("chain height %d, wanted %d", env.Chain.BestBlockHeight(), best)
	}
	return n
}

// setTable overwrites the stored checkpoint of the block at height hgt with the given reward table.
func (n *node) setTable(hgt uint64, table map[string]uint64) {
	hash := n.headers[hgt].Hash()
	orig, err := n.env.Store.GetCheckpoint(&hash)
	if err != nil {
		vh.Fatal("checkpoint of height %d: %v", hgt, err)
	}
	cp := &state.Checkpoint{Height: orig.Height, Hash: orig.Hash, ParentHash: orig.ParentHash, Timestamp: orig.Timestamp,
		Status: orig.Status, Votes: map[string]uint64{}, Rewards: map[string]uint64{}}
	for k, v := range table {
		cp.Rewards[k] = v
	}
	if err := n.env.Store.SaveCheckpoints([]*state.Checkpoint{cp}); err != nil {
		vh.Fatal("save checkpoint: %v", err)
	}
}

func (n *node) validate(parentH uint64, outs []out, nonce int) (accepted bool, errs string) {
	defer func() {
		if p := recover(); p != nil {
			accepted, errs = false, fmt.Sprintf("PANIC: %v", p)
		}
	}()
	parent := n.headers[parentH]
	ph := parent.Hash()
	cp, err := n.env.Chain.PrevCheckpointByPrevHash(&ph)
	if err != nil {
		vh.Fatal("prev checkpoint: %v", err)
	}
	b := lchain.Block(parent, parent.Timestamp+6000*uint64(1+nonce%3), nodeKey, coinbaseTx(parent.Height+1, outs), nil)
	if err := validation.ValidateBlock(b, parent, cp, n.env.Chain.ProgramConverter); err != nil {
		return false, err.Error()
	}
	return true, ""
}

func shapes(T map[string]uint64, prev map[string]uint64, r *rand.Rand) (res []struct {
	name string
	outs []out
}) {
	add := func(name string, outs []out) {
		res = append(res, struct {
			name string
			outs []out
		}{name, outs})
	}
	var names []string
	for n := range T {
		names = append(names, n)
	}
	sort.Strings(names)
	exact := func(q string, t map[string]uint64) []out {
		outs := []out{{Prog: q, amt: t[q]}}
		for _, n := range names {
			if n != q && t[n] > 0 {
				outs = append(outs, out{Prog: n, amt: t[n]})
			}
		}
		for n, a := range t {
			if _, ok := T[n]; !ok && n != q && a > 0 {
				outs = append(outs, out{Prog: n, amt: a})
			}
		}
		return outs
	}
	cp := func(o []out) []out { return append([]out{}, o...) }
	qs := []string{"a", "z"}
	if len(names) > 0 && names[len(names)-1] != "a" {
		qs = append(qs, names[len(names)-1])
	}
	for _, q := range qs {
		e := exact(q, T)
		add("exact:"+q, e)
		if len(e) > 2 {
			s := cp(e)
			rest := s[1:]
			r.Shuffle(len(rest), func(a, b int) { rest[a], rest[b] = rest[b], rest[a] })
			add("exact-shuffled:"+q, s)
		}
		add("nothing:"+q, []out{{Prog: q}})
		add("one:"+q, []out{{Prog: q, amt: 1}})
		add("twozero:"+q, []out{{Prog: q}, {Prog: "y"}})
	}
	all := []out{{Prog: "z"}}
	for _, n := range names {
		all = append(all, out{Prog: n, amt: T[n]})
	}
	add("firstzero-all", all)
	e := exact("a", T)
	if len(names) > 0 {
		for _, idx := range []int{0, len(e) - 1} {
			if e[idx].amt == 0 {
				continue
			}
			m := cp(e)
			m[idx].amt--
			add(fmt.Sprintf("minus1:%d", idx), m)
			p := cp(e)
			p[idx].amt++
			add(fmt.Sprintf("plus1:%d", idx), p)
		}
		if len(e) > 1 {
			add("missing-last", cp(e[:len(e)-1]))
		}
		if e[0].amt > 0 {
			m := cp(e)
			m[0].amt = 0
			add("missing-own", m)
		}
		add("extra", append(cp(e), out{Prog: "y", amt: 1}))
		add("doubled", append(cp(e), e[len(e)-1]))
		last := e[len(e)-1]
		if last.amt > 1 {
			s := cp(e[:len(e)-1])
			s = append(s, out{Prog: last.Prog, amt: last.amt - 1}, out{Prog: last.Prog, amt: 1})
			add("split", s)
		}
		if len(names) >= 2 && T[names[0]] != T[names[1]] {
			sw := map[string]uint64{}
			for k, v := range T {
				sw[k] = v
			}
			sw[names[0]], sw[names[1]] = T[names[1]], T[names[0]]
			add("swapped", exact("z", sw))
		}
	}
	same := len(prev) == len(T)
	for k, v := range prev {
		if T[k] != v {
			same = false
		}
	}
	if !same {
		add("stale", exact("z", prev))
	}
	return
}

func nonzero(t map[string]rng) map[string]uint64 {
	m := map[string]uint64{}
	for n, iv := range t {
		if a := must(iv.Lo); a > 0 {
			m[n] = a
		}
	}
	return m
}

func main() {
	vh.Quiet()
	if len(os.Args) < 3 {
		vh.Fatal("usage: c14 replay|subsidy ...")
	}
	switch os.Args[1] {
	case "replay":
		replayCmd()
	case "subsidy":
		subsidyCmd()
	default:
		vh.Fatal("unknown command")
	}
}

func checkConsts(reward, init limbs) {
	if must(reward) != consensus.BlockReward || must(init) != uint64(consensus.InitBTMSupply) {
		vh.Fatal("specification constants (reward %d, initial supply %d) differ from consensus (%d, %d)",
			must(reward), must(init), consensus.BlockReward, uint64(consensus.InitBTMSupply))
	}
}

func replayCmd() {
	if len(os.Args) < 5 {
		vh.Fatal("usage: c14 replay <exports> <records> <maxtables>")
	}
	seed := vh.Seed()
	r := rand.New(rand.NewSource(seed))
	maxTables, _ := strconv.Atoi(os.Args[4])
	sd := make([]byte, 32)
	r.Read(sd)
	nodeKey = chainkd.RootXPrv(sd)
	r.Read(voteKey)
	recFile, err := os.Create(os.Args[3])
	if err != nil {
		vh.Fatal("%v", err)
	}
	enc := json.NewEncoder(recFile)
	var nodeA, nodeB *node // best height E (next block opens an epoch) / best height 1
	var E uint64
	paths, steps, ambig, tables, recs := 0, 0, 0, 0, 0
	seenTable := map[string]bool{}
	distinctTables := map[string]bool{}
	nsample := 0
	emit := func(rec *record) {
		recs++
		rec.ID = recs
		for i := range rec.Outs {
			rec.Outs[i].Amt = toLimbs(rec.Outs[i].amt)
		}
		if err := enc.Encode(rec); err != nil {
			vh.Fatal("%v", err)
		}
	}
	_, err = vh.EachExport(os.Args[2], func(idx int, raw []byte) error {
		d := &docT{}
		if err := json.Unmarshal(raw, d); err != nil {
			return err
		}
		if E == 0 {
			E = d.Obs.Epoch
			if E < 2 {
				vh.Fatal("epoch length %d unsupported", E)
			}
			checkConsts(d.Obs.Reward, d.Obs.Init)
			lchain.Configure([]chainkd.XPub{nodeKey.XPub()}, nodeKey, E, 6000)
			nodeA = newNode("c14a", E)
			if E > 1 {
				nodeB = newNode("c14b", 1)
			}
		} else if E != d.Obs.Epoch {
			vh.Fatal("epoch changes inside one export")
		}
		if len(d.Calls) == 0 || vh.TooMany() {
			return nil
		}
		paths++
		steps += len(d.Calls)
		cp, f := replayPath(d, r)
		if f == nil {
			f = checkTable(d, cp)
		}
		if f != nil {
			vh.Violation(f.sig, f.desc, d)
			return nil
		}
		if d.Obs.Amb {
			ambig++
		}
		// ---- stage 2 on the table the code produced (just verified to lie in the specification's
		// interval; where the interval is a point it is the specification's table)
		T := map[string]uint64{}
		for k, v := range cp.Rewards {
			if v > 0 {
				T[progName[k]] = v
			}
		}
		key := fmt.Sprint(T, d.Obs.NextResidue)
		distinctTables[fmt.Sprint(T)] = true
		if seenTable[key] || tables >= maxTables {
			return nil
		}
		seenTable[key] = true
		tables++
		tl := map[string]limbs{"a": {}, "b": {}, "c": {}, "y": {}, "z": {}}
		real := map[string]uint64{}
		for n, a := range T {
			tl[n] = toLimbs(a)
			real[hex.EncodeToString(progBytes[n])] = a
		}
		res := d.Obs.NextResidue
		// parent height on node A with (parent+1) % E == res
		parentH := E
		if res == 0 {
			parentH = E - 1
		} else if res >= 2 {
			parentH = res - 1
		}
		nodeA.setTable(E, real)
		for k, sh := range shapes(T, nonzero(d.Obs.Prev), r) {
			ok, es := nodeA.validate(parentH, sh.outs, k)
			emit(&record{Residue: res, Table: tl, Outs: sh.outs, Accepted: ok, Src: "validate", Shape: sh.name, Err: es})
		}
		// the proposer's own coinbase for the next block of node A (height E+1) / node B (height 2)
		for _, nd := range []*node{nodeA, nodeB} {
			if nd == nil {
				continue
			}
			best := nd.env.Chain.BestBlockHeight()
			if (best+1)%E != res {
				continue
			}
			if nd == nodeB {
				nd.setTable(0, real) // genesis checkpoint: must be irrelevant for an off-epoch block
			}
			ph := nd.headers[best]
			tpl, err := func() (b *types.Block, err error) {
				defer func() {
					if p := recover(); p != nil {
						err = fmt.Errorf("PANIC: %v", p)
					}
				}()
				return proposal.NewBlockTemplate(nd.env.Chain, nil, nil, ph.Timestamp+6000, time.Minute, time.Minute)
			}()
			if err != nil {
				emit(&record{Residue: res, Table: tl, Outs: []out{}, Accepted: false, Src: "template-error", Shape: "template", Err: err.Error()})
				continue
			}
			var outs []out
			for _, o := range tpl.Transactions[0].Outputs {
				n, ok := progName[hex.EncodeToString(o.ControlProgram)]
				if !ok || *o.AssetId != btm {
					n = "y"
				}
				outs = append(outs, out{Prog: n, amt: o.Amount})
			}
			emit(&record{Residue: res, Table: tl, Outs: outs, Accepted: true, Src: "template", Shape: "template"})
			hh := ph.Hash()
			cpS, err := nd.env.Chain.PrevCheckpointByPrevHash(&hh)
			if err != nil {
				vh.Fatal("%v", err)
			}
			verr := validation.ValidateBlock(tpl, ph, cpS, nd.env.Chain.ProgramConverter)
			es := ""
			if verr != nil {
				es = verr.Error()
			}
			emit(&record{Residue: res, Table: tl, Outs: outs, Accepted: verr == nil, Src: "template-validated", Shape: "template", Err: es})
		}
		if nsample < 2 && len(T) >= 2 {
			nsample++
			vh.Sample(map[string]interface{}{"calls": d.Calls, "table": T, "height": must(d.Obs.H)})
		}
		return nil
	})
	recFile.Close()
	if err != nil {
		vh.Fatal("reading exports: %v", err)
	}
	if nodeA != nil {
		nodeA.env.Close()
	}
	if nodeB != nil {
		nodeB.env.Close()
	}
	vh.Summary(map[string]interface{}{"paths": paths, "steps": steps, "ambiguous_tables": ambig, "tables_offered": tables,
		"distinct_tables": len(distinctTables), "records": recs, "epoch": E})
}

type subCase struct {
	H      limbs `json:"h"`
	Votes  limbs `json:"votes"`
	Lo     limbs `json:"lo"`
	Hi     limbs `json:"hi"`
	Exact  limbs `json:"exact"`
	Amb    bool  `json:"amb"`
	Reward limbs `json:"reward"`
	Init   limbs `json:"init"`
}

func subsidyCmd() {
	r := rand.New(rand.NewSource(vh.Seed()))
	r.Read(voteKey)
	cases, amb, exactHits := 0, 0, 0
	distinct := map[string]bool{}
	_, err := vh.EachExport(os.Args[2], func(idx int, raw []byte) error {
		c := &subCase{}
		if err := json.Unmarshal(raw, c); err != nil {
			return err
		}
		checkConsts(c.Reward, c.Init)
		cases++
		h, v := must(c.H), must(c.Votes)
		lo, hi := must(c.Lo), must(c.Hi)
		distinct[fmt.Sprint(h, v)] = true
		if c.Amb {
			amb++
		}
		got, f := func() (got uint64, f *failure) {
			defer func() {
				if p := recover(); p != nil {
					f = &failure{"subsidy:panic", fmt.Sprintf("panic: %v", p)}
				}
			}()
			consensus.ActiveNetParams.BlocksOfEpoch = 100
			var h0 [32]byte
			r.Read(h0[:])
			// the vote total split over 1..3 keys already in the checkpoint and one vote in the block
			cp := &state.Checkpoint{Height: h - 1, Hash: bc.NewHash(h0), Timestamp: 1600000000000, Status: state.Growing,
				Votes: map[string]uint64{}, Rewards: map[string]uint64{}}
			rest := v
			inBlock := uint64(0)
			if rest > 0 && r.Intn(2) == 0 {
				inBlock = rest/3 + 1
				rest -= inBlock
			}
			for k := 0; rest > 0 && k < 3; k++ {
				part := rest
				if k < 2 && rest > 1 && r.Intn(2) == 0 {
					part = rest / 2
				}
				cp.Votes[fmt.Sprintf("%0128x", k+1)] = part
				rest -= part
			}
			txs := []*types.Tx{coinbaseTx(h, []out{{Prog: "b"}})}
			if inBlock > 0 {
				txs = append(txs, voteTx(inBlock))
			}
			b := &types.Block{BlockHeader: types.BlockHeader{Version: 1, Height: h, PreviousBlockHash: cp.Hash, Timestamp: cp.Timestamp + 6000}, Transactions: txs}
			if err := cp.Increase(b); err != nil {
				return 0, &failure{"increase:error", err.Error()}
			}
			if len(cp.Rewards) != 1 {
				return 0, &failure{"subsidy:table", fmt.Sprintf("reward table %v after one block", cp.Rewards)}
			}
			return cp.Rewards[hex.EncodeToString(progBytes["b"])], nil
		}()
		if f != nil {
			vh.Violation(f.sig, f.desc, c)
			return nil
		}
		if got < lo || got > hi {
			side := "below-threshold"
			if hi == consensus.BlockReward && lo == hi {
				side = "at-cap"
			}
			vh.Violation("subsidy:amount:"+side, fmt.Sprintf("height %d vote total %d: subsidy %d, specification [%d, %d]", h, v, got, lo, hi), c)
			return nil
		}
		if got == must(c.Exact) {
			exactHits++
		}
		if cases%61 == 1 {
			vh.Sample(map[string]interface{}{"height": h, "votes": v, "subsidy": got, "lo": lo, "hi": hi})
		}
		return nil
	})
	if err != nil {
		vh.Fatal("reading exports: %v", err)
	}
	vh.Summary(map[string]interface{}{"subsidy_cases": cases, "subsidy_ambiguous": amb, "subsidy_exact": exactHits, "subsidy_distinct": len(distinct)})
}
