package main

import (
	"encoding/hex"
	"encoding/json"
	"fmt"
	"math/rand"
	"os"

	"github.com/bytom/bytom/consensus"
	"github.com/bytom/bytom/protocol/bc/types"

	"verifharness/internal/lchain"
	"verifharness/internal/vh"
)

// chainCmd binds the schedule at chain level: the federation schedule exported by TLC
// (document with no calls) is compared with Chain.GetValidator for every exported time
// of three epochs of a real chain, and the chain is extended only with blocks signed by
// the owner the *specification* names for the chosen slot (a node with another schedule
// rejects them); a block signed by a different federation key for the same slot must be
// rejected.
func chainCmd(seed int64) {
	var d0 *doc
	_, err := vh.EachExport(os.Args[2], func(idx int, raw []byte) error {
		if d0 != nil {
			return nil
		}
		d := &doc{}
		if err := json.Unmarshal(raw, d); err != nil {
			return err
		}
		if len(d.Calls) == 0 && len(d.Obs.EffNow) > 0 && d.Obs.EffNow[0].Key < 0 {
			d0 = d
		}
		return nil
	})
	if err != nil || d0 == nil {
		vh.Fatal("no federation schedule in exports: %v", err)
	}
	o := &d0.Obs
	r := rand.New(rand.NewSource(seed))
	lchain.Configure(fedKeys[:o.NFed], fedPrv[0], uint64(o.Epoch), uint64(o.Interval))
	queries, blocks, rejected := 0, 0, 0
	func() {
		defer func() {
			if p := recover(); p != nil {
				vh.Violation("chain:panic", fmt.Sprintf("panic: %v", p), nil)
			}
		}()
		env, err := lchain.Open("c15")
		if err != nil {
			vh.Fatal("open chain: %v", err)
		}
		defer env.Close()
		ch := env.Chain
		iv := uint64(o.Interval)
		E := uint64(o.Epoch)
		for epoch := 0; epoch < 3; epoch++ {
			cpHeader := ch.BestBlockHeader()
			if cpHeader.Height != uint64(epoch)*E {
				vh.Fatal("chain height %d at epoch %d", cpHeader.Height, epoch)
			}
			start := cpHeader.Timestamp + iv
			si := 0 // next schedule index usable for a block
			for bi := uint64(0); bi < E; bi++ {
				prev := ch.BestBlockHeader()
				prevHash := prev.Hash()
				for _, s := range o.SchedNow {
					v, err := ch.GetValidator(&prevHash, start+uint64(s.Dt))
					queries++
					if err != nil || v == nil {
						vh.Violation("chain:getvalidator:error", fmt.Sprintf("Chain.GetValidator failed: %v", err), nil)
						return
					}
					if rankOf[v.PubKey] != s.Key || v.Order != s.Order {
						vh.Violation("chain:slot:owner", fmt.Sprintf("Chain.GetValidator(prev height %d, start+%d) = federation %d order %d, specification federation %d order %d",
							prev.Height, s.Dt, -rankOf[v.PubKey], v.Order, -s.Key, s.Order), map[string]interface{}{"epoch": epoch, "dt": s.Dt})
						return
					}
				}
				// choose a slot at or after parent+interval
				for si < len(o.SchedNow) && start+uint64(o.SchedNow[si].Dt) < prev.Timestamp+iv {
					si++
				}
				room := len(o.SchedNow) - si - int(E-bi)*3
				if room > 4 {
					room = 4
				}
				if room > 0 {
					si += r.Intn(room)
				}
				if si >= len(o.SchedNow) {
					vh.Fatal("schedule exhausted")
				}
				s := o.SchedNow[si]
				ts := start + uint64(s.Dt)
				cp, err := ch.PrevCheckpointByPrevHash(&prevHash)
				if err != nil {
					vh.Fatal("prev checkpoint: %v", err)
				}
				prog := []byte{0x51}
				outs := []lchain.Out{{Program: prog, Amount: 0}}
				if (prev.Height+1)%E == 1 {
					for p, a := range cp.Rewards {
						pb, _ := hex.DecodeString(p)
						outs = append(outs, lchain.Out{Program: pb, Amount: a})
					}
				}
				owner := -s.Key - 1
				other := (owner + 1 + r.Intn(o.NFed-1)) % o.NFed
				bad := lchain.Block(prev, ts, fedPrv[other], lchain.Coinbase(prev.Height+1, 1, outs), nil)
				if _, err := ch.ProcessBlock(bad); err == nil {
					vh.Violation("chain:accept-nonowner", fmt.Sprintf("block at start+%d signed by federation %d accepted; the specification schedules federation %d", s.Dt, other+1, owner+1), nil)
					return
				}
				rejected++
				good := lchain.Block(prev, ts, fedPrv[owner], lchain.Coinbase(prev.Height+1, 0, outs), []*types.Tx{})
				if _, err := ch.ProcessBlock(good); err != nil {
					vh.Violation("chain:reject-owner", fmt.Sprintf("block at start+%d signed by the scheduled federation %d rejected: %v", s.Dt, owner+1, err), nil)
					return
				}
				blocks++
				si++
			}
		}
	}()
	_ = consensus.ActiveNetParams
	vh.Summary(map[string]interface{}{"chain_queries": queries, "chain_blocks": blocks, "chain_nonowner_rejected": rejected})
}
