// c15: replays the vote/veto histories and many-candidate cases exported by TLC from
// specs/ledger/ValidatorsGen.tla / ValidatorsMany.tla against the real
// state.Checkpoint (Increase, NewCheckpoint, AllValidators, EffectiveValidators,
// GetValidator) and compares with the results the specification computed.
//
//	c15 replay <tlc.out> [minreal]
//	c15 chain  <tlc.out>            (chain-level schedule through protocol.Chain, see chain.go)
//
// The Go side only concretises (model key rank -> real xpub with that rank in hex
// order, model amount -> real amount around the real minimum, model dt -> real
// timestamp) and projects the checkpoint's answers back to model terms.
package main

import (
	"encoding/hex"
	"encoding/json"
	"fmt"
	"math/rand"
	"os"
	"sort"
	"strconv"
	"sync"
	"sync/atomic"

	"github.com/bytom/bytom/consensus"
	"github.com/bytom/bytom/crypto/ed25519/chainkd"
	"github.com/bytom/bytom/protocol/bc"
	"github.com/bytom/bytom/protocol/bc/types"
	"github.com/bytom/bytom/protocol/state"

	"verifharness/internal/vh"
)

type event struct {
	Kind string `json:"kind"`
	Key  int    `json:"key"`
	Amt  int64  `json:"amt"`
}
type val struct {
	Key   int   `json:"key"`
	Votes int64 `json:"votes"`
	Order int   `json:"order"`
}
type slot struct {
	Dt    int64 `json:"dt"`
	Key   int   `json:"key"`
	Order int   `json:"order"`
}
type obs struct {
	Tally     []int64 `json:"tally"`
	Height    int     `json:"height"`
	Done      bool    `json:"done"`
	AllNow    []val   `json:"allNow"`
	EffNow    []val   `json:"effNow"`
	SchedNow  []slot  `json:"schedNow"`
	AllDone   []val   `json:"allDone"`
	EffDone   []val   `json:"effDone"`
	SchedDone []slot  `json:"schedDone"`
	Min       int64   `json:"min"`
	Interval  int64   `json:"interval"`
	Epoch     int64   `json:"epoch"`
	NFed      int     `json:"nfed"`
	NKeys     int     `json:"nkeys"`
}
type doc struct {
	Calls []event `json:"calls"`
	Obs   obs     `json:"obs"`
}

const maxKeys = 16
const maxFed = 4

var (
	keyHex  []string       // rank-1 -> hex xpub, ascending
	keyRaw  [][]byte       // rank-1 -> xpub bytes
	rankOf  map[string]int // hex -> rank (1..), federation -> -(index+1)
	fedKeys []chainkd.XPub
	fedPrv  []chainkd.XPrv
	realMin uint64
	modMin  int64
	cbTx    *types.Tx
	paramMu sync.Mutex
	paramOk bool
	curIv   int64
	curEp   int64
	curFed  int
)

func mkKeys(seed int64) {
	r := rand.New(rand.NewSource(seed*7919 + 13))
	var xs []chainkd.XPub
	for i := 0; i < maxKeys+maxFed; i++ {
		sd := make([]byte, 32)
		r.Read(sd)
		xs = append(xs, chainkd.RootXPrv(sd).XPub())
		if i >= maxKeys {
			fedPrv = append(fedPrv, chainkd.RootXPrv(sd))
		}
	}
	// federation keys: the last four, deliberately NOT in sorted order of any kind
	fedKeys = xs[maxKeys:]
	cand := xs[:maxKeys]
	sort.Slice(cand, func(i, j int) bool { return cand[i].String() < cand[j].String() })
	rankOf = map[string]int{}
	for i, x := range cand {
		keyHex = append(keyHex, x.String())
		b := make([]byte, len(x))
		copy(b, x[:])
		keyRaw = append(keyRaw, b)
		rankOf[x.String()] = i + 1
	}
	for i, x := range fedKeys {
		rankOf[x.String()] = -(i + 1)
	}
}

// conc maps a model amount to a real one: a = k*modMin + e  ->  k*realMin + e.
func conc(a int64) uint64 {
	k := (a + modMin/2) / modMin
	e := a - k*modMin
	return uint64(int64(uint64(k)*realMin) + e)
}

// abst is the inverse projection (real -> model); ok=false if not in the image.
func abst(v uint64) (int64, bool) {
	k := (v + realMin/2) / realMin
	e := int64(v - k*realMin)
	if e > modMin/2-1 || e < -(modMin/2-1) {
		return 0, false
	}
	return int64(k)*modMin + e, true
}

func setParams(o *obs) {
	paramMu.Lock()
	defer paramMu.Unlock()
	if paramOk {
		if o.Interval != curIv || o.Epoch != curEp || o.NFed != curFed || o.Min != modMin {
			vh.Fatal("exported constants change inside one file")
		}
		return
	}
	if o.NFed > maxFed || o.NFed < 1 {
		vh.Fatal("nfed %d unsupported", o.NFed)
	}
	curIv, curEp, curFed, modMin = o.Interval, o.Epoch, o.NFed, o.Min
	consensus.ActiveNetParams.Name = "main"
	consensus.ActiveNetParams.BlockTimeInterval = uint64(o.Interval)
	consensus.ActiveNetParams.BlocksOfEpoch = uint64(o.Epoch)
	consensus.ActiveNetParams.MinValidatorVoteNum = realMin
	consensus.ActiveNetParams.FederationXpubs = append([]chainkd.XPub{}, fedKeys[:o.NFed]...)
	paramOk = true
}

var txCache sync.Map

func eventTx(e event) *types.Tx {
	ck := fmt.Sprintf("%s/%d/%d", e.Kind, e.Key, e.Amt)
	if t, ok := txCache.Load(ck); ok {
		return t.(*types.Tx)
	}
	amt := conc(e.Amt)
	pk := keyRaw[e.Key-1]
	var tx *types.Tx
	prog := []byte{0x51}
	if e.Kind == "vote" {
		tx = types.NewTx(types.TxData{Version: 1,
			Inputs:  []*types.TxInput{types.NewSpendInput(nil, bc.NewHash([32]byte{byte(e.Key), 1}), *consensus.BTMAssetID, amt, 0, prog, nil)},
			Outputs: []*types.TxOutput{types.NewVoteOutput(*consensus.BTMAssetID, amt, prog, pk, nil)}})
	} else {
		tx = types.NewTx(types.TxData{Version: 1,
			Inputs:  []*types.TxInput{types.NewVetoInput(nil, bc.NewHash([32]byte{byte(e.Key), 2}), *consensus.BTMAssetID, amt, 0, prog, pk, nil)},
			Outputs: []*types.TxOutput{types.NewOriginalTxOutput(*consensus.BTMAssetID, amt, prog, nil)}})
	}
	txCache.Store(ck, tx)
	return tx
}

type failure struct{ sig, desc string }

func projAll(vs []*state.Validator) ([]val, bool) {
	out := []val{}
	for _, v := range vs {
		a, ok := abst(v.VoteNum)
		r, ok2 := rankOf[v.PubKey]
		if !ok || !ok2 {
			return nil, false
		}
		out = append(out, val{Key: r, Votes: a})
	}
	return out, true
}

func hasTie(vs []val) bool {
	for i := range vs {
		for j := range vs {
			if i != j && vs[i].Votes == vs[j].Votes {
				return true
			}
		}
	}
	return false
}

// compare the checkpoint's answers with the expected (all, eff, sched); reps times.
func compare(cp *state.Checkpoint, all []val, eff []val, sched []slot, reps int, where string) *failure {
	start := cp.Timestamp + consensus.ActiveNetParams.BlockTimeInterval
	tie := ""
	if hasTie(all) {
		tie = ":tie"
	}
	for r := 0; r < reps; r++ {
		got, ok := projAll(cp.AllValidators())
		if !ok {
			return &failure{"all:foreign" + where, "AllValidators returned a key or amount outside the case"}
		}
		if len(got) != len(all) {
			return &failure{"all:set" + where, fmt.Sprintf("AllValidators has %d entries, specification %d: got %v want %v", len(got), len(all), got, all)}
		}
		for i := range got {
			if got[i].Key != all[i].Key || got[i].Votes != all[i].Votes {
				same := map[int]bool{}
				for _, x := range all {
					same[x.Key] = true
				}
				cls := "order"
				for _, x := range got {
					if !same[x.Key] {
						cls = "set"
					}
				}
				return &failure{"all:" + cls + tie + where, fmt.Sprintf("AllValidators (rep %d) got %v want %v", r, got, all)}
			}
		}
		em := cp.EffectiveValidators()
		if len(em) != len(eff) {
			return &failure{"eff:count" + where, fmt.Sprintf("EffectiveValidators has %d entries, specification %d (want %v)", len(em), len(eff), eff)}
		}
		for _, x := range eff {
			var pk string
			if x.Key < 0 {
				pk = fedKeys[-x.Key-1].String()
			} else {
				pk = keyHex[x.Key-1]
			}
			v, ok := em[pk]
			if !ok {
				return &failure{"eff:set" + tie + where, fmt.Sprintf("EffectiveValidators lacks key rank %d (want %v)", x.Key, eff)}
			}
			if v.PubKey != pk {
				return &failure{"eff:key" + where, "validator stored under a different key"}
			}
			if v.Order != x.Order {
				return &failure{"eff:order" + tie + where, fmt.Sprintf("EffectiveValidators (rep %d): key rank %d has order %d, specification %d (want %v)", r, x.Key, v.Order, x.Order, eff)}
			}
			if x.Key > 0 {
				if a, ok := abst(v.VoteNum); !ok || a != x.Votes {
					return &failure{"eff:votes" + where, fmt.Sprintf("key rank %d vote num %d, specification %d(model)", x.Key, v.VoteNum, x.Votes)}
				}
			}
		}
		for i, s := range sched {
			if i%5 != r%5 {
				continue
			}
			v := cp.GetValidator(start + uint64(s.Dt))
			if v == nil {
				return &failure{"slot:none" + where, fmt.Sprintf("GetValidator(start+%d) returned nil with %d validators", s.Dt, len(eff))}
			}
			if rk := rankOf[v.PubKey]; rk != s.Key || v.Order != s.Order {
				return &failure{"slot:owner" + tie + where, fmt.Sprintf("GetValidator(start+%d) = key rank %d order %d, specification key %d order %d (validators %v)", s.Dt, rk, v.Order, s.Key, s.Order, eff)}
			}
		}
	}
	return nil
}

func tallyOf(cp *state.Checkpoint, n int) ([]int64, bool) {
	out := make([]int64, n)
	for k, v := range cp.Votes {
		r, ok := rankOf[k]
		if !ok || r < 1 || r > n {
			return nil, false
		}
		if v == 0 {
			continue
		}
		a, ok := abst(v)
		if !ok {
			return nil, false
		}
		out[r-1] = a
	}
	return out, true
}

func eqTally(a, b []int64) bool {
	if len(a) != len(b) {
		return false
	}
	for i := range a {
		if a[i] != b[i] {
			return false
		}
	}
	return true
}

func mkBlock(cp *state.Checkpoint, height uint64, ts uint64, txs []*types.Tx) *types.Block {
	return &types.Block{
		BlockHeader:  types.BlockHeader{Version: 1, Height: height, PreviousBlockHash: cp.Hash, Timestamp: ts},
		Transactions: append([]*types.Tx{cbTx}, txs...),
	}
}

func genesisCp(r *rand.Rand) *state.Checkpoint {
	var h [32]byte
	r.Read(h[:])
	return &state.Checkpoint{Height: 0, Hash: bc.NewHash(h), Timestamp: 1600000000000 + uint64(r.Intn(1<<30)),
		Status: state.Justified, Votes: map[string]uint64{}, Rewards: map[string]uint64{}}
}

// runCase executes one exported document; returns a failure or nil.
func runCase(d *doc, r *rand.Rand, reps int) (f *failure) {
	defer func() {
		if p := recover(); p != nil {
			f = &failure{"panic", fmt.Sprintf("panic: %v", p)}
		}
	}()
	o := &d.Obs
	E := uint64(o.Epoch)
	iv := uint64(o.Interval)
	n := len(o.Tally)
	if len(d.Calls) > 0 {
		// (a) one block per event, epochs of E blocks, NewCheckpoint at every epoch start
		cp := genesisCp(r)
		lastKind := "init"
		for i, e := range d.Calls {
			h := uint64(i + 1)
			if h%E == 1 || E == 1 {
				cp = state.NewCheckpoint(cp)
			}
			b := mkBlock(cp, h, cp.Timestamp+iv*uint64(1+r.Intn(3)), []*types.Tx{eventTx(e)})
			if err := cp.Increase(b); err != nil {
				return &failure{"increase:error", "Increase rejected a block extending the checkpoint: " + err.Error()}
			}
			if cp.Height != h || cp.Hash != b.Hash() || cp.Timestamp != b.Timestamp {
				return &failure{"increase:header", "checkpoint height/hash/timestamp not those of the applied block"}
			}
			lastKind = e.Kind
		}
		got, ok := tallyOf(cp, n)
		if !ok || !eqTally(got, o.Tally) {
			return &failure{"tally:" + lastKind, fmt.Sprintf("vote tally after %v: got %v (raw %v) specification %v", d.Calls, got, cp.Votes, o.Tally)}
		}
		if (cp.Status != state.Growing) != o.Done {
			return &failure{"status", fmt.Sprintf("status %d at height %d, specification done=%v", cp.Status, cp.Height, o.Done)}
		}
		if f := compare(cp, o.AllNow, o.EffNow, o.SchedNow, reps, ""); f != nil {
			return f
		}
		// (c) the same events as separate transactions of ONE block closing an epoch
		cp2 := state.NewCheckpoint(genesisCp(r))
		var txs []*types.Tx
		for _, e := range d.Calls {
			txs = append(txs, eventTx(e))
		}
		b := mkBlock(cp2, E*uint64(1+r.Intn(3)), cp2.Timestamp+iv, txs)
		if err := cp2.Increase(b); err != nil {
			return &failure{"increase:error", "Increase rejected a block extending the checkpoint: " + err.Error()}
		}
		got, ok = tallyOf(cp2, n)
		if !ok || !eqTally(got, o.Tally) {
			return &failure{"tally:" + lastKind + ":oneblock", fmt.Sprintf("vote tally after one block with %v: got %v specification %v", d.Calls, got, o.Tally)}
		}
		if cp2.Status == state.Growing {
			return &failure{"status", "checkpoint still growing after the last block of the epoch"}
		}
		if f := compare(cp2, o.AllDone, o.EffDone, o.SchedDone, 3, ":oneblock"); f != nil {
			return f
		}
		// next epoch's checkpoint inherits the tally
		cp3 := state.NewCheckpoint(cp2)
		got, ok = tallyOf(cp3, n)
		if !ok || !eqTally(got, o.Tally) {
			return &failure{"tally:inherit", fmt.Sprintf("NewCheckpoint did not inherit the tally: got %v specification %v", got, o.Tally)}
		}
	}
	// (b) the tally written directly into a completed checkpoint (map insertion order random)
	cp := genesisCp(r)
	cp.Status = []state.CheckpointStatus{state.Unjustified, state.Justified, state.Finalized}[r.Intn(3)]
	for _, i := range r.Perm(n) {
		if o.Tally[i] != 0 {
			cp.Votes[keyHex[i]] = conc(o.Tally[i])
		} else if r.Intn(2) == 0 {
			cp.Votes[keyHex[i]] = 0
		}
	}
	if f := compare(cp, o.AllDone, o.EffDone, o.SchedDone, reps, ":direct"); f != nil {
		return f
	}
	if len(d.Calls) == 0 && n > 0 {
		// many-candidate cases additionally through Increase: one vote transaction per key
		cp2 := state.NewCheckpoint(genesisCp(r))
		var txs []*types.Tx
		for _, i := range r.Perm(n) {
			if o.Tally[i] != 0 {
				txs = append(txs, eventTx(event{"vote", i + 1, o.Tally[i]}))
			}
		}
		if err := cp2.Increase(mkBlock(cp2, E, cp2.Timestamp+iv, txs)); err != nil {
			return &failure{"increase:error", err.Error()}
		}
		if f := compare(cp2, o.AllDone, o.EffDone, o.SchedDone, 3, ":oneblock"); f != nil {
			return f
		}
	}
	return nil
}

func main() {
	vh.Quiet()
	if len(os.Args) < 3 {
		vh.Fatal("usage: c15 replay|chain <exports> [minreal]")
	}
	seed := vh.Seed()
	mkKeys(seed)
	switch os.Args[1] {
	case "replay":
		replayCmd(seed)
	case "chain":
		chainCmd(seed)
	default:
		vh.Fatal("unknown command %s", os.Args[1])
	}
}

func replayCmd(seed int64) {
	realMin = consensus.MainNetParams.MinValidatorVoteNum
	if len(os.Args) > 3 {
		v, err := strconv.ParseUint(os.Args[3], 10, 64)
		if err != nil || v < 1000 {
			vh.Fatal("bad minreal")
		}
		realMin = v
	}
	cbTx = types.NewTx(types.TxData{Version: 1,
		Inputs:  []*types.TxInput{types.NewCoinbaseInput([]byte{0, 1})},
		Outputs: []*types.TxOutput{types.NewOriginalTxOutput(*consensus.BTMAssetID, 0, []byte{0x51}, nil)}})
	const W = 8
	ch := make(chan *doc, 256)
	var wg sync.WaitGroup
	var cases, steps, ties, manykeys, feds int64
	distinct := sync.Map{}
	var ndist int64
	var sampleMu sync.Mutex
	nsample := 0
	for w := 0; w < W; w++ {
		wg.Add(1)
		go func(w int) {
			defer wg.Done()
			r := rand.New(rand.NewSource(seed*1000 + int64(w)))
			for d := range ch {
				if vh.TooMany() {
					continue
				}
				f := runCase(d, r, 20)
				atomic.AddInt64(&cases, 1)
				atomic.AddInt64(&steps, int64(len(d.Calls)))
				if hasTie(d.Obs.AllDone) {
					atomic.AddInt64(&ties, 1)
				}
				if len(d.Obs.Tally) > 10 {
					atomic.AddInt64(&manykeys, 1)
				}
				if len(d.Obs.EffDone) > 0 && d.Obs.EffDone[0].Key < 0 {
					atomic.AddInt64(&feds, 1)
				}
				key := fmt.Sprint(d.Obs.Tally, d.Obs.Height%int(d.Obs.Epoch))
				if _, dup := distinct.LoadOrStore(key, true); !dup {
					atomic.AddInt64(&ndist, 1)
				}
				if f != nil {
					vh.Violation(f.sig, f.desc, d)
				} else if len(d.Calls) >= 3 || len(d.Obs.Tally) > 10 {
					sampleMu.Lock()
					if nsample < 2 && r.Intn(50) == 0 {
						nsample++
						vh.Sample(map[string]interface{}{"calls": d.Calls, "tally": d.Obs.Tally, "effective": d.Obs.EffDone, "all": d.Obs.AllDone})
					}
					sampleMu.Unlock()
				}
			}
		}(w)
	}
	_, err := vh.EachExport(os.Args[2], func(idx int, raw []byte) error {
		d := &doc{}
		if err := json.Unmarshal(raw, d); err != nil {
			return err
		}
		setParams(&d.Obs)
		ch <- d
		return nil
	})
	close(ch)
	wg.Wait()
	if err != nil {
		vh.Fatal("reading exports: %v", err)
	}
	vh.Summary(map[string]interface{}{"cases": cases, "steps": steps, "with_ties": ties, "many_keys": manykeys,
		"federation_cases": feds, "distinct_tallies": ndist, "realmin": realMin, "reps": 20,
		"fed0": hex.EncodeToString(fedKeys[0][:4])})
}
