// c18 rules: replays the case table of specs/chain/SlashRules.tla against the real finality
// engine. Each case is a synthetic engine state (a checkpoint tree with two branches, real headers
// and checkpoint records in a real database.Store, the voter's earlier verifications recorded with
// real signatures in the checkpoints and headers) plus one new verification message; the real
// casper.AuthVerification must admit / refuse / ignore it exactly as the specification says.
//
//	c18 rules <tlc-output>
package main

import (
	"encoding/json"
	"fmt"
	"os"
	"time"

	"github.com/bytom/bytom/database"
	"github.com/bytom/bytom/event"
	"github.com/bytom/bytom/protocol/bc"
	"github.com/bytom/bytom/protocol/bc/types"
	"github.com/bytom/bytom/protocol/casper"
	"github.com/bytom/bytom/protocol/state"

	"verifharness/internal/memkv"
	"verifharness/internal/node"
	"verifharness/internal/vh"
)

type lnk struct {
	S int `json:"s"`
	T int `json:"t"`
}
type kase struct {
	Old     []lnk  `json:"old"`
	New     lnk    `json:"new"`
	Verdict string `json:"verdict"`
	LenA    int    `json:"lenA"`
	LenB    int    `json:"lenB"`
}

const voter = 1

func depth(c kase, id int) int {
	if id == 0 {
		return 0
	}
	if id <= c.LenA {
		return id
	}
	return id - c.LenA
}
func par(c kase, id int) int {
	if id == 0 || id == 1 || id == c.LenA+1 {
		return 0
	}
	return id - 1
}

func run(c kase) (string, string) {
	n := c.LenA + c.LenB
	hdrs := make([]*types.BlockHeader, n+1)
	hash := make([]bc.Hash, n+1)
	for id := 0; id <= n; id++ {
		hdrs[id] = &types.BlockHeader{Version: 1, Height: uint64(2 * depth(c, id)), Timestamp: uint64(1600000000000 + id*1000),
			PreviousBlockHash: bc.Hash{V0: uint64(7000 + id)}}
		hash[id] = hdrs[id].Hash()
	}
	cps := make([]*state.Checkpoint, n+1)
	for id := 0; id <= n; id++ {
		cps[id] = &state.Checkpoint{Height: hdrs[id].Height, Hash: hash[id], ParentHash: hash[par(c, id)], Timestamp: hdrs[id].Timestamp,
			Status: state.Unjustified, Votes: map[string]uint64{}, Rewards: map[string]uint64{}}
	}
	cps[0].Status = state.Justified
	cps[0].ParentHash = bc.Hash{}
	for _, l := range c.Old {
		sig := node.SignVote(voter, hash[l.S], hash[l.T], true).Signature
		hdrs[l.T].SupLinks.AddSupLink(hdrs[l.S].Height, hash[l.S], sig, voter)
		cps[l.T].AddVerification(hash[l.S], hdrs[l.S].Height, voter, sig)
	}
	store := database.NewStore(memkv.New())
	for id := 0; id <= n; id++ {
		if err := store.SaveBlockHeader(hdrs[id]); err != nil {
			vh.Fatal("save header: %v", err)
		}
	}
	if err := store.SaveCheckpoints(cps); err != nil {
		vh.Fatal("save checkpoints: %v", err)
	}
	cs := casper.NewCasper(store, event.NewDispatcher(), cps)
	msg := node.SignVote(voter, hash[c.New.S], hash[c.New.T], true)
	var err error
	var pan interface{}
	done := make(chan struct{})
	go func() {
		defer close(done)
		defer func() { pan = recover() }()
		err = cs.AuthVerification(msg)
	}()
	select {
	case <-done:
	case <-time.After(10 * time.Second):
		return "blocked", "AuthVerification did not return"
	}
	if pan != nil {
		return "panic", fmt.Sprint(pan)
	}
	recorded := false
	for _, tn := range cs.VerifTree() {
		if tn.Hash == hash[c.New.T] {
			for _, o := range tn.Links[hash[c.New.S]] {
				if o == voter {
					recorded = true
				}
			}
		}
	}
	switch {
	case err != nil && !recorded:
		return "refused", err.Error()
	case err != nil && recorded:
		return "refused-but-recorded", err.Error()
	case recorded:
		for _, l := range c.Old {
			if l == c.New {
				return "dup", ""
			}
		}
		return "admitted", ""
	default:
		return "ignored", ""
	}
}

// class names the structural situation of the case (part of the violation signature)
func class(c kase) string {
	isAnc := func(a, b int) bool {
		for x := b; ; x = par(c, x) {
			if x == a {
				return true
			}
			if x == 0 {
				return a == 0
			}
		}
	}
	cl := "none"
	for _, o := range c.Old {
		rel := ""
		switch {
		case depth(c, o.T) == depth(c, c.New.T) && o.T != c.New.T:
			rel = "same-height"
		case depth(c, o.S) < depth(c, c.New.S) && depth(c, c.New.T) < depth(c, o.T):
			rel = "old-surrounds-new"
		case depth(c, c.New.S) < depth(c, o.S) && depth(c, o.T) < depth(c, c.New.T):
			rel = "new-surrounds-old"
		default:
			continue
		}
		where := "within-source-subtree"
		if !isAnc(c.New.S, o.T) {
			where = "on-fork-below-source"
		}
		cl = rel + ":" + where
	}
	return cl
}

func main() {
	vh.Quiet()
	if len(os.Args) > 1 && os.Args[1] == "sets" {
		setsMain()
		return
	}
	if len(os.Args) < 3 || os.Args[1] != "rules" {
		vh.Fatal("usage: c18 rules <tlc-output>")
	}
	node.Configure(node.Config{E: 2, NVal: 4, Me: -1, Interval: 1000})
	cases, byVerdict := 0, map[string]int{}
	classes := map[string]bool{}
	_, err := vh.EachExport(os.Args[2], func(idx int, raw []byte) error {
		if vh.TooMany() {
			return nil
		}
		var c kase
		if err := json.Unmarshal(raw, &c); err != nil {
			return err
		}
		cases++
		byVerdict[c.Verdict]++
		classes[c.Verdict+"/"+class(c)] = true
		got, detail := run(c)
		if got != c.Verdict {
			vh.Violation("C18:rules:"+c.Verdict+"->"+got+":"+class(c),
				fmt.Sprintf("engine state with the voter's earlier verifications %v (checkpoint ids; branch A = 1..%d, branch B = %d..%d above the root 0): new verification %d->%d is %s by the node (%s), the specification says %s",
					c.Old, c.LenA, c.LenA+1, c.LenA+c.LenB, c.New.S, c.New.T, got, detail, c.Verdict),
				map[string]interface{}{"engine": "c18-rules", "case": c, "prop": "C18"})
		}
		if idx%1500 == 3 {
			vh.Sample(c)
		}
		return nil
	})
	if err != nil {
		vh.Fatal("%v", err)
	}
	vh.Summary(map[string]interface{}{"cases": cases, "admitted": byVerdict["admitted"], "refused": byVerdict["refused"], "dup": byVerdict["dup"], "distinct": len(classes)})
}
