// c18 sets: replays every transition of specs/chain/ValidatorSets.tla (who may vote for a checkpoint
// when the validator set changes from epoch to epoch, property C17) against the real finality
// engine on a real database.Store: real blocks whose vote / veto transactions change the
// validator table, real signatures in header slots and verification messages, restarts from the
// stored records.
//
//	c18 sets <tlc-output> <workers>
package main

import (
	"bytes"
	"encoding/hex"
	"encoding/json"
	"fmt"
	"os"
	"sort"
	"strconv"
	"sync"
	"time"

	"golang.org/x/crypto/sha3"

	"github.com/bytom/bytom/config"
	"github.com/bytom/bytom/consensus"
	"github.com/bytom/bytom/crypto/ed25519/chainkd"
	"github.com/bytom/bytom/database"
	"github.com/bytom/bytom/event"
	"github.com/bytom/bytom/protocol/bc"
	"github.com/bytom/bytom/protocol/bc/types"
	"github.com/bytom/bytom/protocol/casper"
	"github.com/bytom/bytom/protocol/state"

	"verifharness/internal/memkv"
	"verifharness/internal/vh"
)

type carEntry struct {
	Slot int `json:"slot"`
	Key  int `json:"key"`
}
type setsCall struct {
	Op  string     `json:"op"`
	T   int        `json:"t"`
	Car []carEntry `json:"car"`
	Key int        `json:"key"`
	Err bool       `json:"err"`
}
type setsObs struct {
	Status map[string]string `json:"status"`
	Links  []struct {
		T    int `json:"t"`
		Slot int `json:"slot"`
	} `json:"links"`
	Have int `json:"have"`
}
type setsDoc struct {
	Ev    [][]int `json:"ev"`
	Steps []struct {
		Call setsCall `json:"call"`
		Obs  setsObs  `json:"obs"`
	} `json:"steps"`
}

const setsE = 2

var setsKeys = map[int]chainkd.XPrv{}

func setsKey(id int) chainkd.XPrv {
	if k, ok := setsKeys[id]; ok {
		return k
	}
	k, err := chainkd.NewXPrv(bytes.NewReader(bytes.Repeat([]byte{byte(40 + id)}, 64)))
	if err != nil {
		vh.Fatal("key: %v", err)
	}
	setsKeys[id] = k
	return k
}

func setsPub(id int) string { k := setsKey(id); return k.XPub().String() }

func setsSign(id int, s, t bc.Hash) []byte {
	buf := new(bytes.Buffer)
	s.WriteTo(buf)
	t.WriteTo(buf)
	msg := sha3.Sum256(buf.Bytes())
	k := setsKey(id)
	return k.Sign(msg[:])
}

// amount of the key at position i of the table established by checkpoint k: later tables are strictly higher
func setsAmount(k, i int) uint64 { return uint64((k+1)*20000 - 1000*i) }

type setsEnv struct {
	kv    *memkv.DB
	store *database.Store
	cs    *casper.Casper
	hash  [3]bc.Hash // R, C1, C2
	prev  *types.Block
	cur   map[int]uint64 // key -> votes in the table so far
}

func (e *setsEnv) start(height uint64, root bc.Hash) error {
	e.store = database.NewStore(e.kv)
	cps, err := e.store.CheckpointsFromNode(height, &root)
	if err != nil {
		return err
	}
	e.cs = casper.NewCasper(e.store, event.NewDispatcher(), cps)
	cs := e.cs
	go func() {
		for m := range cs.RollbackCh() {
			m.Reply <- nil
		}
	}()
	return nil
}

type setsDiv struct {
	step      int
	what, msg string
}

var statusNames = map[state.CheckpointStatus]string{state.Growing: "G", state.Unjustified: "U", state.Justified: "J", state.Finalized: "F"}

func setsReplay(d setsDoc) (dv *setsDiv) {
	step := -1
	defer func() {
		if p := recover(); p != nil {
			dv = &setsDiv{step, "panic", fmt.Sprintf("the engine panicked: %v", p)}
		}
	}()
	e := &setsEnv{kv: memkv.New(), cur: map[int]uint64{}}
	e.store = database.NewStore(e.kv)
	genesis := &types.Block{BlockHeader: types.BlockHeader{Version: 1, Height: 0, Timestamp: 1600000000000}}
	if err := e.store.SaveBlock(genesis); err != nil {
		vh.Fatal("save genesis: %v", err)
	}
	rootVotes := map[string]uint64{}
	for i, k := range d.Ev[0] {
		rootVotes[setsPub(k)] = setsAmount(0, i)
		e.cur[k] = setsAmount(0, i)
	}
	root := &state.Checkpoint{Height: 0, Hash: genesis.Hash(), Timestamp: genesis.Timestamp, Status: state.Justified,
		Rewards: map[string]uint64{}, Votes: rootVotes}
	if err := e.store.SaveCheckpoints([]*state.Checkpoint{root}); err != nil {
		vh.Fatal("save root: %v", err)
	}
	for i, k := range d.Ev[0] {
		if v := root.EffectiveValidators()[setsPub(k)]; v == nil || v.Order != i {
			vh.Fatal("setup: key %d has not order %d in the root's table", k, i)
		}
	}
	e.hash[0] = genesis.Hash()
	e.prev = genesis
	if err := e.start(0, e.hash[0]); err != nil {
		vh.Fatal("start: %v", err)
	}
	for i, st := range d.Steps {
		step = i
		c := st.Call
		what := ""
		switch c.Op {
		case "blocks":
			t := c.T
			// first block of the epoch: the transaction that turns table t-1 into table t
			var ins []*types.TxInput
			var outs []*types.TxOutput
			ins = append(ins, types.NewSpendInput(nil, bc.Hash{V0: uint64(100 + t)}, *consensus.BTMAssetID, 1000000, 0, []byte{0x51}, nil))
			next := map[int]uint64{}
			for i, k := range d.Ev[t] {
				next[k] = setsAmount(t, i)
			}
			var ks []int
			for k := range e.cur {
				ks = append(ks, k)
			}
			sort.Ints(ks)
			for _, k := range ks {
				if _, stay := next[k]; !stay {
					vote, _ := hex.DecodeString(setsPub(k))
					ins = append(ins, types.NewVetoInput(nil, bc.Hash{V0: uint64(1000*t + k)}, *consensus.BTMAssetID, e.cur[k], 0, []byte{0x51}, vote, nil))
				}
			}
			for _, k := range d.Ev[t] {
				vote, _ := hex.DecodeString(setsPub(k))
				outs = append(outs, types.NewVoteOutput(*consensus.BTMAssetID, next[k]-e.cur[k], []byte{0x51}, vote, nil))
			}
			e.cur = next
			voteTx := types.NewTx(types.TxData{Version: 1, Inputs: ins, Outputs: outs})
			for h := uint64(setsE*(t-1) + 1); h <= uint64(setsE*t); h++ {
				b := &types.Block{BlockHeader: types.BlockHeader{Version: 1, Height: h, PreviousBlockHash: e.prev.Hash(),
					Timestamp: e.prev.Timestamp + consensus.ActiveNetParams.BlockTimeInterval}}
				cb := types.NewTx(types.TxData{Version: 1, Inputs: []*types.TxInput{types.NewCoinbaseInput([]byte{byte(h)})},
					Outputs: []*types.TxOutput{types.NewOriginalTxOutput(*consensus.BTMAssetID, 0, []byte{0x51}, nil)}})
				b.Transactions = []*types.Tx{cb}
				if h == uint64(setsE*(t-1)+1) {
					b.Transactions = append(b.Transactions, voteTx)
				}
				if h == uint64(setsE*t) {
					e.hash[t] = b.Hash()
					for _, ce := range c.Car {
						b.SupLinks.AddSupLink(uint64(setsE*(t-1)), e.hash[t-1], setsSign(ce.Key, e.hash[t-1], e.hash[t]), ce.Slot)
					}
				}
				_, err := e.cs.ApplyBlock(b)
				if err == nil {
					err = e.store.SaveBlock(b)
				}
				if (err != nil) != c.Err {
					return &setsDiv{i, "blocks-ret", fmt.Sprintf("block %d of epoch %d (header entries slot:key %v): err=%v, the specification says err=%v", h, t, c.Car, err, c.Err)}
				}
				e.prev = b
			}
			what = fmt.Sprintf("the blocks of epoch %d (checkpoint header entries slot:key %v)", t, c.Car)
			// the table the new checkpoint establishes must be the one the scenario intends
			cp, err := e.store.GetCheckpoint(&e.hash[t])
			if err != nil {
				return &setsDiv{i, "checkpoint-missing", "after " + what + ": no stored checkpoint record"}
			}
			ev := cp.EffectiveValidators()
			for i, k := range d.Ev[t] {
				if v := ev[setsPub(k)]; v == nil || v.Order != i || len(ev) != len(d.Ev[t]) {
					vh.Fatal("setup: checkpoint %d does not establish the intended validator table %v (key %d)", t, d.Ev[t], k)
				}
			}
		case "vote":
			msg := &casper.ValidCasperSignMsg{SourceHash: e.hash[c.T-1], TargetHash: e.hash[c.T], PubKey: setsPub(c.Key),
				Signature: setsSign(c.Key, e.hash[c.T-1], e.hash[c.T])}
			var err error
			done := make(chan interface{}, 1)
			go func() {
				defer func() { done <- recover() }()
				err = e.cs.AuthVerification(msg)
			}()
			select {
			case p := <-done:
				if p != nil {
					return &setsDiv{i, "vote-panic", fmt.Sprintf("AuthVerification(key %d, %d->%d) panicked: %v", c.Key, c.T-1, c.T, p)}
				}
			case <-time.After(20 * time.Second):
				return &setsDiv{i, "vote-blocked", fmt.Sprintf("AuthVerification(key %d, %d->%d) did not return", c.Key, c.T-1, c.T)}
			}
			what = fmt.Sprintf("AuthVerification(key %d, link %d->%d)", c.Key, c.T-1, c.T)
			if (err != nil) != c.Err {
				return &setsDiv{i, "vote-ret", fmt.Sprintf("%s returned err=%v, the specification says err=%v (validators of the parent epoch: %v)", what, err, c.Err, d.Ev[c.T-1])}
			}
		case "restart":
			h, hash := e.cs.LastFinalized()
			if err := e.start(h, hash); err != nil {
				return &setsDiv{i, "restart-fails", "restart from the stored records: " + err.Error()}
			}
			what = "a restart"
		default:
			vh.Fatal("unknown op %q", c.Op)
		}
		// ---- compare with the specification
		want := map[int]map[int]bool{1: {}, 2: {}}
		for _, l := range st.Obs.Links {
			want[l.T][l.Slot] = true
		}
		inTree := map[bc.Hash]casper.VerifNode{}
		for _, tn := range e.cs.VerifTree() {
			inTree[tn.Hash] = tn
		}
		rootWant, justWant := 0, 0
		for cs, w := range st.Obs.Status {
			ci, _ := strconv.Atoi(cs)
			if w == "F" && ci > rootWant {
				rootWant = ci
			}
			if (w == "J" || w == "F") && ci > justWant {
				justWant = ci
			}
		}
		for cs, w := range st.Obs.Status {
			ci, _ := strconv.Atoi(cs)
			if w == "N" {
				continue
			}
			cp, err := e.store.GetCheckpoint(&e.hash[ci])
			if err != nil {
				return &setsDiv{i, "checkpoint-missing", fmt.Sprintf("after %s: no stored record of checkpoint %d", what, ci)}
			}
			if got := statusNames[cp.Status]; got != w {
				return &setsDiv{i, "status:" + w + "->" + got, fmt.Sprintf("after %s: stored checkpoint %d has status %s, the specification says %s (validators of its parent epoch %v, admitted slots %v)", what, ci, got, w, d.Ev[max0(ci-1)], keysOf(want[ci]))}
			}
			tn, ok := inTree[e.hash[ci]]
			if !ok {
				if ci >= rootWant {
					return &setsDiv{i, "tree-missing", fmt.Sprintf("after %s: checkpoint %d is not in the engine's tree", what, ci)}
				}
				continue
			}
			if got := statusNames[tn.Status]; got != w {
				return &setsDiv{i, "treestatus:" + w + "->" + got, fmt.Sprintf("after %s: in-memory checkpoint %d has status %s, the specification says %s", what, ci, got, w)}
			}
			if ci == 0 || ci <= rootWant {
				continue
			}
			got := map[int]bool{}
			for src, orders := range tn.Links {
				for _, o := range orders {
					if src != e.hash[ci-1] {
						return &setsDiv{i, "links-foreign", fmt.Sprintf("after %s: checkpoint %d holds a verification from an unexpected source", what, ci)}
					}
					got[o] = true
				}
			}
			for o := range got {
				if !want[ci][o] {
					return &setsDiv{i, "links-extra", fmt.Sprintf("after %s: checkpoint %d counts a verification in slot %d, the specification does not (validators of the parent epoch %v, of the checkpoint's own epoch %v)", what, ci, o, d.Ev[ci-1], d.Ev[ci])}
				}
			}
			for o := range want[ci] {
				if !got[o] {
					return &setsDiv{i, "links-missing", fmt.Sprintf("after %s: the specification admits the verification in slot %d of checkpoint %d (key %d, a validator of the parent epoch), the engine does not hold it", what, o, ci, d.Ev[ci-1][o])}
				}
			}
			// what a restart would rebuild the links from
			hd, err := e.store.GetBlockHeader(&e.hash[ci])
			if err != nil {
				return &setsDiv{i, "header-missing", fmt.Sprintf("after %s: no stored header of checkpoint %d", what, ci)}
			}
			for _, l := range hd.SupLinks {
				for o, s := range l.Signatures {
					if len(s) != 0 && !want[ci][o] {
						return &setsDiv{i, "header-extra", fmt.Sprintf("after %s: the stored header of checkpoint %d keeps a signature in slot %d that the specification does not admit (it would count after a restart)", what, ci, o)}
					}
				}
			}
		}
		if _, fh := e.cs.LastFinalized(); fh != e.hash[rootWant] {
			return &setsDiv{i, "finalized", fmt.Sprintf("after %s: the last finalized checkpoint is not checkpoint %d", what, rootWant)}
		}
		if jh, _ := e.cs.LastJustified(); jh != uint64(setsE*justWant) {
			return &setsDiv{i, "justified", fmt.Sprintf("after %s: the last justified height is %d, the specification says %d", what, jh, setsE*justWant)}
		}
	}
	return nil
}

func max0(a int) int {
	if a < 0 {
		return 0
	}
	return a
}

func keysOf(m map[int]bool) []int {
	var r []int
	for k := range m {
		r = append(r, k)
	}
	sort.Ints(r)
	return r
}

func setsMain() {
	if len(os.Args) < 4 {
		vh.Fatal("usage: c18 sets <tlc-output> <workers>")
	}
	nw, _ := strconv.Atoi(os.Args[3])
	if nw < 1 {
		nw = 1
	}
	p := consensus.SoloNetParams
	p.Name = "test"
	p.BlocksOfEpoch = setsE
	p.MinValidatorVoteNum = 1000
	consensus.ActiveNetParams = p
	config.CommonConfig = config.DefaultConfig()
	outside, _ := chainkd.NewXPrv(bytes.NewReader(bytes.Repeat([]byte{201}, 64)))
	config.CommonConfig.XPrv = &outside
	for k := 1; k <= 9; k++ {
		setsKey(k)
	}
	type job struct {
		idx int
		d   setsDoc
	}
	jobs := make(chan job, 256)
	var wg sync.WaitGroup
	var mu sync.Mutex
	cases, calls := 0, 0
	classes := map[string]bool{}
	for w := 0; w < nw; w++ {
		wg.Add(1)
		go func() {
			defer wg.Done()
			for j := range jobs {
				dv := setsReplay(j.d)
				mu.Lock()
				cases++
				calls += len(j.d.Steps)
				last := j.d.Steps[len(j.d.Steps)-1]
				classes[fmt.Sprintf("%s/%v/%d/%d", last.Call.Op, last.Call.Err, len(last.Obs.Links), len(j.d.Ev[0]))] = true
				mu.Unlock()
				if dv != nil {
					vh.Violation("C17:sets:"+j.d.Steps[dv.step].Call.Op+":"+dv.what, dv.msg+fmt.Sprintf(" [validator tables of the three epochs %v]", j.d.Ev),
						map[string]interface{}{"engine": "c18-sets", "case": j.d, "diverges_at": dv.step, "prop": "C17"})
				}
				if j.idx%5000 == 7 {
					vh.Sample(j.d)
				}
			}
		}()
	}
	_, err := vh.EachExport(os.Args[2], func(idx int, raw []byte) error {
		if vh.TooMany() {
			return nil
		}
		var d setsDoc
		if err := json.Unmarshal(raw, &d); err != nil {
			return err
		}
		jobs <- job{idx, d}
		return nil
	})
	close(jobs)
	wg.Wait()
	if err != nil {
		vh.Fatal("%v", err)
	}
	vh.Summary(map[string]interface{}{"cases": cases, "calls": calls, "distinct": len(classes)})
}
