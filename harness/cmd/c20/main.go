// c20: differential replay of TLC-generated call sequences of specs/periph/KVGen.tla
// against the two storage backends of database/leveldb (MemDB and GoLevelDB).
// Every call's result is compared with the value the specification requires; the
// property is violated when the two backends disagree with each other, and the
// specification tells which side is wrong.
//
//	c20 replay <exports> <dbdir> <empty|nil>   empty values passed as []byte{} or as nil
//	c20 node <dbdir>                           start a protocol.Chain on either backend
package main

import (
	"encoding/json"
	"fmt"
	"os"
	"path/filepath"
	"runtime"
	"sort"
	"strings"
	"sync"

	dbm "github.com/bytom/bytom/database/leveldb"

	"verifharness/internal/vh"
)

type bop struct {
	O  string `json:"o"`
	RK []int  `json:"k"`
	RV []int  `json:"v"`
}

type call struct {
	Op      string `json:"op"`
	K       []int  `json:"k,omitempty"`
	V       []int  `json:"v,omitempty"`
	P       []int  `json:"p,omitempty"`
	S       []int  `json:"s,omitempty"`
	NoStart bool   `json:"nostart,omitempty"`
	Ops     []bop  `json:"ops,omitempty"`
	// expected
	Found bool  `json:"found,omitempty"`
	Val   []int `json:"val,omitempty"`
	Valid bool  `json:"valid,omitempty"`
	Key   []int `json:"key,omitempty"`
	Ok    bool  `json:"ok,omitempty"`
}

// violations are reported a few times per signature (a known defect of one backend
// must not stop the exploration of everything else); all are counted.
var (
	sigMu    sync.Mutex
	sigCount = map[string]int{}
)

func report(sig, desc string, replay interface{}) {
	sigMu.Lock()
	sigCount[sig]++
	n := sigCount[sig]
	sigMu.Unlock()
	if n <= 3 {
		vh.Violation(sig, desc, replay)
	}
}

func tooManySigs() bool {
	sigMu.Lock()
	defer sigMu.Unlock()
	return len(sigCount) > 25
}

func bs(a []int) []byte {
	b := make([]byte, len(a))
	for i, x := range a {
		b[i] = byte(x)
	}
	return b
}

// obs is what one backend returned for one call, in comparable form.
type obs struct {
	Found bool   `json:"found,omitempty"`
	Ok    bool   `json:"ok,omitempty"`
	Key   string `json:"key,omitempty"`
	Val   string `json:"val,omitempty"`
}

func (o obs) String() string {
	return fmt.Sprintf("{found:%v ok:%v key:%q val:%q}", o.Found, o.Ok, o.Key, o.Val)
}

// expected observation of a call according to the specification
func want(c *call) obs {
	switch c.Op {
	case "get":
		if !c.Found {
			return obs{}
		}
		return obs{Found: true, Val: string(bs(c.Val))}
	case "iterstart":
		return obs{Key: string(bs(c.Key)), Val: string(bs(c.Val))}
	case "next":
		if !c.Ok {
			return obs{}
		}
		return obs{Ok: true, Key: string(bs(c.Key)), Val: string(bs(c.Val))}
	case "key":
		return obs{Key: string(bs(c.Key))}
	case "value":
		return obs{Val: string(bs(c.Val))}
	}
	return obs{}
}

// backend under replay
type side struct {
	name    string
	db      dbm.DB
	it      dbm.Iterator
	creator string // op that created the open iterator
	prefix  []byte
	nilVals map[string]bool // keys whose current value was written as a nil slice
}

func (s *side) val(v []int, nilEmpty bool) []byte {
	if len(v) == 0 {
		if nilEmpty {
			return nil
		}
		return []byte{}
	}
	return bs(v)
}

// exec runs one call on the backend and returns what it observed.
func (s *side) exec(c *call, nilEmpty bool) obs {
	switch c.Op {
	case "get":
		r := s.db.Get(bs(c.K))
		if r == nil {
			return obs{}
		}
		return obs{Found: true, Val: string(r)}
	case "set":
		v := s.val(c.V, nilEmpty)
		s.nilVals[string(bs(c.K))] = v == nil
		s.db.Set(bs(c.K), v)
	case "del":
		delete(s.nilVals, string(bs(c.K)))
		s.db.Delete(bs(c.K))
	case "batch":
		b := s.db.NewBatch()
		for _, o := range c.Ops {
			if o.O == "set" {
				v := s.val(o.RV, nilEmpty)
				s.nilVals[string(bs(o.RK))] = v == nil
				b.Set(bs(o.RK), v)
			} else {
				delete(s.nilVals, string(bs(o.RK)))
				b.Delete(bs(o.RK))
			}
		}
		b.Write()
	case "iterprefix":
		if s.it != nil {
			s.it.Release()
		}
		s.prefix = bs(c.P)
		s.creator = "iterprefix"
		s.it = s.db.IteratorPrefix(s.prefix)
	case "iterstart":
		if s.it != nil {
			s.it.Release()
		}
		s.prefix = bs(c.P)
		s.creator = "iterstart"
		var st []byte
		if !c.NoStart {
			st = bs(c.S)
		}
		s.it = s.db.IteratorPrefixWithStart(s.prefix, st, false)
		return obs{Key: string(s.it.Key()), Val: string(s.it.Value())}
	case "next":
		if !s.it.Next() {
			return obs{}
		}
		return obs{Ok: true, Key: string(s.it.Key()), Val: string(s.it.Value())}
	case "key":
		return obs{Key: string(s.it.Key())}
	case "value":
		return obs{Val: string(s.it.Value())}
	}
	return obs{}
}

// cause classifies a deviation of one backend from the specification (only used to
// name the failing class; the verdict is the disagreement itself).
func (s *side) cause(c *call, got, exp obs) (ctx, why string) {
	switch c.Op {
	case "get":
		if !got.Found && exp.Found && exp.Val == "" && s.nilVals[string(bs(c.K))] {
			return "get", "nil-value-reads-missing"
		}
		return "get", "value"
	case "iterstart", "next", "key", "value":
		k := got.Key
		if c.Op == "value" || (c.Op == "next" && !got.Ok) {
			k = string(s.it.Key())
		}
		if (got.Ok || c.Op != "next") && !strings.HasPrefix(k, string(s.prefix)) && k != "" {
			return s.creator, "outside-prefix"
		}
		if c.Op == "next" && got.Ok != exp.Ok {
			return s.creator, "next-result"
		}
		if got.Key == exp.Key && got.Val != exp.Val {
			cur := s.db.Get([]byte(k))
			if string(cur) == got.Val {
				return s.creator, "value-not-snapshot"
			}
			return s.creator, "value"
		}
		return s.creator, "position"
	}
	return c.Op, "result"
}

type worker struct {
	dir   string
	n     int
	ldb   *dbm.GoLevelDB
	cases int
}

func (w *worker) fresh() {
	if w.ldb != nil {
		w.ldb.Close()
		os.RemoveAll(filepath.Join(w.dir, fmt.Sprintf("kv%d.db", w.n)))
	}
	w.n++
	db, err := dbm.NewGoLevelDB(fmt.Sprintf("kv%d", w.n), w.dir)
	if err != nil {
		vh.Fatal("open goleveldb in %s: %v", w.dir, err)
	}
	w.ldb = db
}

func (w *worker) wipe() {
	it := w.ldb.Iterator()
	var keys [][]byte
	for it.Next() {
		keys = append(keys, it.Key())
	}
	it.Release()
	for _, k := range keys {
		w.ldb.Delete(k)
	}
}

type result struct {
	steps     int
	shape     string
	drift     int // both backends agree with each other and differ from the specification
	driftDesc string
}

func fmtCalls(cs []call, upto int) string {
	var sb strings.Builder
	for i := 0; i <= upto && i < len(cs); i++ {
		c := &cs[i]
		switch c.Op {
		case "get", "del":
			fmt.Fprintf(&sb, "%s(%q) ", c.Op, bs(c.K))
		case "set":
			fmt.Fprintf(&sb, "set(%q,%q) ", bs(c.K), bs(c.V))
		case "batch":
			sb.WriteString("batch[")
			for _, o := range c.Ops {
				fmt.Fprintf(&sb, "%s(%q,%q)", o.O, bs(o.RK), bs(o.RV))
			}
			sb.WriteString("] ")
		case "iterprefix":
			fmt.Fprintf(&sb, "IteratorPrefix(%q) ", bs(c.P))
		case "iterstart":
			if c.NoStart {
				fmt.Fprintf(&sb, "IteratorPrefixWithStart(%q,nil) ", bs(c.P))
			} else {
				fmt.Fprintf(&sb, "IteratorPrefixWithStart(%q,%q) ", bs(c.P), bs(c.S))
			}
		default:
			sb.WriteString(c.Op + "() ")
		}
	}
	return sb.String()
}

func (w *worker) replay(cs []call, nilEmpty bool) result {
	if w.ldb == nil || w.cases%3000 == 2999 {
		w.fresh()
	} else {
		w.wipe()
	}
	w.cases++
	mem := &side{name: "memdb", db: dbm.NewMemDB(), nilVals: map[string]bool{}}
	ldb := &side{name: "goleveldb", db: w.ldb, nilVals: map[string]bool{}}
	res := result{}
	var sh strings.Builder
	for i := range cs {
		c := &cs[i]
		sh.WriteString(c.Op[:2])
		exp := want(c)
		gm := mem.exec(c, nilEmpty)
		gl := ldb.exec(c, nilEmpty)
		res.steps++
		if gm == exp && gl == exp {
			continue
		}
		if gm == gl {
			// The backends agree with each other but not with the contract (KV.tla): they have
			// drifted together (or one was changed to share the other's defect).
			ctx, why := mem.cause(c, gm, exp)
			res.drift++
			res.driftDesc = fmt.Sprintf("after %s: both backends return %v, specification says %v", fmtCalls(cs, i), gm, exp)
			report("both:"+ctx+":"+why,
				fmt.Sprintf("both backends break the dbm.DB contract after %s: memdb and goleveldb return %v, specification (KV.tla) requires %v",
					fmtCalls(cs, i), gm, exp),
				map[string]interface{}{"mode": "replay", "nil_for_empty": nilEmpty, "calls": cs[:i+1], "memdb": gm, "goleveldb": gl, "spec": exp})
			break
		}
		// the backends disagree: property violated; the specification names the wrong side
		wrong, got := mem, gm
		if gm == exp {
			wrong, got = ldb, gl
		}
		ctx, why := wrong.cause(c, got, exp)
		other := ""
		if gm != exp && gl != exp {
			other = " (both differ from the specification)"
		}
		report(wrong.name+":"+ctx+":"+why,
			fmt.Sprintf("backends disagree after %s: memdb returns %v, goleveldb returns %v, specification (KV.tla) requires %v%s",
				fmtCalls(cs, i), gm, gl, exp, other),
			map[string]interface{}{"mode": "replay", "nil_for_empty": nilEmpty, "calls": cs[:i+1], "memdb": gm, "goleveldb": gl, "spec": exp})
		break
	}
	if mem.it != nil {
		mem.it.Release()
	}
	if ldb.it != nil {
		ldb.it.Release()
	}
	res.shape = sh.String()
	return res
}

func parse(doc []byte) ([]call, error) {
	var cs []call
	if err := json.Unmarshal(doc, &cs); err != nil {
		return nil, err
	}
	return cs, nil
}

func mainReplay(path, dir, variant string) {
	nilEmpty := variant == "nil"
	nw := runtime.NumCPU()
	if nw > 8 {
		nw = 8
	}
	type job struct {
		idx int
		doc []byte
	}
	jobs := make(chan job, 256)
	var wg sync.WaitGroup
	var mu sync.Mutex
	cases, steps, drift := 0, 0, 0
	driftDesc := ""
	shapes := map[string]bool{}
	for i := 0; i < nw; i++ {
		wg.Add(1)
		go func(i int) {
			defer wg.Done()
			w := &worker{dir: filepath.Join(dir, fmt.Sprintf("w%d", i))}
			os.RemoveAll(w.dir) // never start on a directory left by an earlier run
			os.MkdirAll(w.dir, 0755)
			for j := range jobs {
				cs, err := parse(j.doc)
				if err != nil {
					vh.Fatal("bad export %d: %v", j.idx, err)
				}
				if nilEmpty { // only sequences that write an empty value are interesting here
					has := false
					for _, c := range cs {
						if c.Op == "set" && len(c.V) == 0 {
							has = true
						}
						for _, o := range c.Ops {
							if o.O == "set" && len(o.RV) == 0 {
								has = true
							}
						}
					}
					if !has {
						continue
					}
				}
				if tooManySigs() {
					continue
				}
				r := w.replay(cs, nilEmpty)
				mu.Lock()
				cases++
				steps += r.steps
				shapes[r.shape] = true
				if r.drift > 0 {
					drift++
					if driftDesc == "" {
						driftDesc = r.driftDesc
					}
				}
				if j.idx%20011 == 17 && len(cs) > 2 {
					vh.Sample(map[string]interface{}{"calls": fmtCalls(cs, len(cs)), "expected_last": want(&cs[len(cs)-1])})
				}
				mu.Unlock()
			}
			if w.ldb != nil {
				w.ldb.Close()
			}
		}(i)
	}
	n, err := vh.EachExport(path, func(idx int, doc []byte) error {
		jobs <- job{idx, append([]byte(nil), doc...)}
		return nil
	})
	close(jobs)
	wg.Wait()
	if err != nil {
		vh.Fatal("reading exports: %v (after %d)", err, n)
	}
	keys := make([]string, 0, len(shapes))
	for k := range shapes {
		keys = append(keys, k)
	}
	sort.Strings(keys)
	vh.Summary(map[string]interface{}{"cases": cases, "steps": steps, "distinct": len(shapes), "exports": n,
		"spec_drift": drift, "spec_drift_example": driftDesc, "variant": variant, "disagreements_by_signature": sigCount})
}

func main() {
	vh.Quiet()
	if len(os.Args) >= 5 && os.Args[1] == "replay" {
		mainReplay(os.Args[2], os.Args[3], os.Args[4])
		return
	}
	if len(os.Args) >= 3 && os.Args[1] == "node" {
		mainNode(os.Args[2])
		return
	}
	vh.Fatal("usage: c20 replay <exports> <dbdir> <empty|nil> | c20 node <dbdir>")
}
