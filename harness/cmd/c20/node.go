package main

import (
	"fmt"
	"os"
	"time"

	"github.com/bytom/bytom/config"
	"github.com/bytom/bytom/database"
	dbm "github.com/bytom/bytom/database/leveldb"
	"github.com/bytom/bytom/event"
	"github.com/bytom/bytom/protocol"

	"verifharness/internal/vh"
)

// nodeObs is the projection of a freshly started node compared across backends.
type nodeObs struct {
	Err        string `json:"err"` // error class: "" or "error"
	Msg        string `json:"msg"` // message (reported, never compared)
	Height     uint64 `json:"height"`
	Hash       string `json:"hash"`
	Checkpoint int    `json:"checkpoints_from_genesis"`
}

func startNode(db dbm.DB) (o nodeObs) {
	defer func() {
		if r := recover(); r != nil {
			o = nodeObs{Err: "panic", Msg: fmt.Sprint(r)}
		}
	}()
	store := database.NewStore(db)
	d := event.NewDispatcher()
	pool := protocol.NewTxPool(store, d)
	done := make(chan nodeObs, 1)
	go func() {
		defer func() {
			if r := recover(); r != nil {
				done <- nodeObs{Err: "panic", Msg: fmt.Sprint(r)}
			}
		}()
		chain, err := protocol.NewChain(store, pool, d)
		if err != nil {
			done <- nodeObs{Err: "error", Msg: err.Error()}
			return
		}
		h := chain.BestBlockHash()
		g := config.GenesisBlock().Hash()
		cps, err := store.CheckpointsFromNode(0, &g)
		if err != nil {
			done <- nodeObs{Err: "error", Msg: "CheckpointsFromNode: " + err.Error()}
			return
		}
		done <- nodeObs{Height: chain.BestBlockHeight(), Hash: h.String(), Checkpoint: len(cps)}
	}()
	select {
	case o = <-done:
		return o
	case <-time.After(20 * time.Second):
		return nodeObs{Err: "blocked", Msg: "NewChain did not return within 20s"}
	}
}

// mainNode starts a protocol.Chain on a fresh store of either backend (exactly what
// node.NewNode does after dbm.NewDB("core", backend, dir)) and compares the outcome.
func mainNode(dir string) {
	os.MkdirAll(dir, 0755)
	mem := dbm.NewDB("core", dbm.MemDBBackendStr, dir)
	ldb := dbm.NewDB("core", dbm.GoLevelDBBackendStr, dir)
	om := startNode(mem)
	ol := startNode(ldb)
	cm, cl := om, ol
	cm.Msg, cl.Msg = "", ""
	if cm != cl {
		wrong := "memdb"
		if om.Err == "" && ol.Err != "" {
			wrong = "goleveldb"
		}
		vh.Violation("node:newchain:"+wrong+"-differs",
			fmt.Sprintf("a fresh node started on the memdb backend gives %+v, on the goleveldb backend %+v", om, ol),
			map[string]interface{}{"mode": "node", "memdb": om, "goleveldb": ol})
	}
	// second start on the same stores (restart)
	om2 := startNode(mem)
	ol2 := startNode(ldb)
	cm2, cl2 := om2, ol2
	cm2.Msg, cl2.Msg = "", ""
	if cm == cl && cm2 != cl2 {
		vh.Violation("node:restart:differs",
			fmt.Sprintf("a restarted node on the memdb backend gives %+v, on the goleveldb backend %+v", om2, ol2),
			map[string]interface{}{"mode": "node-restart", "memdb": om2, "goleveldb": ol2})
	}
	vh.Sample(map[string]interface{}{"node_start_memdb": om, "node_start_goleveldb": ol})
	vh.Summary(map[string]interface{}{"node_runs": 4, "memdb": om, "goleveldb": ol})
	ldb.Close()
}
