package main

import (
	"fmt"
	"os"

	dbm "github.com/bytom/bytom/database/leveldb"
)

func show(name string, db dbm.DB) {
	fmt.Println("==", name)
	db.Set([]byte("a"), []byte{})
	db.Set([]byte("a:"), nil)
	db.Set([]byte("a:1"), []byte("x"))
	db.Set([]byte("a:2"), []byte("y"))
	db.Set([]byte("b"), []byte("x"))
	db.Set([]byte("b:1"), []byte("x"))
	fmt.Printf("get a(empty) nil=%v; get a:(nilset) nil=%v; get zz nil=%v\n", db.Get([]byte("a")) == nil, db.Get([]byte("a:")) == nil, db.Get([]byte("zz")) == nil)
	try := func(p, s string, nilstart bool) {
		var st []byte
		if !nilstart {
			st = []byte(s)
		}
		it := db.IteratorPrefixWithStart([]byte(p), st, false)
		fmt.Printf("start(%q,%q,nil=%v): key=%q val=%q |", p, s, nilstart, it.Key(), it.Value())
		for i := 0; i < 8 && it.Next(); i++ {
			fmt.Printf(" %q=%q", it.Key(), it.Value())
		}
		fmt.Printf(" | after-exhaust key=%q next=%v\n", it.Key(), it.Next())
		it.Release()
	}
	try("a:", "a:1", false)
	try("a:", "a:0", false)
	try("a:", "a:3", false)
	try("a:", "a", false)
	try("a:", "`", false)
	try("a:", "b", false)
	try("a:", "c", false)
	try("a:", "", false)
	try("a:", "", true)
	try("a", "a:2", false)
	try("", "a:2", false)
	try("d", "a", false)
	it := db.IteratorPrefix([]byte("a:"))
	fmt.Printf("prefix a: fresh key=%q val=%q\n", it.Key(), it.Value())
	it.Next()
	it.Next()
	fmt.Printf(" on %q=%q ;", it.Key(), it.Value())
	db.Set([]byte("a:1"), []byte("CHANGED"))
	db.Delete([]byte("a:2"))
	db.Set([]byte("a:15"), []byte("NEW"))
	fmt.Printf(" after write: %q=%q ;", it.Key(), it.Value())
	for it.Next() {
		fmt.Printf(" %q=%q", it.Key(), it.Value())
	}
	fmt.Println()
	b := db.NewBatch()
	b.Set([]byte("k"), []byte("1"))
	b.Delete([]byte("k"))
	b.Set([]byte("k"), []byte("2"))
	b.Delete([]byte("nokey"))
	b.Write()
	fmt.Printf("batch k=%q\n", db.Get([]byte("k")))
	db.Delete([]byte("nokey"))
}

func main() {
	dir := os.Args[1]
	os.RemoveAll(dir)
	os.MkdirAll(dir, 0755)
	show("memdb", dbm.NewMemDB())
	ldb, err := dbm.NewGoLevelDB("t", dir)
	if err != nil {
		panic(err)
	}
	show("goleveldb", ldb)
	ldb.Close()
}
