// c21: replays TLC-generated call sequences of specs/periph/StoreCacheGen.tla on a
// long-lived database.Store over a real goleveldb and compares every read (issued twice)
// with (a) the same read through a brand-new Store on the same DB (no cache content) and
// (b) the value the specification derives from the records alone.  The property is
// violated when the long-lived store and the fresh store disagree; the specification
// names the wrong side.
//
//	c21 replay <exports> <dbdir>
package main

import (
	"bytes"
	"encoding/json"
	"fmt"
	"os"
	"path/filepath"
	"reflect"
	"runtime"
	"sort"
	"strings"
	"sync"

	"github.com/bytom/bytom/consensus"
	"github.com/bytom/bytom/database"
	dbm "github.com/bytom/bytom/database/leveldb"
	"github.com/bytom/bytom/protocol/bc"
	"github.com/bytom/bytom/protocol/bc/types"
	"github.com/bytom/bytom/protocol/state"

	"verifharness/internal/vh"
)

// ---- model vocabulary

type mcp struct {
	B  string `json:"b"`
	St int    `json:"st"`
	Sl int    `json:"sl"`
}

type mres struct {
	Ok   bool            `json:"ok"`
	Sl   int             `json:"sl"`
	B    string          `json:"b"`
	C    *mcp            `json:"c"`
	List json.RawMessage `json:"list"`
}

type mcall struct {
	Op  string   `json:"op"`
	B   string   `json:"b"`
	H   uint64   `json:"h"`
	Sl  int      `json:"sl"`
	Cs  []mcp    `json:"cs"`
	Ms  []string `json:"ms"`
	Res *mres    `json:"res"`
}

// obs is a read result in comparable form.
type obs struct {
	Ok   bool     `json:"ok"`
	Sl   int      `json:"sl,omitempty"`
	B    string   `json:"b,omitempty"`
	St   int      `json:"st,omitempty"`
	List []string `json:"list,omitempty"`
}

func (o obs) String() string { b, _ := json.Marshal(o); return string(b) }

func cpStr(c mcp) string { return fmt.Sprintf("%s/st%d/sl%d", c.B, c.St, c.Sl) }

// expected observation of a read according to the specification
func want(c *mcall) obs {
	r := c.Res
	if r == nil || !r.Ok {
		return obs{}
	}
	o := obs{Ok: true}
	switch c.Op {
	case "getheader", "getblock":
		o.Sl = r.Sl
	case "getmain", "getstatus":
		o.B = r.B
	case "getcheckpoint":
		o.B, o.St, o.Sl = r.C.B, r.C.St, r.C.Sl
	case "gethashes":
		var l []string
		json.Unmarshal(r.List, &l)
		o.List = append([]string{}, l...)
	case "getbyheight", "getfromnode":
		var l []mcp
		json.Unmarshal(r.List, &l)
		o.List = []string{}
		for _, x := range l {
			o.List = append(o.List, cpStr(x))
		}
	}
	if o.List != nil && len(o.List) == 0 {
		o.List = nil
	}
	return o
}

// ---- real objects

type world struct {
	blocks map[string]*types.Block
	name   map[bc.Hash]string
}

func mkBlock(height uint64, salt byte) *types.Block {
	tx := types.NewTx(types.TxData{
		Version: 1,
		Inputs:  []*types.TxInput{types.NewCoinbaseInput([]byte{byte(height), salt})},
		Outputs: []*types.TxOutput{types.NewOriginalTxOutput(*consensus.BTMAssetID, 0, []byte{0x51}, nil)},
	})
	root, err := types.TxMerkleRoot([]*bc.Tx{tx.Tx})
	if err != nil {
		vh.Fatal("merkle root: %v", err)
	}
	return &types.Block{
		BlockHeader: types.BlockHeader{
			Version: 1, Height: height, Timestamp: 1700000000000 + uint64(salt),
			PreviousBlockHash: bc.Hash{V0: height}, BlockCommitment: types.BlockCommitment{TransactionsMerkleRoot: root},
		},
		Transactions: []*types.Tx{tx},
	}
}

// newWorld builds the real blocks of the model: B1 < B2 in key (hash) order at height 1, B3 < B4 at height 2.
func newWorld() *world {
	w := &world{blocks: map[string]*types.Block{}, name: map[bc.Hash]string{}}
	a, b := mkBlock(1, 1), mkBlock(1, 2)
	ha, hb := a.Hash(), b.Hash()
	if bytes.Compare(ha.Bytes(), hb.Bytes()) > 0 {
		a, b = b, a
	}
	c, d := mkBlock(2, 3), mkBlock(2, 4)
	hc, hd := c.Hash(), d.Hash()
	if bytes.Compare(hc.Bytes(), hd.Bytes()) > 0 {
		c, d = d, c
	}
	w.blocks["B1"], w.blocks["B2"], w.blocks["B3"], w.blocks["B4"] = a, b, c, d
	for n, blk := range w.blocks {
		w.name[blk.Hash()] = n
	}
	return w
}

func supLinks(n int) types.SupLinks {
	var sl types.SupLinks
	for i := 0; i < n; i++ {
		l := &types.SupLink{SourceHeight: uint64(i), SourceHash: bc.Hash{V0: uint64(100 + i)}}
		l.Signatures[i%consensus.MaxNumOfValidators] = bytes.Repeat([]byte{byte(i + 1)}, 64)
		sl = append(sl, l)
	}
	return sl
}

func (w *world) header(name string, sl int) *types.BlockHeader {
	h := w.blocks[name].BlockHeader
	h.SupLinks = supLinks(sl)
	return &h
}

func (w *world) hash(name string) *bc.Hash {
	h := w.blocks[name].Hash()
	return &h
}

func (w *world) nameOf(h *bc.Hash) string {
	if h == nil {
		return "nil"
	}
	if n, ok := w.name[*h]; ok {
		return n
	}
	return "?" + h.String()[:8]
}

// ---- execution

func (w *world) write(s *database.Store, c *mcall) error {
	switch c.Op {
	case "saveblock":
		blk := *w.blocks[c.B]
		blk.BlockHeader = *w.header(c.B, c.Sl)
		return s.SaveBlock(&blk)
	case "saveheader":
		return s.SaveBlockHeader(w.header(c.B, c.Sl))
	case "savecheckpoints":
		var cps []*state.Checkpoint
		for _, x := range c.Cs {
			blk := w.blocks[x.B]
			cps = append(cps, &state.Checkpoint{
				Height: blk.Height, Hash: blk.Hash(), ParentHash: blk.PreviousBlockHash, Timestamp: blk.Timestamp,
				Status: state.CheckpointStatus(x.St), Rewards: map[string]uint64{"51": 7}, Votes: map[string]uint64{},
			})
		}
		return s.SaveCheckpoints(cps)
	case "savechainstatus":
		var mains []*types.BlockHeader
		for _, m := range c.Ms {
			mains = append(mains, w.header(m, 0))
		}
		return s.SaveChainStatus(w.header(c.B, 0), mains, state.NewUtxoViewpoint(), state.NewContractViewpoint(), 0, w.hash(c.B))
	}
	return fmt.Errorf("unknown write %q", c.Op)
}

func (w *world) cpObs(cp *state.Checkpoint) string {
	return cpStr(mcp{B: w.nameOf(&cp.Hash), St: int(cp.Status), Sl: len(cp.SupLinks)})
}

func (w *world) read(s *database.Store, c *mcall) (o obs) {
	defer func() {
		if r := recover(); r != nil {
			o = obs{Ok: false, B: fmt.Sprintf("panic: %v", r)}
		}
	}()
	norm := func(o obs) obs {
		if len(o.List) == 0 {
			o.List = nil
		}
		return o
	}
	switch c.Op {
	case "getheader":
		h, err := s.GetBlockHeader(w.hash(c.B))
		if err != nil {
			return obs{}
		}
		if h.Hash() != *w.hash(c.B) {
			return obs{Ok: true, B: "wrong-block:" + w.nameOf(func() *bc.Hash { x := h.Hash(); return &x }())}
		}
		return obs{Ok: true, Sl: len(h.SupLinks)}
	case "blockexist":
		return obs{Ok: s.BlockExist(w.hash(c.B))}
	case "gettxs":
		txs, err := s.GetBlockTransactions(w.hash(c.B))
		if err != nil {
			return obs{}
		}
		if len(txs) != 1 || txs[0].ID != w.blocks[c.B].Transactions[0].ID {
			return obs{Ok: true, B: "wrong-transactions"}
		}
		return obs{Ok: true}
	case "getblock":
		b, err := s.GetBlock(w.hash(c.B))
		if err != nil {
			return obs{}
		}
		if b.Hash() != *w.hash(c.B) || len(b.Transactions) != 1 {
			return obs{Ok: true, B: "wrong-block"}
		}
		return obs{Ok: true, Sl: len(b.SupLinks)}
	case "gethashes":
		hs, err := s.GetBlockHashesByHeight(c.H)
		if err != nil {
			return obs{}
		}
		o := obs{Ok: true}
		for _, h := range hs {
			o.List = append(o.List, w.nameOf(h))
		}
		return norm(o)
	case "getmain":
		h, err := s.GetMainChainHash(c.H)
		if err != nil {
			return obs{}
		}
		return obs{Ok: true, B: w.nameOf(h)}
	case "getcheckpoint":
		cp, err := s.GetCheckpoint(w.hash(c.B))
		if err != nil {
			return obs{}
		}
		return obs{Ok: true, B: w.nameOf(&cp.Hash), St: int(cp.Status), Sl: len(cp.SupLinks)}
	case "getbyheight":
		cps, err := s.GetCheckpointsByHeight(c.H)
		if err != nil {
			return obs{}
		}
		o := obs{Ok: true}
		for _, cp := range cps {
			o.List = append(o.List, w.cpObs(cp))
		}
		return norm(o)
	case "getfromnode":
		cps, err := s.CheckpointsFromNode(w.blocks[c.B].Height, w.hash(c.B))
		if err != nil {
			return obs{}
		}
		o := obs{Ok: true}
		for _, cp := range cps {
			o.List = append(o.List, w.cpObs(cp))
		}
		return norm(o)
	case "getstatus":
		st := s.GetStoreStatus()
		if st == nil {
			return obs{}
		}
		return obs{Ok: true, B: w.nameOf(st.Hash)}
	}
	vh.Fatal("unknown read %q", c.Op)
	return obs{}
}

func isWrite(op string) bool { return strings.HasPrefix(op, "save") }

// fmtCalls prints the exported calls up to index upto; when upto lies in the probe part
// (index >= ncalls) only the probing read itself is added.
func fmtCalls(cs []mcall, upto int, ncalls int) string {
	var sb strings.Builder
	for i := 0; i <= upto && i < len(cs); i++ {
		if i >= ncalls && i != upto {
			continue
		}
		c := &cs[i]
		switch c.Op {
		case "saveblock":
			fmt.Fprintf(&sb, "SaveBlock(%s,%d supLinks) ", c.B, c.Sl)
		case "saveheader":
			fmt.Fprintf(&sb, "SaveBlockHeader(%s,%d supLinks) ", c.B, c.Sl)
		case "savecheckpoints":
			sb.WriteString("SaveCheckpoints(")
			for _, x := range c.Cs {
				fmt.Fprintf(&sb, "%s:status%d ", x.B, x.St)
			}
			sb.WriteString(") ")
		case "savechainstatus":
			fmt.Fprintf(&sb, "SaveChainStatus(tip %s, main %v) ", c.B, c.Ms)
		case "gethashes", "getmain", "getbyheight":
			fmt.Fprintf(&sb, "%s(%d) ", c.Op, c.H)
		case "getstatus":
			sb.WriteString("getstatus() ")
		default:
			fmt.Fprintf(&sb, "%s(%s) ", c.Op, c.B)
		}
	}
	return sb.String()
}

var (
	sigMu    sync.Mutex
	sigCount = map[string]int{}
)

func report(sig, desc string, replay interface{}) {
	sigMu.Lock()
	sigCount[sig]++
	n := sigCount[sig]
	sigMu.Unlock()
	if n <= 3 {
		vh.Violation(sig, desc, replay)
	}
}

type worker struct {
	dir   string
	n     int
	db    *dbm.GoLevelDB
	cases int
	w     *world
}

func (wk *worker) freshDB() {
	if wk.db != nil {
		wk.db.Close()
		os.RemoveAll(filepath.Join(wk.dir, fmt.Sprintf("s%d.db", wk.n)))
	}
	wk.n++
	db, err := dbm.NewGoLevelDB(fmt.Sprintf("s%d", wk.n), wk.dir)
	if err != nil {
		vh.Fatal("open goleveldb in %s: %v", wk.dir, err)
	}
	wk.db = db
}

func (wk *worker) wipe() {
	it := wk.db.Iterator()
	var keys [][]byte
	for it.Next() {
		keys = append(keys, it.Key())
	}
	it.Release()
	for _, k := range keys {
		wk.db.Delete(k)
	}
}

type result struct {
	steps, reads int
	shape        string
	drift        string
}

// lastWrite returns the most recent earlier write that wrote the kind of record a read
// depends on ("header" of block b, "hashes", "main", "checkpoint"); used for the signature.
func (wk *worker) lastWrite(cs []mcall, upto int, kind, b string) string {
	for i := upto - 1; i >= 0; i-- {
		c := &cs[i]
		switch kind {
		case "header":
			if (c.Op == "saveblock" || c.Op == "saveheader") && (b == "" || c.B == b) {
				return c.Op
			}
		case "hashes", "txs":
			if c.Op == "saveblock" {
				return c.Op
			}
		case "main":
			if c.Op == "savechainstatus" {
				return c.Op
			}
		case "checkpoint":
			if c.Op == "savecheckpoints" {
				return c.Op
			}
		}
	}
	return "nothing"
}

func slOnly(a, b []string) bool { // two checkpoint lists that differ only in supLink counts
	if len(a) != len(b) {
		return false
	}
	for i := range a {
		if a[i][:strings.LastIndex(a[i], "/")] != b[i][:strings.LastIndex(b[i], "/")] {
			return false
		}
	}
	return true
}

// classify names the failing class of a disagreement between the long-lived store and a
// fresh one (only used for the signature).
func (wk *worker) classify(long *database.Store, cs []mcall, i int, got, fresh obs, reread bool) string {
	c := &cs[i]
	if c.Op == "getcheckpoint" && got.Ok && fresh.Ok {
		hl := wk.w.read(long, &mcall{Op: "getheader", B: c.B})
		hf := wk.w.read(database.NewStore(wk.db), &mcall{Op: "getheader", B: c.B})
		switch {
		case got.St != fresh.St || got.B != fresh.B:
			return "stale-checkpoint-record-after-" + wk.lastWrite(cs, i, "checkpoint", "")
		case !reflect.DeepEqual(hl, hf):
			return "stale-header-after-" + wk.lastWrite(cs, i, "header", c.B)
		case got.Sl > fresh.Sl:
			return "cached-checkpoint-accumulates-suplinks"
		}
	}
	if reread {
		return "reread-changes-result"
	}
	switch c.Op {
	case "getheader", "getblock", "blockexist":
		return "stale-after-" + wk.lastWrite(cs, i, "header", c.B)
	case "gettxs":
		return "stale-after-" + wk.lastWrite(cs, i, "txs", c.B)
	case "gethashes":
		return "stale-after-" + wk.lastWrite(cs, i, "hashes", "")
	case "getmain", "getstatus":
		return "stale-after-" + wk.lastWrite(cs, i, "main", "")
	case "getbyheight", "getfromnode":
		if got.Ok && fresh.Ok && slOnly(got.List, fresh.List) {
			blk := "" // the block whose merged supLinks differ: its header is the stale one
			for k := range got.List {
				if got.List[k] != fresh.List[k] {
					blk = got.List[k][:strings.Index(got.List[k], "/")]
					break
				}
			}
			return "stale-header-after-" + wk.lastWrite(cs, i, "header", blk)
		}
		return "stale-checkpoint-record-after-" + wk.lastWrite(cs, i, "checkpoint", "")
	}
	return "stale-after-" + wk.lastWrite(cs, i, "checkpoint", "")
}

type mdoc struct {
	Calls []mcall   `json:"calls"`
	Probe [][]mcall `json:"probe"`
}

func (wk *worker) replay(d *mdoc) result {
	cs := append([]mcall{}, d.Calls...)
	ncalls := len(cs)
	for _, grp := range d.Probe { // the probe reads follow the exported calls
		cs = append(cs, grp...)
	}
	if wk.db == nil || wk.cases%3000 == 2999 {
		wk.freshDB()
	} else {
		wk.wipe()
	}
	wk.cases++
	long := database.NewStore(wk.db)
	res := result{}
	var sh strings.Builder
	for i := range cs {
		c := &cs[i]
		if i < ncalls {
			sh.WriteString(c.Op[:2] + c.Op[len(c.Op)-2:])
		} else if i == ncalls {
			sh.WriteString("+probe")
		}
		res.steps++
		if isWrite(c.Op) {
			if err := wk.w.write(long, c); err != nil {
				report("write:"+c.Op+":error", fmt.Sprintf("%s failed: %v", fmtCalls(cs, i, ncalls), err),
					map[string]interface{}{"mode": "replay", "calls": cs[:i+1]})
				break
			}
			continue
		}
		res.reads++
		exp := want(c)
		fresh := wk.w.read(database.NewStore(wk.db), c)
		r1 := wk.w.read(long, c)
		r2 := wk.w.read(long, c)
		same := func(a, b obs) bool { return reflect.DeepEqual(a, b) }
		if same(r1, exp) && same(r2, exp) && same(fresh, exp) {
			continue
		}
		if same(r1, fresh) && same(r2, fresh) {
			res.drift = fmt.Sprintf("after %s: the long-lived and the fresh store both return %v, StoreCache.tla says %v", fmtCalls(cs, i, ncalls), fresh, exp)
			break
		}
		got, reread := r1, false
		if same(r1, fresh) {
			got, reread = r2, true
		}
		why := wk.classify(long, cs, i, got, fresh, reread)
		note := ""
		if !same(fresh, exp) {
			note = " (the fresh read differs from the specification too)"
		}
		report(c.Op+":"+why,
			fmt.Sprintf("after %s: the long-lived store returns %v then %v, a fresh store on the same DB returns %v, StoreCache.tla requires %v%s",
				fmtCalls(cs, i, ncalls), r1, r2, fresh, exp, note),
			map[string]interface{}{"mode": "replay", "calls": cs[:i+1], "exported_calls": ncalls, "long_lived_first": r1, "long_lived_second": r2, "fresh": fresh, "spec": exp})
		break
	}
	res.shape = sh.String()
	return res
}

func main() {
	vh.Quiet()
	if len(os.Args) < 4 || os.Args[1] != "replay" {
		vh.Fatal("usage: c21 replay <exports> <dbdir>")
	}
	path, dir := os.Args[2], os.Args[3]
	nw := runtime.NumCPU()
	if nw > 8 {
		nw = 8
	}
	type job struct {
		idx int
		doc []byte
	}
	jobs := make(chan job, 256)
	var wg sync.WaitGroup
	var mu sync.Mutex
	cases, steps, reads, drift := 0, 0, 0, 0
	driftDesc := ""
	shapes := map[string]bool{}
	for i := 0; i < nw; i++ {
		wg.Add(1)
		go func(i int) {
			defer wg.Done()
			wk := &worker{dir: filepath.Join(dir, fmt.Sprintf("w%d", i)), w: newWorld()}
			os.RemoveAll(wk.dir)
			os.MkdirAll(wk.dir, 0755)
			for j := range jobs {
				var d mdoc
				if err := json.Unmarshal(j.doc, &d); err != nil {
					vh.Fatal("bad export %d: %v", j.idx, err)
				}
				cs := d.Calls
				sigMu.Lock()
				stop := len(sigCount) > 25
				sigMu.Unlock()
				if stop {
					continue
				}
				r := wk.replay(&d)
				mu.Lock()
				cases++
				steps += r.steps
				reads += r.reads
				shapes[r.shape] = true
				if r.drift != "" {
					drift++
					if driftDesc == "" {
						driftDesc = r.drift
					}
				}
				if j.idx%5003 == 7 && len(cs) > 2 {
					vh.Sample(map[string]interface{}{"calls": fmtCalls(cs, len(cs)-1, len(cs)), "expected_last": want(&cs[len(cs)-1])})
				}
				mu.Unlock()
			}
			if wk.db != nil {
				wk.db.Close()
			}
		}(i)
	}
	n, err := vh.EachExport(path, func(idx int, doc []byte) error {
		jobs <- job{idx, append([]byte(nil), doc...)}
		return nil
	})
	close(jobs)
	wg.Wait()
	if err != nil {
		vh.Fatal("reading exports: %v (after %d)", err, n)
	}
	keys := make([]string, 0, len(shapes))
	for k := range shapes {
		keys = append(keys, k)
	}
	sort.Strings(keys)
	vh.Summary(map[string]interface{}{"cases": cases, "steps": steps, "reads": reads, "distinct": len(shapes), "exports": n,
		"spec_drift": drift, "spec_drift_example": driftDesc, "disagreements_by_signature": sigCount})
}
