// c22: replays the call sequences exported by TLC from specs/pool/TxPoolGen.tla against the real
// protocol.TxPool (over a stub state.Store with a fixed set of confirmed outputs and a real
// event.Dispatcher) and compares, after the last call of every sequence, the pool's four maps
// (read through the hook protocol/txpool_verif.go) with the maps the specification demands, and
// every Submit's (isOrphan, err) result with the expected one.
//
//	c22 replay <exports> <nexports>          parent: fans out to child processes
//	c22 worker <exports> <k> <nchild>        child: behaviours with index % nchild == k
//
// Concretisation: the model's transactions are real types.Tx values whose spend inputs reference
// the real output ids of their parents (checked at start-up); "g*" outputs are confirmed in the
// stub store; "fr" is a retirement output. Expire(k) calls ExpireOrphan(now) with now one
// nanosecond after the expiration of the k-th oldest real orphan.
package main

import (
	"encoding/json"
	"fmt"
	"os"
	"sort"
	"strconv"
	"strings"
	"time"

	"github.com/bytom/bytom/consensus"
	"github.com/bytom/bytom/database/storage"
	"github.com/bytom/bytom/event"
	"github.com/bytom/bytom/protocol"
	"github.com/bytom/bytom/protocol/bc"
	"github.com/bytom/bytom/protocol/bc/types"
	"github.com/bytom/bytom/protocol/state"

	"verifharness/internal/fan"
	"verifharness/internal/vh"
)

// ---------------------------------------------------------------- universe (mirrors TxPool.tla)

type txSpec struct {
	name string
	ins  []string
	outs []string
}

var universe = []txSpec{
	{"a", []string{"g0"}, []string{"a0", "a1"}},
	{"f", []string{"g1"}, []string{"f0", "fr"}},
	{"b", []string{"a0"}, []string{"b0"}},
	{"e", []string{"a0"}, []string{"e0"}},
	{"c", []string{"b0"}, []string{"c0"}},
	{"d", []string{"a1", "b0"}, []string{"d0"}},
	{"t", []string{"f0", "a1"}, []string{"t0"}},
	{"u", []string{"a1", "f0"}, []string{"u0"}},
}

type outInfo struct {
	muxID  bc.Hash
	pos    uint64
	amount uint64
	prog   []byte
	id     bc.Hash
}

var (
	txs       = map[string]*types.Tx{}
	txName    = map[bc.Hash]string{}
	outName   = map[bc.Hash]string{}
	outs      = map[string]outInfo{}
	confirmed = map[bc.Hash]bool{}
	insOf     = map[string][]string{}
)

func buildUniverse() {
	// confirmed outputs: arbitrary source ids
	for i, g := range []string{"g0", "g1"} {
		outs[g] = outInfo{muxID: bc.NewHash([32]byte{0xc0, byte(i + 1)}), pos: uint64(i), amount: 1000, prog: []byte{0x51}}
	}
	for idx, s := range universe {
		var ins []*types.TxInput
		total := uint64(0)
		for _, in := range s.ins {
			o, ok := outs[in]
			if !ok {
				vh.Fatal("universe: input %s of %s not defined yet", in, s.name)
			}
			ins = append(ins, types.NewSpendInput(nil, o.muxID, *consensus.BTMAssetID, o.amount, o.pos, o.prog, nil))
			total += o.amount
		}
		var os_ []*types.TxOutput
		share := total / uint64(len(s.outs)+1)
		for j, on := range s.outs {
			prog := []byte{0x51, byte(idx), byte(j)}
			if strings.HasSuffix(on, "r") { // retirement: unspendable program (OP_FAIL)
				prog = []byte{0x6a, byte(idx), byte(j)}
			}
			os_ = append(os_, types.NewOriginalTxOutput(*consensus.BTMAssetID, share, prog, nil))
		}
		tx := types.NewTx(types.TxData{Version: 1, SerializedSize: 100 + uint64(idx), Inputs: ins, Outputs: os_})
		var mux bc.Hash
		found := false
		for id, e := range tx.Entries {
			if _, ok := e.(*bc.Mux); ok {
				mux, found = id, true
			}
		}
		if !found {
			vh.Fatal("universe: no mux entry in %s", s.name)
		}
		for j, on := range s.outs {
			outs[on] = outInfo{muxID: mux, pos: uint64(j), amount: share, prog: os_[j].ControlProgram, id: *tx.ResultIds[j]}
			outName[*tx.ResultIds[j]] = on
		}
		for j, in := range s.ins {
			spent := tx.SpentOutputIDs[j]
			if strings.HasPrefix(in, "g") {
				o := outs[in]
				o.id = spent
				outs[in] = o
				outName[spent] = in
				confirmed[spent] = true
			} else if spent != outs[in].id {
				vh.Fatal("universe: input %d of %s does not reference output %s of its parent", j, s.name, in)
			}
		}
		txs[s.name] = tx
		txName[tx.ID] = s.name
		insOf[s.name] = s.ins
	}
}

// ---------------------------------------------------------------- stub store

type stubStore struct{}

func (s *stubStore) GetBlockHeader(*bc.Hash) (*types.BlockHeader, error)        { return nil, nil }
func (s *stubStore) GetCheckpoint(*bc.Hash) (*state.Checkpoint, error)          { return nil, nil }
func (s *stubStore) GetCheckpointsByHeight(uint64) ([]*state.Checkpoint, error) { return nil, nil }
func (s *stubStore) SaveCheckpoints([]*state.Checkpoint) error                  { return nil }
func (s *stubStore) CheckpointsFromNode(uint64, *bc.Hash) ([]*state.Checkpoint, error) {
	return nil, nil
}
func (s *stubStore) BlockExist(*bc.Hash) bool                     { return false }
func (s *stubStore) GetBlock(*bc.Hash) (*types.Block, error)      { return nil, nil }
func (s *stubStore) GetStoreStatus() *state.BlockStoreState       { return nil }
func (s *stubStore) GetUtxo(*bc.Hash) (*storage.UtxoEntry, error) { return nil, nil }
func (s *stubStore) GetMainChainHash(uint64) (*bc.Hash, error)    { return nil, nil }
func (s *stubStore) GetContract([32]byte) ([]byte, error)         { return nil, nil }
func (s *stubStore) SaveBlock(*types.Block) error                 { return nil }
func (s *stubStore) SaveBlockHeader(*types.BlockHeader) error     { return nil }
func (s *stubStore) SaveChainStatus(*types.BlockHeader, []*types.BlockHeader, *state.UtxoViewpoint, *state.ContractViewpoint, uint64, *bc.Hash) error {
	return nil
}

// GetTransactionsUtxo fills the view with the confirmed unspent outputs among the txs' inputs,
// like the real store does.
func (s *stubStore) GetTransactionsUtxo(view *state.UtxoViewpoint, list []*bc.Tx) error {
	for _, tx := range list {
		for _, id := range tx.SpentOutputIDs {
			if confirmed[id] {
				view.Entries[id] = &storage.UtxoEntry{Type: storage.NormalUTXOType, Spent: false}
			}
		}
	}
	return nil
}

// ---------------------------------------------------------------- replay

type call struct {
	Op      string   `json:"op"`
	T       string   `json:"t"`
	Orphan  bool     `json:"orphan"`
	K       int      `json:"k"`
	All     bool     `json:"all"`
	Victims []string `json:"victims"`
}
type obs struct {
	Pool    []string    `json:"pool"`
	Utxo    [][2]string `json:"utxo"`
	Orphans []string    `json:"orphans"`
	ByPrev  [][2]string `json:"byprev"`
}
type export struct {
	Calls []call `json:"calls"`
	Obs   obs    `json:"obs"`
}

type proj struct {
	Pool    []string `json:"pool"`
	Utxo    []string `json:"utxo"` // "out>tx"
	Orphans []string `json:"orphans"`
	ByPrev  []string `json:"byprev"` // "out>tx"
	KeyMis  int      `json:"key_mismatch"`
}

func nm(m map[bc.Hash]string, h bc.Hash) string {
	if n, ok := m[h]; ok {
		return n
	}
	return "?" + h.String()[:8]
}

func project(tp *protocol.TxPool) proj {
	s := tp.VerifSnapshot()
	p := proj{Pool: []string{}, Utxo: []string{}, Orphans: []string{}, ByPrev: []string{}, KeyMis: s.KeyMismatch}
	for _, id := range s.Pool {
		p.Pool = append(p.Pool, nm(txName, id))
	}
	for o, t := range s.Utxo {
		p.Utxo = append(p.Utxo, nm(outName, o)+">"+nm(txName, t))
	}
	for id := range s.Orphans {
		p.Orphans = append(p.Orphans, nm(txName, id))
	}
	for o, ids := range s.OrphansByPrev {
		if len(ids) == 0 {
			p.ByPrev = append(p.ByPrev, nm(outName, o)+">(empty)")
		}
		for _, id := range ids {
			p.ByPrev = append(p.ByPrev, nm(outName, o)+">"+nm(txName, id))
		}
	}
	sort.Strings(p.Pool)
	sort.Strings(p.Utxo)
	sort.Strings(p.Orphans)
	sort.Strings(p.ByPrev)
	return p
}

func expected(o obs) proj {
	p := proj{Pool: append([]string{}, o.Pool...), Utxo: []string{}, Orphans: append([]string{}, o.Orphans...), ByPrev: []string{}}
	for _, x := range o.Utxo {
		p.Utxo = append(p.Utxo, x[0]+">"+x[1])
	}
	for _, x := range o.ByPrev {
		p.ByPrev = append(p.ByPrev, x[0]+">"+x[1])
	}
	sort.Strings(p.Pool)
	sort.Strings(p.Utxo)
	sort.Strings(p.Orphans)
	sort.Strings(p.ByPrev)
	return p
}

func eq(a, b []string) bool {
	if len(a) != len(b) {
		return false
	}
	for i := range a {
		if a[i] != b[i] {
			return false
		}
	}
	return true
}

func diff(a, b []string) (onlyA, onlyB []string) {
	inB := map[string]bool{}
	for _, x := range b {
		inB[x] = true
	}
	inA := map[string]bool{}
	for _, x := range a {
		inA[x] = true
		if !inB[x] {
			onlyA = append(onlyA, x)
		}
	}
	for _, x := range b {
		if !inA[x] {
			onlyB = append(onlyB, x)
		}
	}
	return
}

// tick waits until the wall clock has moved, so that successive orphans get distinct expirations.
func tick() {
	for t0 := time.Now(); !time.Now().After(t0); {
	}
}

// byPrevShape describes, for the signature, how the orphan index differs for the first affected orphan.
func byPrevShape(got, want []string, submitted string) string {
	extra, missing := diff(got, want)
	who := ""
	if len(missing) > 0 {
		who = missing[0][strings.Index(missing[0], ">")+1:]
	} else if len(extra) > 0 {
		who = extra[0][strings.Index(extra[0], ">")+1:]
	}
	keys := func(l []string) []string {
		var ks []string
		for _, x := range l {
			if strings.HasSuffix(x, ">"+who) {
				ks = append(ks, x[:strings.Index(x, ">")])
			}
		}
		return ks
	}
	g, w := keys(got), keys(want)
	ins := insOf[who]
	shape := fmt.Sprintf("missing%d-extra%d", len(missing), len(extra))
	if who == submitted && len(ins) > 1 && len(g) == 1 && g[0] == ins[len(ins)-1] && !(len(w) == 1 && w[0] == g[0]) {
		shape = "only-under-last-input" // the submitted orphan was filed under its last input only, whatever it waits for
	} else if len(g) == 0 && len(w) > 0 {
		shape = "orphan-not-indexed"
	} else if len(extra) == 0 {
		shape = "awaited-output-not-indexed"
	} else if len(missing) == 0 {
		shape = "dangling-entry"
	}
	return fmt.Sprintf("%s:nin%d", shape, len(ins))
}

func replay(ex export) (sig, desc string, got proj) {
	tp := protocol.NewTxPool(&stubStore{}, event.NewDispatcher())
	for i, c := range ex.Calls {
		switch c.Op {
		case "submit":
			tx := txs[c.T]
			isOrphan, err := tp.ProcessTransaction(tx, 1, 1)
			if err != nil || isOrphan != c.Orphan {
				if i == len(ex.Calls)-1 {
					return "submit:result", fmt.Sprintf("ProcessTransaction(%s) returned (isOrphan=%v, err=%v), specification says (isOrphan=%v, nil)", c.T, isOrphan, err, c.Orphan), project(tp)
				}
			}
			if isOrphan {
				tick()
			}
		case "remove":
			id := txs[c.T].ID
			tp.RemoveTransaction(&id)
		case "expire":
			s := tp.VerifSnapshot()
			var exps []time.Time
			for _, e := range s.Orphans {
				exps = append(exps, e)
			}
			sort.Slice(exps, func(a, b int) bool { return exps[a].Before(exps[b]) })
			var now time.Time
			switch {
			case c.K == 0:
				now = time.Now()
			case c.All || c.K > len(exps):
				now = time.Now().Add(24 * time.Hour)
			default:
				now = exps[c.K-1].Add(time.Nanosecond)
			}
			tp.ExpireOrphan(now)
		default:
			vh.Fatal("unknown op %q", c.Op)
		}
	}
	got = project(tp)
	want := expected(ex.Obs)
	last := ex.Calls[len(ex.Calls)-1]
	op := last.Op
	if op == "submit" {
		if last.Orphan {
			op = "submit-orphan"
		} else {
			op = "submit-pooled"
		}
	}
	switch {
	case got.KeyMis > 0:
		return op + ":key-mismatch", fmt.Sprintf("%d map entries are stored under a key that is not the id of the stored object", got.KeyMis), got
	case !eq(got.Pool, want.Pool):
		a, b := diff(got.Pool, want.Pool)
		return fmt.Sprintf("%s:pool:extra%d-missing%d", op, len(a), len(b)), fmt.Sprintf("pool is %v, specification says %v", got.Pool, want.Pool), got
	case !eq(got.Orphans, want.Orphans):
		a, b := diff(got.Orphans, want.Orphans)
		return fmt.Sprintf("%s:orphans:extra%d-missing%d", op, len(a), len(b)), fmt.Sprintf("orphans are %v, specification says %v", got.Orphans, want.Orphans), got
	case !eq(got.Utxo, want.Utxo):
		a, b := diff(got.Utxo, want.Utxo)
		return fmt.Sprintf("%s:utxo:extra%d-missing%d", op, len(a), len(b)), fmt.Sprintf("output index is %v, specification says %v", got.Utxo, want.Utxo), got
	case !eq(got.ByPrev, want.ByPrev):
		return fmt.Sprintf("%s:byprev:%s", op, byPrevShape(got.ByPrev, want.ByPrev, map[bool]string{true: last.T}[last.Op == "submit" && last.Orphan])),
			fmt.Sprintf("orphansByPrev is %v, specification says %v (output>orphan)", got.ByPrev, want.ByPrev), got
	}
	return "", "", got
}

func worker(path string, k, nchild int) {
	buildUniverse()
	cases, steps := 0, 0
	ops := map[string]float64{}
	bySig := map[string]float64{}
	_, err := vh.EachExport(path, func(idx int, doc []byte) error {
		if idx%nchild != k {
			return nil
		}
		var ex export
		if err := json.Unmarshal(doc, &ex); err != nil {
			return err
		}
		if len(ex.Calls) == 0 {
			return fmt.Errorf("export %d without calls", idx)
		}
		cases++
		steps += len(ex.Calls)
		ops[ex.Calls[len(ex.Calls)-1].Op]++
		sig, desc, got := replay(ex)
		if sig != "" {
			bySig[sig]++
			b, _ := json.Marshal(map[string]interface{}{"kind": "div", "key": callsText(ex.Calls), "n": len(ex.Calls), "sig": sig,
				"desc": desc, "expected": expected(ex.Obs), "got": got, "export_index": idx})
			fmt.Printf("VH %s\n", b)
		} else if idx%40000 == 17 {
			vh.Sample(map[string]interface{}{"calls": ex.Calls, "maps_equal_to": got})
		}
		return nil
	})
	if err != nil {
		vh.Fatal("reading exports: %v", err)
	}
	vh.Summary(map[string]interface{}{"cases": cases, "steps": steps, "last_ops": ops, "divergences_by_sig": bySig})
}

func callsText(cs []call) string {
	var p []string
	for _, c := range cs {
		switch c.Op {
		case "submit":
			p = append(p, "Submit("+c.T+")")
		case "remove":
			p = append(p, "Remove("+c.T+")")
		case "expire":
			p = append(p, fmt.Sprintf("Expire(oldest %d)", c.K))
		}
	}
	return strings.Join(p, ", ")
}

func main() {
	vh.Quiet()
	if len(os.Args) >= 5 && os.Args[1] == "worker" {
		k, _ := strconv.Atoi(os.Args[3])
		n, _ := strconv.Atoi(os.Args[4])
		worker(os.Args[2], k, n)
		return
	}
	if len(os.Args) < 4 || os.Args[1] != "replay" {
		vh.Fatal("usage: c22 replay <exports> <nexports> | c22 worker <exports> <k> <nchild>")
	}
	total, _ := strconv.Atoi(os.Args[3])
	nchild := (total + 39999) / 40000
	if nchild < 4 {
		nchild = 4
	}
	// Every prefix of an exported call sequence is itself exported (it is the path of a BFS tree
	// edge). A divergence is reported only where it starts: at a sequence none of whose proper
	// prefixes diverged; longer sequences through it only show the same damage again.
	divs := map[string]map[string]interface{}{}
	r := fan.Run([]string{"worker", os.Args[2]}, nchild, 6, 3, func(o map[string]interface{}) {
		if o["kind"] == "div" {
			divs[o["key"].(string)] = o
		}
	})
	for _, d := range r.Dead {
		vh.Violation("crash", "replay worker died: "+d, map[string]interface{}{"dead": d})
	}
	roots := map[string]float64{}
	keys := make([]string, 0, len(divs))
	for k := range divs {
		keys = append(keys, k)
	}
	sort.Slice(keys, func(i, j int) bool {
		if len(keys[i]) != len(keys[j]) {
			return len(keys[i]) < len(keys[j])
		}
		return keys[i] < keys[j]
	})
	for _, k := range keys {
		parts := strings.Split(k, ", ")
		down := false
		for n := 1; n < len(parts) && !down; n++ {
			_, down = divs[strings.Join(parts[:n], ", ")]
		}
		if down {
			continue
		}
		o := divs[k]
		sig := o["sig"].(string)
		roots[sig]++
		if roots[sig] <= 3 {
			vh.Violation(sig, "after "+k+": "+fmt.Sprint(o["desc"]), map[string]interface{}{"calls": k, "expected": o["expected"], "got": o["got"], "export_index": o["export_index"]})
		}
	}
	vh.Summary(map[string]interface{}{"cases": r.Sum["cases"], "steps": r.Sum["steps"], "children": nchild,
		"last_ops": r.Maps["last_ops"], "diverged_sequences": len(divs), "root_divergences_by_sig": roots,
		"distinct": len(r.Maps["last_ops"])})
}
