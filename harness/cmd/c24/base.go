package main

import (
	"fmt"
	"math"
	"time"

	"github.com/bytom/bytom/account"
	"github.com/bytom/bytom/asset"
	"github.com/bytom/bytom/blockchain/signers"
	"github.com/bytom/bytom/consensus"
	"github.com/bytom/bytom/contract"
	"github.com/bytom/bytom/crypto"
	"github.com/bytom/bytom/crypto/ed25519/chainkd"
	"github.com/bytom/bytom/protocol/bc"
	"github.com/bytom/bytom/protocol/bc/types"
	"github.com/bytom/bytom/protocol/vm/vmutil"
	"github.com/bytom/bytom/wallet"

	"verifharness/internal/memkv"
	"verifharness/internal/node"
	"verifharness/internal/vh"
)

// Concretisation of specs/wallet/WalletLedger.tla: two real wallet accounts (A, B) with real
// keys, the control programs behind the specification's program labels, the funding prefix
// whose rewards are paid to A's coinbase program, and the transaction menu as real signed
// transactions. Built once per worker process; every scenario runs on clones of the two
// stores (chain, wallet) taken when the wallet had followed the prefix to its tip.

const (
	txFee    = 10000000
	r0x2     = 2 * node.R0
	spendFee = 20000000 // fee of the probe transactions of C25 (nothing depends on it)
)

type coin struct {
	Name     string
	ID       bc.Hash
	SourceID bc.Hash
	Pos      uint64
	Amount   uint64
	Prog     string // program label
	Program  []byte
	Vote     []byte
	Kind     string
}

type menuTx struct {
	Tx      *types.Tx
	Fee     uint64
	VoteAmt int64
}

type base struct {
	chainKV, walletKV *memkv.DB
	prefix            []*types.Block
	byHash            map[bc.Hash]*types.Block
	keys              map[string]chainkd.XPrv          // account label -> root key
	acctID            map[string]string                // account label -> account id
	acctOf            map[string]string                // account id -> label
	signer            map[string]*signers.Signer       // account label -> signer
	cps               map[string]*account.CtrlProgram  // program label -> wallet control program (wallet-owned labels)
	progs             map[string][]byte                // program label -> control program
	labelOf           map[string]string                // program bytes -> label
	voteKey           []byte
	coins             map[string]*coin // prefix and menu coins
	coinOfID          map[bc.Hash]string
	txs               map[int]*menuTx
}

func rootKey(seed byte) chainkd.XPrv {
	var s [32]byte
	for i := range s {
		s[i] = seed ^ byte(i*13+5)
	}
	return chainkd.RootXPrv(s[:])
}

func outCoin(name string, tx *types.Tx, pos int) *coin {
	id := *tx.ResultIds[pos]
	c := &coin{Name: name, ID: id, Amount: tx.Outputs[pos].Amount, Program: tx.Outputs[pos].ControlProgram, Kind: "normal"}
	switch e := tx.Entries[id].(type) {
	case *bc.OriginalOutput:
		c.SourceID, c.Pos = *e.Source.Ref, e.Source.Position
	case *bc.VoteOutput:
		c.SourceID, c.Pos = *e.Source.Ref, e.Source.Position
		c.Vote = e.Vote
		c.Kind = "vote"
	}
	if tx.Inputs[0].InputType() == types.CoinbaseInputType {
		c.Kind = "coinbase"
	}
	return c
}

// openWallet starts a real wallet (account manager, asset and contract registries, block walker) on wkv following env's chain.
func openWallet(env *node.Env, wkv *memkv.DB) (*wallet.Wallet, *account.Manager, error) {
	mgr := account.NewManager(wkv, env.Chain)
	w, err := wallet.NewWallet(wkv, mgr, asset.NewRegistry(wkv, env.Chain), contract.NewRegistry(wkv), nil, env.Chain, env.Disp, false)
	return w, mgr, err
}

// caughtUp: the wallet's status names the chain's best block.
func caughtUp(env *node.Env, w *wallet.Wallet) bool {
	st := w.GetWalletStatusInfo()
	bh := env.Chain.BestBlockHash()
	return st.BestHash == *bh && st.WorkHash == *bh
}

func waitCaughtUp(env *node.Env, w *wallet.Wallet, d time.Duration) bool {
	deadline := time.Now().Add(d)
	for !caughtUp(env, w) {
		if time.Now().After(deadline) {
			return false
		}
		time.Sleep(50 * time.Microsecond)
	}
	return true
}

// signInput signs input idx of the transaction built from d with the key behind the wallet program `label`
// (P2WPKH: signature, public key) and returns nothing: the arguments are set in d.
func (b *base) witness(d *types.TxData, idx int, acct string, change bool, keyIndex uint64) {
	tx := types.NewTx(*d)
	path, err := signers.Path(b.signer[acct], signers.AccountKeySpace, change, keyIndex)
	if err != nil {
		vh.Fatal("derivation path: %v", err)
	}
	child := b.keys[acct].Derive(path)
	h := tx.SigHash(uint32(idx))
	sig := child.Sign(h.Bytes())
	pub := child.XPub().PublicKey()
	d.Inputs[idx].SetArguments([][]byte{sig, []byte(pub)})
}

func (b *base) spendInput(c *coin) *types.TxInput {
	if c.Vote != nil {
		return types.NewVetoInput(nil, c.SourceID, *consensus.BTMAssetID, c.Amount, c.Pos, c.Program, c.Vote, nil)
	}
	return types.NewSpendInput(nil, c.SourceID, *consensus.BTMAssetID, c.Amount, c.Pos, c.Program, nil)
}

type outSpec struct {
	coin, prog string
	amt        uint64
	vote       bool
}

// lockTable, when set ("lock=<before>:<step height>:<after>"), replaces the family's constant vote lock by a table that
// steps at a height, as the main network's does (14400 blocks below height 432000, 302400 from there on).
var lockTable [3]uint64
var lockStep bool

func buildBase() *base {
	node.ConfigureLedger()
	if lockStep {
		p := consensus.ActiveNetParams
		p.VotePendingBlockNums = []consensus.VotePendingBlockNum{{BeginBlock: 0, EndBlock: lockTable[1], Num: lockTable[0]},
			{BeginBlock: lockTable[1], EndBlock: math.MaxUint64, Num: lockTable[2]}}
		consensus.ActiveNetParams = p
	}
	b := &base{keys: map[string]chainkd.XPrv{}, acctID: map[string]string{}, acctOf: map[string]string{}, signer: map[string]*signers.Signer{},
		cps: map[string]*account.CtrlProgram{}, progs: map[string][]byte{}, labelOf: map[string]string{},
		coins: map[string]*coin{}, coinOfID: map[bc.Hash]string{}, txs: map[int]*menuTx{}, byHash: map[bc.Hash]*types.Block{}}
	ckv, wkv := memkv.New(), memkv.New()
	env, err := node.Open(ckv)
	if err != nil {
		vh.Fatal("cannot open a fresh node: %v", err)
	}
	// the wallet: two single-key accounts
	mgr := account.NewManager(wkv, env.Chain)
	for i, name := range []string{"A", "B"} {
		k := rootKey(byte(61 + i))
		acc, err := mgr.Create([]chainkd.XPub{k.XPub()}, 1, "acct-"+name, signers.BIP0044)
		if err != nil {
			vh.Fatal("create account %s: %v", name, err)
		}
		b.keys[name], b.acctID[name], b.acctOf[acc.ID], b.signer[name] = k, acc.ID, name, acc.Signer
	}
	addr := func(label, acct string, change bool) {
		cp, err := mgr.CreateAddress(b.acctID[acct], change)
		if err != nil {
			vh.Fatal("create address %s: %v", label, err)
		}
		b.cps[label], b.progs[label] = cp, cp.ControlProgram
	}
	addr("A.cb", "A", false)
	addr("A.1", "A", false)
	addr("A.2", "A", true) // a change address
	addr("B.1", "B", false)
	if _, err := mgr.SetMiningAddress(b.cps["A.cb"].Address); err != nil {
		vh.Fatal("set mining address: %v", err)
	}
	if p, err := mgr.GetCoinbaseControlProgram(); err != nil || string(p) != string(b.progs["A.cb"]) {
		vh.Fatal("the account manager's coinbase program is not the mining address: %v", err)
	}
	outsider := rootKey(97)
	xp, err := vmutil.P2WPKHProgram(crypto.Ripemd160(outsider.XPub().PublicKey()))
	if err != nil {
		vh.Fatal("p2wpkh: %v", err)
	}
	b.progs["X.pkh"] = xp
	b.progs["X.true"] = []byte{0x51}
	for l, p := range b.progs {
		b.labelOf[string(p)] = l
	}
	vk := node.Keys[0].XPub()
	b.voteKey = vk[:]

	// the funding prefix: every block pays its proposer reward to A.cb
	w := node.NewWorld(env)
	parent := w.F.Genesis
	b.byHash[parent.Hash()] = parent
	for h := uint64(1); h <= node.PrefixLen; h++ {
		var first uint64
		if h%2 == 1 && h > 1 {
			first = r0x2
		}
		blk := w.F.Build(node.BlockReq{Parent: parent, Signer: 0, Program: b.progs["A.cb"], First: first, Nonce: 9000 + h})
		b.prefix = append(b.prefix, blk)
		b.byHash[blk.Hash()] = blk
		parent = blk
	}
	for _, h := range []int{3, 5, 7, 9, 11, 13} {
		name := fmt.Sprintf("P%d", h)
		c := outCoin(name, b.prefix[h-1].Transactions[0], 0)
		c.Prog = "A.cb"
		b.coins[name] = c
	}

	// the menu (specs/wallet/WalletLedger.tla, TX)
	mk := func(id int, in string, fee uint64, outs ...outSpec) {
		c := b.coins[in]
		d := types.TxData{Version: 1, Inputs: []*types.TxInput{b.spendInput(c)}}
		var sum uint64
		for _, o := range outs {
			if o.vote {
				d.Outputs = append(d.Outputs, types.NewVoteOutput(*consensus.BTMAssetID, o.amt, b.progs[o.prog], b.voteKey, nil))
			} else {
				d.Outputs = append(d.Outputs, types.NewOriginalTxOutput(*consensus.BTMAssetID, o.amt, b.progs[o.prog], nil))
			}
			sum += o.amt
		}
		if sum+fee != c.Amount {
			vh.Fatal("menu transaction %d does not balance: in %d, out %d, fee %d", id, c.Amount, sum, fee)
		}
		cp := b.cps[c.Prog]
		b.witness(&d, 0, b.acctOf[cp.AccountID], cp.Change, cp.KeyIndex)
		tx := node.FinishTx(&d)
		mt := &menuTx{Tx: tx, Fee: fee}
		for i, o := range outs {
			oc := outCoin(o.coin, tx, i)
			oc.Prog = o.prog
			b.coins[o.coin] = oc
			if o.vote {
				mt.VoteAmt += int64(o.amt)
			}
		}
		if c.Vote != nil {
			mt.VoteAmt -= int64(c.Amount)
		}
		b.txs[id] = mt
	}
	mk(1, "P3", txFee, outSpec{"N1", "A.1", r0x2 - txFee, false})
	mk(2, "P3", txFee+1, outSpec{"N2", "B.1", r0x2 - txFee - 1, false})
	mk(3, "N1", txFee, outSpec{"V3", "A.2", r0x2 - 2*txFee, true})
	mk(4, "V3", txFee, outSpec{"N4", "A.1", r0x2 - 3*txFee, false})
	mk(5, "P5", txFee, outSpec{"X5", "X.pkh", 200000000, false}, outSpec{"C5", "X.true", 100000000, false}, outSpec{"N5", "A.2", r0x2 - 300000000 - txFee, false})
	mk(6, "P7", txFee, outSpec{"N6", "B.1", r0x2 - txFee, false})
	mk(7, "N2", txFee, outSpec{"N7", "A.1", 250000000, false}, outSpec{"M7", "A.1", r0x2 - 2*txFee - 1 - 250000000, false})
	mk(8, "P5", txFee, outSpec{"V8", "B.1", r0x2 - txFee, true})
	mk(9, "V8", txFee, outSpec{"N9", "B.1", r0x2 - 2*txFee, false})
	for n, c := range b.coins {
		b.coinOfID[c.ID] = n
	}

	// the node takes the prefix, the wallet follows it
	for _, blk := range b.prefix {
		if orphan, err, blocked := w.Process(node.CopyBlock(blk, nil), 30*time.Second); err != nil || orphan || blocked {
			vh.Fatal("funding prefix block %d not accepted: orphan=%v err=%v blocked=%v", blk.Height, orphan, err, blocked)
		}
	}
	wal, err := wallet.NewWallet(wkv, mgr, asset.NewRegistry(wkv, env.Chain), contract.NewRegistry(wkv), nil, env.Chain, env.Disp, false)
	if err != nil {
		vh.Fatal("cannot start the wallet: %v", err)
	}
	if !waitCaughtUp(env, wal, 60*time.Second) {
		vh.Fatal("the wallet did not follow the funding prefix within 60s (status %+v)", wal.GetWalletStatusInfo())
	}
	time.Sleep(20 * time.Millisecond) // the walker is idle (waiting for height 15) when the stores are copied
	b.chainKV, b.walletKV = ckv.Clone(), wkv.Clone()
	return b
}
