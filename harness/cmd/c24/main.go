// c24: replays the behaviours exported by specs/wallet/WalletGen.tla against a real
// protocol.Chain followed by a real wallet.Wallet (account manager, wallet DB, block walker):
// a 14-block funding prefix paying wallet account A, then the model's tree of blocks carrying
// the menu of real signed wallet transactions, delivered in the model's order. After the last
// call of every path
//
//	C24: the wallet's unspent outputs (standard and contract listings, unconfirmed excluded)
//	     are compared field by field with the specification's scan of the main chain;
//	C25: every wallet output whose valid height is not above the best height must be spendable
//	     at the next height according to the specification, and a real block at that height
//	     spending it must be accepted by the node into its main chain.
//
//	c24 replay <tlc-output> <workers> [stride]
//	c24 selftest <tlc-output> <n>
package main

import (
	"bytes"
	"encoding/binary"
	"encoding/hex"
	"encoding/json"
	"fmt"
	"math/rand"
	"os"
	"runtime/pprof"
	"sort"
	"strconv"
	"time"

	"github.com/bytom/bytom/account"
	"github.com/bytom/bytom/consensus"
	"github.com/bytom/bytom/protocol"
	"github.com/bytom/bytom/protocol/bc"
	"github.com/bytom/bytom/protocol/bc/types"
	"github.com/bytom/bytom/wallet"

	"verifharness/internal/node"
	"verifharness/internal/vh"
)

type call struct {
	Op     string `json:"op"`
	ID     int    `json:"id"`
	P      int    `json:"p"`
	Pos    int    `json:"pos"`
	B      int    `json:"b"`
	Tx     int    `json:"tx"`
	Orphan bool   `json:"orphan"`
	Err    bool   `json:"err"`
}
type wutxo struct {
	Coin  string `json:"coin"`
	Acct  string `json:"acct"`
	Prog  string `json:"prog"`
	Kind  string `json:"kind"`
	Asset string `json:"asset"`
	Amt   uint64 `json:"amt"`
	Vote  string `json:"vote"`
	VH    uint64 `json:"vh"`
}
type view struct {
	Wallet    []wutxo           `json:"wallet"`
	Spendable []string          `json:"spendable"`
	Ledger    map[string]string `json:"ledger"`
	Height    uint64            `json:"height"`
}
type obs struct {
	Stored  []int `json:"stored"`
	Orphans []int `json:"orphans"`
	Best    int   `json:"best"`
	Invalid []int `json:"invalid"`
	Listable []int `json:"listable"`
	Now     view  `json:"now"`
	Nudge   view  `json:"nudge"`
}
type doc struct {
	Calls []call `json:"calls"`
	Obs   *obs   `json:"obs"`
}

type divergence struct {
	Step int
	Prop string
	What string
	Msg  string
}

type stats struct {
	cases, calls, nudged, shadowed, reorgs, utxos, usable, probes, probeBlocks, retried, tries, mints, keeperUsable, uncViews, uncOffered, uncJudged int
	tOpen, tBuild, tRun, tCmp, tProbe                                                   time.Duration
}

var st stats
var bs *base
var maxDivs = 6 // divergences reported per scenario
var curIdx int   // export index of the running case (seeds the choice of the stale unconfirmed listing)

// how long the wallet may take to name the chain's best block after ProcessBlock returned (it needs milliseconds)
const watchdog = 10 * time.Second

type blockSpec struct {
	id, p, pos int
	txs        []int
}

// scenario state: the model's blocks as real blocks plus the reward accounting of every branch
type scenario struct {
	w        *node.World
	env      *node.Env
	wal      *wallet.Wallet
	specs    map[int]*blockSpec
	votes    map[int]uint64
	contrib  map[int]uint64
	parentOf map[int]int
	coins    map[string]*coin // base coins + the reward coins of this scenario
	coinOfID map[bc.Hash]string
}

func (s *scenario) mint(id, p, pos int, lo, hi float64, txs []*types.Tx, fees uint64, voteDelta int64) *types.Block {
	st.mints++
	s.parentOf[id] = p
	v := s.votes[p]
	if voteDelta < 0 {
		if v > uint64(-voteDelta) {
			v -= uint64(-voteDelta)
		} else {
			v = 0
		}
	} else {
		v += uint64(voteDelta)
	}
	s.votes[id] = v
	abs := s.w.Blocks[p].Height + 1
	s.contrib[id] = fees + node.Subsidy(v, abs)
	var first uint64
	if abs%2 == 1 {
		first = s.contrib[p] + s.contrib[s.parentOf[p]]
	}
	if !s.grind(id, p, pos, lo, hi, func(r *node.BlockReq) {
		st.tries++
		r.Program = bs.progs["A.cb"]
		r.First = first
		r.Txs = txs
	}) {
		vh.Fatal("cannot grind a hash of the wanted rank (block %d on %d, rank %d, window %v..%v)", id, p, pos, lo, hi)
	}
	return s.w.Blocks[id]
}

// grind builds block id on p with a hash inside the window [lo, hi) of the hash space (as a fraction) whose rank among
// the blocks of its height is pos, and files it in the world like node.World.Mint does. The windows make the number of
// tries independent of where earlier hashes happened to fall: the scenario's blocks share the lower half of the space
// in the order of their final ranks, the extra blocks of the harness (which must win the tie-break) climb in the upper half.
func (s *scenario) grind(id, p, pos int, lo, hi float64, extra func(r *node.BlockReq)) bool {
	w := s.w
	parent := w.Blocks[p]
	h := parent.Height + 1
	same := w.ByH[h]
	for nonce, tries := uint64(id)*1000003, 0; tries < 100000; nonce, tries = nonce+1, tries+1 {
		req := node.BlockReq{Parent: parent, Signer: 0, Nonce: nonce}
		extra(&req)
		b := w.F.Build(req)
		nh := b.Hash()
		f := float64(binary.BigEndian.Uint64(nh.Bytes()[:8])) / 18446744073709551616.0
		if f < lo || f >= hi {
			delete(w.F.ByHash, nh)
			continue
		}
		below := 0
		for _, o := range same {
			if oh := w.Blocks[o].Hash(); oh.String() < nh.String() {
				below++
			}
		}
		if below != pos {
			delete(w.F.ByHash, nh)
			continue
		}
		w.Blocks[id] = b
		w.IDOf[nh] = id
		ns := append([]int{}, same[:pos]...)
		ns = append(ns, id)
		ns = append(ns, same[pos:]...)
		w.ByH[h] = ns
		return true
	}
	return false
}

// top returns the window of the next extra block at height h: above everything minted there so far.
func (s *scenario) top(h uint64) (lo, hi float64) {
	lo = 0.5
	for _, o := range s.w.ByH[h] {
		oh := s.w.Blocks[o].Hash()
		if f := float64(binary.BigEndian.Uint64(oh.Bytes()[:8])) / 18446744073709551616.0; f >= lo {
			lo = f
		}
	}
	return lo, lo + (1-lo)/2 + 1e-9
}

func (s *scenario) addReward(name string, id int) {
	blk := s.w.Blocks[id]
	if blk.Height%2 != 1 {
		return
	}
	c := outCoin(name, blk.Transactions[0], 0)
	c.Prog = "A.cb"
	s.coins[name] = c
	s.coinOfID[c.ID] = name
}

// sync waits until the wallet names the chain's best block. A wallet that sits on a block of the same
// height as the best block is waiting for a higher block (it follows the chain by height): stuck=true.
func (s *scenario) sync(hard time.Duration) (ok, stuck bool) {
	deadline := time.Now().Add(hard)
	var sameSince time.Time
	for {
		if caughtUp(s.env, s.wal) {
			return true, false
		}
		ws := s.wal.GetWalletStatusInfo()
		bh := s.env.Chain.BestBlockHeader()
		if ws.BestHeight == bh.Height && ws.WorkHeight == bh.Height && ws.BestHash != bh.Hash() {
			if sameSince.IsZero() {
				sameSince = time.Now()
			} else if time.Since(sameSince) > 10*time.Millisecond {
				return false, true
			}
		} else {
			sameSince = time.Time{}
		}
		if time.Now().After(deadline) {
			return false, false
		}
		time.Sleep(50 * time.Microsecond)
	}
}

func lockArgs() []string {
	if !lockStep {
		return []string{}
	}
	return []string{fmt.Sprintf("lock=%d:%d:%d", lockTable[0], lockTable[1], lockTable[2])}
}

func lockNote() string {
	if !lockStep {
		return ""
	}
	return fmt.Sprintf(" (vote lock table: %d block(s) for spending heights below %d, %d from there on)", lockTable[0], lockTable[1], lockTable[2])
}

func hx(b []byte) string { return hex.EncodeToString(b) }

func (s *scenario) listing() (std, ctr []*account.UTXO) {
	return s.wal.GetAccountUtxos("", "", false, false, false), s.wal.GetAccountUtxos("", "", false, true, false)
}

// probeTx spends the wallet's output record u (as the wallet describes it) to an anyone-can-spend program.
func probeTx(u *account.UTXO) *types.Tx {
	var in *types.TxInput
	if len(u.Vote) != 0 {
		in = types.NewVetoInput(nil, u.SourceID, u.AssetID, u.Amount, u.SourcePos, u.ControlProgram, u.Vote, nil)
	} else {
		in = types.NewSpendInput(nil, u.SourceID, u.AssetID, u.Amount, u.SourcePos, u.ControlProgram, nil)
	}
	fee := uint64(spendFee)
	if u.Amount <= fee {
		fee = 0
	}
	d := types.TxData{Version: 1, Inputs: []*types.TxInput{in},
		Outputs: []*types.TxOutput{types.NewOriginalTxOutput(u.AssetID, u.Amount-fee, []byte{0x51}, nil)}}
	if acct, ok := bs.acctOf[u.AccountID]; ok {
		bs.witness(&d, 0, acct, u.Change, u.ControlProgramIndex)
	}
	return node.FinishTx(&d)
}

func replay(d doc) (divs []*divergence) {
	t0 := time.Now()
	ckv, wkv := bs.chainKV.Clone(), bs.walletKV.Clone()
	env, err := node.Open(ckv)
	if err != nil {
		vh.Fatal("cannot reopen the node on the prefix: %v", err)
	}
	wal, mgr, err := openWallet(env, wkv)
	if err != nil {
		vh.Fatal("cannot start the wallet: %v", err)
	}
	w := node.NewWorld(env)
	for h, b := range bs.byHash {
		w.F.ByHash[h] = b
	}
	tip := bs.prefix[len(bs.prefix)-1]
	w.Blocks[0] = tip
	w.IDOf = map[bc.Hash]int{tip.Hash(): 0}
	s := &scenario{w: w, env: env, wal: wal, specs: map[int]*blockSpec{}, votes: map[int]uint64{0: 0},
		contrib: map[int]uint64{0: node.R0, -1: node.R0}, parentOf: map[int]int{0: -1},
		coins: map[string]*coin{}, coinOfID: map[bc.Hash]string{}}
	for n, c := range bs.coins {
		s.coins[n] = c
		s.coinOfID[c.ID] = n
	}
	if !caughtUp(env, wal) {
		if ok, _ := s.sync(watchdog); !ok {
			vh.Fatal("the wallet reopened on the prefix does not name the prefix tip (status %+v)", wal.GetWalletStatusInfo())
		}
	}

	st.tOpen += time.Since(t0)
	var order []int
	for _, c := range d.Calls {
		switch c.Op {
		case "mint":
			s.specs[c.ID] = &blockSpec{id: c.ID, p: c.P, pos: c.Pos}
			order = append(order, c.ID)
		case "place":
			s.specs[c.B].txs = append(s.specs[c.B].txs, c.Tx)
		}
	}
	built := false
	build := func() {
		tb := time.Now()
		defer func() { st.tBuild += time.Since(tb) }()
		sort.Ints(order)
		// final rank of every block among the blocks of its height
		hOf := map[int]int{0: 0}
		byh := map[int][]int{}
		for _, id := range order {
			sp := s.specs[id]
			h := hOf[sp.p] + 1
			hOf[id] = h
			q := byh[h]
			q = append(q[:sp.pos:sp.pos], append([]int{id}, q[sp.pos:]...)...)
			byh[h] = q
		}
		window := map[int][2]float64{}
		for _, q := range byh {
			for r, id := range q {
				window[id] = [2]float64{0.5 * float64(r) / float64(len(q)), 0.5 * float64(r+1) / float64(len(q))}
			}
		}
		for _, id := range order {
			sp := s.specs[id]
			var txs []*types.Tx
			var fees uint64
			var dv int64
			for _, t := range sp.txs {
				mt := bs.txs[t]
				txs = append(txs, mt.Tx)
				fees += mt.Fee
				dv += mt.VoteAmt
			}
			s.mint(id, sp.p, sp.pos, window[id][0], window[id][1], txs, fees, dv)
			s.addReward(fmt.Sprintf("R%d", id), id)
		}
		built = true
	}

	last := -1
	reorg := false
	t1 := time.Now()
	defer func() { st.tRun += time.Since(t1) }()
	for i, c := range d.Calls {
		if c.Op != "deliver" {
			continue
		}
		if !built {
			build()
		}
		last = i
		before := *env.Chain.BestBlockHash()
		orphan, perr, blocked := w.Process(node.CopyBlock(w.Blocks[c.B], nil), 3*watchdog)
		if blocked {
			return []*divergence{{i, "C12", "blocked", fmt.Sprintf("ProcessBlock(block %d) did not return within 30s (watchdog)", c.B)}}
		}
		if (perr != nil) != c.Err || (perr == nil && orphan != c.Orphan) {
			return []*divergence{{i, "C13", "ret", fmt.Sprintf("ProcessBlock(block %d, txs %v) returned (orphan=%v, err=%v), specification says (orphan=%v, err=%v)", c.B, s.specs[c.B].txs, orphan, perr, c.Orphan, c.Err)}}
		}
		after := env.Chain.BestBlockHeader()
		if after.Hash() != before && after.PreviousBlockHash != before {
			// the new best block is not a child of the old one: blocks were detached or several attached
			for h := after.PreviousBlockHash; ; {
				if h == before {
					break
				}
				pb, ok := w.F.ByHash[h]
				if !ok || pb.Height <= node.PrefixLen {
					reorg = true
					break
				}
				h = pb.PreviousBlockHash
			}
		}
		if ok, stuck := s.sync(watchdog); !ok && !stuck {
			ws, ah := wal.GetWalletStatusInfo(), after.Hash()
			return []*divergence{{i, "C24", "not-following", fmt.Sprintf("10s after ProcessBlock(block %d) returned the wallet names block %s at height %d, the chain's best block is %s at height %d", c.B,
				ws.BestHash.String()[:8], ws.BestHeight, ah.String()[:8], after.Height)}}
		}
	}
	if last < 0 || d.Obs == nil {
		return nil
	}
	if id, ok := w.IDOf[*env.Chain.BestBlockHash()]; !ok || id != d.Obs.Best {
		return []*divergence{{last, "C11", "best", fmt.Sprintf("after the last call the best block is %d, specification says %d", id, d.Obs.Best)}}
	}
	rs := "no-reorg"
	if reorg {
		rs = "after-reorg"
		st.reorgs++
	}
	if lockStep {
		rs += ":lockstep"
	}
	shadowed := len(d.Obs.Invalid) > 0 // a stored branch that does not apply disturbs the node's fork choice (recorded finding of C11)
	v := &d.Obs.Now
	nextID := 100
	if ok, stuck := s.sync(watchdog); !ok {
		if !stuck {
			return []*divergence{{last, "C24", "not-following", "the wallet does not reach the chain's best block"}}
		}
		if shadowed {
			st.shadowed++
			return nil
		}
		// same-height reorganisation: the wallet hears of it with the next block
		lo, hi := s.top(w.Blocks[d.Obs.Best].Height + 1)
		blk := s.mint(nextID, d.Obs.Best, len(w.ByH[w.Blocks[d.Obs.Best].Height+1]), lo, hi, nil, 0, 0)
		s.addReward("RN", nextID)
		nextID++
		if orphan, err, blocked := w.Process(node.CopyBlock(blk, nil), 3*watchdog); err != nil || orphan || blocked || *env.Chain.BestBlockHash() != blk.Hash() {
			return []*divergence{{last, "C13", "nudge-rejected", fmt.Sprintf("an empty block on the best block %d was not accepted as new best block: orphan=%v err=%v blocked=%v", d.Obs.Best, orphan, err, blocked)}}
		}
		if ok, _ := s.sync(watchdog); !ok {
			ws := wal.GetWalletStatusInfo()
			return []*divergence{{last, "C24", "not-following", fmt.Sprintf("10s after an empty block at height %d became the best block the wallet still names block %s at height %d", blk.Height,
				ws.BestHash.String()[:8], ws.BestHeight)}}
		}
		reorg = true
		rs = "after-reorg"
		if lockStep {
			rs += ":lockstep"
		}
		v = &d.Obs.Nudge
		st.nudged++
	}
	bestHeight := env.Chain.BestBlockHeight()
	if bestHeight != v.Height {
		vh.Fatal("harness: best height %d, specification says %d", bestHeight, v.Height)
	}
	bestBlk := w.F.ByHash[*env.Chain.BestBlockHash()]
	bestID := w.IDOf[bestBlk.Hash()]
	bestName := fmt.Sprintf("block %d", bestID)
	if bestID >= 100 {
		bestName = fmt.Sprintf("an empty block on block %d", d.Obs.Best)
	}

	// ------------------------------------------------------------------ C24
	t2 := time.Now()
	add := func(prop, what, format string, a ...interface{}) {
		if len(divs) < maxDivs {
			divs = append(divs, &divergence{last, prop, what, fmt.Sprintf(format, a...)})
		}
	}
	std, ctr := s.listing()
	for _, u := range ctr {
		add("C24", "contract-listing", "the wallet lists output %s (coin %s) among its contract outputs; no wallet account owns a non-segwit program", u.OutputID.String()[:8], s.coinOfID[u.OutputID])
	}
	got := map[string]*account.UTXO{}
	for _, u := range std {
		name, ok := s.coinOfID[u.OutputID]
		if !ok {
			add("C24", "unknown-output", "the wallet lists output %s (account %s, amount %d) which no transaction of the scenario creates", u.OutputID.String()[:8], bs.acctOf[u.AccountID], u.Amount)
			continue
		}
		if got[name] != nil {
			add("C24", "listed-twice", "the wallet lists coin %s twice", name)
		}
		got[name] = u
	}
	want := map[string]wutxo{}
	for _, e := range v.Wallet {
		want[e.Coin] = e
	}
	names := make([]string, 0, len(got)+len(want))
	for n := range got {
		names = append(names, n)
	}
	for n := range want {
		if got[n] == nil {
			names = append(names, n)
		}
	}
	sort.Strings(names)
	perAcct := map[string]int{}
	balance, votes := map[string]uint64{}, map[string]uint64{}
	nvote := 0
	for _, n := range names {
		u, e := got[n], want[n]
		c := s.coins[n]
		_, expected := want[n]
		switch {
		case u == nil:
			if c == nil {
				vh.Fatal("harness: the specification expects coin %s, which the factory did not create", n)
			}
			add("C24", "missing:"+e.Kind+":"+rs, "scanning the main chain (best: %s, height %d) gives the unspent %s output %s of account %s (amount %d); the wallet does not list it",
				bestName, bestHeight, e.Kind, n, e.Acct, c.Amount)
			continue
		case !expected:
			add("C24", "stale:"+c.Kind+":"+v.Ledger[n]+":"+rs, "the wallet lists the %s output %s (account %s, valid height %d); on the main chain (best: %s, height %d) this output is %s",
				c.Kind, n, bs.acctOf[u.AccountID], u.ValidHeight, bestName, bestHeight, map[string]string{"none": "not created", "spent": "spent", "unspent": "unspent but not wallet-owned"}[v.Ledger[n]])
			continue
		}
		st.utxos++
		perAcct[e.Acct]++
		if e.Kind == "vote" {
			nvote++
		}
		amt := e.Amt
		if amt == 0 && e.Kind == "coinbase" {
			amt = c.Amount // reward with a vote tally: the amount is the factory's (C14)
		} else if amt != c.Amount {
			vh.Fatal("harness: coin %s has amount %d, specification says %d", n, c.Amount, amt)
		}
		balance[e.Acct] += amt
		if e.Kind == "vote" {
			votes[e.Acct] += amt
		}
		var voteKey []byte
		if e.Vote == "K" {
			voteKey = bs.voteKey
		}
		cp := bs.cps[e.Prog]
		field := func(name string, ok bool, gotv, wantv interface{}) {
			if !ok {
				add("C24", "field:"+name+":"+e.Kind, "wallet output %s (%s): %s is %v, scanning the main chain gives %v", n, e.Kind, name, gotv, wantv)
			}
		}
		field("asset", e.Asset == "BTM" && u.AssetID == *consensus.BTMAssetID, u.AssetID.String(), e.Asset)
		field("amount", u.Amount == amt, u.Amount, amt)
		field("program", bytes.Equal(u.ControlProgram, bs.progs[e.Prog]), hx(u.ControlProgram), e.Prog+"="+hx(bs.progs[e.Prog]))
		field("account", u.AccountID == bs.acctID[e.Acct], bs.acctOf[u.AccountID]+"/"+u.AccountID, e.Acct+"/"+bs.acctID[e.Acct])
		field("votekey", bytes.Equal(u.Vote, voteKey), hx(u.Vote), hx(voteKey))
		field("source", u.SourceID == c.SourceID && u.SourcePos == c.Pos, fmt.Sprintf("%s:%d", u.SourceID.String()[:8], u.SourcePos), fmt.Sprintf("%s:%d", c.SourceID.String()[:8], c.Pos))
		if cp != nil {
			field("address", u.Address == cp.Address && u.ControlProgramIndex == cp.KeyIndex && u.Change == cp.Change,
				fmt.Sprintf("%s/%d/%v", u.Address, u.ControlProgramIndex, u.Change), fmt.Sprintf("%s/%d/%v", cp.Address, cp.KeyIndex, cp.Change))
		}
	}
	// the listing filters of the same observation point
	if len(divs) == 0 {
		for _, a := range []string{"A", "B"} {
			l := s.wal.GetAccountUtxos(bs.acctID[a], "", false, false, false)
			if len(l) != perAcct[a] {
				add("C24", "account-filter", "GetAccountUtxos for account %s lists %d outputs, the scan of the main chain has %d", a, len(l), perAcct[a])
			}
		}
		// the balances and vote totals the wallet derives from the same records (wallet/indexer.go)
		gotBal, gotVotes := map[string]uint64{}, map[string]uint64{}
		if bl, err := s.wal.GetAccountBalances("", ""); err != nil {
			add("C24", "balances-error", "GetAccountBalances failed: %v", err)
		} else {
			for _, x := range bl {
				if x.AssetID != consensus.BTMAssetID.String() {
					add("C24", "balances", "GetAccountBalances reports asset %s; the main chain holds BTM only", x.AssetID)
				}
				gotBal[bs.acctOf[x.AccountID]] += x.Amount
			}
		}
		if vl, err := s.wal.GetAccountVotes("", ""); err != nil {
			add("C24", "votes-error", "GetAccountVotes failed: %v", err)
		} else {
			for _, x := range vl {
				gotVotes[bs.acctOf[x.AccountID]] += x.TotalVoteNumber
				for _, dt := range x.VoteDetails {
					if dt.Vote != hx(bs.voteKey) {
						add("C24", "votes", "GetAccountVotes reports votes for key %s; the main chain has votes for %s only", dt.Vote, hx(bs.voteKey))
					}
				}
			}
		}
		for _, a := range []string{"A", "B"} {
			if gotBal[a] != balance[a] {
				add("C24", "balances", "GetAccountBalances gives account %s %d BTM, the scan of the main chain gives %d", a, gotBal[a], balance[a])
			}
			if gotVotes[a] != votes[a] {
				add("C24", "votes", "GetAccountVotes gives account %s %d votes, the scan of the main chain gives %d", a, gotVotes[a], votes[a])
			}
		}
		if l := s.wal.GetAccountUtxos("", "", false, false, true); len(l) != nvote {
			add("C24", "vote-filter", "GetAccountUtxos(vote only) lists %d outputs, the scan of the main chain has %d vote outputs", len(l), nvote)
		}
	}

	// ------------------------------------------------------------------ C25
	st.tCmp += time.Since(t2)
	t3 := time.Now()
	defer func() { st.tProbe += time.Since(t3) }()
	spendable := map[string]bool{}
	for _, n := range v.Spendable {
		spendable[n] = true
	}
	// what the wallet reports as usable: the keeper's own decisions (account/utxo_keeper.go: findUtxos behind Reserve, and
	// ReserveParticular) on this wallet DB at this chain height, and the rule they implement, ValidHeight <= height
	exp := time.Now().Add(time.Hour)
	byReserve, byParticular := map[bc.Hash]bool{}, map[bc.Hash]bool{}
	k1 := account.NewVerifKeeper(env.Chain.BestBlockHeight, wkv)
	for _, a := range []string{"A", "B"} {
		for _, vote := range [][]byte{nil, bs.voteKey} {
			for n := 0; n < 64; n++ {
				r, err := k1.Reserve(bs.acctID[a], consensus.BTMAssetID, 1, false, vote, exp)
				if err != nil || r == nil {
					break
				}
				for _, o := range r.Outputs {
					byReserve[o] = true
				}
			}
		}
	}
	k2 := account.NewVerifKeeper(env.Chain.BestBlockHeight, wkv)
	var usable []*account.UTXO
	for _, u := range std {
		if _, err := k2.ReserveParticular(u.OutputID, false, exp); err == nil {
			byParticular[u.OutputID] = true
		}
		if byReserve[u.OutputID] || byParticular[u.OutputID] {
			st.keeperUsable++
		}
		if u.ValidHeight <= bestHeight || byReserve[u.OutputID] || byParticular[u.OutputID] {
			usable = append(usable, u)
		}
	}
	sort.Slice(usable, func(i, j int) bool { return usable[i].OutputID.String() < usable[j].OutputID.String() })
	describe := func(u *account.UTXO) (name, kind, why string) {
		name, ok := s.coinOfID[u.OutputID]
		if !ok {
			return "?", "unknown", "not-on-main-chain"
		}
		kind = s.coins[name].Kind
		switch {
		case spendable[name]:
			why = ""
		case v.Ledger[name] == "none":
			why = "not-on-main-chain"
		case v.Ledger[name] == "spent":
			why = "spent"
		case kind == "coinbase":
			why = "immature"
		case kind == "vote":
			why = "locked"
		default:
			why = "unspendable"
		}
		return
	}
	specBad := map[bc.Hash]bool{}
	for _, u := range usable {
		st.usable++
		name, kind, why := describe(u)
		if why != "" {
			specBad[u.OutputID] = true
			add("C25", "usable-unspendable:"+kind+":"+why+":"+rs, "at best height %d the wallet reports the %s output %s (account %s) as usable (valid height %d; keeper Reserve: %v, ReserveParticular: %v); consensus does not let a block at height %d spend it: %s%s",
				bestHeight, kind, name, bs.acctOf[u.AccountID], u.ValidHeight, byReserve[u.OutputID], byParticular[u.OutputID], bestHeight+1, why, lockNote())
		}
	}
	// the unconfirmed view: the wallet is told (wallet.AddUnconfirmedTx, the pool-message path) about transactions the
	// specification allows to be still listed (those of stored blocks: the removal message lags, or the transaction went
	// back to the pool and was mined again); what the wallet's own keeper then lists as unconfirmed is given to the keeper
	// under test and Reserve / ReserveParticular are asked with useUnconfirmed. A *confirmed* wallet output (in the scan of
	// the main chain, or in the wallet DB) that is handed out must be Spendable at the next height; outputs known only from
	// the listing are not judged.
	if len(d.Obs.Listable) > 0 {
		sort.Ints(d.Obs.Listable)
		for _, t := range d.Obs.Listable {
			if mt := bs.txs[t]; mt != nil {
				wal.AddUnconfirmedTx(&protocol.TxDesc{Tx: mt.Tx})
			}
		}
		listed := mgr.ListUnconfirmedUtxo("", false)
		sort.Slice(listed, func(i, j int) bool { return listed[i].OutputID.String() < listed[j].OutputID.String() })
		outOfTx := map[bc.Hash]int{}
		for _, t := range d.Obs.Listable {
			if mt := bs.txs[t]; mt != nil {
				for _, id := range mt.Tx.ResultIds {
					outOfTx[*id] = t
				}
			}
		}
		// two listings: everything listable, and a subset drawn from the seed and the case
		subsets := [][]int{d.Obs.Listable}
		rng := rand.New(rand.NewSource(vh.Seed()*1000003 + int64(curIdx)))
		var sub []int
		for _, t := range d.Obs.Listable {
			if rng.Intn(2) == 0 {
				sub = append(sub, t)
			}
		}
		if len(sub) > 0 && len(sub) < len(d.Obs.Listable) {
			subsets = append(subsets, sub)
		}
		confirmed := func(id bc.Hash) (string, bool) {
			name, ok := s.coinOfID[id]
			if !ok {
				return "", false
			}
			_, inScan := want[name]
			return name, inScan || got[name] != nil
		}
		for _, ss := range subsets {
			st.uncViews++
			in := map[int]bool{}
			for _, t := range ss {
				in[t] = true
			}
			var feed []*account.UTXO
			for _, u := range listed {
				if in[outOfTx[u.OutputID]] {
					c := *u
					feed = append(feed, &c)
				}
			}
			offered := map[bc.Hash]string{} // output -> keeper call that handed it out
			k3 := account.NewVerifKeeper(env.Chain.BestBlockHeight, wkv)
			k3.AddUnconfirmed(feed)
			for _, a := range []string{"A", "B"} {
				for _, vote := range [][]byte{nil, bs.voteKey} {
					for n := 0; n < 64; n++ {
						r, err := k3.Reserve(bs.acctID[a], consensus.BTMAssetID, 1, true, vote, exp)
						if err != nil || r == nil {
							break
						}
						for _, o := range r.Outputs {
							offered[o] = "reserve"
						}
					}
				}
			}
			k4 := account.NewVerifKeeper(env.Chain.BestBlockHeight, wkv)
			k4.AddUnconfirmed(feed)
			ids := map[bc.Hash]bool{}
			for _, u := range std {
				ids[u.OutputID] = true
			}
			for _, u := range feed {
				ids[u.OutputID] = true
			}
			var idl []bc.Hash
			for id := range ids {
				idl = append(idl, id)
			}
			sort.Slice(idl, func(i, j int) bool { return idl[i].String() < idl[j].String() })
			for _, id := range idl {
				if _, err := k4.ReserveParticular(id, true, exp); err == nil {
					if _, ok := offered[id]; !ok {
						offered[id] = "particular"
					}
				}
			}
			for _, id := range idl {
				via, ok := offered[id]
				if !ok {
					continue
				}
				st.uncOffered++
				name, conf := confirmed(id)
				if !conf {
					continue // known only from the unconfirmed listing: outside C25
				}
				st.uncJudged++
				if spendable[name] || specBad[id] {
					continue // spendable, or already reported through the confirmed view
				}
				kind := s.coins[name].Kind
				why := map[bool]string{true: "immature", false: "locked"}[kind == "coinbase"]
				if v.Ledger[name] != "unspent" {
					why = v.Ledger[name]
				}
				add("C25", "usable-unspendable:"+kind+":"+why+":"+rs+":unconfirmed-view:"+via, "at best height %d, with transactions %v still listed as unconfirmed, the keeper hands out the confirmed %s output %s (%s with useUnconfirmed; the wallet DB record has valid height %d); consensus does not let a block at height %d spend it: %s%s",
					bestHeight, ss, kind, name, map[string]string{"reserve": "Reserve", "particular": "ReserveParticular only"}[via], func() uint64 {
						if g := got[name]; g != nil {
							return g.ValidHeight
						}
						return 0
					}(), bestHeight+1, why, lockNote())
			}
		}
	}
	// binding to consensus: a real block at the next height spending every usable output
	if len(usable) > 0 && !shadowed {
		process := func(us []*account.UTXO) bool {
			var txs []*types.Tx
			var fees uint64
			var dv int64
			for _, u := range us {
				tx := probeTx(u)
				txs = append(txs, tx)
				fees += u.Amount - tx.Outputs[0].Amount
				if len(u.Vote) != 0 {
					dv -= int64(u.Amount)
				}
			}
			lo, hi := s.top(bestBlk.Height + 1)
			blk := s.mint(nextID, bestID, len(w.ByH[bestBlk.Height+1]), lo, hi, txs, fees, dv)
			nextID++
			st.probeBlocks++
			orphan, err, blocked := w.Process(node.CopyBlock(blk, nil), 3*watchdog)
			return !blocked && err == nil && !orphan && *env.Chain.BestBlockHash() == blk.Hash()
		}
		st.probes += len(usable)
		if !process(usable) {
			for _, u := range usable {
				okNode := process([]*account.UTXO{u})
				name, kind, _ := describe(u)
				if !okNode && !specBad[u.OutputID] {
					add("C25", "usable-rejected-by-node:"+kind+":"+rs, "at best height %d the wallet reports the %s output %s as usable (valid height %d) and the specification lets height %d spend it, but the node rejects a block at that height spending it",
						bestHeight, kind, name, u.ValidHeight, bestHeight+1)
				}
			}
		} else if len(specBad) > 0 {
			// the node took a block the specification forbids (e.g. a restored entry that lost its creation height): the
			// wallet's claim is still wrong by the consensus rules; nothing more to report here
		}
	}
	return divs
}

func loadCase(path string, want int) (d doc) {
	vh.EachExport(path, func(idx int, raw []byte) error {
		if idx == want {
			json.Unmarshal(raw, &d)
		}
		return nil
	})
	return
}

func shape(d doc) string {
	s := ""
	for _, c := range d.Calls {
		switch c.Op {
		case "mint":
			s += fmt.Sprintf("m%d.%d,", c.P, c.Pos)
		case "place":
			s += fmt.Sprintf("p%d.%d,", c.B, c.Tx)
		case "deliver":
			s += fmt.Sprintf("d%d,", c.B)
		}
	}
	return s
}

// run replays one case, re-running it once when the only complaint is a wallet that did not move (watchdog).
func run(d doc) []*divergence {
	divs := replay(d)
	if len(divs) == 1 && divs[0].What == "not-following" {
		st.retried++
		return replay(d)
	}
	return divs
}

func selftest(path string, n int) {
	bs = buildBase()
	maxDivs = 1000
	done, rejected := 0, 0
	var firstMiss string
	key := func(dv *divergence) string { return dv.Prop + "|" + dv.What + "|" + dv.Msg }
	try := func(d doc, baseline map[string]bool, kind string, mutate func(v *view) bool, wantProp string) {
		var c doc
		raw, _ := json.Marshal(d)
		json.Unmarshal(raw, &c)
		if !mutate(&c.Obs.Now) {
			return
		}
		mutate(&c.Obs.Nudge)
		done++
		// the corrupted expectation must produce a divergence of the property that the intact one does not produce
		for _, dv := range run(c) {
			if dv.Prop == wantProp && !baseline[key(dv)] {
				rejected++
				return
			}
		}
		if firstMiss == "" {
			firstMiss = kind + " on " + shape(d)
		}
	}
	vh.EachExportIf(path, func(idx int) bool { return idx%97 == 13 && done < 3*n }, func(idx int, raw []byte) error {
		var d doc
		if err := json.Unmarshal(raw, &d); err != nil {
			return err
		}
		if d.Obs == nil || len(d.Obs.Invalid) > 0 {
			return nil
		}
		baseline := map[string]bool{}
		for _, dv := range run(d) {
			if dv.Prop != "C24" && dv.Prop != "C25" {
				return nil // the scenario does not reach the wallet comparison
			}
			baseline[key(dv)] = true
		}
		try(d, baseline, "drop-expected-output", func(v *view) bool {
			if len(v.Wallet) == 0 {
				return false
			}
			v.Wallet = v.Wallet[1:]
			return true
		}, "C24")
		try(d, baseline, "change-owner", func(v *view) bool {
			if len(v.Wallet) == 0 {
				return false
			}
			k := len(v.Wallet) - 1
			if v.Wallet[k].Acct == "A" {
				v.Wallet[k].Acct = "B"
			} else {
				v.Wallet[k].Acct = "A"
			}
			return true
		}, "C24")
		try(d, baseline, "drop-spendable", func(v *view) bool {
			// P3 (valid height 13) is usable whenever it is unspent
			for i, n := range v.Spendable {
				if n == "P3" || n == "N1" || n == "N2" {
					v.Spendable = append(append([]string{}, v.Spendable[:i]...), v.Spendable[i+1:]...)
					return true
				}
			}
			return false
		}, "C25")
		return nil
	})
	vh.Summary(map[string]interface{}{"selftest_cases": done, "selftest_rejected": rejected, "selftest_first_miss": firstMiss})
}

func main() {
	vh.Quiet()
	for _, a := range os.Args {
		if n, _ := fmt.Sscanf(a, "lock=%d:%d:%d", &lockTable[0], &lockTable[1], &lockTable[2]); n == 3 {
			lockStep = true
		}
	}
	if ok, i, n, from, only, args := vh.IsWorker(); ok {
		stride := 1
		if len(args) > 1 {
			stride, _ = strconv.Atoi(args[1])
		}
		if pp := os.Getenv("VERIF_PPROF"); pp != "" {
			f, _ := os.Create(pp)
			pprof.StartCPUProfile(f)
			defer pprof.StopCPUProfile()
		}
		bs = buildBase()
		shapes := map[string]bool{}
		want := func(idx int) bool {
			if stride > 1 && idx%stride != int(vh.Seed())%stride {
				return false
			}
			return vh.Mine(idx/stride, i, n, from, only)
		}
		startIdx, startOff := 0, int64(0)
		if rs := os.Getenv("C24_RESUME"); rs != "" && only < 0 {
			fmt.Sscanf(rs, "%d %d", &startIdx, &startOff)
		}
		nextIdx, nextOff, err := eachExport(args[0], startIdx, startOff, want, func(idx int, raw []byte) (bool, error) {
			if vh.TooMany() {
				return false, nil
			}
			var d doc
			if err := json.Unmarshal(raw, &d); err != nil {
				return false, err
			}
			vh.Cur(idx / stride)
			curIdx = idx
			st.cases++
			for _, c := range d.Calls {
				if c.Op == "deliver" {
					st.calls++
				}
			}
			shapes[shape(d)] = true
			for _, dv := range run(d) {
				vh.Violation(dv.Prop+":wallet:"+dv.What, dv.Msg+"\n  scenario: "+shape(d), map[string]interface{}{"engine": "wallet", "calls": d.Calls, "obs": d.Obs, "diverges_at": dv.Step, "prop": dv.Prop, "driver_args": lockArgs()})
			}
			if (idx/stride)%1500 == 17 {
				vh.Sample(map[string]interface{}{"calls": d.Calls, "expected_wallet": d.Obs.Now.Wallet, "spendable_next": d.Obs.Now.Spendable})
			}
			return st.cases < casesPerProcess, nil
		})
		if err != nil {
			vh.Fatal("worker: %v", err)
		}
		vh.Summary(map[string]interface{}{"partial": true, "cases": st.cases, "calls": st.calls, "distinct": len(shapes), "nudged": st.nudged,
			"skipped_shadowed": st.shadowed, "reorg_cases": st.reorgs, "utxos_compared": st.utxos, "usable_checked": st.usable, "usable_by_keeper": st.keeperUsable, "unconfirmed_views": st.uncViews, "unconfirmed_offered": st.uncOffered, "unconfirmed_offered_confirmed_judged": st.uncJudged,
			"mint_tries": st.tries, "mints": st.mints, "probe_spends": st.probes, "probe_blocks": st.probeBlocks, "retried": st.retried,
			"ms_open": int(st.tOpen / time.Millisecond), "ms_build": int(st.tBuild / time.Millisecond), "ms_run_total": int(st.tRun / time.Millisecond),
			"ms_compare": int(st.tCmp / time.Millisecond), "ms_probe": int(st.tProbe / time.Millisecond)})
		if pp := os.Getenv("VERIF_PPROF"); pp != "" {
			f, _ := os.Create(pp + ".heap")
			pprof.WriteHeapProfile(f)
			f.Close()
		}
		if st.cases >= casesPerProcess && only < 0 && !vh.TooMany() {
			announceMore(nextIdx, nextOff)
		}
		return
	}
	if len(os.Args) >= 4 && os.Args[1] == "selftest" {
		n, _ := strconv.Atoi(os.Args[3])
		selftest(os.Args[2], n)
		return
	}
	if len(os.Args) < 4 || os.Args[1] != "replay" {
		vh.Fatal("usage: c24 replay <tlc-output> <workers> [stride] | c24 selftest <tlc-output> <n>")
	}
	nw, _ := strconv.Atoi(os.Args[3])
	stride := "1"
	if len(os.Args) > 4 {
		stride = os.Args[4]
	}
	sn, _ := strconv.Atoi(stride)
	var extra []string
	if len(os.Args) > 5 {
		extra = os.Args[5:]
	}
	flaky := runPool(nw, append([]string{os.Args[2], stride}, extra...), func(idx int, tail string) {
		d := loadCase(os.Args[2], idx*sn+int(vh.Seed())%sn)
		vh.Violation("C24:wallet:panic", fmt.Sprintf("the process (node + wallet) died while replaying the scenario %s:\n%s", shape(d), tail),
			map[string]interface{}{"engine": "wallet", "calls": d.Calls, "obs": d.Obs, "prop": "C24", "driver_args": lockArgs()})
	})
	vh.Summary(map[string]interface{}{"partial": true, "unreproducible_worker_deaths": flaky})
}
