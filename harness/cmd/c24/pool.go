package main

import (
	"bufio"
	"encoding/json"
	"fmt"
	"os"
	"os/exec"
	"strconv"
	"strings"
	"sync"

	"verifharness/internal/vh"
)

// A worker pool like vh.RunPool with one addition: a worker retires after a bounded number of
// scenarios (it prints "MORE" and exits 0) and a fresh process continues behind the last case.
// Every scenario leaves a node and a wallet behind whose goroutines cannot be stopped; retiring
// the process is what keeps memory and garbage-collection time bounded.

const casesPerProcess = 150

func runChild(i, n, from, only int, resume string, args []string) (lastCur int, died bool, more string, tail string) {
	a := append([]string{"__worker", strconv.Itoa(i), strconv.Itoa(n), strconv.Itoa(from), strconv.Itoa(only)}, args...)
	cmd := exec.Command(os.Args[0], a...)
	cmd.Env = append(os.Environ(), "C24_RESUME="+resume)
	stdout, _ := cmd.StdoutPipe()
	stderr, _ := cmd.StderrPipe()
	if err := cmd.Start(); err != nil {
		vh.Fatal("cannot start worker: %v", err)
	}
	lastCur = -1
	var wg sync.WaitGroup
	wg.Add(2)
	go func() {
		defer wg.Done()
		r := bufio.NewReaderSize(stdout, 1<<20)
		for {
			line, err := r.ReadString('\n')
			switch {
			case strings.HasPrefix(line, "CUR "):
				lastCur, _ = strconv.Atoi(strings.TrimSpace(line[4:]))
			case strings.HasPrefix(line, "MORE "):
				more = strings.TrimSpace(line[5:])
			case strings.HasPrefix(line, "VH "):
				outMu.Lock()
				os.Stdout.WriteString(line)
				outMu.Unlock()
			}
			if err != nil {
				return
			}
		}
	}()
	var errTail []string
	go func() {
		defer wg.Done()
		sc := bufio.NewScanner(stderr)
		sc.Buffer(make([]byte, 1<<20), 1<<20)
		for sc.Scan() {
			errTail = append(errTail, sc.Text())
			if len(errTail) > 60 {
				errTail = errTail[len(errTail)-60:]
			}
		}
	}()
	wg.Wait()
	err := cmd.Wait()
	if len(errTail) > 25 {
		errTail = errTail[:25]
	}
	return lastCur, err != nil, more, strings.Join(errTail, "\n")
}

var outMu sync.Mutex

// runPool runs n workers over the cases; onDeath(idx, stderrHead) is called for every case that
// reproducibly kills its worker. Returns the number of deaths that did not reproduce.
func runPool(n int, args []string, onDeath func(idx int, tail string)) (flaky int) {
	var wg sync.WaitGroup
	var fm sync.Mutex
	for i := 0; i < n; i++ {
		wg.Add(1)
		go func(i int) {
			defer wg.Done()
			from, resume := 0, ""
			for deaths := 0; deaths < 30; {
				cur, died, more, _ := runChild(i, n, from, -1, resume, args)
				if !died {
					if more == "" {
						return
					}
					from, resume = cur+1, more
					continue
				}
				resume = ""
				deaths++
				if cur < 0 {
					vh.Fatal("worker %d died before its first case", i)
				}
				_, died2, _, tail2 := runChild(i, n, 0, cur, "", args)
				if died2 {
					outMu.Lock()
					onDeath(cur, tail2)
					outMu.Unlock()
				} else {
					fm.Lock()
					flaky++
					fm.Unlock()
				}
				from = cur + 1
				if vh.TooMany() {
					return
				}
			}
		}(i)
	}
	wg.Wait()
	return flaky
}

// announceMore tells the parent where the next process continues: "<export index> <byte offset>" of the first unread line.
func announceMore(idx int, off int64) {
	fmt.Printf("MORE %d %d\n", idx, off)
}

// eachExport is vh.EachExportIf with a resume point: reading starts at byte offset off, whose line is export number idx.
// fn returns false to stop; the position of the first unconsumed export line is returned.
func eachExport(path string, idx int, off int64, want func(idx int) bool, fn func(idx int, doc []byte) (bool, error)) (int, int64, error) {
	f, err := os.Open(path)
	if err != nil {
		return idx, off, err
	}
	defer f.Close()
	if _, err := f.Seek(off, 0); err != nil {
		return idx, off, err
	}
	r := bufio.NewReaderSize(f, 1<<20)
	for {
		line, err := r.ReadString('\n')
		start := off
		off += int64(len(line))
		if len(line) > 0 {
			t := strings.TrimSpace(line)
			isTLC := strings.HasPrefix(t, "\"EXPORT ")
			if isTLC || strings.HasPrefix(t, "{") {
				if want(idx) {
					var doc []byte
					if isTLC {
						var s string
						if e := json.Unmarshal([]byte(t), &s); e != nil {
							return idx, start, fmt.Errorf("bad export line %d: %v", idx, e)
						}
						doc = []byte(s[len("EXPORT "):])
					} else {
						doc = []byte(t)
					}
					goOn, e := fn(idx, doc)
					if e != nil {
						return idx, start, e
					}
					if !goOn {
						return idx + 1, off, nil
					}
				}
				idx++
			}
		}
		if err != nil {
			return idx, off, nil
		}
	}
}
