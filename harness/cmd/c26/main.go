// c26: executes call sequences on the real account.utxoKeeper (through the hook
// account/utxo_keeper_verif.go) and records calls with their results as ndjson events for
// validation against specs/wallet/TraceKeeper.tla.
//
//	c26 seq  <exports> <nexports> <outprefix>     call sequences exported by TLC from KeeperGen.tla, one fresh
//	                                               keeper each, sequential; fans out to child processes
//	c26 seqw <exports> <outprefix> <k> <nchild>   (child)
//	c26 conc <exports> <ntraces> <outprefix>      seeded concurrent workloads (2-4 goroutines x 3-6 calls on one keeper),
//	                                               run in 4 child processes (concw)
//
// The UTXO universe (accounts, assets, vote keys, amounts, valid heights, confirmed / unconfirmed /
// both) and the height are read from the first exported document, i.e. from the specification.
// Concretisation: output ids, asset ids and vote keys are fixed byte strings per name; amounts are
// multiplied by 10^8; abstract expiry e is base+e hours and Expire(t) is base+t hours-30 minutes,
// with base far in the future so that the keeper's own expiry worker never interferes.
package main

import (
	"encoding/json"
	"fmt"
	"hash/fnv"
	"math/rand"
	"os"
	"sort"
	"strconv"
	"sync"
	"time"

	"github.com/bytom/bytom/account"
	dbm "github.com/bytom/bytom/database/leveldb"
	"github.com/bytom/bytom/errors"
	"github.com/bytom/bytom/protocol/bc"

	"verifharness/internal/fan"
	"verifharness/internal/vh"
)

const scale = 100000000

type uspec struct {
	Acct  string `json:"acct"`
	Asset string `json:"asset"`
	Vote  string `json:"vote"`
	Amt   uint64 `json:"amt"`
	Vh    uint64 `json:"vh"`
	Where string `json:"where"`
}
type universeDoc struct {
	Universe map[string]uspec `json:"universe"`
	Height   uint64           `json:"height"`
}

type call struct {
	Op    string `json:"op"`
	Acct  string `json:"acct"`
	Asset string `json:"asset"`
	Vote  string `json:"vote"`
	Amt   uint64 `json:"amt"`
	Unc   bool   `json:"unc"`
	Exp   int    `json:"exp"`
	U     string `json:"u"`
	Rid   uint64 `json:"rid"`
	T     int    `json:"t"`
}

type ev struct {
	Ev     string          `json:"ev"`
	Th     string          `json:"th"`
	Op     string          `json:"op"`
	Acct   string          `json:"acct"`
	Asset  string          `json:"asset"`
	Vote   string          `json:"vote"`
	Amt    uint64          `json:"amt"`
	Unc    bool            `json:"unc"`
	Exp    int             `json:"exp"`
	U      string          `json:"u"`
	Rid    uint64          `json:"rid"`
	T      int             `json:"t"`
	Err    string          `json:"err"`
	Utxos  []string        `json:"utxos"`
	Amts   []uint64        `json:"amts"`
	Change int64           `json:"change"`
	Snap   [][]interface{} `json:"snap"`
	Rs     [][]interface{} `json:"rs"`
	ID     int             `json:"id"`
}

var (
	uni      universeDoc
	outID    = map[string]bc.Hash{}
	outName  = map[bc.Hash]string{}
	assetID  = map[string]bc.AssetID{}
	voteKey  = map[string][]byte{"": nil}
	base     = time.Now().Add(1000 * time.Hour)
	unconf   []*account.UTXO
	confRec  = map[string][]byte{}        // name -> JSON record of the outputs listed as confirmed at the start
	utxoOf   = map[string]*account.UTXO{} // name -> the output
	dbOf     sync.Map                     // keeper -> its wallet DB
)

func assetOf(n string) *bc.AssetID {
	if a, ok := assetID[n]; ok {
		return &a
	}
	h := fnv.New32a()
	h.Write([]byte(n))
	a := bc.NewAssetID([32]byte{0xA0, byte(h.Sum32()), byte(h.Sum32() >> 8)})
	assetID[n] = a
	return &a
}
func voteOf(n string) []byte {
	if v, ok := voteKey[n]; ok {
		return v
	}
	v := []byte("vote-key-" + n)
	voteKey[n] = v
	return v
}
func idOf(n string) bc.Hash {
	if h, ok := outID[n]; ok {
		return h
	}
	f := fnv.New64a()
	f.Write([]byte(n))
	s := f.Sum64()
	h := bc.NewHash([32]byte{0x77, byte(s), byte(s >> 8), byte(s >> 16), byte(s >> 24)})
	outID[n] = h
	outName[h] = n
	return h
}

func loadUniverse(path string) {
	found := false
	vh.EachExport(path, func(idx int, doc []byte) error {
		if !found && len(doc) > 12 && string(doc[:2]) == "{\"" {
			var u universeDoc
			if json.Unmarshal(doc, &u) == nil && len(u.Universe) > 0 {
				uni, found = u, true
				return fmt.Errorf("stop")
			}
		}
		return nil
	})
	if !found {
		vh.Fatal("no universe document in %s", path)
	}
	names := make([]string, 0, len(uni.Universe))
	for n := range uni.Universe {
		names = append(names, n)
	}
	sort.Strings(names)
	for _, n := range names {
		s := uni.Universe[n]
		u := &account.UTXO{OutputID: idOf(n), SourceID: bc.NewHash([32]byte{0x55, byte(len(n))}), AssetID: *assetOf(s.Asset),
			Amount: s.Amt * scale, ControlProgram: []byte{0x51}, Vote: voteOf(s.Vote), AccountID: s.Acct,
			Address: "addr-" + n, ValidHeight: s.Vh}
		utxoOf[n] = u
		if s.Where == "conf" || s.Where == "both" {
			b, err := json.Marshal(u)
			if err != nil {
				vh.Fatal("%v", err)
			}
			confRec[n] = b
		}
		if s.Where == "unconf" || s.Where == "both" {
			cp := *u
			unconf = append(unconf, &cp)
		}
	}
}

func newKeeper() *account.VerifKeeper {
	db := dbm.NewMemDB() // every keeper has its own wallet DB: the listing of an output moves during a trace
	for n, b := range confRec {
		db.Set(account.StandardUTXOKey(idOf(n)), b)
	}
	k := account.NewVerifKeeper(func() uint64 { return uni.Height }, db)
	k.AddUnconfirmed(unconf)
	dbOf.Store(k, db)
	return k
}

func errClass(err error) string {
	switch errors.Root(err) {
	case nil:
		return ""
	case account.ErrInsufficient:
		return "insufficient"
	case account.ErrImmature:
		return "immature"
	case account.ErrReserved:
		return "reserved"
	case account.ErrMatchUTXO:
		return "nomatch"
	}
	return "other"
}

func name(h bc.Hash) string {
	if n, ok := outName[h]; ok {
		return n
	}
	return "?"
}

// exec runs one call on the keeper and fills in the result fields of e.
func exec(k *account.VerifKeeper, c call, e *ev) {
	e.Op, e.Acct, e.Asset, e.Vote, e.Amt, e.Unc, e.Exp, e.U, e.T = c.Op, c.Acct, c.Asset, c.Vote, c.Amt, c.Unc, c.Exp, c.U, c.T
	e.Utxos, e.Amts = []string{}, []uint64{}
	fill := func(r *account.VerifReservation, err error) {
		e.Err = errClass(err)
		if err != nil || r == nil {
			if err == nil {
				e.Err = "other"
			}
			return
		}
		e.Rid = r.ID
		for i, o := range r.Outputs {
			e.Utxos = append(e.Utxos, name(o))
			if r.Amounts[i]%scale == 0 {
				e.Amts = append(e.Amts, r.Amounts[i]/scale)
			} else {
				e.Amts = append(e.Amts, 999999)
			}
		}
		if r.Change%scale == 0 && r.Change/scale < 1<<30 {
			e.Change = int64(r.Change / scale)
		} else {
			e.Change = -1
		}
	}
	switch c.Op {
	case "reserve":
		fill(k.Reserve(c.Acct, assetOf(c.Asset), c.Amt*scale, c.Unc, voteOf(c.Vote), base.Add(time.Duration(c.Exp)*time.Hour)))
	case "particular":
		fill(k.ReserveParticular(idOf(c.U), c.Unc, base.Add(time.Duration(c.Exp)*time.Hour)))
	case "cancel":
		e.Rid = c.Rid
		k.Cancel(c.Rid)
	case "expire":
		k.ExpireAt(base.Add(time.Duration(c.T)*time.Hour - 30*time.Minute))
	case "addunc": // the pool announces the transaction that creates the output
		cp := *utxoOf[c.U]
		k.AddUnconfirmed([]*account.UTXO{&cp})
	case "rmunc": // the pool's removal event (sent when the transaction was confirmed, too)
		h := idOf(c.U)
		k.RemoveUnconfirmed([]*bc.Hash{&h})
	case "confirm": // the wallet attaches the block: the confirmed record is written
		b, err := json.Marshal(utxoOf[c.U])
		if err != nil {
			vh.Fatal("%v", err)
		}
		db, _ := dbOf.Load(k)
		db.(dbm.DB).Set(account.StandardUTXOKey(idOf(c.U)), b)
	default:
		vh.Fatal("unknown op %q", c.Op)
	}
}

func snapshot(k *account.VerifKeeper, e *ev) {
	res, rs := k.Snapshot()
	e.Snap, e.Rs = [][]interface{}{}, [][]interface{}{}
	for h, rid := range res {
		e.Snap = append(e.Snap, []interface{}{name(h), rid})
	}
	sort.Slice(e.Snap, func(i, j int) bool { return e.Snap[i][0].(string) < e.Snap[j][0].(string) })
	for rid, outs := range rs {
		ns := []string{}
		for _, o := range outs {
			ns = append(ns, name(o))
		}
		e.Rs = append(e.Rs, []interface{}{rid, ns})
	}
	sort.Slice(e.Rs, func(i, j int) bool { return e.Rs[i][0].(uint64) < e.Rs[j][0].(uint64) })
}

func blank(e *ev) {
	if e.Utxos == nil {
		e.Utxos = []string{}
	}
	if e.Amts == nil {
		e.Amts = []uint64{}
	}
	if e.Snap == nil {
		e.Snap = [][]interface{}{}
	}
	if e.Rs == nil {
		e.Rs = [][]interface{}{}
	}
}

// ---------------------------------------------------------------- sequential

func seqWorker(path, outprefix string, k, nchild int) {
	loadUniverse(path)
	f, err := os.Create(fmt.Sprintf("%s.%d.ndjson", outprefix, k))
	if err != nil {
		vh.Fatal("%v", err)
	}
	defer f.Close()
	w := json.NewEncoder(f)
	seen := map[uint64]bool{}
	traces, events, dups := 0, 0, 0
	ops := map[string]float64{}
	_, err = vh.EachExport(path, func(idx int, doc []byte) error {
		if len(doc) == 0 || doc[0] != '[' {
			return nil
		}
		h := fnv.New64a()
		h.Write(doc)
		key := h.Sum64()
		if int(key%uint64(nchild)) != k {
			return nil
		}
		if seen[key] { // same call sequence reached through another choice of the generator
			dups++
			return nil
		}
		seen[key] = true
		var calls []call
		if err := json.Unmarshal(doc, &calls); err != nil {
			return err
		}
		kp := newKeeper()
		w.Encode(ev{Ev: "reset", ID: idx, Utxos: []string{}, Amts: []uint64{}, Snap: [][]interface{}{}, Rs: [][]interface{}{}})
		for _, c := range calls {
			e := ev{Ev: "call"}
			exec(kp, c, &e)
			snapshot(kp, &e)
			w.Encode(e)
			events++
			ops[c.Op+":"+e.Err]++
		}
		dbOf.Delete(kp)
		traces++
		return nil
	})
	if err != nil {
		vh.Fatal("reading exports: %v", err)
	}
	vh.Summary(map[string]interface{}{"traces": traces, "events": events, "duplicate_call_sequences": dups, "outcomes": ops})
}

// ---------------------------------------------------------------- concurrent

func randCall(rng *rand.Rand, maxRid uint64, unc bool) call {
	keys := [][3]string{{"A1", "X", ""}, {"A1", "X", ""}, {"A1", "X", ""}, {"A2", "X", ""}, {"A1", "X", "v"}, {"A1", "Y", ""}}
	switch rng.Intn(10) {
	case 0, 1, 2, 3, 4:
		k := keys[rng.Intn(len(keys))]
		return call{Op: "reserve", Acct: k[0], Asset: k[1], Vote: k[2], Amt: uint64(1 + rng.Intn(12)), Unc: unc && rng.Intn(2) == 0, Exp: 1 + rng.Intn(3)}
	case 5, 6:
		us := []string{"u1", "u2", "u3", "u4", "u5", "u7", "ux"}
		return call{Op: "particular", U: us[rng.Intn(len(us))], Unc: unc && rng.Intn(2) == 0, Exp: 1 + rng.Intn(3)}
	case 7, 8:
		return call{Op: "cancel", Rid: 1 + uint64(rng.Intn(int(maxRid)+2))}
	}
	return call{Op: "expire", T: 1 + rng.Intn(4)}
}

func concTrace(seed int64, id int) []ev {
	rng := rand.New(rand.NewSource(seed))
	k := newKeeper()
	var mu sync.Mutex
	var log []ev
	var maxRid uint64
	var wg sync.WaitGroup
	nth := 2 + rng.Intn(3)
	plans := make([][]call, nth)
	for t := range plans {
		n := 3 + rng.Intn(4)
		for i := 0; i < n; i++ {
			// every second workload uses confirmed outputs only
			plans[t] = append(plans[t], randCall(rng, uint64(3*nth), id%2 == 1))
		}
	}
	for t := 0; t < nth; t++ {
		wg.Add(1)
		go func(t int) {
			defer wg.Done()
			th := fmt.Sprintf("t%d", t+1)
			for _, c := range plans[t] {
				if c.Op == "cancel" && c.Rid > 0 { // aim at reservations that exist
					mu.Lock()
					if maxRid > 0 {
						c.Rid = 1 + c.Rid%maxRid
					}
					mu.Unlock()
				}
				mu.Lock()
				log = append(log, ev{Ev: "begin", Th: th})
				at := len(log) - 1
				mu.Unlock()
				var e ev
				exec(k, c, &e)
				mu.Lock()
				e.Ev, e.Th = "begin", th
				blank(&e)
				log[at] = e // the begin line carries the result the call returned
				end := e
				end.Ev = "end"
				log = append(log, end)
				if e.Rid > maxRid && e.Err == "" {
					maxRid = e.Rid
				}
				mu.Unlock()
			}
		}(t)
	}
	wg.Wait()
	s := ev{Ev: "snap"}
	snapshot(k, &s)
	blank(&s)
	log = append(log, s)
	return log
}

// concWorker runs the workloads i with i % nchild == k (in a child process: a crash of the real
// code -- e.g. "concurrent map writes" -- must not take the whole run down).
func concWorker(path string, n int, out string, k, nchild int) {
	loadUniverse(path)
	f, err := os.Create(fmt.Sprintf("%s.%d.ndjson", out, k))
	if err != nil {
		vh.Fatal("%v", err)
	}
	defer f.Close()
	w := json.NewEncoder(f)
	events, traces := 0, 0
	for i := k; i < n; i += nchild {
		fmt.Printf("VH {\"kind\":\"at\",\"workload\":%d}\n", i)
		log := concTrace(vh.Seed()*7919+int64(i)*104729, i)
		traces++
		r := ev{Ev: "reset", ID: i}
		blank(&r)
		w.Encode(r)
		for _, e := range log {
			w.Encode(e)
		}
		events += len(log)
		if i == 0 {
			vh.Sample(log)
		}
	}
	vh.Summary(map[string]interface{}{"traces": traces, "events": events})
}

func main() {
	vh.Quiet()
	a := os.Args
	switch {
	case len(a) >= 6 && a[1] == "seqw":
		k, _ := strconv.Atoi(a[4])
		n, _ := strconv.Atoi(a[5])
		seqWorker(a[2], a[3], k, n)
	case len(a) >= 5 && a[1] == "seq":
		total, _ := strconv.Atoi(a[3])
		nchild := (total + 19999) / 20000
		if nchild < 4 {
			nchild = 4
		}
		r := fan.Run([]string{"seqw", a[2], a[4]}, nchild, 6, 3, nil)
		for _, d := range r.Dead {
			vh.Violation("crash", "keeper worker died: "+d, map[string]interface{}{"dead": d})
		}
		vh.Summary(map[string]interface{}{"traces": r.Sum["traces"], "events": r.Sum["events"], "children": nchild,
			"duplicate_call_sequences": r.Sum["duplicate_call_sequences"], "outcomes": r.Maps["outcomes"]})
	case len(a) >= 7 && a[1] == "concw":
		n, _ := strconv.Atoi(a[3])
		k, _ := strconv.Atoi(a[5])
		nc, _ := strconv.Atoi(a[6])
		concWorker(a[2], n, a[4], k, nc)
	case len(a) >= 5 && a[1] == "conc":
		r := fan.Run([]string{"concw", a[2], a[3], a[4]}, 4, 4, 3, nil)
		for _, d := range r.Dead {
			vh.Violation("conc:crash", "the process running concurrent keeper workloads died: "+d, map[string]interface{}{"dead": d})
		}
		vh.Summary(map[string]interface{}{"traces": r.Sum["traces"], "events": r.Sum["events"], "dead_children": len(r.Dead)})
	default:
		vh.Fatal("usage: c26 seq <exports> <nexports> <outprefix> | c26 conc <exports> <ntraces> <out>")
	}
}
