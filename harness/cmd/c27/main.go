// c27: seeded random wallet builds. Three accounts (single key, 2-of-3, single key) with
// real keys in a real pseudo-HSM, random UTXO sets written into the wallet DB, random
// action lists (spend, spend particular output, pay to address / program / vote, retire);
// txbuilder.Build + Sign + validation.ValidateTx are executed and what happened is
// recorded (amounts as base-2^15 limbs) for TLC to judge with specs/wallet/TraceBuilder.tla.
// No verdict is computed here.
//
//	c27 run <cases.ndjson> <ncases> <nrealhsm>
package main

import (
	"context"
	"encoding/hex"
	"encoding/json"
	"fmt"
	"math/rand"
	"os"
	"path/filepath"
	"strconv"
	"time"

	"github.com/bytom/bytom/account"
	"github.com/bytom/bytom/blockchain/pseudohsm"
	"github.com/bytom/bytom/blockchain/signers"
	"github.com/bytom/bytom/blockchain/txbuilder"
	"github.com/bytom/bytom/consensus"
	"github.com/bytom/bytom/crypto/ed25519/chainkd"
	dbm "github.com/bytom/bytom/database/leveldb"
	"github.com/bytom/bytom/protocol/bc"
	"github.com/bytom/bytom/protocol/bc/types"
	"github.com/bytom/bytom/protocol/validation"
	"github.com/bytom/bytom/protocol/vm/vmutil"

	"verifharness/internal/lchain"
	"verifharness/internal/vh"
)

type limbs []uint64

func toLimbs(v uint64) limbs {
	out := limbs{}
	for v > 0 {
		out = append(out, v&32767)
		v >>= 15
	}
	return out
}

type acctRec struct {
	Name   string   `json:"name"`
	Progs  []string `json:"progs"`
	Quorum int      `json:"quorum"`
	NKeys  int      `json:"nkeys"`
}

// cosignRec: which key holders of a multi-signature account sign, in which order (1-based key
// positions in the account's key list); one holder signs per Sign round.
type cosignRec struct {
	Acct  string `json:"acct"`
	Order []int  `json:"order"`
}
type fundRec struct {
	ID    string `json:"id"`
	Acct  string `json:"acct"`
	Asset string `json:"asset"`
	Amt   limbs  `json:"amt"`
	Prog  string `json:"prog"`
}
type actRec struct {
	Kind  string `json:"kind"`
	Acct  string `json:"acct"`
	Asset string `json:"asset"`
	Amt   limbs  `json:"amt"`
	Prog  string `json:"prog"`
	Out   string `json:"out"`
	Utxo  string `json:"utxo"`
}
type outRec struct {
	Asset string `json:"asset"`
	Amt   limbs  `json:"amt"`
	Prog  string `json:"prog"`
	Out   string `json:"out"`
}
type txRec struct {
	Inputs  []string `json:"inputs"`
	Outputs []outRec `json:"outputs"`
}
type caseRec struct {
	ID       int         `json:"id"`
	Shape    string      `json:"shape"`
	Accounts []acctRec   `json:"accounts"`
	Funding  []fundRec   `json:"funding"`
	Actions  []actRec    `json:"actions"`
	Cosign   []cosignRec `json:"cosigners"`
	Built    bool        `json:"built"`
	Signed   bool        `json:"signed"`
	Valid    bool        `json:"valid"`
	BuildErr string      `json:"builderr"`
	SignErr  string      `json:"signerr"`
	ValidErr string      `json:"validerr"`
	Panic    string      `json:"panic"`
	Tx       txRec       `json:"tx"`
}

type acct struct {
	name   string
	acc    *account.Account
	addrs  []*account.CtrlProgram
	keys   []chainkd.XPub
	quorum int
	plans  [][]int // every ordered quorum-subset of the key positions (1-based)
}

// orderedSubsets returns all sequences of m distinct elements of 1..n.
func orderedSubsets(n, m int) [][]int {
	if m == 0 {
		return [][]int{{}}
	}
	var out [][]int
	for _, s := range orderedSubsets(n, m-1) {
		for k := 1; k <= n; k++ {
			dup := false
			for _, x := range s {
				dup = dup || x == k
			}
			if !dup {
				out = append(out, append(append([]int{}, s...), k))
			}
		}
	}
	return out
}

type utxo struct {
	rec  fundRec
	u    *account.UTXO
	amt  uint64
	acct *acct
}

const password = "verif-pass"

var (
	rng      *rand.Rand
	hsm      *pseudohsm.HSM
	mgr      *account.Manager
	walletDB dbm.DB
	accts    []*acct
	assetIDs = map[string]bc.AssetID{}
	assetOf  = map[bc.AssetID]string{}
	keyCache = map[chainkd.XPub]chainkd.XPrv{}
	extProgs []string // programs of nobody in the wallet
)

func setup() *lchain.Env {
	base := os.Getenv("VERIF_WORK")
	if base == "" {
		base = os.TempDir()
	}
	sd := make([]byte, 32)
	rng.Read(sd)
	nodeKey := chainkd.RootXPrv(sd)
	lchain.Configure([]chainkd.XPub{nodeKey.XPub()}, nodeKey, 100, 6000)
	env, err := lchain.Open("c27")
	if err != nil {
		vh.Fatal("open chain: %v", err)
	}
	keyDir := filepath.Join(base, fmt.Sprintf("c27-keys-%d", os.Getpid()))
	os.RemoveAll(keyDir)
	os.MkdirAll(keyDir, 0o700)
	if hsm, err = pseudohsm.New(keyDir); err != nil {
		vh.Fatal("hsm: %v", err)
	}
	var xpubs []chainkd.XPub
	for i := 0; i < 12; i++ {
		x, _, err := hsm.XCreate(fmt.Sprintf("key%d", i), password, "en")
		if err != nil {
			vh.Fatal("xcreate: %v", err)
		}
		xpubs = append(xpubs, x.XPub)
	}
	wdir := filepath.Join(base, fmt.Sprintf("c27-wallet-%d", os.Getpid()))
	os.RemoveAll(wdir)
	walletDB = dbm.NewDB("wallet", "leveldb", wdir)
	mgr = account.NewManager(walletDB, env.Chain)
	mk := func(name string, keys []chainkd.XPub, quorum int) {
		a, err := mgr.Create(keys, quorum, name, signers.BIP0044)
		if err != nil {
			vh.Fatal("create account: %v", err)
		}
		ac := &acct{name: name, acc: a, keys: keys, quorum: quorum, plans: orderedSubsets(len(keys), quorum)}
		for i := 0; i < 3; i++ {
			cp, err := mgr.CreateAddress(a.ID, i == 2)
			if err != nil {
				vh.Fatal("create address: %v", err)
			}
			ac.addrs = append(ac.addrs, cp)
		}
		accts = append(accts, ac)
	}
	mk("acc1", xpubs[:1], 1)
	mk("acc2", xpubs[1:4], 2)
	mk("acc3", xpubs[4:5], 1)
	mk("acc4", xpubs[5:7], 1)
	mk("acc5", xpubs[7:9], 2)
	mk("acc6", xpubs[9:12], 3)
	assetIDs["BTM"] = *consensus.BTMAssetID
	assetIDs["A1"] = bc.NewAssetID([32]byte{0xa1, 1, 2, 3})
	assetIDs["A2"] = bc.NewAssetID([32]byte{0xa2, 9, 8, 7})
	for n, id := range assetIDs {
		assetOf[id] = n
	}
	for i := 0; i < 3; i++ {
		h := make([]byte, 20)
		rng.Read(h)
		p, _ := vmutil.P2WPKHProgram(h)
		extProgs = append(extProgs, hex.EncodeToString(p))
	}
	return env
}

func outputID(u *account.UTXO) bc.Hash {
	src := &bc.ValueSource{Ref: &u.SourceID, Value: &bc.AssetAmount{AssetId: &u.AssetID, Amount: u.Amount}, Position: u.SourcePos}
	return bc.EntryID(bc.NewOriginalOutput(src, &bc.Program{VmVersion: 1, Code: u.ControlProgram}, u.StateData, 0))
}

var utxoSeq int

func mkUtxo(a *acct, asset string, amt uint64) *utxo {
	utxoSeq++
	cp := a.addrs[rng.Intn(len(a.addrs))]
	var src [32]byte
	rng.Read(src[:])
	u := &account.UTXO{SourceID: bc.NewHash(src), AssetID: assetIDs[asset], Amount: amt, SourcePos: uint64(rng.Intn(3)),
		ControlProgram: cp.ControlProgram, AccountID: a.acc.ID, Address: cp.Address, ControlProgramIndex: cp.KeyIndex, Change: cp.Change}
	u.OutputID = outputID(u)
	data, err := json.Marshal(u)
	if err != nil {
		vh.Fatal("%v", err)
	}
	walletDB.Set(account.StandardUTXOKey(u.OutputID), data)
	return &utxo{rec: fundRec{ID: fmt.Sprintf("u%d", utxoSeq), Acct: a.name, Asset: asset, Amt: toLimbs(amt), Prog: hex.EncodeToString(cp.ControlProgram)},
		u: u, amt: amt, acct: a}
}

func randAmount() uint64 {
	switch rng.Intn(10) {
	case 0:
		return 1 + uint64(rng.Intn(1000))
	case 1:
		return 1<<58 + uint64(rng.Int63n(1<<40))
	case 2:
		return 100000000
	default:
		return 50000000 + uint64(rng.Int63n(200000000000))
	}
}

func jsonAction(m map[string]interface{}) []byte {
	b, err := json.Marshal(m)
	if err != nil {
		vh.Fatal("%v", err)
	}
	return b
}

// signFn: the first nReal cases sign through the real pseudo-HSM (scrypt-decrypts the key
// file on every signature); later ones load each key once through the HSM and then do the
// same derive+sign the HSM does (XSign = LoadChainKDKey + Derive + Sign).
func signer(real bool, turn map[chainkd.XPub]int, round int) txbuilder.SignFunc {
	return func(_ context.Context, xpub chainkd.XPub, path [][]byte, data [32]byte, pw string) ([]byte, error) {
		// only the key holder whose turn it is signs in this round (the others do not have the key)
		if r, ok := turn[xpub]; !ok || r != round {
			return nil, fmt.Errorf("key holder does not sign in this round")
		}
		if real {
			return hsm.XSign(xpub, path, data[:], pw)
		}
		k, ok := keyCache[xpub]
		if !ok {
			var err error
			if k, err = hsm.LoadChainKDKey(xpub, pw); err != nil {
				return nil, err
			}
			keyCache[xpub] = k
		}
		if len(path) > 0 {
			k = k.Derive(path)
		}
		return k.Sign(data[:]), nil
	}
}

func oneCase(id int, realHSM bool) *caseRec {
	c := &caseRec{ID: id, Accounts: []acctRec{}, Funding: []fundRec{}, Actions: []actRec{}, Tx: txRec{Inputs: []string{}, Outputs: []outRec{}}}
	c.Cosign = []cosignRec{}
	turn := map[chainkd.XPub]int{}
	for k, a := range accts {
		r := acctRec{Name: a.name, Quorum: a.quorum, NKeys: len(a.keys)}
		for _, cp := range a.addrs {
			r.Progs = append(r.Progs, hex.EncodeToString(cp.ControlProgram))
		}
		c.Accounts = append(c.Accounts, r)
		// co-signers: the plans are walked systematically with the case number, so that every ordered
		// quorum-subset of every account's key holders occurs
		plan := a.plans[(id/(k+1)+k)%len(a.plans)]
		if len(a.keys) > 1 {
			c.Cosign = append(c.Cosign, cosignRec{Acct: a.name, Order: plan})
		}
		for r, pos := range plan {
			turn[a.keys[pos-1]] = r
		}
	}
	// ---- funding set: the spending accounts and up to two others
	nsp := 1 + rng.Intn(2)
	perm := rng.Perm(len(accts))
	spenders := perm[:nsp]
	var utxos []*utxo
	byAA := map[string][]*utxo{}
	for _, ai := range perm[:nsp+1+rng.Intn(2)] {
		a := accts[ai]
		for _, as := range []string{"BTM", "A1", "A2"} {
			n := rng.Intn(4)
			if as == "BTM" {
				n = 1 + rng.Intn(5)
			}
			for i := 0; i < n; i++ {
				u := mkUtxo(a, as, randAmount())
				utxos = append(utxos, u)
				byAA[a.name+"/"+as] = append(byAA[a.name+"/"+as], u)
				c.Funding = append(c.Funding, u.rec)
			}
		}
	}
	defer func() {
		for _, u := range utxos {
			walletDB.Delete(account.StandardUTXOKey(u.u.OutputID))
		}
	}()
	total := func(k string) (t uint64) {
		for _, u := range byAA[k] {
			t += u.amt
		}
		return
	}
	// ---- actions
	var actions []txbuilder.Action
	addAct := func(a txbuilder.Action, err error) {
		if err != nil {
			vh.Fatal("decode action: %v", err)
		}
		actions = append(actions, a)
	}
	requested := map[string]uint64{}
	shape := ""
	unfundable := rng.Intn(12) == 0
	spent := map[string]bool{}
	for _, ai := range spenders {
		a := accts[ai]
		for _, as := range []string{"BTM", "A1", "A2"} {
			k := a.name + "/" + as
			if len(byAA[k]) == 0 || (as != "BTM" && rng.Intn(2) == 0) || (as == "BTM" && rng.Intn(8) == 0) {
				continue
			}
			t := total(k)
			var amt uint64
			switch rng.Intn(5) {
			case 0:
				amt = t // everything, no change
			case 1:
				amt = byAA[k][rng.Intn(len(byAA[k]))].amt // exactly one output
			default:
				amt = 1 + uint64(rng.Int63n(int64(t)))
			}
			if as == "BTM" && amt < 30000000 && t >= 30000000 {
				amt = 30000000
			}
			if unfundable && rng.Intn(2) == 0 {
				amt = t + 1 + uint64(rng.Intn(1000))
				shape += "U"
			}
			spent[k] = true
			requested[as] += amt
			c.Actions = append(c.Actions, actRec{Kind: "spend", Acct: a.name, Asset: as, Amt: toLimbs(amt), Prog: "", Out: "", Utxo: ""})
			// sometimes as two actions that the API layer merges (account.MergeSpendAction)
			parts := []uint64{amt}
			if amt > 1 && rng.Intn(4) == 0 {
				p := 1 + uint64(rng.Int63n(int64(amt-1)))
				parts = []uint64{p, amt - p}
				shape += "M"
			}
			for _, p := range parts {
				aid := assetIDs[as]
				addAct(mgr.DecodeSpendAction(jsonAction(map[string]interface{}{"account_id": a.acc.ID, "asset_id": hex.EncodeToString(aid.Bytes()), "amount": p})))
			}
			shape += "s"
		}
	}
	// particular outputs of (account, asset) pairs that have no spend action
	for _, u := range utxos {
		k := u.acct.name + "/" + u.rec.Asset
		if spent[k] || rng.Intn(12) != 0 {
			continue
		}
		requested[u.rec.Asset] += u.amt
		c.Actions = append(c.Actions, actRec{Kind: "spend_utxo", Acct: "", Asset: "", Amt: limbs{}, Prog: "", Out: "", Utxo: u.rec.ID})
		addAct(mgr.DecodeSpendUTXOAction(jsonAction(map[string]interface{}{"output_id": u.u.OutputID.String()})))
		shape += "p"
	}
	// recipients
	unbalanced := rng.Intn(10) == 0
	for _, as := range []string{"BTM", "A1", "A2"} {
		left := requested[as]
		if as == "BTM" {
			fee := uint64(10000000 + rng.Intn(15000000))
			if left <= fee {
				continue
			}
			left -= fee
		}
		if unbalanced && rng.Intn(2) == 0 && left > 2 {
			left -= 1 + uint64(rng.Int63n(int64(left/2)))
			shape += "X"
		}
		n := 1 + rng.Intn(3)
		for i := 0; i < n && left > 0; i++ {
			amt := left
			if i < n-1 && left > 1 {
				amt = 1 + uint64(rng.Int63n(int64(left)))
			}
			left -= amt
			aid := hex.EncodeToString(func() []byte { x := assetIDs[as]; return x.Bytes() }())
			switch k := rng.Intn(10); {
			case k < 4: // to an address of a wallet account (maybe the spender itself)
				cp := accts[rng.Intn(len(accts))].addrs[rng.Intn(2)]
				c.Actions = append(c.Actions, actRec{Kind: "pay", Asset: as, Amt: toLimbs(amt), Prog: hex.EncodeToString(cp.ControlProgram), Out: "normal"})
				addAct(txbuilder.DecodeControlAddressAction(jsonAction(map[string]interface{}{"asset_id": aid, "amount": amt, "address": cp.Address})))
				shape += "a"
			case k < 7: // to a raw program outside the wallet
				p := extProgs[rng.Intn(len(extProgs))]
				c.Actions = append(c.Actions, actRec{Kind: "pay", Asset: as, Amt: toLimbs(amt), Prog: p, Out: "normal"})
				addAct(txbuilder.DecodeControlProgramAction(jsonAction(map[string]interface{}{"asset_id": aid, "amount": amt, "control_program": p})))
				shape += "c"
			case k < 9 || as != "BTM" || amt < consensus.MinVoteOutputAmount:
				arb := make([]byte, rng.Intn(4))
				rng.Read(arb)
				c.Actions = append(c.Actions, actRec{Kind: "retire", Asset: as, Amt: toLimbs(amt), Out: "retire"})
				addAct(txbuilder.DecodeRetireAction(jsonAction(map[string]interface{}{"asset_id": aid, "amount": amt, "arbitrary": hex.EncodeToString(arb)})))
				shape += "r"
			default: // a vote output to a wallet address
				cp := accts[rng.Intn(len(accts))].addrs[0]
				vote := make([]byte, 64)
				rng.Read(vote)
				c.Actions = append(c.Actions, actRec{Kind: "pay", Asset: as, Amt: toLimbs(amt), Prog: hex.EncodeToString(cp.ControlProgram), Out: "vote"})
				addAct(txbuilder.DecodeVoteOutputAction(jsonAction(map[string]interface{}{"asset_id": aid, "amount": amt, "address": cp.Address, "vote": hex.EncodeToString(vote)})))
				shape += "v"
			}
		}
	}
	c.Shape = shape
	// ---- the real code
	func() {
		defer func() {
			if p := recover(); p != nil {
				c.Panic = fmt.Sprint(p)
			}
		}()
		merged := account.MergeSpendAction(actions)
		tpl, err := txbuilder.Build(context.Background(), nil, merged, time.Now().Add(time.Minute), 0)
		if err != nil {
			c.BuildErr = err.Error()
			return
		}
		c.Built = true
		byOut := map[bc.Hash]string{}
		for _, u := range utxos {
			byOut[u.u.OutputID] = u.rec.ID
		}
		project := func() {
			c.Tx = txRec{Inputs: []string{}, Outputs: []outRec{}}
			for _, in := range tpl.Transaction.Inputs {
				id := "?"
				if so, err := in.SpentOutputID(); err == nil {
					if n, ok := byOut[so]; ok {
						id = n
					}
				}
				c.Tx.Inputs = append(c.Tx.Inputs, id)
			}
			for _, o := range tpl.Transaction.Outputs {
				as, ok := assetOf[*o.AssetId]
				if !ok {
					as = "??"
				}
				kind := "normal"
				if vmutil.IsUnspendable(o.ControlProgram) {
					kind = "retire"
				} else if o.OutputType() == types.VoteOutputType {
					kind = "vote"
				}
				c.Tx.Outputs = append(c.Tx.Outputs, outRec{Asset: as, Amt: toLimbs(o.Amount), Prog: hex.EncodeToString(o.ControlProgram), Out: kind})
			}
		}
		project()
		// one Sign call adds one signature per multi-signature witness (by design: co-signers sign in
		// turn), so the template is passed to Sign once per required signature, as the co-signers would
		for round := 0; round < 3 && !c.Signed; round++ {
			if err := txbuilder.Sign(context.Background(), tpl, password, signer(realHSM, turn, round)); err != nil {
				c.SignErr = err.Error()
				break
			}
			c.Signed = txbuilder.SignProgress(tpl)
		}
		project() // signing must not change inputs/outputs; the signed transaction is what is judged
		// as txbuilder.FinalizeTx does before handing the transaction to validation
		if data, err := tpl.Transaction.TxData.MarshalText(); err == nil {
			tpl.Transaction.TxData.SerializedSize = uint64(len(data) / 2)
			tpl.Transaction.Tx.SerializedSize = uint64(len(data) / 2)
		}
		blk := &bc.Block{BlockHeader: &bc.BlockHeader{Height: 1}}
		if _, err := validation.ValidateTx(tpl.Transaction.Tx, blk, func(prog []byte) ([]byte, error) { return prog, nil }); err != nil {
			c.ValidErr = err.Error()
		} else {
			c.Valid = true
		}
	}()
	return c
}

func main() {
	vh.Quiet()
	if len(os.Args) < 5 || os.Args[1] != "run" {
		vh.Fatal("usage: c27 run <cases.ndjson> <ncases> <nrealhsm>")
	}
	rng = rand.New(rand.NewSource(vh.Seed()))
	n, _ := strconv.Atoi(os.Args[3])
	nreal, _ := strconv.Atoi(os.Args[4])
	env := setup()
	defer env.Close()
	f, err := os.Create(os.Args[2])
	if err != nil {
		vh.Fatal("%v", err)
	}
	enc := json.NewEncoder(f)
	built, valid, panics, multisig := 0, 0, 0, 0
	shapes := map[string]bool{}
	for i := 1; i <= n; i++ {
		c := oneCase(i, i <= nreal)
		if c.Built {
			built++
		}
		if c.Valid {
			valid++
		}
		if c.Panic != "" {
			panics++
		}
		for _, a := range c.Actions {
			if a.Kind == "spend" && a.Acct != "acc1" && a.Acct != "acc3" {
				multisig++
				break
			}
		}
		shapes[c.Shape] = true
		if err := enc.Encode(c); err != nil {
			vh.Fatal("%v", err)
		}
		if i%211 == 3 {
			vh.Sample(c)
		}
	}
	f.Close()
	vh.Summary(map[string]interface{}{"cases": n, "built": built, "valid": valid, "panics": panics, "with_multisig_spend": multisig,
		"distinct_shapes": len(shapes), "real_hsm_cases": nreal})
}
