// c28: interprets the terms of specs/fn/KeyAlgebra.tla with the real chainkd / pseudohsm code.
//
//	c28 table <tlc.out>               TLC's table of (in)equalities between public-key terms, verification
//	                                  outcomes and key-store decryption outcomes, checked on real keys
//	c28 store <tlc.out> <dir>         replay every exported behaviour of KeyStoreSeq.tla on a real HSM directory
//	c28 gen <cases.ndjson>            random seeds / paths to depth 8 / splits / near-miss variants as terms
//	c28 cmp <cases.ndjson> <tlc.out>  interpret the recorded terms and compare with TLC's normalisation
package main

import (
	"bufio"
	"bytes"
	"crypto/ed25519"
	"encoding/hex"
	"encoding/json"
	"fmt"
	"io/ioutil"
	"math/rand"
	"os"
	"path/filepath"

	"github.com/pborman/uuid"

	"github.com/bytom/bytom/blockchain/pseudohsm"
	"github.com/bytom/bytom/crypto/ed25519/chainkd"
	"github.com/bytom/bytom/wallet/mnemonic"

	"verifharness/internal/vh"
)

// term: ["Root",s] ["Child",k,sel] ["Pub",k] ["ChildPub",P,sel]
type term struct {
	Tag string
	Sub *term
	N   int
}

func (t *term) UnmarshalJSON(b []byte) error {
	var raw []json.RawMessage
	if err := json.Unmarshal(b, &raw); err != nil || len(raw) < 2 {
		return fmt.Errorf("bad term %s", b)
	}
	if err := json.Unmarshal(raw[0], &t.Tag); err != nil {
		return err
	}
	switch t.Tag {
	case "Root":
		return json.Unmarshal(raw[1], &t.N)
	case "Pub":
		t.Sub = new(term)
		return json.Unmarshal(raw[1], t.Sub)
	case "Child", "ChildPub":
		if len(raw) != 3 {
			return fmt.Errorf("bad term %s", b)
		}
		t.Sub = new(term)
		if err := json.Unmarshal(raw[1], t.Sub); err != nil {
			return err
		}
		return json.Unmarshal(raw[2], &t.N)
	}
	return fmt.Errorf("unknown constructor %q", t.Tag)
}

func (t term) MarshalJSON() ([]byte, error) {
	switch t.Tag {
	case "Root":
		return json.Marshal([]interface{}{t.Tag, t.N})
	case "Pub":
		return json.Marshal([]interface{}{t.Tag, t.Sub})
	}
	return json.Marshal([]interface{}{t.Tag, t.Sub, t.N})
}

func (t *term) String() string { b, _ := json.Marshal(t); return string(b) }

func (t *term) depth() int {
	if t.Sub == nil {
		return 0
	}
	d := t.Sub.depth()
	if t.Tag == "Child" || t.Tag == "ChildPub" {
		d++
	}
	return d
}

// world: the concrete atoms
type world struct {
	seeds map[int][]byte
	sels  map[int][]byte
	msgs  map[int][]byte
	pws   map[int]string
	r     *rand.Rand
	prv   map[string]chainkd.XPrv
	pub   map[string]chainkd.XPub
	sigs  map[string][]byte
}

func newWorld(seed int64) *world {
	return &world{seeds: map[int][]byte{}, sels: map[int][]byte{}, msgs: map[int][]byte{}, pws: map[int]string{},
		r: rand.New(rand.NewSource(seed)), prv: map[string]chainkd.XPrv{}, pub: map[string]chainkd.XPub{}, sigs: map[string][]byte{}}
}

func (w *world) fresh(pool map[int][]byte, minLen, maxLen int) []byte {
	for {
		b := make([]byte, minLen+w.r.Intn(maxLen-minLen+1))
		w.r.Read(b)
		dup := false
		for _, o := range pool {
			dup = dup || bytes.Equal(o, b)
		}
		if !dup {
			return b
		}
	}
}
func (w *world) seed(i int) []byte {
	if _, ok := w.seeds[i]; !ok {
		w.seeds[i] = w.fresh(w.seeds, 16, 64)
	}
	return w.seeds[i]
}
func (w *world) sel(i int) []byte {
	if _, ok := w.sels[i]; !ok {
		w.sels[i] = w.fresh(w.sels, 1, 24)
	}
	return w.sels[i]
}
func (w *world) msg(i int) []byte {
	if _, ok := w.msgs[i]; !ok {
		w.msgs[i] = w.fresh(w.msgs, 0, 80)
	}
	return w.msgs[i]
}
func (w *world) pw(i int) string {
	if _, ok := w.pws[i]; !ok {
		w.pws[i] = fmt.Sprintf("pass-%d-%x", i, w.r.Int63())
	}
	return w.pws[i]
}

func (w *world) evalPrv(t *term) chainkd.XPrv {
	key := t.String()
	if v, ok := w.prv[key]; ok {
		return v
	}
	var v chainkd.XPrv
	switch t.Tag {
	case "Root":
		v = chainkd.RootXPrv(w.seed(t.N))
	case "Child":
		v = w.evalPrv(t.Sub).Child(w.sel(t.N), false)
	default:
		vh.Fatal("not a private-key term: %s", key)
	}
	w.prv[key] = v
	return v
}

func (w *world) evalPub(t *term) chainkd.XPub {
	key := t.String()
	if v, ok := w.pub[key]; ok {
		return v
	}
	var v chainkd.XPub
	switch t.Tag {
	case "Pub":
		v = w.evalPrv(t.Sub).XPub()
	case "ChildPub":
		v = w.evalPub(t.Sub).Child(w.sel(t.N))
	default:
		vh.Fatal("not a public-key term: %s", key)
	}
	w.pub[key] = v
	return v
}

func (w *world) sign(k *term, m int) []byte {
	key := fmt.Sprintf("%s|%d", k.String(), m)
	if s, ok := w.sigs[key]; ok {
		return s
	}
	s := w.evalPrv(k).Sign(w.msg(m))
	w.sigs[key] = s
	return s
}

func guard(sig string, rep interface{}, f func()) {
	defer func() {
		if e := recover(); e != nil {
			vh.Violation("panic:"+sig, fmt.Sprintf("%s panicked: %v", sig, e), rep)
		}
	}()
	f()
}

// shape of a public-key term: how many private and public derivation steps
func split(t *term) (priv, pub int) {
	for t.Tag == "ChildPub" {
		pub++
		t = t.Sub
	}
	return t.Sub.depth(), pub
}

func checkEq(w *world, a, b *term, want bool, origin string) {
	rep := map[string]interface{}{"a": a, "b": b, "equal_in_algebra": want, "origin": origin}
	guard("derive", rep, func() {
		x, y := w.evalPub(a), w.evalPub(b)
		got := x == y
		if got == want {
			return
		}
		pa, qa := split(a)
		pb, qb := split(b)
		if want {
			vh.Violation(fmt.Sprintf("derive:commutation:priv%d+pub%d-vs-priv%d+pub%d", pa, qa, pb, qb),
				fmt.Sprintf("public keys of %s and %s differ (%x.. vs %x..); KeyAlgebra.tla: both normalise to the same Pub(k)", a, b, x[:8], y[:8]), rep)
		} else {
			vh.Violation("derive:collision", fmt.Sprintf("public keys of %s and %s are equal; KeyAlgebra.tla: different normal forms", a, b), rep)
		}
	})
}

func checkVerify(w *world, p, k *term, m, m2 int, want bool, origin string) {
	rep := map[string]interface{}{"pub": p, "key": k, "signed_msg": m, "verified_msg": m2, "verifies_in_algebra": want, "origin": origin}
	guard("verify", rep, func() {
		sig := w.sign(k, m)
		xpub := w.evalPub(p)
		got := xpub.Verify(w.msg(m2), sig)
		if got2 := ed25519.Verify(xpub.PublicKey(), w.msg(m2), sig); got2 != got {
			vh.Violation("verify:xpub-vs-ed25519", fmt.Sprintf("XPub.Verify=%v but ed25519.Verify(PublicKey())=%v for %s", got, got2, p), rep)
		}
		if got == want {
			return
		}
		switch {
		case want:
			_, q := split(p)
			vh.Violation(fmt.Sprintf("verify:rejects-own-signature:pubsteps%d", q), fmt.Sprintf("signature by %s on message %d does not verify under %s; KeyAlgebra.tla: Verify holds", k, m, p), rep)
		case m != m2:
			vh.Violation("verify:accepts-other-message", fmt.Sprintf("signature by %s on message %d verifies for message %d under %s", k, m, m2, p), rep)
		default:
			vh.Violation("verify:accepts-other-key", fmt.Sprintf("signature by %s verifies under %s which denotes a different key", k, p), rep)
		}
	})
}

// ---------------------------------------------------------------- table (E)

type tdoc struct {
	Kind string `json:"kind"`
	A    int    `json:"a"`
	Term *term  `json:"term"`
	Eq   []struct {
		B    int   `json:"b"`
		Term *term `json:"term"`
		Eq   bool  `json:"eq"`
	} `json:"eq"`
	Ver []struct {
		K  *term `json:"k"`
		M  int   `json:"m"`
		M2 int   `json:"m2"`
		OK bool  `json:"ok"`
	} `json:"ver"`
	Dec []struct {
		Seed int  `json:"seed"`
		Pw   int  `json:"pw"`
		Pw2  int  `json:"pw2"`
		OK   bool `json:"ok"`
	} `json:"dec"`
	Priv []*term `json:"priv"`
}

func table(path string) {
	w := newWorld(vh.Seed())
	neq, nver, ndec, ntrue := 0, 0, 0, 0
	shapes := map[string]bool{}
	sampled := false
	_, err := vh.EachExport(path, func(_ int, doc []byte) error {
		var d tdoc
		if e := json.Unmarshal(doc, &d); e != nil {
			return e
		}
		switch d.Kind {
		case "pub":
			for _, e := range d.Eq {
				if e.B < d.A {
					continue // unordered pairs once
				}
				neq++
				if e.Eq {
					ntrue++
				}
				pa, qa := split(d.Term)
				shapes[fmt.Sprintf("eq:%d+%d:%v", pa, qa, e.Eq)] = true
				checkEq(w, d.Term, e.Term, e.Eq, "table")
			}
			for _, v := range d.Ver {
				nver++
				if v.OK {
					ntrue++
				}
				shapes[fmt.Sprintf("ver:%v:%v", v.M == v.M2, v.OK)] = true
				checkVerify(w, d.Term, v.K, v.M, v.M2, v.OK, "table")
			}
			if !sampled && d.Term.depth() == 3 && d.Term.Tag == "ChildPub" && d.Term.Sub.Tag == "ChildPub" {
				sampled = true
				vh.Sample(map[string]interface{}{"public_key_term": d.Term, "pairs": len(d.Eq), "verifications": len(d.Ver), "xpub": hex.EncodeToString(func() []byte { x := w.evalPub(d.Term); return x[:] }())})
			}
		case "store":
			for _, k := range d.Priv {
				k := k
				guard("expanded-key", k, func() {
					x := w.evalPrv(k)
					if !bytes.Equal(x.ExpandedPrivateKey().Public().(ed25519.PublicKey), x.XPub().PublicKey()) {
						vh.Violation("pub:expanded-key-differs", fmt.Sprintf("ExpandedPrivateKey().Public() differs from XPub().PublicKey() for %s", k), k)
					}
					if s1, s2 := x.Sign(w.msg(1)), x.Sign(w.msg(1)); !bytes.Equal(s1, s2) {
						vh.Violation("sign:not-deterministic", fmt.Sprintf("two signatures by %s on the same message differ", k), k)
					}
				})
			}
			for _, e := range d.Dec {
				e := e
				ndec++
				shapes[fmt.Sprintf("dec:%v", e.OK)] = true
				rep := map[string]interface{}{"seed": e.Seed, "encrypted_under": e.Pw, "opened_with": e.Pw2, "opens_in_algebra": e.OK}
				guard("keystore", rep, func() {
					xprv := w.evalPrv(&term{Tag: "Root", N: e.Seed})
					key := &pseudohsm.XKey{ID: uuid.NewRandom(), KeyType: "bytom_kd", Alias: "k", XPrv: xprv, XPub: xprv.XPub()}
					js, err := pseudohsm.EncryptKey(key, w.pw(e.Pw), 2, 1)
					if err != nil {
						vh.Violation("keystore:encrypt-fails", "EncryptKey: "+err.Error(), rep)
						return
					}
					got, err := pseudohsm.DecryptKey(js, w.pw(e.Pw2))
					switch {
					case (err == nil) != e.OK && e.OK:
						vh.Violation("keystore:rejects-correct-password", fmt.Sprintf("DecryptKey with the encryption password failed: %v", err), rep)
					case (err == nil) != e.OK:
						vh.Violation("keystore:opens-with-wrong-password", "DecryptKey succeeded with a different password", rep)
					case err == nil && (got.XPrv != xprv || got.XPub != xprv.XPub()):
						vh.Violation("keystore:wrong-key", "DecryptKey returned a different key", rep)
					}
				})
			}
		default:
			return fmt.Errorf("unknown document kind %q", d.Kind)
		}
		if vh.TooMany() {
			return fmt.Errorf("stop")
		}
		return nil
	})
	if err != nil && !vh.TooMany() {
		vh.Fatal("reading %s: %v", path, err)
	}
	vh.Summary(map[string]interface{}{"equalities": neq, "verifications": nver, "decryptions": ndec, "expected_true": ntrue, "shapes": len(shapes)})
}

// ---------------------------------------------------------------- store (R)

type scall struct {
	Op   string `json:"op"`
	Pw   int    `json:"pw"`
	New  int    `json:"new"`
	Path []int  `json:"path"`
	Msg  int    `json:"msg"`
	Err  string `json:"err"`
}
type sstep struct {
	Call scall `json:"call"`
	Obs  struct {
		Present bool   `json:"present"`
		Opens   []bool `json:"opens"` // opens[p-1]: password p opens the stored key
	} `json:"obs"`
}

func errClass(err error) string {
	if err == nil {
		return "nil"
	}
	return "fail"
}

func store(path, dir string) {
	w := newWorld(vh.Seed())
	// Root(1) of the key-store world is the key the HSM derives from this mnemonic
	ent := make([]byte, 16)
	w.r.Read(ent)
	mn, err := mnemonic.NewMnemonic(ent, "en")
	if err != nil {
		vh.Fatal("mnemonic: %v", err)
	}
	w.seeds[1] = mnemonic.NewSeed(mn, "")
	root := &term{Tag: "Root", N: 1}
	direct := w.evalPrv(root)
	ncases, nsteps, nprobes := 0, 0, 0
	shapes := map[string]bool{}
	sampled := false
	_, err = vh.EachExport(path, func(idx int, doc []byte) error {
		var steps []sstep
		if e := json.Unmarshal(doc, &steps); e != nil {
			return e
		}
		ncases++
		d := filepath.Join(dir, fmt.Sprintf("ks%d", idx))
		os.MkdirAll(d, 0700)
		defer os.RemoveAll(d)
		hsm, err := pseudohsm.New(d)
		if err != nil {
			vh.Fatal("pseudohsm.New: %v", err)
		}
		for i, st := range steps {
			c := st.Call
			nsteps++
			shapes[c.Op+":"+c.Err] = true
			rep := map[string]interface{}{"steps": steps, "failing_step": i}
			bad := func(sig, msg string) error {
				vh.Violation("keystore:"+sig, fmt.Sprintf("step %d %s: %s", i+1, c.Op, msg), rep)
				return nil
			}
			var got string
			var gerr error
			func() {
				defer func() {
					if e := recover(); e != nil {
						got = "panic"
						bad("panic:"+c.Op, fmt.Sprint(e))
					}
				}()
				switch c.Op {
				case "import":
					var x *pseudohsm.XPub
					x, gerr = hsm.ImportKeyFromMnemonic("verif-key", w.pw(c.Pw), mn, "en")
					if gerr == nil && x.XPub != direct.XPub() {
						bad("import:wrong-key", "imported key's xpub differs from RootXPrv(seed).XPub()")
					}
				case "load":
					var x chainkd.XPrv
					x, gerr = hsm.LoadChainKDKey(direct.XPub(), w.pw(c.Pw))
					if gerr == nil && x != direct {
						bad("load:wrong-key", "LoadChainKDKey returned a different private key")
					}
				case "sign":
					var p [][]byte
					k, P := root, &term{Tag: "Pub", Sub: root}
					for _, s := range c.Path {
						p = append(p, w.sel(s))
						k = &term{Tag: "Child", Sub: k, N: s}
						P = &term{Tag: "ChildPub", Sub: P, N: s}
					}
					var sig []byte
					sig, gerr = hsm.XSign(direct.XPub(), p, w.msg(c.Msg), w.pw(c.Pw))
					if gerr == nil {
						if !bytes.Equal(sig, w.sign(k, c.Msg)) {
							bad("sign:differs", fmt.Sprintf("XSign through the key store differs from Sign by the directly derived key %s", k))
						}
						if !w.evalPub(P).Verify(w.msg(c.Msg), sig) {
							bad("sign:not-verifiable", fmt.Sprintf("XSign signature does not verify under %s", P))
						}
					}
				case "reset":
					gerr = hsm.ResetPassword(direct.XPub(), w.pw(c.Pw), w.pw(c.New))
				case "delete":
					gerr = hsm.XDelete(direct.XPub(), w.pw(c.Pw))
				default:
					vh.Fatal("unknown store op %q", c.Op)
				}
				got = errClass(gerr)
			}()
			if got == "panic" {
				break
			}
			if got != c.Err {
				if got == "nil" {
					bad(c.Op+":succeeds-but-must-fail", fmt.Sprintf("call succeeded; KeyStoreSeq.tla: the stored key does not open with this password / no key stored (history %s)", doc))
				} else {
					bad(c.Op+":fails-but-must-succeed", fmt.Sprintf("call failed with %v; KeyStoreSeq.tla: succeeds (history %s)", gerr, doc))
				}
				break
			}
			present := false
			for _, x := range hsm.ListKeys() {
				present = present || x.XPub == direct.XPub()
			}
			if present != st.Obs.Present {
				bad(c.Op+":listing", fmt.Sprintf("after the call the key is listed=%v, KeyStoreSeq.tla: present=%v", present, st.Obs.Present))
				break
			}
			// projection of the store: which passwords open the key now
			mismatch := false
			for pi, want := range st.Obs.Opens {
				x, lerr := hsm.LoadChainKDKey(direct.XPub(), w.pw(pi+1))
				nprobes++
				if (lerr == nil) != want || (lerr == nil && x != direct) {
					bad(c.Op+":state-after", fmt.Sprintf("after the call password %d opens the key: %v (err %v), KeyStoreSeq.tla: %v (history %s)", pi+1, lerr == nil, lerr, want, doc))
					mismatch = true
					break
				}
			}
			if mismatch {
				break
			}
		}
		if !sampled && len(steps) == 3 {
			sampled = true
			vh.Sample(map[string]interface{}{"keystore_behaviour": steps})
		}
		if vh.TooMany() {
			return fmt.Errorf("stop")
		}
		return nil
	})
	if err != nil && !vh.TooMany() {
		vh.Fatal("reading %s: %v", path, err)
	}
	vh.Summary(map[string]interface{}{"behaviours": ncases, "steps": nsteps, "state_probes": nprobes, "shapes": len(shapes)})
}

// ------------------------------------------------------------------- gen

type kase struct {
	I    int    `json:"i"`
	K    string `json:"k"`
	A    *term  `json:"a"`
	B    *term  `json:"b"`
	M    int    `json:"m"`
	M2   int    `json:"m2"`
	Note string `json:"note"`
}

func prvTerm(seed int, path []int) *term {
	t := &term{Tag: "Root", N: seed}
	for _, s := range path {
		t = &term{Tag: "Child", Sub: t, N: s}
	}
	return t
}

// pubTerm derives path[:j] privately and the rest publicly.
func pubTerm(seed int, path []int, j int) *term {
	t := &term{Tag: "Pub", Sub: prvTerm(seed, path[:j])}
	for _, s := range path[j:] {
		t = &term{Tag: "ChildPub", Sub: t, N: s}
	}
	return t
}

const (
	nSeeds = 4
	nSels  = 6
	nMsgs  = 3
)

func generate(emit func(k kase)) {
	r := rand.New(rand.NewSource(vh.Seed()*31 + 5))
	groups := 120
	if vh.Tier() == "thorough" {
		groups = 6000
	}
	n := 0
	put := func(k kase) { n++; k.I = n; emit(k) }
	for g := 0; g < groups; g++ {
		seed := 1 + r.Intn(nSeeds)
		l := r.Intn(9)
		if g%4 == 0 {
			l = 8
		}
		path := make([]int, l)
		for i := range path {
			path[i] = 1 + r.Intn(nSels)
		}
		j1, j2 := r.Intn(l+1), r.Intn(l+1)
		a := pubTerm(seed, path, j1)
		put(kase{K: "eq", A: a, B: pubTerm(seed, path, j2), Note: "same path, two splits"})
		put(kase{K: "eq", A: a, B: pubTerm(seed, path, l), Note: "same path, all private"})
		put(kase{K: "eq", A: a, B: pubTerm(seed, path, 0), Note: "same path, all public"})
		put(kase{K: "eq", A: a, B: pubTerm(1+seed%nSeeds, path, j2), Note: "other seed"})
		if l > 0 {
			q := append([]int{}, path...)
			p := r.Intn(l)
			q[p] = 1 + q[p]%nSels
			put(kase{K: "eq", A: a, B: pubTerm(seed, q, j2), Note: "one selector changed"})
			put(kase{K: "eq", A: a, B: pubTerm(seed, path[:l-1], min(j2, l-1)), Note: "prefix"})
		}
		if l > 1 {
			q := append([]int{}, path...)
			p := r.Intn(l - 1)
			q[p], q[p+1] = q[p+1], q[p]
			put(kase{K: "eq", A: a, B: pubTerm(seed, q, j2), Note: "two selectors swapped"})
		}
		if l < 8 {
			put(kase{K: "eq", A: a, B: pubTerm(seed, append(append([]int{}, path...), 1+r.Intn(nSels)), j2), Note: "extended"})
		}
		// signatures
		k := prvTerm(seed, path)
		m := 1 + r.Intn(nMsgs)
		put(kase{K: "ver", A: a, B: k, M: m, M2: m, Note: "own key and message"})
		put(kase{K: "ver", A: a, B: k, M: m, M2: 1 + m%nMsgs, Note: "other message"})
		put(kase{K: "ver", A: pubTerm(1+seed%nSeeds, path, j2), B: k, M: m, M2: m, Note: "other seed"})
		if l > 0 {
			put(kase{K: "ver", A: pubTerm(seed, path[:l-1], min(j1, l-1)), B: k, M: m, M2: m, Note: "parent key"})
		}
	}
	// Dense derivation chains: many fresh seeds, one depth-8 path each, and at EVERY prefix of the path the
	// commutation equation (all-private against all-public derivation) and one sign/verify pairing (the
	// privately derived key signs, the publicly derived key verifies). Rare arithmetic slips in a single
	// derivation step (e.g. a lost carry in the scalar addition, ~1 step in 200) need thousands of distinct steps.
	chains := 700
	if vh.Tier() == "thorough" {
		chains = 4000
	}
	for c := 0; c < chains; c++ {
		seed := 1000 + c
		path := make([]int, 8)
		for i := range path {
			path[i] = 1 + r.Intn(nSels)
		}
		m := 1 + r.Intn(nMsgs)
		for j := 1; j <= len(path); j++ {
			allPub := pubTerm(seed, path[:j], 0)
			put(kase{K: "eq", A: pubTerm(seed, path[:j], j), B: allPub, Note: "chain prefix, all private vs all public"})
			put(kase{K: "ver", A: allPub, B: prvTerm(seed, path[:j]), M: m, M2: m, Note: "chain prefix, derived key signs and publicly derived key verifies"})
		}
	}
}

// chainSteps is the number of distinct (seed, path prefix) derivation steps of the dense chains.
func chainSteps() int {
	if vh.Tier() == "thorough" {
		return 4000 * 8
	}
	return 700 * 8
}

func min(a, b int) int {
	if a < b {
		return a
	}
	return b
}

func gen(path string) {
	f, err := os.Create(path)
	if err != nil {
		vh.Fatal("%v", err)
	}
	wr := bufio.NewWriter(f)
	n, deep := 0, 0
	generate(func(k kase) {
		b, _ := json.Marshal(k)
		wr.Write(b)
		wr.WriteByte('\n')
		n++
		if k.A.depth() == 8 {
			deep++
		}
	})
	wr.Flush()
	f.Close()
	vh.Summary(map[string]interface{}{"cases": n, "depth8": deep, "chain_derivation_steps": chainSteps()})
}

type expect struct {
	I  int   `json:"i"`
	R  bool  `json:"r"`
	NF *term `json:"nf"`
}

func cmp(casesPath, tlcOut string) {
	w := newWorld(vh.Seed())
	var cases []kase
	if _, err := vh.EachExport(casesPath, func(_ int, doc []byte) error {
		var k kase
		if e := json.Unmarshal(doc, &k); e != nil {
			return e
		}
		cases = append(cases, k)
		return nil
	}); err != nil {
		vh.Fatal("reading %s: %v", casesPath, err)
	}
	seen := make([]bool, len(cases)+1)
	nexp, ntrue := 0, 0
	shapes := map[string]bool{}
	samples := 0
	if _, err := vh.EachExport(tlcOut, func(_ int, doc []byte) error {
		var batch []expect
		if err := json.Unmarshal(doc, &batch); err != nil {
			return err
		}
		for _, e := range batch {
			if e.I < 1 || e.I > len(cases) || seen[e.I] {
				return fmt.Errorf("unexpected expectation index %d", e.I)
			}
			seen[e.I] = true
			nexp++
			k := cases[e.I-1]
			if e.R {
				ntrue++
			}
			pa, qa := split(k.A)
			shapes[fmt.Sprintf("%s:%s:%d+%d", k.K, k.Note, pa, qa)] = true
			// the term and TLC's normal form of it must denote the same key; the normal form is interpreted
			// with XPrv.Derive (iterated private derivation) to cover that entry point as well
			checkEq(w, k.A, e.NF, true, "recorded term vs its TLC normal form")
			guard("derive", k, func() {
				var path [][]byte
				t := e.NF.Sub
				var sels []int
				for t.Tag == "Child" {
					sels = append([]int{t.N}, sels...)
					t = t.Sub
				}
				for _, s := range sels {
					path = append(path, w.sel(s))
				}
				rootPrv := w.evalPrv(t)
				if rootPrv.Derive(path).XPub() != w.evalPub(k.A) || rootPrv.XPub().Derive(path) != w.evalPub(k.A) {
					vh.Violation("derive:Derive-differs", fmt.Sprintf("XPrv.Derive/XPub.Derive along the path of %s differ from the term's public key", e.NF), k)
				}
			})
			if k.K == "eq" {
				checkEq(w, k.A, k.B, e.R, k.Note)
			} else {
				checkVerify(w, k.A, k.B, k.M, k.M2, e.R, k.Note)
			}
			if samples < 3 && k.A.depth() == 8 && e.I%5 == 0 {
				samples++
				vh.Sample(map[string]interface{}{"kind": k.K, "note": k.Note, "a": k.A, "b": k.B, "tlc": e.R, "tlc_normal_form": e.NF})
			}
		}
		return nil
	}); err != nil {
		vh.Fatal("reading %s: %v", tlcOut, err)
	}
	if nexp != len(cases) {
		vh.Fatal("TLC judged %d of %d recorded cases", nexp, len(cases))
	}
	vh.Summary(map[string]interface{}{"cases": len(cases), "expected_true": ntrue, "shapes": len(shapes)})
}

func main() {
	vh.Quiet()
	if len(os.Args) < 3 {
		vh.Fatal("usage: c28 table|store|gen|cmp ...")
	}
	switch os.Args[1] {
	case "table":
		table(os.Args[2])
	case "store":
		dir := os.Args[3]
		if err := os.MkdirAll(dir, 0700); err != nil {
			vh.Fatal("%v", err)
		}
		store(os.Args[2], dir)
	case "gen":
		gen(os.Args[2])
	case "cmp":
		cmp(os.Args[2], os.Args[3])
	default:
		vh.Fatal("unknown sub-command %s", os.Args[1])
	}
	_ = ioutil.Discard
}
