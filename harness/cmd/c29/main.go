// c29: binds specs/fn/TextEnc.tla to common/address.go, common/bech32, encoding/base32, wallet/mnemonic.
//
//	c29 table <tlc.out>             replay the TLC table: addresses of chosen programs on every network and
//	                                every single-character substitution with the outcome TLC assigned
//	c29 gen <cases.ndjson>          record random programs / payloads / byte strings / entropy and mutated or
//	                                arbitrary strings as cases for TLC (codes, no expectations)
//	c29 cmp <cases.ndjson> <tlc.out> run the real functions on every case and compare with TLC's results
//	c29 fuzz                        arbitrary strings into the decoders whose result the specification leaves
//	                                open (base32, mnemonic): only "returns, does not panic" is required
package main

import (
	"bufio"
	"bytes"
	"crypto/sha256"
	"encoding/json"
	"fmt"
	"math/rand"
	"os"
	"strings"

	"github.com/bytom/bytom/common"
	"github.com/bytom/bytom/common/bech32"
	"github.com/bytom/bytom/consensus"
	"github.com/bytom/bytom/encoding/base32"
	"github.com/bytom/bytom/wallet/mnemonic"

	"verifharness/internal/vh"
)

var nets = []*consensus.Params{&consensus.MainNetParams, &consensus.TestNetParams, &consensus.SoloNetParams}

func netByHRP(h string) *consensus.Params {
	for _, p := range nets {
		if p.Bech32HRPSegwit == h {
			return p
		}
	}
	return nil
}

func codes(s string) []int {
	out := make([]int, len(s))
	for i := 0; i < len(s); i++ {
		out[i] = int(s[i])
	}
	return out
}
func str(c []int) string {
	b := make([]byte, len(c))
	for i, x := range c {
		b[i] = byte(x)
	}
	return string(b)
}
func ints(b []byte) []int {
	out := make([]int, len(b))
	for i, x := range b {
		out[i] = int(x)
	}
	return out
}
func bytesOf(c []int) []byte { return []byte(str(c)) }

// guarded calls: a panic is reported as an outcome
type addrRes struct {
	ok    bool
	prog  []byte
	kind  string
	pan   string
	isNet bool
}

func decodeAddr(s string, p *consensus.Params) (r addrRes) {
	defer func() {
		if e := recover(); e != nil {
			r.pan = fmt.Sprint(e)
		}
	}()
	a, err := common.DecodeAddress(s, p)
	if err != nil || a == nil {
		return
	}
	r.ok = true
	r.prog = a.ScriptAddress()
	r.isNet = a.IsForNet(p)
	switch a.(type) {
	case *common.AddressWitnessPubKeyHash:
		r.kind = "p2wpkh"
	case *common.AddressWitnessScriptHash:
		r.kind = "p2wsh"
	}
	return
}

func encodeAddr(prog []byte, p *consensus.Params) (s string, pan string) {
	defer func() {
		if e := recover(); e != nil {
			pan = fmt.Sprint(e)
		}
	}()
	if len(prog) == 20 {
		a, err := common.NewAddressWitnessPubKeyHash(prog, p)
		if err != nil {
			return "", "error: " + err.Error()
		}
		return a.EncodeAddress(), ""
	}
	a, err := common.NewAddressWitnessScriptHash(prog, p)
	if err != nil {
		return "", "error: " + err.Error()
	}
	return a.EncodeAddress(), ""
}

func b32decode(s string) (ok bool, hrp string, data []byte, pan string) {
	defer func() {
		if e := recover(); e != nil {
			pan = fmt.Sprint(e)
		}
	}()
	h, d, err := bech32.Bech32Decode(s)
	if err != nil {
		return false, "", nil, ""
	}
	return true, h, d, ""
}

func posClass(addr string, i int) string { // i is 0-based
	one := strings.LastIndexByte(addr, '1')
	switch {
	case i < one:
		return "prefix"
	case i == one:
		return "separator"
	case i == one+1:
		return "version"
	case i >= len(addr)-6:
		return "checksum"
	}
	return "program"
}

func charClass(c byte) string {
	switch {
	case c == '1':
		return "separator"
	case strings.IndexByte("qpzry9x8gf2tvdw0s3jn54khce6mua7l", c) >= 0:
		return "charset"
	case c >= 'A' && c <= 'Z':
		return "uppercase"
	}
	return "outside-charset"
}

// ---------------------------------------------------------------- table (E)

type tdoc struct {
	Net    []int `json:"net"`
	Prog   []int `json:"prog"`
	Addr   []int `json:"addr"`
	RT     bool  `json:"rt"`
	Upper  bool  `json:"upper"`
	Chunk  int   `json:"chunk"`
	Decode []struct {
		Net []int `json:"net"`
		OK  bool  `json:"ok"`
	} `json:"decode"`
	Subst []struct {
		I    int  `json:"i"`
		C    int  `json:"c"`
		Same bool `json:"same"`
		OK   bool `json:"ok"`
	} `json:"subst"`
}

func table(path string) {
	ndoc, nsub, ndec := 0, 0, 0
	shapes := map[string]bool{}
	sampled := false
	_, err := vh.EachExport(path, func(_ int, doc []byte) error {
		var d tdoc
		if e := json.Unmarshal(doc, &d); e != nil {
			return e
		}
		ndoc++
		p := netByHRP(str(d.Net))
		if p == nil {
			return fmt.Errorf("no network with prefix %q in consensus params", str(d.Net))
		}
		prog, want := bytesOf(d.Prog), str(d.Addr)
		rep := map[string]interface{}{"net": p.Name, "program": fmt.Sprintf("%x", prog), "address": want}
		if d.Chunk == 0 {
			got, pan := encodeAddr(prog, p)
			if pan != "" {
				vh.Violation("encode:panic-or-error", fmt.Sprintf("encoding a %d-byte program on %s failed: %s", len(prog), p.Name, pan), rep)
			} else if got != want {
				vh.Violation(fmt.Sprintf("encode:differs:%d", len(prog)), fmt.Sprintf("EncodeAddress(%x) on %s = %q, TextEnc.tla EncodeAddr = %q", prog, p.Name, got, want), rep)
			}
			for _, dn := range d.Decode {
				q := netByHRP(str(dn.Net))
				if q == nil {
					return fmt.Errorf("no network with prefix %q", str(dn.Net))
				}
				r := decodeAddr(want, q)
				ndec++
				own := "own-network"
				if q != p {
					own = "other-network"
				}
				shapes["decode:"+own] = true
				switch {
				case r.pan != "":
					vh.Violation("decode:panic", fmt.Sprintf("DecodeAddress(%q, %s) panicked: %s", want, q.Name, r.pan), rep)
				case r.ok != dn.OK:
					vh.Violation(fmt.Sprintf("decode:%s:%s", own, acc(r.ok)), fmt.Sprintf("DecodeAddress(%q) on %s %s; TextEnc.tla: %s", want, q.Name, acc(r.ok), acc(dn.OK)), rep)
				case r.ok && (!bytes.Equal(r.prog, prog) || !r.isNet || (len(prog) == 20) != (r.kind == "p2wpkh")):
					vh.Violation("decode:roundtrip-differs", fmt.Sprintf("DecodeAddress(%q) on %s gives %s %x (IsForNet %v), encoded program was %x", want, q.Name, r.kind, r.prog, r.isNet, prog), rep)
				}
			}
			up := decodeAddr(strings.ToUpper(want), p)
			ndec++
			if up.pan != "" || up.ok != d.Upper || (up.ok && !bytes.Equal(up.prog, prog)) {
				vh.Violation("decode:uppercase", fmt.Sprintf("DecodeAddress(%q) on %s: ok=%v %x panic=%q; TextEnc.tla accepts the all-uppercase form with the same program", strings.ToUpper(want), p.Name, up.ok, up.prog, up.pan), rep)
			}
		}
		for _, s := range d.Subst {
			if s.Same {
				continue
			}
			b := []byte(want)
			b[s.I-1] = byte(s.C)
			mut := string(b)
			sig := fmt.Sprintf("subst:%s:%s", posClass(want, s.I-1), charClass(byte(s.C)))
			shapes[sig] = true
			for _, q := range nets {
				r := decodeAddr(mut, q)
				nsub++
				rp := map[string]interface{}{"net": q.Name, "address": want, "changed": mut, "position": s.I, "program": fmt.Sprintf("%x", prog)}
				if r.pan != "" {
					vh.Violation("decode:panic", fmt.Sprintf("DecodeAddress(%q, %s) panicked: %s", mut, q.Name, r.pan), rp)
				} else if r.ok != s.OK {
					vh.Violation(sig+":"+acc(r.ok), fmt.Sprintf("address %q with character %d changed to %q is %s by DecodeAddress on %s; TextEnc.tla: %s", want, s.I, string(byte(s.C)), acc(r.ok), q.Name, acc(s.OK)), rp)
				}
			}
			if vh.TooMany() {
				return fmt.Errorf("stop")
			}
		}
		if !sampled && d.Chunk == 0 {
			sampled = true
			vh.Sample(map[string]interface{}{"net": p.Name, "program": fmt.Sprintf("%x", prog), "address_from_tlc": want, "substitutions_in_chunk": len(d.Subst)})
		}
		return nil
	})
	if err != nil && !vh.TooMany() {
		vh.Fatal("reading %s: %v", path, err)
	}
	vh.Summary(map[string]interface{}{"docs": ndoc, "substitution_decodes": nsub, "decodes": ndec, "shapes": len(shapes)})
}

func acc(b bool) string {
	if b {
		return "accepted"
	}
	return "rejected"
}

// ------------------------------------------------------------------- gen

type kase struct {
	I    int    `json:"i"`
	K    string `json:"k"`
	S    []int  `json:"s"`
	H    []int  `json:"h"`
	D    []int  `json:"d"`
	N    int    `json:"n"`
	P    bool   `json:"p"`
	A    string `json:"a"`
	Note string `json:"note"`
}

const b32chars = "qpzry9x8gf2tvdw0s3jn54khce6mua7l"

func randBytes(r *rand.Rand, n int) []byte {
	b := make([]byte, n)
	r.Read(b)
	switch r.Intn(8) {
	case 0:
		for i := range b {
			b[i] = 0
		}
	case 1:
		for i := range b {
			b[i] = 0xff
		}
	case 2:
		for i := 0; i < len(b)/2; i++ {
			b[i] = 0
		}
	}
	return b
}

// mutate returns a near-miss of a valid string.
func mutate(r *rand.Rand, s string) (string, string) {
	if len(s) == 0 {
		return "1", "empty"
	}
	b := []byte(s)
	i := r.Intn(len(b))
	switch r.Intn(12) {
	case 0:
		b[i] = b32chars[r.Intn(32)]
		return string(b), "substitute-charset"
	case 1:
		b[i] = byte(33 + r.Intn(94))
		return string(b), "substitute-printable"
	case 2:
		b[i] = byte(r.Intn(256))
		return string(b), "substitute-byte"
	case 3:
		return s[:i] + string(b32chars[r.Intn(32)]) + s[i:], "insert"
	case 4:
		return s[:i] + s[i+1:], "delete"
	case 5:
		if i+1 < len(b) {
			b[i], b[i+1] = b[i+1], b[i]
		}
		return string(b), "transpose"
	case 6:
		j := r.Intn(len(b))
		b[i], b[j] = b32chars[r.Intn(32)], b32chars[r.Intn(32)]
		return string(b), "substitute-two"
	case 7:
		return s[:i], "truncate"
	case 8:
		return strings.ToUpper(s), "all-uppercase"
	case 9:
		if b[i] >= 'a' && b[i] <= 'z' {
			b[i] -= 32
		}
		return string(b), "one-uppercase"
	case 10:
		return s + string(b32chars[r.Intn(32)]), "append"
	}
	return " " + s, "leading-space"
}

func arbitrary(r *rand.Rand) string {
	n := r.Intn(100)
	if r.Intn(10) == 0 {
		n = 85 + r.Intn(12)
	}
	b := make([]byte, n)
	mode := r.Intn(4)
	for i := range b {
		switch mode {
		case 0:
			b[i] = byte(r.Intn(256))
		case 1:
			b[i] = byte(33 + r.Intn(94))
		default:
			b[i] = b32chars[r.Intn(32)]
		}
	}
	if n > 3 && r.Intn(2) == 0 {
		copy(b, []string{"bn1", "tn1", "sn1", "BN1", "bn1q", "b1"}[r.Intn(6)])
	}
	if n > 9 && r.Intn(3) == 0 {
		b[r.Intn(n)] = '1'
	}
	return string(b)
}

func generate(emit func(k kase)) {
	r := rand.New(rand.NewSource(vh.Seed()))
	scale := 1
	if vh.Tier() == "thorough" {
		scale = 20
	}
	n := 0
	put := func(k kase) {
		n++
		k.I = n
		if k.S == nil {
			k.S = []int{}
		}
		if k.H == nil {
			k.H = []int{}
		}
		if k.D == nil {
			k.D = []int{}
		}
		emit(k)
	}
	hrps := []string{"bn", "tn", "sn"}
	// addresses: random programs on every network; decode of valid / mutated / foreign-network strings
	var valid []string
	for i := 0; i < 40*scale; i++ {
		prog := randBytes(r, []int{20, 32}[r.Intn(2)])
		h := hrps[r.Intn(3)]
		put(kase{K: "addr", H: codes(h), D: ints(prog), Note: "random program"})
		// a valid address string built with the real encoder only serves as raw material for mutations
		if s, pan := encodeAddr(prog, netByHRP(h)); pan == "" {
			valid = append(valid, s)
		}
	}
	// well-formed bech32 strings that are not valid addresses: other witness version, other program length,
	// non-zero padding bits, unknown prefix
	for i := 0; i < 30*scale; i++ {
		h := hrps[r.Intn(3)]
		var payload []byte
		note := ""
		switch r.Intn(5) {
		case 0:
			conv, _ := bech32.ConvertBits(randBytes(r, []int{20, 32}[r.Intn(2)]), 8, 5, true)
			payload, note = append([]byte{byte(1 + r.Intn(16))}, conv...), "witness version 1..16"
		case 1:
			conv, _ := bech32.ConvertBits(randBytes(r, []int{0, 1, 2, 19, 21, 31, 33, 40, 41}[r.Intn(9)]), 8, 5, true)
			payload, note = append([]byte{0}, conv...), "unsupported program length"
		case 2:
			conv, _ := bech32.ConvertBits(randBytes(r, 20), 8, 5, true)
			conv[len(conv)-1] |= byte(1 + r.Intn(15)) // 160 bits -> 32 groups, no padding bits: changes data, stays valid length
			payload, note = append([]byte{0}, conv...), "last group altered"
		case 3:
			conv, _ := bech32.ConvertBits(randBytes(r, 32), 8, 5, true)
			conv[len(conv)-1] |= byte(1 + r.Intn(15)) // 256 bits -> 52 groups with 4 padding bits: non-zero padding
			payload, note = append([]byte{0}, conv...), "non-zero padding bits"
		default:
			conv, _ := bech32.ConvertBits(randBytes(r, 20), 8, 5, true)
			payload, note = append([]byte{0}, conv...), "unknown prefix"
			h = []string{"bm", "b", "bnn", "tb", "bc"}[r.Intn(5)]
		}
		if s, err := bech32.Bech32Encode(h, payload); err == nil {
			for _, net := range hrps {
				put(kase{K: "dec", S: codes(s), H: codes(net), Note: "well-formed bech32, " + note})
			}
		}
	}
	for i := 0; i < 150*scale; i++ {
		var s, note string
		switch {
		case i%3 == 0 && len(valid) > 0:
			s, note = valid[r.Intn(len(valid))], "valid address"
		case i%3 == 1 && len(valid) > 0:
			s, note = mutate(r, valid[r.Intn(len(valid))])
			note = "mutated address: " + note
		default:
			s, note = arbitrary(r), "arbitrary string"
		}
		for _, net := range hrps {
			put(kase{K: "dec", S: codes(s), H: codes(net), Note: note})
		}
	}
	// bech32 proper
	hchars := "abcdefghijklmnopqrstuvwxyz0123456789!~-_"
	var validB []string
	for i := 0; i < 60*scale; i++ {
		hl := 1 + r.Intn(10)
		h := make([]byte, hl)
		for j := range h {
			h[j] = hchars[r.Intn(len(hchars))]
		}
		dl := r.Intn(60)
		if i < 4 {
			dl = 0
		}
		d := make([]byte, dl)
		for j := range d {
			d[j] = byte(r.Intn(32))
		}
		put(kase{K: "b32e", H: codes(string(h)), D: ints(d), Note: "random hrp and payload"})
		if s, err := bech32.Bech32Encode(string(h), append([]byte{}, d...)); err == nil {
			validB = append(validB, s)
		}
	}
	for i := 0; i < 150*scale; i++ {
		var s, note string
		switch {
		case i%3 == 0 && len(validB) > 0:
			s, note = validB[r.Intn(len(validB))], "valid bech32"
		case i%3 == 1 && len(validB) > 0:
			s, note = mutate(r, validB[r.Intn(len(validB))])
			note = "mutated bech32: " + note
		default:
			s, note = arbitrary(r), "arbitrary string"
		}
		put(kase{K: "b32d", S: codes(s), Note: note})
	}
	// base32: every length 0..40 and random longer ones, both alphabets, padded and unpadded
	for i := 0; i < 60*scale; i++ {
		l := i % 41
		if i >= 41 {
			l = r.Intn(80)
		}
		put(kase{K: "base32", D: ints(randBytes(r, l)), A: []string{"std", "hex"}[r.Intn(2)], P: r.Intn(3) != 0, Note: "random bytes"})
	}
	// mnemonic: all entropy lengths
	for i := 0; i < 25*scale; i++ {
		e := randBytes(r, []int{16, 20, 24, 28, 32}[i%5])
		ck := sha256.Sum256(e)
		put(kase{K: "mn", D: ints(e), N: int(ck[0]), Note: "random entropy"})
	}
}

func gen(path string) {
	f, err := os.Create(path)
	if err != nil {
		vh.Fatal("%v", err)
	}
	w := bufio.NewWriter(f)
	n := 0
	kinds := map[string]int{}
	generate(func(k kase) {
		b, _ := json.Marshal(k)
		w.Write(b)
		w.WriteByte('\n')
		n++
		kinds[k.K]++
	})
	w.Flush()
	f.Close()
	vh.Summary(map[string]interface{}{"cases": n, "kinds": kinds})
}

// ------------------------------------------------------------------- cmp

type expect struct {
	I    int   `json:"i"`
	OK   bool  `json:"ok"`
	Out  []int `json:"out"`
	Out2 []int `json:"out2"`
}

var languages = []string{"en", "zh_CN", "zh_TW", "it", "ja", "ko", "es"}

func guard(name string, rep interface{}, f func()) {
	defer func() {
		if e := recover(); e != nil {
			vh.Violation("panic:"+name, fmt.Sprintf("%s panicked: %v", name, e), rep)
		}
	}()
	f()
}

func cmpOne(k kase, e expect, shapes map[string]bool) {
	rep := map[string]interface{}{"case": k, "tlc": e}
	switch k.K {
	case "addr":
		p := netByHRP(str(k.H))
		prog, want := bytesOf(k.D), str(e.Out)
		shapes[fmt.Sprintf("addr:%d:%s", len(prog), p.Name)] = true
		got, pan := encodeAddr(prog, p)
		if pan != "" {
			vh.Violation("encode:panic-or-error", fmt.Sprintf("encoding program %x on %s failed: %s", prog, p.Name, pan), rep)
			return
		}
		if got != want {
			vh.Violation(fmt.Sprintf("encode:differs:%d", len(prog)), fmt.Sprintf("EncodeAddress(%x) on %s = %q, TextEnc.tla EncodeAddr = %q", prog, p.Name, got, want), rep)
		}
		for _, q := range nets {
			r := decodeAddr(want, q)
			own := "other-network"
			if q == p {
				own = "own-network"
			}
			switch {
			case r.pan != "":
				vh.Violation("decode:panic", fmt.Sprintf("DecodeAddress(%q, %s) panicked: %s", want, q.Name, r.pan), rep)
			case r.ok != (q == p):
				vh.Violation(fmt.Sprintf("decode:%s:%s", own, acc(r.ok)), fmt.Sprintf("DecodeAddress(%q) on %s %s (address of %s)", want, q.Name, acc(r.ok), p.Name), rep)
			case r.ok && (!bytes.Equal(r.prog, prog) || !r.isNet || (len(prog) == 20) != (r.kind == "p2wpkh")):
				vh.Violation("decode:roundtrip-differs", fmt.Sprintf("DecodeAddress(%q) on %s gives %s %x, encoded program was %x", want, q.Name, r.kind, r.prog, prog), rep)
			}
		}
	case "dec":
		p := netByHRP(str(k.H))
		s := str(k.S)
		r := decodeAddr(s, p)
		shapes["dec:"+strings.SplitN(k.Note, ":", 2)[0]+":"+acc(e.OK)] = true
		cls := strings.Replace(strings.SplitN(k.Note, ",", 2)[0], " ", "-", -1)
		if i := strings.Index(k.Note, ": "); i >= 0 {
			cls = strings.Replace(k.Note[:i], " ", "-", -1) + ":" + k.Note[i+2:]
		}
		switch {
		case r.pan != "":
			vh.Violation("decode:panic", fmt.Sprintf("DecodeAddress(%q, %s) panicked: %s", s, p.Name, r.pan), rep)
		case r.ok != e.OK:
			vh.Violation("decode:"+cls+":"+acc(r.ok), fmt.Sprintf("DecodeAddress(%q) on %s %s (%s); TextEnc.tla DecodeAddr: %s", s, p.Name, acc(r.ok), k.Note, acc(e.OK)), rep)
		case r.ok && !bytes.Equal(r.prog, bytesOf(e.Out)):
			vh.Violation("decode:program-differs", fmt.Sprintf("DecodeAddress(%q) on %s gives program %x, TextEnc.tla gives %x", s, p.Name, r.prog, bytesOf(e.Out)), rep)
		}
	case "b32e":
		h, d, want := str(k.H), bytesOf(k.D), str(e.Out)
		shapes["b32e"] = true
		guard("Bech32Encode", rep, func() {
			got, err := bech32.Bech32Encode(h, append([]byte{}, d...))
			if err != nil || got != want {
				vh.Violation("bech32:encode-differs", fmt.Sprintf("Bech32Encode(%q, %v) = %q (%v), TextEnc.tla = %q", h, d, got, err, want), rep)
			}
		})
		ok, gh, gd, pan := b32decode(want)
		if pan != "" || !ok || gh != h || !bytes.Equal(gd, d) {
			vh.Violation("bech32:roundtrip", fmt.Sprintf("Bech32Decode(%q) = ok %v hrp %q data %v panic %q; encoded were %q %v", want, ok, gh, gd, pan, h, d), rep)
		}
	case "b32d":
		s := str(k.S)
		ok, gh, gd, pan := b32decode(s)
		shapes["b32d:"+strings.SplitN(k.Note, ":", 2)[0]+":"+acc(e.OK)] = true
		cls := strings.Replace(k.Note, " ", "-", -1)
		switch {
		case pan != "":
			vh.Violation("bech32:decode-panic", fmt.Sprintf("Bech32Decode(%q) panicked: %s", s, pan), rep)
		case ok != e.OK:
			vh.Violation("bech32:decode:"+cls+":"+acc(ok), fmt.Sprintf("Bech32Decode(%q) %s (%s); TextEnc.tla: %s", s, acc(ok), k.Note, acc(e.OK)), rep)
		case ok && (gh != str(e.Out2) || !bytes.Equal(gd, bytesOf(e.Out))):
			vh.Violation("bech32:decode-differs", fmt.Sprintf("Bech32Decode(%q) = %q %v, TextEnc.tla = %q %v", s, gh, gd, str(e.Out2), e.Out), rep)
		}
	case "base32":
		enc := base32.StdEncoding
		if k.A == "hex" {
			enc = base32.HexEncoding
		}
		if !k.P {
			enc = enc.WithPadding(base32.NoPadding)
		}
		d, want := bytesOf(k.D), str(e.Out)
		shapes[fmt.Sprintf("base32:%s:%v:%d", k.A, k.P, len(d)%5)] = true
		guard("base32", rep, func() {
			if got := enc.EncodeToString(d); got != want {
				vh.Violation(fmt.Sprintf("base32:encode-differs:len%%5=%d", len(d)%5), fmt.Sprintf("base32 %s padded=%v EncodeToString(%x) = %q, TextEnc.tla = %q", k.A, k.P, d, got, want), rep)
			}
			back, err := enc.DecodeString(want)
			if err != nil || !bytes.Equal(back, d) {
				vh.Violation(fmt.Sprintf("base32:roundtrip:len%%5=%d", len(d)%5), fmt.Sprintf("base32 %s padded=%v DecodeString(%q) = %x (%v), encoded were %x", k.A, k.P, want, back, err, d), rep)
			}
		})
	case "mn":
		ent := bytesOf(k.D)
		shapes[fmt.Sprintf("mn:%d", len(ent))] = true
		for _, lang := range languages {
			lang := lang
			guard("mnemonic", rep, func() {
				words, err := mnemonic.SetWordList(lang)
				if err != nil {
					vh.Fatal("word list %s: %v", lang, err)
				}
				var ws []string
				for _, ix := range e.Out {
					ws = append(ws, words[ix])
				}
				want := strings.Join(ws, " ")
				got, err := mnemonic.NewMnemonic(ent, lang)
				if err != nil || got != want {
					vh.Violation("mnemonic:encode-differs", fmt.Sprintf("NewMnemonic(%x, %s) = %q (%v); TextEnc.tla word indices %v give %q", ent, lang, got, err, e.Out, want), rep)
					return
				}
				back, err := mnemonic.EntropyFromMnemonic(want, lang)
				if err != nil || !bytes.Equal(back, ent) {
					vh.Violation("mnemonic:roundtrip:EntropyFromMnemonic", fmt.Sprintf("EntropyFromMnemonic(%q, %s) = %x (%v), entropy was %x", want, lang, back, err, ent), rep)
				}
				raw, err := mnemonic.MnemonicToByteArray(want, lang, true)
				if err != nil || !bytes.Equal(raw, ent) {
					vh.Violation("mnemonic:roundtrip:MnemonicToByteArray", fmt.Sprintf("MnemonicToByteArray(%q, %s, raw) = %x (%v), entropy was %x", want, lang, raw, err, ent), rep)
				}
			})
		}
	}
}

func outText(kind string, out []int) interface{} {
	if kind == "mn" || kind == "dec" || kind == "b32d" {
		return out
	}
	return str(out)
}

func cmp(casesPath, tlcOut string) {
	var cases []kase
	if _, err := vh.EachExport(casesPath, func(_ int, doc []byte) error {
		var k kase
		if e := json.Unmarshal(doc, &k); e != nil {
			return e
		}
		cases = append(cases, k)
		return nil
	}); err != nil {
		vh.Fatal("reading %s: %v", casesPath, err)
	}
	seen := make([]bool, len(cases)+1)
	nexp, nacc, nrej := 0, 0, 0
	shapes := map[string]bool{}
	samples := map[string]bool{}
	if _, err := vh.EachExport(tlcOut, func(_ int, doc []byte) error {
		var batch []expect
		if err := json.Unmarshal(doc, &batch); err != nil {
			return err
		}
		for _, e := range batch {
			if e.I < 1 || e.I > len(cases) || seen[e.I] {
				return fmt.Errorf("unexpected expectation index %d", e.I)
			}
			seen[e.I] = true
			nexp++
			k := cases[e.I-1]
			if k.K == "dec" || k.K == "b32d" {
				if e.OK {
					nacc++
				} else {
					nrej++
				}
			}
			cmpOne(k, e, shapes)
			if !samples[k.K] && e.I%7 == 1 {
				samples[k.K] = true
				vh.Sample(map[string]interface{}{"kind": k.K, "note": k.Note, "string": str(k.S), "prefix": str(k.H), "bytes": k.D, "tlc_ok": e.OK, "tlc_out": outText(k.K, e.Out)})
			}
		}
		return nil
	}); err != nil {
		vh.Fatal("reading %s: %v", tlcOut, err)
	}
	if nexp != len(cases) {
		vh.Fatal("TLC judged %d of %d recorded cases", nexp, len(cases))
	}
	vh.Summary(map[string]interface{}{"cases": len(cases), "decode_accept": nacc, "decode_reject": nrej, "shapes": len(shapes)})
}

// ------------------------------------------------------------------- fuzz

func fuzz() {
	r := rand.New(rand.NewSource(vh.Seed() + 77))
	n := 20000
	if vh.Tier() == "thorough" {
		n = 400000
	}
	calls := 0
	b32alpha := "ABCDEFGHIJKLMNOPQRSTUVWXYZ234567=\n\r a1"
	encs := map[string]*base32.Encoding{"std": base32.StdEncoding, "hex": base32.HexEncoding,
		"std-nopad": base32.StdEncoding.WithPadding(base32.NoPadding), "hex-nopad": base32.HexEncoding.WithPadding(base32.NoPadding)}
	words, _ := mnemonic.SetWordList("en")
	for i := 0; i < n && !vh.TooMany(); i++ {
		var s string
		switch r.Intn(3) {
		case 0:
			s = arbitrary(r)
		case 1:
			b := make([]byte, r.Intn(40))
			for j := range b {
				b[j] = b32alpha[r.Intn(len(b32alpha))]
			}
			s = string(b)
		default:
			raw := make([]byte, r.Intn(30))
			r.Read(raw)
			s = base32.StdEncoding.EncodeToString(raw)
			if len(s) > 0 {
				s, _ = mutate(r, s)
			}
		}
		for name, enc := range encs {
			enc := enc
			guard("base32.DecodeString:"+name, map[string]interface{}{"input": codes(s)}, func() { enc.DecodeString(s); calls++ })
		}
		// sentences of real words with anomalies, and arbitrary strings
		m := s
		if r.Intn(3) != 0 {
			cnt := []int{0, 1, 3, 11, 12, 13, 15, 18, 21, 24, 25, 27}[r.Intn(12)]
			var sb strings.Builder
			for j := 0; j < cnt; j++ {
				if j > 0 {
					sb.WriteString([]string{" ", " ", " ", "  ", "\t", "\n"}[r.Intn(6)])
				}
				if r.Intn(25) == 0 {
					sb.WriteString("xyzzy")
				} else {
					sb.WriteString(words[r.Intn(len(words))])
				}
			}
			m = sb.String()
		}
		lang := []string{"en", "en", "zh_CN", "ja", "xx", "", "en_US", "toolong"}[r.Intn(8)]
		rep := map[string]interface{}{"input": m, "language": lang}
		guard("mnemonic.EntropyFromMnemonic", rep, func() { mnemonic.EntropyFromMnemonic(m, lang); calls++ })
		guard("mnemonic.MnemonicToByteArray", rep, func() { mnemonic.MnemonicToByteArray(m, lang); calls++ })
		guard("mnemonic.MnemonicToByteArray", rep, func() { mnemonic.MnemonicToByteArray(m, lang, true); calls++ })
		guard("mnemonic.IsMnemonicValid", rep, func() { mnemonic.IsMnemonicValid(m, lang); calls++ })
		guard("mnemonic.NewSeedWithErrorChecking", rep, func() {
			if i%50 == 0 {
				mnemonic.NewSeedWithErrorChecking(m, "pw", lang)
				calls++
			}
		})
		el := r.Intn(70)
		guard("mnemonic.NewMnemonic", map[string]interface{}{"entropy_len": el}, func() { mnemonic.NewMnemonic(make([]byte, el), lang); calls++ })
		guard("bech32.ConvertBits", map[string]interface{}{"input": codes(s)}, func() {
			bech32.ConvertBits([]byte(s), uint8(r.Intn(10)), uint8(r.Intn(10)), r.Intn(2) == 0)
			calls++
		})
	}
	vh.Summary(map[string]interface{}{"fuzz_inputs": n, "fuzz_calls": calls})
}

func main() {
	vh.Quiet()
	if len(os.Args) < 2 {
		vh.Fatal("usage: c29 table|gen|cmp|fuzz ...")
	}
	switch os.Args[1] {
	case "table":
		table(os.Args[2])
	case "gen":
		gen(os.Args[2])
	case "cmp":
		cmp(os.Args[2], os.Args[3])
	case "fuzz":
		fuzz()
	default:
		vh.Fatal("unknown sub-command %s", os.Args[1])
	}
}
