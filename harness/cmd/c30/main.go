// c30: binds specs/fn/Merkle.tla to protocol/bc/types/merkle.go.
//
//	c30 table <tlc.out>                   replay the TLC table (every n<=NMax, every subset, every single
//	                                      tampering) against the real generator/validator with random ids
//	c30 gen <shape tlc.out> <cases.ndjson> random lists up to 64 ids: the real proof is mapped back to range
//	                                      codes, random tamperings are applied, the real validator's outcome
//	                                      is recorded with each case
//	c30 cmp <cases.ndjson> <tlc.out>      compare the recorded outcomes with the ones TLC assigned
//	c30 regen <shape tlc.out> <i>         re-execute recorded case i (replay)
//
// Hash terms are concretised with sha3-256 exactly as the protocol defines leaf and interior
// hashes; the tree shape (split points) is read from TLC's export, not computed here.
package main

import (
	"bufio"
	"bytes"
	"encoding/hex"
	"encoding/json"
	"fmt"
	"math/rand"
	"os"
	"strconv"

	"golang.org/x/crypto/sha3"

	"github.com/bytom/bytom/protocol/bc"
	"github.com/bytom/bytom/protocol/bc/types"

	"verifharness/internal/vh"
)

// rc is a range code: ["T",lo,hi] tree node over positions lo..hi, ["X",k,0] foreign value, ["E",0,0] empty-string hash.
type rc struct {
	K    string
	A, B int
}

func (c rc) MarshalJSON() ([]byte, error) { return json.Marshal([]interface{}{c.K, c.A, c.B}) }
func (c *rc) UnmarshalJSON(b []byte) error {
	var raw []json.RawMessage
	if err := json.Unmarshal(b, &raw); err != nil || len(raw) != 3 {
		return fmt.Errorf("bad range code %s", b)
	}
	if err := json.Unmarshal(raw[0], &c.K); err != nil {
		return err
	}
	if err := json.Unmarshal(raw[1], &c.A); err != nil {
		return err
	}
	return json.Unmarshal(raw[2], &c.B)
}

func sum(parts ...[]byte) bc.Hash {
	h := sha3.New256()
	for _, p := range parts {
		h.Write(p)
	}
	var b32 [32]byte
	copy(b32[:], h.Sum(nil))
	return bc.NewHash(b32)
}

// world concretises the terms of one list of ids.
type world struct {
	ids    []bc.Hash // raw transaction ids, position p is ids[p-1]
	splits []int     // splits[m-1] = split point of a node over m leaves (from TLC)
	memo   map[[2]int]bc.Hash
	rev    map[bc.Hash]rc
	salt   int64
}

func newWorld(r *rand.Rand, n int, splits []int) *world {
	w := &world{splits: splits, memo: map[[2]int]bc.Hash{}, rev: map[bc.Hash]rc{}, salt: r.Int63()}
	seen := map[bc.Hash]bool{}
	for len(w.ids) < n {
		var b [32]byte
		r.Read(b[:])
		h := bc.NewHash(b)
		if !seen[h] {
			seen[h] = true
			w.ids = append(w.ids, h)
		}
	}
	if n > 0 {
		if n > len(splits) {
			vh.Fatal("no split table for %d leaves", n)
		}
		w.node(1, n)
	}
	w.rev[w.empty()] = rc{"E", 0, 0}
	return w
}

func (w *world) node(lo, hi int) bc.Hash {
	if h, ok := w.memo[[2]int{lo, hi}]; ok {
		return h
	}
	var h bc.Hash
	if lo == hi {
		h = sum([]byte{0x00}, w.ids[lo-1].Bytes())
	} else {
		k := w.splits[hi-lo]
		if k < 1 || k >= hi-lo+1 {
			vh.Fatal("bad split %d for %d leaves", k, hi-lo+1)
		}
		l, r := w.node(lo, lo+k-1), w.node(lo+k, hi)
		h = sum([]byte{0x01}, l.Bytes(), r.Bytes())
	}
	w.memo[[2]int{lo, hi}] = h
	w.rev[h] = rc{"T", lo, hi}
	return h
}

func (w *world) empty() bc.Hash { return sum() }

// foreignID is a raw transaction id outside the list; its leaf hash is the term Foreign(k).
func (w *world) foreignID(k int) bc.Hash {
	return sum([]byte("foreign id"), []byte(strconv.FormatInt(w.salt, 10)), []byte(strconv.Itoa(k)))
}

// hash concretises a code as a hash value appearing in a proof or as a root.
func (w *world) hash(c rc) bc.Hash {
	switch c.K {
	case "T":
		return w.node(c.A, c.B)
	case "X":
		id := w.foreignID(c.A)
		h := sum([]byte{0x00}, id.Bytes())
		w.rev[h] = c
		return h
	}
	return w.empty()
}

// related concretises a code of the related list as a raw transaction id.
func (w *world) related(c rc) bc.Hash {
	switch c.K {
	case "T":
		if c.A != c.B {
			vh.Fatal("related code is not a leaf: %v", c)
		}
		return w.ids[c.A-1]
	case "X":
		return w.foreignID(c.A)
	}
	vh.Fatal("related code %v", c)
	return bc.Hash{}
}

func (w *world) code(h bc.Hash, fresh *int) rc {
	if c, ok := w.rev[h]; ok {
		return c
	}
	*fresh++
	c := rc{"X", *fresh, 0}
	w.rev[h] = c
	return c
}

func ptrs(hs []bc.Hash) []*bc.Hash {
	out := make([]*bc.Hash, len(hs))
	for i := range hs {
		h := hs[i]
		out[i] = &h
	}
	return out
}

func hexes(hs []bc.Hash) []string {
	out := []string{}
	for _, h := range hs {
		out = append(out, hex.EncodeToString(h.Bytes()))
	}
	return out
}

// the real functions, with panics turned into reported outcomes
func realValidate(h []bc.Hash, f []uint8, rel []bc.Hash, root bc.Hash) (ok bool, pan string) {
	defer func() {
		if r := recover(); r != nil {
			pan = fmt.Sprint(r)
		}
	}()
	return types.ValidateTxMerkleTreeProof(ptrs(h), f, ptrs(rel), root), ""
}

func realProof(ids []bc.Hash, rel []bc.Hash) (h []bc.Hash, f []uint8, pan string) {
	defer func() {
		if r := recover(); r != nil {
			pan = fmt.Sprint(r)
		}
	}()
	var txs, rtxs []*types.Tx
	for i := range ids {
		txs = append(txs, &types.Tx{Tx: &bc.Tx{ID: ids[i]}})
	}
	for i := range rel {
		rtxs = append(rtxs, &types.Tx{Tx: &bc.Tx{ID: rel[i]}})
	}
	hp, fl := types.GetTxMerkleTreeProof(txs, rtxs)
	for _, p := range hp {
		h = append(h, *p)
	}
	return h, fl, ""
}

func realRoot(ids []bc.Hash) (root bc.Hash, pan string) {
	defer func() {
		if r := recover(); r != nil {
			pan = fmt.Sprint(r)
		}
	}()
	var txs []*bc.Tx
	for i := range ids {
		txs = append(txs, &bc.Tx{ID: ids[i]})
	}
	root, err := types.TxMerkleRoot(txs)
	if err != nil {
		return root, "error: " + err.Error()
	}
	return root, ""
}

func flagName(f int) string {
	switch f {
	case 0:
		return "assist"
	case 1:
		return "parent"
	case 2:
		return "leaf"
	}
	return "undefined"
}

func codeKind(c rc) string {
	switch c.K {
	case "T":
		if c.A == c.B {
			return "leafnode"
		}
		return "node"
	case "X":
		return "foreign"
	}
	return "emptyhash"
}

func verdict(b bool) string {
	if b {
		return "accepted"
	}
	return "rejected"
}

// ---------------------------------------------------------------- table (E)

type variant struct {
	K   string `json:"k"`
	I   int    `json:"i"`
	X   rc     `json:"x"`
	G   int    `json:"g"`
	Rel []rc   `json:"rel"`
	Exp bool   `json:"exp"`
}
type tdoc struct {
	N      int       `json:"n"`
	S      []int     `json:"S"`
	H      []rc      `json:"h"`
	F      []int     `json:"f"`
	Rel    []rc      `json:"rel"`
	Root   rc        `json:"root"`
	Splits []int     `json:"splits"`
	OK     bool      `json:"ok"`
	Vars   []variant `json:"vars"`
}

func u8s(f []int) []uint8 {
	out := make([]uint8, len(f))
	for i, x := range f {
		out[i] = uint8(x)
	}
	return out
}

func table(path string) {
	seed := vh.Seed()
	ncases, nvars, nsame, naccept := 0, 0, 0, 0
	shapes := map[string]bool{}
	samples := 0
	_, err := vh.EachExport(path, func(idx int, doc []byte) error {
		var d tdoc
		if e := json.Unmarshal(doc, &d); e != nil {
			return e
		}
		ncases++
		r := rand.New(rand.NewSource(seed*1000003 + int64(idx)))
		w := newWorld(r, d.N, d.Splits)
		conc := func(cs []rc) []bc.Hash {
			out := []bc.Hash{}
			for _, c := range cs {
				out = append(out, w.hash(c))
			}
			return out
		}
		concRel := func(cs []rc) []bc.Hash {
			out := []bc.Hash{}
			for _, c := range cs {
				out = append(out, w.related(c))
			}
			return out
		}
		base := map[string]interface{}{"n": d.N, "S": d.S, "ids": hexes(w.ids)}
		// the block's transaction root
		root, pan := realRoot(w.ids)
		if pan != "" {
			vh.Violation("panic:TxMerkleRoot", "TxMerkleRoot panicked/failed: "+pan, base)
			return nil
		}
		if root != w.hash(d.Root) {
			vh.Violation("root:differs", fmt.Sprintf("TxMerkleRoot of %d ids is %s, Merkle.tla Root(n) concretises to %s", d.N, hex.EncodeToString(root.Bytes()), hex.EncodeToString(w.hash(d.Root).Bytes())), base)
		}
		// the real generator: its proof must validate (completeness)
		rel := concRel(d.Rel)
		ph, pf, pan := realProof(w.ids, rel)
		if pan != "" {
			vh.Violation("panic:GetTxMerkleTreeProof", fmt.Sprintf("GetTxMerkleTreeProof panicked on n=%d S=%v: %s", d.N, d.S, pan), base)
			return nil
		}
		got, pan := realValidate(ph, pf, rel, root)
		if pan != "" {
			vh.Violation("panic:ValidateTxMerkleTreeProof", "panic validating the generated proof: "+pan, base)
		} else if got != d.OK {
			vh.Violation("generate:proof-"+verdict(got), fmt.Sprintf("proof generated for n=%d S=%v (flags %v) is %s by ValidateTxMerkleTreeProof against the block root; Merkle.tla: Complete", d.N, d.S, pf, verdict(got)),
				map[string]interface{}{"n": d.N, "S": d.S, "ids": hexes(w.ids), "proof": hexes(ph), "flags": ints(pf)})
		}
		sh, sf := conc(d.H), u8s(d.F)
		if len(ph) == len(sh) && bytes.Equal(pf, sf) {
			eq := true
			for i := range ph {
				eq = eq && ph[i] == sh[i]
			}
			if eq {
				nsame++
			}
		}
		// the specification's proof and every variant of it against the real validator
		try := func(kind, sig string, h []bc.Hash, f []uint8, rl []bc.Hash, rt bc.Hash, exp bool, desc interface{}) {
			nvars++
			shapes[sig] = true
			if exp {
				naccept++
			}
			got, pan := realValidate(h, f, rl, rt)
			rep := map[string]interface{}{"n": d.N, "S": d.S, "ids": hexes(w.ids), "proof": hexes(h), "flags": ints(f), "related": hexes(rl), "root": hex.EncodeToString(rt.Bytes()), "expected": exp, "variant": desc}
			if pan != "" {
				vh.Violation("panic:ValidateTxMerkleTreeProof:"+kind, fmt.Sprintf("ValidateTxMerkleTreeProof panicked (n=%d S=%v variant %v): %s", d.N, d.S, desc, pan), rep)
				return
			}
			if got != exp {
				vh.Violation(sig+":"+verdict(got), fmt.Sprintf("ValidateTxMerkleTreeProof %s n=%d S=%v flags=%v variant=%v; Merkle.tla assigns %s", verdict(got), d.N, d.S, f, desc, verdict(exp)), rep)
			}
		}
		try("genuine", "validate:genuine", sh, sf, rel, w.hash(d.Root), d.OK, "specification proof, untampered")
		for _, v := range d.Vars {
			h, f, rl, rt := append([]bc.Hash{}, sh...), append([]uint8{}, sf...), concRel(v.Rel), w.hash(d.Root)
			sig := ""
			var desc interface{}
			switch v.K {
			case "hash":
				sig = fmt.Sprintf("validate:hash:%s:%s", codeKind(d.H[v.I-1]), codeKind(v.X))
				if v.X == d.H[v.I-1] {
					sig = "validate:hash:unchanged"
				}
				h[v.I-1] = w.hash(v.X)
				desc = map[string]interface{}{"hash_position": v.I, "replaced_by": v.X}
			case "flag":
				sig = fmt.Sprintf("validate:flag:%s-to-%s", flagName(d.F[v.I-1]), flagName(v.G))
				f[v.I-1] = uint8(v.G)
				desc = map[string]interface{}{"flag_position": v.I, "replaced_by": v.G}
			case "root":
				sig = "validate:root:" + codeKind(v.X)
				if v.X == d.Root {
					sig = "validate:root:unchanged"
				}
				rt = w.hash(v.X)
				desc = map[string]interface{}{"root_replaced_by": v.X}
			case "rel":
				sig = "validate:related:changed"
				desc = map[string]interface{}{"related": v.Rel}
			default:
				return fmt.Errorf("unknown variant kind %q", v.K)
			}
			try(v.K, sig, h, f, rl, rt, v.Exp, desc)
			if vh.TooMany() {
				break
			}
		}
		if samples < 2 && d.N == 5 && len(d.S) == 2 {
			samples++
			vh.Sample(map[string]interface{}{"n": d.N, "S": d.S, "proof_codes": d.H, "flags": d.F, "variants": len(d.Vars), "first_variant": d.Vars[0]})
		}
		if vh.TooMany() {
			return fmt.Errorf("stop")
		}
		return nil
	})
	if err != nil && !vh.TooMany() {
		vh.Fatal("reading %s: %v", path, err)
	}
	vh.Summary(map[string]interface{}{"cases": ncases, "validations": nvars, "generated_equals_spec_proof": nsame, "expected_accept": naccept, "shapes": len(shapes)})
}

// ------------------------------------------------------------------- gen

type kase struct {
	I         int    `json:"i"`
	G         int    `json:"g"`
	Kind      string `json:"kind"`
	N         int    `json:"n"`
	S         []int  `json:"S"`
	Rel       []rc   `json:"rel"`
	H         []rc   `json:"h"`
	F         []int  `json:"f"`
	Root      rc     `json:"root"`
	BlockRoot rc     `json:"blockroot"`
	Got       bool   `json:"got"`
	Panic     string `json:"panic"`
	Desc      string `json:"desc"`
}

func readSplits(path string) []int {
	var out struct {
		Splits []int `json:"splits"`
	}
	n, err := vh.EachExport(path, func(_ int, doc []byte) error { return json.Unmarshal(doc, &out) })
	if err != nil || n != 1 || len(out.Splits) < 64 {
		vh.Fatal("shape export %s unusable (%v)", path, err)
	}
	return out.Splits
}

func ints(f []uint8) []int {
	out := make([]int, len(f))
	for i, x := range f {
		out[i] = int(x)
	}
	return out
}

// generate runs the deterministic case generation; every case is passed to emit together
// with the concrete call it stands for. Stops after case `only` when only > 0.
func generate(splits []int, only int, emit func(k kase, concrete map[string]interface{})) {
	r := rand.New(rand.NewSource(vh.Seed()))
	groups, nvar := 150, 24
	if vh.Tier() == "thorough" {
		groups, nvar = 2500, 40
	}
	sizes := []int{0, 1, 2, 3, 4, 5, 7, 8, 9, 15, 16, 17, 31, 32, 33, 63, 64}
	i := 0
	for g := 1; g <= groups; g++ {
		n := r.Intn(65)
		if g <= 2*len(sizes) {
			n = sizes[(g-1)%len(sizes)]
		}
		w := newWorld(r, n, splits)
		// subset: empty, singleton, dense, sparse
		var S []int
		switch mode := r.Intn(5); {
		case n == 0 || mode == 0 && g%7 == 0:
		case mode == 1:
			S = []int{1 + r.Intn(n)}
		default:
			p := r.Float64()
			for pos := 1; pos <= n; pos++ {
				if r.Float64() < p {
					S = append(S, pos)
				}
			}
		}
		if S == nil {
			S = []int{}
		}
		inS := map[int]bool{}
		var rel []bc.Hash
		relc := []rc{}
		for _, p := range S {
			inS[p] = true
			rel = append(rel, w.ids[p-1])
			relc = append(relc, rc{"T", p, p})
		}
		fresh := 100
		root, pan := realRoot(w.ids)
		rootc := w.code(root, &fresh)
		ph, pf, pan2 := realProof(w.ids, rel)
		if pan != "" || pan2 != "" {
			i++
			emit(kase{I: i, G: g, Kind: "genuine", N: n, S: S, Rel: relc, H: []rc{}, F: []int{}, Root: rootc, BlockRoot: rootc, Panic: "generation: " + pan + pan2, Desc: "generation"},
				map[string]interface{}{"ids": hexes(w.ids), "S": S})
			continue
		}
		hc := []rc{}
		for _, h := range ph {
			hc = append(hc, w.code(h, &fresh))
		}
		one := func(kind, desc string, h []bc.Hash, hcodes []rc, f []uint8, rl []bc.Hash, rlc []rc, rt bc.Hash, rtc rc) {
			i++
			if only > 0 && i != only {
				return
			}
			got, pan := realValidate(h, f, rl, rt)
			emit(kase{I: i, G: g, Kind: kind, N: n, S: S, Rel: rlc, H: hcodes, F: ints(f), Root: rtc, BlockRoot: rootc, Got: got, Panic: pan, Desc: desc},
				map[string]interface{}{"ids": hexes(w.ids), "S": S, "proof": hexes(h), "flags": ints(f), "related": hexes(rl), "root": hex.EncodeToString(rt.Bytes())})
		}
		one("genuine", "generated proof, untampered", ph, hc, pf, rel, relc, root, rootc)
		// alternatives for hash substitutions: every node of the tree, a foreign value, the empty-string hash
		var alts []rc
		for key := range w.memo {
			alts = append(alts, rc{"T", key[0], key[1]})
		}
		// map iteration order is random: sort for determinism
		for a := 1; a < len(alts); a++ {
			for b := a; b > 0 && (alts[b].A < alts[b-1].A || alts[b].A == alts[b-1].A && alts[b].B < alts[b-1].B); b-- {
				alts[b], alts[b-1] = alts[b-1], alts[b]
			}
		}
		alts = append(alts, rc{"X", 1, 0}, rc{"E", 0, 0})
		for v := 0; v < nvar; v++ {
			h, hcs, f := append([]bc.Hash{}, ph...), append([]rc{}, hc...), append([]uint8{}, pf...)
			rl, rlc, rt, rtc := rel, relc, root, rootc
			switch kind := r.Intn(10); {
			case kind < 4 && len(h) > 0: // one proof hash
				p := r.Intn(len(h))
				x := alts[r.Intn(len(alts))]
				if r.Intn(3) == 0 { // prefer a neighbour: sibling-sized node or another proof element
					x = hcs[r.Intn(len(hcs))]
				}
				if x == hcs[p] {
					continue
				}
				h[p], hcs[p] = w.hash(x), x
				one("hash", fmt.Sprintf("hash %d (flagged %s) replaced by %s", p+1, "", codeKind(x)), h, hcs, f, rl, rlc, rt, rtc)
			case kind < 8 && len(f) > 0: // one flag
				p := r.Intn(len(f))
				nf := []uint8{0, 1, 2, 3, 255}[r.Intn(5)]
				if nf == f[p] {
					continue
				}
				old := f[p]
				f[p] = nf
				one("flag", fmt.Sprintf("flag %d changed %s-to-%s", p+1, flagName(int(old)), flagName(int(nf))), h, hcs, f, rl, rlc, rt, rtc)
			case kind == 8: // a different root
				x := alts[r.Intn(len(alts))]
				if r.Intn(2) == 0 {
					x = rc{"X", 2, 0}
				}
				if x == rtc {
					continue
				}
				one("root", "root replaced by "+codeKind(x), h, hcs, f, rl, rlc, w.hash(x), x)
			default: // a related hash that is not in the list, or not covered by the proof
				x := rc{"X", 1, 0}
				if r.Intn(2) == 0 && len(S) < n {
					p := 1 + r.Intn(n)
					for inS[p] {
						p = 1 + r.Intn(n)
					}
					x = rc{"T", p, p}
				}
				nrl, nrlc := append([]bc.Hash{}, rl...), append([]rc{}, rlc...)
				if len(nrl) > 0 && r.Intn(2) == 0 {
					p := r.Intn(len(nrl))
					nrl[p], nrlc[p] = w.related(x), x
				} else {
					p := r.Intn(len(nrl) + 1)
					nrl = append(nrl[:p], append([]bc.Hash{w.related(x)}, nrl[p:]...)...)
					nrlc = append(nrlc[:p], append([]rc{x}, nrlc[p:]...)...)
				}
				one("related", "related list with a hash outside the proof ("+codeKind(x)+")", h, hcs, f, nrl, nrlc, rt, rtc)
			}
		}
		if only > 0 && i >= only {
			return
		}
	}
}

func gen(shape, path string) {
	splits := readSplits(shape)
	f, err := os.Create(path)
	if err != nil {
		vh.Fatal("%v", err)
	}
	w := bufio.NewWriter(f)
	n, maxn := 0, 0
	generate(splits, 0, func(k kase, _ map[string]interface{}) {
		b, _ := json.Marshal(k)
		w.Write(b)
		w.WriteByte('\n')
		n++
		if k.N > maxn {
			maxn = k.N
		}
	})
	w.Flush()
	f.Close()
	vh.Summary(map[string]interface{}{"cases": n, "max_list": maxn})
}

// ------------------------------------------------------------------- cmp

type expect struct {
	I      int  `json:"i"`
	Exp    bool `json:"exp"`
	RootOK bool `json:"rootok"`
	Same   bool `json:"same"`
}

func cmp(casesPath, tlcOut string) {
	var cases []kase
	if _, err := vh.EachExport(casesPath, func(_ int, doc []byte) error {
		var k kase
		if e := json.Unmarshal(doc, &k); e != nil {
			return e
		}
		cases = append(cases, k)
		return nil
	}); err != nil {
		vh.Fatal("reading %s: %v", casesPath, err)
	}
	seen := make([]bool, len(cases)+1)
	nexp, nsame, ngen, naccept := 0, 0, 0, 0
	kinds := map[string]int{}
	shapes := map[string]bool{}
	samples := 0
	if _, err := vh.EachExport(tlcOut, func(_ int, doc []byte) error {
		var batch []expect
		if err := json.Unmarshal(doc, &batch); err != nil {
			return err
		}
		for _, e := range batch {
			if e.I < 1 || e.I > len(cases) || seen[e.I] {
				return fmt.Errorf("unexpected expectation index %d", e.I)
			}
			seen[e.I] = true
			nexp++
			k := cases[e.I-1]
			kinds[k.Kind]++
			shapes[fmt.Sprintf("%s/%d/%v", k.Kind, k.N, e.Exp)] = true
			rep := map[string]interface{}{"regen_case": k.I, "seed": vh.Seed(), "tier": vh.Tier(), "case": k, "expected": e.Exp}
			if e.Exp {
				naccept++
			}
			if k.Panic != "" {
				vh.Violation("panic:"+k.Kind, fmt.Sprintf("panic in the real merkle code (n=%d S=%v, %s): %s", k.N, k.S, k.Desc, k.Panic), rep)
				continue
			}
			if k.Kind == "genuine" {
				ngen++
				if e.Same {
					nsame++
				}
				if !e.RootOK {
					vh.Violation("root:differs", fmt.Sprintf("TxMerkleRoot of %d ids is not Root(n) of Merkle.tla (mapped to %v)", k.N, k.BlockRoot), rep)
				}
				if k.Got != e.Exp {
					vh.Violation("generate:proof-"+verdict(k.Got), fmt.Sprintf("proof generated by GetTxMerkleTreeProof for n=%d S=%v (codes %v flags %v) is %s by the real validator; Merkle.tla assigns %s",
						k.N, k.S, k.H, k.F, verdict(k.Got), verdict(e.Exp)), rep)
				}
				continue
			}
			if k.Got != e.Exp {
				vh.Violation("validate:"+k.Kind+":"+verdict(k.Got), fmt.Sprintf("ValidateTxMerkleTreeProof %s a proof for n=%d S=%v with %s; Merkle.tla assigns %s",
					verdict(k.Got), k.N, k.S, k.Desc, verdict(e.Exp)), rep)
			}
			if samples < 3 && k.Kind != "genuine" && k.N > 20 && e.I%13 == 0 {
				samples++
				vh.Sample(map[string]interface{}{"n": k.N, "S": k.S, "tampering": k.Desc, "proof_codes": k.H, "flags": k.F, "real": k.Got, "tlc": e.Exp})
			}
		}
		return nil
	}); err != nil {
		vh.Fatal("reading %s: %v", tlcOut, err)
	}
	if nexp != len(cases) {
		vh.Fatal("TLC judged %d of %d recorded cases", nexp, len(cases))
	}
	vh.Summary(map[string]interface{}{"cases": len(cases), "genuine": ngen, "generated_equals_spec_proof": nsame, "kinds": kinds, "expected_accept": naccept, "shapes": len(shapes)})
}

func main() {
	vh.Quiet()
	if len(os.Args) < 3 {
		vh.Fatal("usage: c30 table|gen|cmp|regen ...")
	}
	switch os.Args[1] {
	case "table":
		table(os.Args[2])
	case "gen":
		gen(os.Args[2], os.Args[3])
	case "cmp":
		cmp(os.Args[2], os.Args[3])
	case "regen":
		only, _ := strconv.Atoi(os.Args[3])
		generate(readSplits(os.Args[2]), only, func(k kase, conc map[string]interface{}) {
			if k.I == only {
				vh.Sample(map[string]interface{}{"case": k, "concrete": conc})
			}
		})
	default:
		vh.Fatal("unknown sub-command %s", os.Args[1])
	}
}
