// c31: binds specs/fn/Checked.tla to math/checked.
//
//	c31 table <tlc.out>             lift every row of the TLC-exported width-W table to real
//	                                int32/int64/uint32/uint64 operands and compare
//	c31 gen <cases.ndjson>          write boundary-biased and random operand pairs (limb integers)
//	c31 cmp <cases.ndjson> <tlc.out> compare the real functions with the expectations TLC computed
//
// The driver holds no arithmetic oracle: expected outcomes come from TLC only; Go-side
// code converts between machine integers and the limb representation, applies the
// documented lifts (scaling by a power of two) and calls the real functions.
package main

import (
	"bufio"
	"encoding/json"
	"fmt"
	"math/big"
	"math/rand"
	"os"
	"sort"

	"github.com/bytom/bytom/math/checked"

	"verifharness/internal/vh"
)

const limbBits = 15 // Base = 32768 in CheckedCases.cfg / CheckedTable.cfg

type limbInt struct {
	N bool  `json:"n"`
	M []int `json:"m"`
}

func toLimbs(x *big.Int) limbInt {
	l := limbInt{N: x.Sign() < 0, M: []int{}}
	m := new(big.Int).Abs(x)
	mask := big.NewInt(1<<limbBits - 1)
	for m.Sign() != 0 {
		l.M = append(l.M, int(new(big.Int).And(m, mask).Int64()))
		m.Rsh(m, limbBits)
	}
	return l
}

func fromLimbs(l limbInt) *big.Int {
	x := new(big.Int)
	for i := len(l.M) - 1; i >= 0; i-- {
		x.Lsh(x, limbBits)
		x.Or(x, big.NewInt(int64(l.M[i])))
	}
	if l.N {
		x.Neg(x)
	}
	return x
}

type typ struct {
	name   string
	signed bool
	w      uint
	lo, hi *big.Int
}

func mkTyp(name string, signed bool, w uint) typ {
	t := typ{name: name, signed: signed, w: w}
	one := big.NewInt(1)
	if signed {
		t.lo = new(big.Int).Neg(new(big.Int).Lsh(one, w-1))
		t.hi = new(big.Int).Sub(new(big.Int).Lsh(one, w-1), one)
	} else {
		t.lo = new(big.Int)
		t.hi = new(big.Int).Sub(new(big.Int).Lsh(one, w), one)
	}
	return t
}

var types = []typ{mkTyp("i32", true, 32), mkTyp("i64", true, 64), mkTyp("u32", false, 32), mkTyp("u64", false, 64)}

func typByName(n string) typ {
	for _, t := range types {
		if t.name == n {
			return t
		}
	}
	vh.Fatal("unknown type %q", n)
	return typ{}
}

func (t typ) ops() []string {
	if t.signed {
		return []string{"add", "sub", "mul", "div", "mod", "neg", "shl"}
	}
	return []string{"add", "sub", "mul", "div", "mod", "shl"}
}

func (t typ) in(x *big.Int) bool { return x.Cmp(t.lo) >= 0 && x.Cmp(t.hi) <= 0 }

// call executes the real function. a and b must be in the range of the type.
func call(op string, t typ, a, b *big.Int) (ok bool, v *big.Int) {
	bi := func(x int64) *big.Int { return big.NewInt(x) }
	bu := func(x uint64) *big.Int { return new(big.Int).SetUint64(x) }
	switch t.name {
	case "i64":
		x, y := a.Int64(), b.Int64()
		var r int64
		switch op {
		case "add":
			r, ok = checked.AddInt64(x, y)
		case "sub":
			r, ok = checked.SubInt64(x, y)
		case "mul":
			r, ok = checked.MulInt64(x, y)
		case "div":
			r, ok = checked.DivInt64(x, y)
		case "mod":
			r, ok = checked.ModInt64(x, y)
		case "neg":
			r, ok = checked.NegateInt64(x)
		case "shl":
			r, ok = checked.LshiftInt64(x, y)
		default:
			vh.Fatal("op %s", op)
		}
		return ok, bi(r)
	case "i32":
		x, y := int32(a.Int64()), int32(b.Int64())
		var r int32
		switch op {
		case "add":
			r, ok = checked.AddInt32(x, y)
		case "sub":
			r, ok = checked.SubInt32(x, y)
		case "mul":
			r, ok = checked.MulInt32(x, y)
		case "div":
			r, ok = checked.DivInt32(x, y)
		case "mod":
			r, ok = checked.ModInt32(x, y)
		case "neg":
			r, ok = checked.NegateInt32(x)
		case "shl":
			r, ok = checked.LshiftInt32(x, y)
		default:
			vh.Fatal("op %s", op)
		}
		return ok, bi(int64(r))
	case "u64":
		x, y := a.Uint64(), b.Uint64()
		var r uint64
		switch op {
		case "add":
			r, ok = checked.AddUint64(x, y)
		case "sub":
			r, ok = checked.SubUint64(x, y)
		case "mul":
			r, ok = checked.MulUint64(x, y)
		case "div":
			r, ok = checked.DivUint64(x, y)
		case "mod":
			r, ok = checked.ModUint64(x, y)
		case "shl":
			r, ok = checked.LshiftUint64(x, y)
		default:
			vh.Fatal("op %s", op)
		}
		return ok, bu(r)
	case "u32":
		x, y := uint32(a.Uint64()), uint32(b.Uint64())
		var r uint32
		switch op {
		case "add":
			r, ok = checked.AddUint32(x, y)
		case "sub":
			r, ok = checked.SubUint32(x, y)
		case "mul":
			r, ok = checked.MulUint32(x, y)
		case "div":
			r, ok = checked.DivUint32(x, y)
		case "mod":
			r, ok = checked.ModUint32(x, y)
		case "shl":
			r, ok = checked.LshiftUint32(x, y)
		default:
			vh.Fatal("op %s", op)
		}
		return ok, bu(uint64(r))
	}
	vh.Fatal("type %s", t.name)
	return false, nil
}

// class names the position of an operand in its type, for violation signatures.
func class(t typ, x *big.Int) string {
	switch {
	case x.Cmp(t.lo) == 0 && t.signed:
		return "min"
	case x.Cmp(t.hi) == 0:
		return "max"
	case x.Sign() == 0:
		return "0"
	case x.IsInt64() && x.Int64() == 1:
		return "1"
	case x.IsInt64() && x.Int64() == -1:
		return "-1"
	case x.Sign() < 0:
		return "neg"
	}
	return "pos"
}

var (
	ncalls   int
	shapes   = map[string]int{}
	reported = map[string]bool{}
)

// judge compares one real call with the expectation that came from TLC.
func judge(origin, op string, t typ, a, b *big.Int, expOK bool, expV *big.Int) {
	if !t.in(a) || !t.in(b) {
		vh.Fatal("operand out of range for %s: %s %s", t.name, a, b)
	}
	ok, v := call(op, t, a, b)
	ncalls++
	bc := class(t, b)
	if op == "shl" {
		switch {
		case b.Sign() < 0:
			bc = "neg"
		case b.Cmp(big.NewInt(int64(t.w))) >= 0:
			bc = "ge-width"
		default:
			bc = "in-range"
		}
	}
	shape := fmt.Sprintf("%s:%s:a=%s:b=%s:%v", op, t.name, class(t, a), bc, expOK)
	shapes[shape]++
	kind := ""
	switch {
	case expOK && !ok:
		kind = "spurious-failure"
	case !expOK && ok:
		kind = "missed-failure"
	case expOK && ok && v.Cmp(expV) != 0:
		kind = "wrong-value"
	}
	if kind == "" {
		return
	}
	vkey := op + t.name + a.String() + "," + b.String()
	if reported[vkey] {
		return
	}
	reported[vkey] = true
	tyname := map[string]string{"i32": "int32", "i64": "int64", "u32": "uint32", "u64": "uint64"}[t.name]
	sig := fmt.Sprintf("%s:%s:%s:a=%s:b=%s", op, tyname, kind, class(t, a), bc)
	exp := "failure"
	if expOK {
		exp = "(" + expV.String() + ", true)"
	}
	vh.Violation(sig, fmt.Sprintf("checked %s on %s with a=%s b=%s returned (%s, %v); Checked.tla requires %s [%s]",
		op, tyname, a, b, v, ok, exp, origin),
		map[string]interface{}{"op": op, "type": tyname, "a": a.String(), "b": b.String(), "got_ok": ok, "got": v.String(),
			"want_ok": expOK, "want": expV.String(), "origin": origin})
}

// ---------------------------------------------------------------- table (E)

type row struct {
	Op     string `json:"op"`
	Sg     bool   `json:"sg"`
	A      int64  `json:"a"`
	B      int64  `json:"b"`
	OK     bool   `json:"ok"`
	V      int64  `json:"v"`
	IdOK   bool   `json:"idok"`
	IdV    int64  `json:"idv"`
	IdSkip bool   `json:"idskip"`
	Dx     bool   `json:"dx"`
	W      int64  `json:"W"`
}

func table(path string) {
	rows := 0
	sampled := 0
	n, err := vh.EachExport(path, func(idx int, doc []byte) error {
		var r row
		if e := json.Unmarshal(doc, &r); e != nil {
			return e
		}
		if r.W < 2 || r.W > 16 {
			return fmt.Errorf("row without width: %s", doc)
		}
		rows++
		for _, t := range types {
			if t.signed != r.Sg {
				continue
			}
			sh := t.w - uint(r.W)
			sc := func(x int64) *big.Int { return new(big.Int).Lsh(big.NewInt(x), sh) } // x * 2^(w-W)
			a, b, v := big.NewInt(r.A), big.NewInt(r.B), big.NewInt(r.V)
			// identity lift: the same small operands in the wide type
			if !r.IdSkip {
				judge("table/identity", r.Op, t, a, b, r.IdOK, big.NewInt(r.IdV))
			}
			// homomorphic lifts
			switch r.Op {
			case "add", "sub", "mod":
				judge("table/scaled", r.Op, t, sc(r.A), sc(r.B), r.OK, sc(r.V))
			case "neg":
				judge("table/scaled", r.Op, t, sc(r.A), b, r.OK, sc(r.V))
			case "mul":
				judge("table/scaled-left", r.Op, t, sc(r.A), b, r.OK, sc(r.V))
				judge("table/scaled-right", r.Op, t, a, sc(r.B), r.OK, sc(r.V))
			case "div":
				if r.B == 0 {
					judge("table/scaled", r.Op, t, sc(r.A), b, false, v)
				} else if r.OK {
					judge("table/scaled-both", r.Op, t, sc(r.A), sc(r.B), true, v)
				}
				if r.Dx {
					judge("table/scaled-dividend", r.Op, t, sc(r.A), b, r.OK, sc(r.V))
				}
			case "shl":
				if r.B >= 0 {
					judge("table/shift-offset", r.Op, t, a, big.NewInt(r.B+int64(sh)), r.OK, sc(r.V))
				}
			}
		}
		if sampled < 3 && r.Op == "mul" && r.Sg && !r.OK && idx%7 == 0 {
			sampled++
			vh.Sample(map[string]interface{}{"table_row": json.RawMessage(doc)})
		}
		return nil
	})
	if err != nil {
		vh.Fatal("reading %s: %v", path, err)
	}
	if n == 0 {
		vh.Fatal("no table rows in %s", path)
	}
	vh.Summary(map[string]interface{}{"rows": rows, "calls": ncalls, "shapes": len(shapes)})
}

// ------------------------------------------------------------------- gen

type kase struct {
	I  int     `json:"i"`
	Op string  `json:"op"`
	Ty string  `json:"ty"`
	A  limbInt `json:"a"`
	B  limbInt `json:"b"`
	As string  `json:"as"`
	Bs string  `json:"bs"`
}

func bigs(xs ...int64) []*big.Int {
	var r []*big.Int
	for _, x := range xs {
		r = append(r, big.NewInt(x))
	}
	return r
}

func add(a *big.Int, d int64) *big.Int { return new(big.Int).Add(a, big.NewInt(d)) }

// specials: values at and next to the edges of the type and powers of two.
func specials(t typ, all bool) []*big.Int {
	seen := map[string]bool{}
	var out []*big.Int
	put := func(x *big.Int) {
		if t.in(x) && !seen[x.String()] {
			seen[x.String()] = true
			out = append(out, x)
		}
	}
	for _, x := range bigs(0, 1, 2, -1, -2) {
		put(x)
	}
	if all {
		put(big.NewInt(3))
		put(big.NewInt(-3))
		put(add(t.lo, 2))
		put(add(t.hi, -2))
	}
	for d := int64(0); d < 2; d++ {
		put(add(t.lo, d))
		put(add(t.hi, -d))
	}
	ks := []uint{t.w / 2, t.w - 1}
	if all {
		ks = nil
		for k := uint(2); k <= t.w; k++ {
			ks = append(ks, k)
		}
	}
	for _, k := range ks {
		p := new(big.Int).Lsh(big.NewInt(1), k)
		for d := int64(-1); d <= 1; d++ {
			if !all && d != 0 && k != t.w-1 {
				continue
			}
			put(add(p, d))
			put(new(big.Int).Neg(add(p, d)))
		}
	}
	return out
}

func randIn(r *rand.Rand, t typ) *big.Int {
	bits := uint(r.Intn(int(t.w) + 1))
	x := new(big.Int)
	if bits > 0 {
		x.Rand(r, new(big.Int).Lsh(big.NewInt(1), bits))
	}
	if t.signed && r.Intn(2) == 0 {
		x.Neg(x)
	}
	if !t.in(x) {
		if x.Sign() < 0 {
			return new(big.Int).Set(t.lo)
		}
		return new(big.Int).Set(t.hi)
	}
	return x
}

func gen(path string) {
	r := rand.New(rand.NewSource(vh.Seed()))
	thorough := vh.Tier() == "thorough"
	f, err := os.Create(path)
	if err != nil {
		vh.Fatal("%v", err)
	}
	w := bufio.NewWriter(f)
	n := 0
	dup := map[string]bool{}
	emit := func(op string, t typ, a, b *big.Int) {
		if !t.in(a) || !t.in(b) {
			return
		}
		if op == "neg" {
			b = new(big.Int)
		}
		key := op + t.name + a.String() + "," + b.String()
		if dup[key] {
			return
		}
		dup[key] = true
		n++
		k := kase{I: n, Op: op, Ty: t.name, A: toLimbs(a), B: toLimbs(b), As: a.String(), Bs: b.String()}
		bs, _ := json.Marshal(k)
		w.Write(bs)
		w.WriteByte('\n')
	}
	nrand, nbound, npair := 120, 40, 0
	if thorough {
		nrand, nbound, npair = 4000, 1000, 7000
	}
	for _, t := range types {
		core := specials(t, false)
		wide := specials(t, true)
		for _, op := range t.ops() {
			if op == "neg" {
				for _, a := range wide {
					emit(op, t, a, a)
				}
				for i := 0; i < nrand; i++ {
					emit(op, t, randIn(r, t), t.lo)
				}
				continue
			}
			// every pair of edge values
			for _, a := range core {
				for _, b := range core {
					emit(op, t, a, b)
				}
			}
			// random pairs of the full special set (all powers of two +-1)
			for i := 0; i < npair; i++ {
				emit(op, t, wide[r.Intn(len(wide))], wide[r.Intn(len(wide))])
			}
			// operands placed right at the overflow boundary of this operation
			for i := 0; i < nbound; i++ {
				x := randIn(r, t)
				for d := int64(-1); d <= 1; d++ {
					switch op {
					case "add":
						emit(op, t, x, add(new(big.Int).Sub(t.hi, x), d))
						emit(op, t, x, add(new(big.Int).Sub(t.lo, x), d))
					case "sub":
						emit(op, t, x, add(new(big.Int).Sub(x, t.hi), d))
						emit(op, t, x, add(new(big.Int).Sub(x, t.lo), d))
					case "mul":
						if x.Sign() != 0 {
							emit(op, t, x, add(new(big.Int).Quo(t.hi, x), d))
							emit(op, t, add(new(big.Int).Quo(t.hi, x), d), x)
							emit(op, t, x, add(new(big.Int).Quo(t.lo, x), d))
							emit(op, t, add(new(big.Int).Quo(t.lo, x), d), x)
						}
					case "div", "mod":
						y := randIn(r, t)
						if y.Sign() != 0 {
							q := new(big.Int).Quo(x, y)
							emit(op, t, add(new(big.Int).Mul(q, y), d), y) // next to an exact multiple
						}
						emit(op, t, add(t.lo, d+1), big.NewInt(-1))
						emit(op, t, add(t.lo, d+1), big.NewInt(1))
					case "shl":
						s := uint(r.Intn(int(t.w)))
						emit(op, t, add(new(big.Int).Rsh(t.hi, s), d), big.NewInt(int64(s)))
						emit(op, t, add(new(big.Int).Rsh(t.lo, s), d), big.NewInt(int64(s))) // arithmetic shift
						emit(op, t, x, big.NewInt(int64(t.w)+d))
						emit(op, t, x, big.NewInt(d))
					}
				}
			}
			// random operands of random bit lengths
			for i := 0; i < nrand; i++ {
				a, b := randIn(r, t), randIn(r, t)
				if op == "shl" && r.Intn(4) != 0 {
					b = big.NewInt(int64(r.Intn(int(t.w) + 2)))
				}
				emit(op, t, a, b)
			}
		}
	}
	w.Flush()
	f.Close()
	vh.Summary(map[string]interface{}{"cases": n})
}

// ------------------------------------------------------------------- cmp

type expect struct {
	I  int     `json:"i"`
	WF bool    `json:"wf"`
	OK bool    `json:"ok"`
	V  limbInt `json:"v"`
}

func cmp(casesPath, tlcOut string) {
	var cases []kase
	if _, err := vh.EachExport(casesPath, func(_ int, doc []byte) error {
		var k kase
		if e := json.Unmarshal(doc, &k); e != nil {
			return e
		}
		cases = append(cases, k)
		return nil
	}); err != nil {
		vh.Fatal("reading %s: %v", casesPath, err)
	}
	seen := make([]bool, len(cases)+1)
	nexp := 0
	samples := 0
	if _, err := vh.EachExport(tlcOut, func(_ int, doc []byte) error {
		var batch []expect
		if err := json.Unmarshal(doc, &batch); err != nil {
			return err
		}
		for _, e := range batch {
			if e.I < 1 || e.I > len(cases) || seen[e.I] {
				return fmt.Errorf("unexpected expectation index %d", e.I)
			}
			if !e.WF {
				return fmt.Errorf("case %d: TLC reports malformed limb operands", e.I)
			}
			seen[e.I] = true
			nexp++
			k := cases[e.I-1]
			t := typByName(k.Ty)
			a, b := fromLimbs(k.A), fromLimbs(k.B)
			if a.String() != k.As || b.String() != k.Bs {
				return fmt.Errorf("case %d: limb form does not match decimal form", k.I)
			}
			judge("recorded operands", k.Op, t, a, b, e.OK, fromLimbs(e.V))
			if samples < 4 && e.I%997 == 3 {
				samples++
				vh.Sample(map[string]interface{}{"op": k.Op, "type": k.Ty, "a": k.As, "b": k.Bs, "tlc_ok": e.OK, "tlc_value": fromLimbs(e.V).String()})
			}
		}
		return nil
	}); err != nil {
		vh.Fatal("reading %s: %v", tlcOut, err)
	}
	if nexp != len(cases) {
		vh.Fatal("TLC judged %d of %d recorded cases", nexp, len(cases))
	}
	var names []string
	expFail := 0
	for s, c := range shapes {
		names = append(names, s)
		if len(s) > 5 && s[len(s)-5:] == "false" {
			expFail += c
		}
	}
	sort.Strings(names)
	vh.Summary(map[string]interface{}{"cases": len(cases), "calls": ncalls, "shapes": len(shapes), "expected_failures": expFail})
}

func main() {
	vh.Quiet()
	if len(os.Args) < 3 {
		vh.Fatal("usage: c31 table|gen|cmp ...")
	}
	switch os.Args[1] {
	case "table":
		table(os.Args[2])
	case "gen":
		gen(os.Args[2])
	case "cmp":
		if len(os.Args) < 4 {
			vh.Fatal("usage: c31 cmp <cases> <tlc.out>")
		}
		cmp(os.Args[2], os.Args[3])
	case "one": // c31 one <op> <type> <a> <b> <want_ok> <want>: re-execute one saved case
		if len(os.Args) < 8 {
			vh.Fatal("usage: c31 one <op> <type> <a> <b> <want_ok> <want>")
		}
		tn := map[string]string{"int32": "i32", "int64": "i64", "uint32": "u32", "uint64": "u64"}[os.Args[3]]
		a, ok1 := new(big.Int).SetString(os.Args[4], 10)
		b, ok2 := new(big.Int).SetString(os.Args[5], 10)
		w, ok3 := new(big.Int).SetString(os.Args[7], 10)
		if tn == "" || !ok1 || !ok2 || !ok3 {
			vh.Fatal("bad replay arguments")
		}
		judge("replay", os.Args[2], typByName(tn), a, b, os.Args[6] == "true", w)
		vh.Summary(map[string]interface{}{"calls": ncalls})
	default:
		vh.Fatal("unknown sub-command %s", os.Args[1])
	}
}
