// c32: drives two real p2p/connection.SecretConnections over in-memory pipes (the same
// arrangement as secret_connection_test.go: one io.Pipe per direction) and records every
// handshake result, Write call/return, Read return and close as one ndjson event, for
// validation against specs/periph/TraceSecretConn.tla.
//
//	c32 run <ntraces> <out.ndjson>
//
// Workloads are derived from VERIF_SEED: write sizes 1..3000 and read buffer sizes 1..2000,
// biased to the frame boundary (1023/1024/1025/2048/...), in several families (large read
// buffers, mixed, tiny buffers, one sealed data frame modified in transit, sealed handshake
// frame modified in transit). A transport wrapper flips one bit at a chosen offset of the
// ciphertext stream (sealed frames are 1042 bytes on the wire; the handshake sends 32 bytes
// followed by one sealed frame).
package main

import (
	"bytes"
	"encoding/json"
	"errors"
	"io"
	"math/rand"
	"os"
	"strconv"
	"sync"
	"time"

	"github.com/bytom/bytom/crypto/ed25519/chainkd"
	"github.com/bytom/bytom/p2p/connection"

	"verifharness/internal/vh"
)

const (
	sealedFrame = 1024 + 2 + 16 // data + length prefix + secretbox overhead
	ephKeyLen   = 32
	maxEvents   = 30000
)

type ev struct {
	Ev   string `json:"ev"`
	D    string `json:"d"`
	N    int    `json:"n"`
	Buf  int    `json:"buf"`
	Err  string `json:"err"`
	Data []int  `json:"data"`
	Hst  string `json:"hst"`
	Ea   string `json:"ea"`
	Eb   string `json:"eb"`
	Ra   string `json:"ra"`
	Rb   string `json:"rb"`
	Pab  int    `json:"pab"`
	Pba  int    `json:"pba"`
	St   string `json:"st"`
	Fam  string `json:"fam"`
	ID   int    `json:"id"`
}

// tamperW flips one bit of the byte at absolute offset `flip` of everything written through it.
type tamperW struct {
	w    *io.PipeWriter
	off  int64
	flip int64
	bit  byte
}

func (t *tamperW) Write(p []byte) (int, error) {
	if t.flip >= t.off && t.flip < t.off+int64(len(p)) {
		q := make([]byte, len(p))
		copy(q, p)
		q[t.flip-t.off] ^= t.bit
		p = q
	}
	n, err := t.w.Write(p)
	t.off += int64(n)
	return n, err
}

type pconn struct {
	r *io.PipeReader
	w *tamperW
}

func (c pconn) Read(p []byte) (int, error)  { return c.r.Read(p) }
func (c pconn) Write(p []byte) (int, error) { return c.w.Write(p) }
func (c pconn) Close() error                { c.w.w.Close(); return c.r.Close() }

var errAbort = errors.New("aborted by the driver")

type plan struct {
	fam      string
	writes   map[string][]int // per direction
	bufs     map[string][]int // cyclic read buffer sizes per direction
	tamperFr map[string]int   // frame number to modify (0: none)
	tamperJ  int              // byte inside the sealed frame
	hst      string           // "none" | "a" | "b"
}

var wBound = []int{1, 2, 1023, 1024, 1025, 2047, 2048, 2049, 2999, 3000}
var rBound = []int{1, 2, 3, 1022, 1023, 1024, 1025, 1999, 2000}

func wsize(rng *rand.Rand) int {
	if rng.Intn(3) == 0 {
		return wBound[rng.Intn(len(wBound))]
	}
	return 1 + rng.Intn(3000)
}

func frames(ws []int) int {
	n := 0
	for _, w := range ws {
		n += (w + 1023) / 1024
	}
	return n
}

func mkPlan(rng *rand.Rand, id int) plan {
	p := plan{writes: map[string][]int{}, bufs: map[string][]int{}, tamperFr: map[string]int{"ab": 0, "ba": 0}, hst: "none"}
	fams := []string{"large", "mixed", "tiny", "tamper", "large", "mixed", "mixed", "tamper", "hstamper", "exact"}
	p.fam = fams[id%len(fams)]
	for _, d := range []string{"ab", "ba"} {
		var ws, bs []int
		switch p.fam {
		case "tiny":
			for k, n := 0, 1+rng.Intn(3); k < n; k++ {
				ws = append(ws, 1+rng.Intn(120))
			}
			for k := 0; k < 8; k++ {
				bs = append(bs, 1+rng.Intn(16))
			}
		case "exact": // reads exactly as large as the frames: 1024-byte buffers, writes multiple of 1024 or below
			for k, n := 0, 1+rng.Intn(4); k < n; k++ {
				ws = append(ws, []int{1024, 2048, 3000, 1 + rng.Intn(1024)}[rng.Intn(4)])
			}
			bs = []int{1024}
		default:
			budget := 6000 + rng.Intn(4000)
			for tot := 0; tot < budget && len(ws) < 7; {
				w := wsize(rng)
				ws = append(ws, w)
				tot += w
			}
			for k := 0; k < 12; k++ {
				switch {
				case p.fam == "large" || p.fam == "tamper" || p.fam == "hstamper":
					bs = append(bs, 1024+rng.Intn(977))
				case rng.Intn(3) == 0:
					bs = append(bs, rBound[rng.Intn(len(rBound))])
				default:
					bs = append(bs, 1+rng.Intn(2000))
				}
			}
		}
		if rng.Intn(8) == 0 && p.fam != "tamper" { // sometimes one direction stays silent
			ws = nil
		}
		p.writes[d], p.bufs[d] = ws, bs
	}
	switch p.fam {
	case "tamper":
		d := []string{"ab", "ba"}[rng.Intn(2)]
		if len(p.writes[d]) == 0 {
			p.writes[d] = []int{wsize(rng)}
		}
		p.tamperFr[d] = 1 + rng.Intn(frames(p.writes[d]))
		p.tamperJ = rng.Intn(sealedFrame)
		if rng.Intn(3) == 0 { // also hit the boundaries of the box: MAC, length prefix, padding
			p.tamperJ = []int{0, 15, 16, 17, 18, sealedFrame - 1}[rng.Intn(6)]
		}
	case "hstamper":
		p.hst = []string{"a", "b"}[rng.Intn(2)]
		p.tamperJ = rng.Intn(sealedFrame)
	}
	return p
}

type rngReader struct{ r *rand.Rand }

func (r rngReader) Read(p []byte) (int, error) { return r.r.Read(p) }

func ints(b []byte) []int {
	out := make([]int, len(b))
	for i, x := range b {
		out[i] = int(x)
	}
	return out
}

// runTrace executes one workload; the returned log is in real-time order (events are appended
// under one mutex: "begin" events before the call, result events after it returned).
func runTrace(seed int64, id int) (log []ev, stalled bool) {
	rng := rand.New(rand.NewSource(seed))
	p := mkPlan(rng, id)
	var mu sync.Mutex
	emit := func(e ev) {
		if e.Data == nil {
			e.Data = []int{}
		}
		mu.Lock()
		log = append(log, e)
		mu.Unlock()
	}
	rAB, wAB := io.Pipe()
	rBA, wBA := io.Pipe()
	tAB := &tamperW{w: wAB, flip: -1, bit: 1 << uint(rng.Intn(8))}
	tBA := &tamperW{w: wBA, flip: -1, bit: 1 << uint(rng.Intn(8))}
	hsLen := int64(ephKeyLen + sealedFrame)
	if k := p.tamperFr["ab"]; k > 0 {
		tAB.flip = hsLen + int64(k-1)*sealedFrame + int64(p.tamperJ)
	}
	if k := p.tamperFr["ba"]; k > 0 {
		tBA.flip = hsLen + int64(k-1)*sealedFrame + int64(p.tamperJ)
	}
	switch p.hst { // sealed handshake frame arriving at that side
	case "a":
		tBA.flip = ephKeyLen + int64(p.tamperJ)
	case "b":
		tAB.flip = ephKeyLen + int64(p.tamperJ)
	}
	connA, connB := pconn{rBA, tAB}, pconn{rAB, tBA}
	var once sync.Once
	abortAll := func() {
		once.Do(func() {
			wAB.CloseWithError(errAbort)
			wBA.CloseWithError(errAbort)
			rAB.CloseWithError(errAbort)
			rBA.CloseWithError(errAbort)
		})
	}
	defer abortAll()
	privA, _ := chainkd.NewXPrv(rngReader{rng})
	privB, _ := chainkd.NewXPrv(rngReader{rng})
	pubA, pubB := privA.XPub().PublicKey(), privB.XPub().PublicKey()

	// ---- handshake
	var scA, scB *connection.SecretConnection
	var errA, errB error
	var hw sync.WaitGroup
	hw.Add(2)
	go func() {
		defer hw.Done()
		scA, errA = connection.MakeSecretConnection(connA, privA)
		if errA != nil {
			abortAll()
		}
	}()
	go func() {
		defer hw.Done()
		scB, errB = connection.MakeSecretConnection(connB, privB)
		if errB != nil {
			abortAll()
		}
	}()
	if !within(10*time.Second, hw.Wait) {
		abortAll()
		within(3*time.Second, hw.Wait)
		emit(ev{Ev: "hs", Hst: p.hst, Ea: "stall", Eb: "stall", Ra: "?", Rb: "?", Fam: p.fam, ID: id})
		emit(ev{Ev: "end", St: "stalled"})
		return log, true
	}
	who := func(sc *connection.SecretConnection, err error) string {
		if err != nil || sc == nil {
			return "?"
		}
		switch k := []byte(sc.RemotePubKey()); {
		case bytes.Equal(k, pubA):
			return "A"
		case bytes.Equal(k, pubB):
			return "B"
		}
		return "?"
	}
	cls := func(err error) string {
		if err != nil {
			return "err"
		}
		return ""
	}
	emit(ev{Ev: "hs", Hst: p.hst, Ea: cls(errA), Eb: cls(errB), Ra: who(scA, errA), Rb: who(scB, errB), Fam: p.fam, ID: id})
	if errA != nil || errB != nil {
		emit(ev{Ev: "end", St: "complete"})
		return log, false
	}

	// ---- traffic
	var wg sync.WaitGroup
	livelock := false
	writer := func(d string, sc *connection.SecretConnection, pw *io.PipeWriter) {
		defer wg.Done()
		for _, sz := range p.writes[d] {
			data := make([]byte, sz)
			rng2 := rand.New(rand.NewSource(seed ^ int64(sz)*7919 ^ int64(len(d))))
			rng2.Read(data)
			emit(ev{Ev: "wbegin", D: d, Data: ints(data), N: sz})
			n, err := sc.Write(data)
			emit(ev{Ev: "wend", D: d, N: n, Err: cls(err)})
			if err != nil {
				return
			}
		}
		emit(ev{Ev: "wclose", D: d})
		pw.Close()
	}
	reader := func(d string, sc *connection.SecretConnection) {
		defer wg.Done()
		bs := p.bufs[d]
		for k := 0; ; k++ {
			if k > maxEvents {
				livelock = true
				abortAll()
				return
			}
			bl := bs[k%len(bs)]
			buf := make([]byte, bl)
			n, err := sc.Read(buf)
			ec := ""
			if err == io.EOF {
				ec = "eof"
			} else if err != nil {
				ec = "err"
			}
			nn := n
			if nn < 0 {
				nn = 0
			}
			if nn > bl {
				nn = bl
			}
			emit(ev{Ev: "read", D: d, Buf: bl, N: n, Err: ec, Data: ints(buf[:nn])})
			if err != nil {
				if ec == "err" {
					abortAll() // the connection is over: unblock everybody
				}
				return
			}
		}
	}
	wg.Add(4)
	go writer("ab", scA, wAB)
	go writer("ba", scB, wBA)
	go reader("ab", scB)
	go reader("ba", scA)
	if !within(15*time.Second, wg.Wait) {
		abortAll()
		within(3*time.Second, wg.Wait)
		stalled = true
	}
	st := "complete"
	if stalled || livelock {
		st = "stalled"
	}
	emit(ev{Ev: "end", St: st})
	return log, stalled || livelock
}

func within(d time.Duration, f func()) bool {
	done := make(chan struct{})
	go func() { f(); close(done) }()
	select {
	case <-done:
		return true
	case <-time.After(d):
		return false
	}
}

func main() {
	vh.Quiet()
	if len(os.Args) < 4 || os.Args[1] != "run" {
		vh.Fatal("usage: c32 run <ntraces> <out.ndjson>")
	}
	n, _ := strconv.Atoi(os.Args[2])
	f, err := os.Create(os.Args[3])
	if err != nil {
		vh.Fatal("%v", err)
	}
	defer f.Close()
	w := json.NewEncoder(f)
	type res struct {
		id  int
		log []ev
	}
	out := make([]res, n)
	sem := make(chan struct{}, 6)
	var wg sync.WaitGroup
	var mu sync.Mutex
	events, bytesW, stalls := 0, 0, 0
	fams := map[string]int{}
	for i := 0; i < n; i++ {
		wg.Add(1)
		sem <- struct{}{}
		go func(i int) {
			defer wg.Done()
			defer func() { <-sem }()
			seed := vh.Seed()*1000003 + int64(i)*7907
			log, stalled := runTrace(seed, i)
			if stalled { // a stall counts only if the same workload stalls again
				log2, stalled2 := runTrace(seed, i)
				if !stalled2 {
					vh.Fatal("trace %d stalled once but not when repeated (machine overloaded?)", i)
				}
				log = log2
				mu.Lock()
				stalls++
				mu.Unlock()
			}
			out[i] = res{i, log}
		}(i)
	}
	wg.Wait()
	for _, r := range out {
		pl := mkPlan(rand.New(rand.NewSource(vh.Seed()*1000003+int64(r.id)*7907)), r.id)
		w.Encode(ev{Ev: "reset", Pab: pl.tamperFr["ab"], Pba: pl.tamperFr["ba"], Fam: pl.fam, ID: r.id, Data: []int{}})
		for _, e := range r.log {
			w.Encode(e)
			if e.Ev == "wbegin" {
				bytesW += e.N
			}
		}
		events += len(r.log)
		fams[pl.fam]++
	}
	if n > 0 && len(out[0].log) > 0 {
		short := []ev{}
		for _, e := range out[0].log {
			if len(e.Data) > 8 {
				e.Data = e.Data[:8]
			}
			short = append(short, e)
			if len(short) >= 10 {
				break
			}
		}
		vh.Sample(map[string]interface{}{"first_events_data_truncated_to_8": short})
	}
	vh.Summary(map[string]interface{}{"traces": n, "events": events, "bytes_written": bytesW, "stalled": stalls, "families": fams})
}
