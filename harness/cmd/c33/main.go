// c33: executes the sync requests enumerated by TLC (specs/chain/SyncGen.tla) and
// seeded random ones against the real blockKeeper.locateHeaders / locateBlocks
// (through netsync/chainmgr/export_verif.go) over a mock chain with the scenario's
// main chain and side branch, and records (request, response) pairs for TLC to judge
// with Sync!LocateOk (specs/chain/TraceSync.tla). No verdict is computed here.
//
//	c33 run <requests tlc.out> <pairs.ndjson> <nrandom>
package main

import (
	"bufio"
	"encoding/json"
	"fmt"
	"math/rand"
	"os"
	"strconv"
	"time"

	"github.com/bytom/bytom/netsync/chainmgr"
	"github.com/bytom/bytom/protocol/bc"
	"github.com/bytom/bytom/protocol/bc/types"
	"github.com/bytom/bytom/test/mock"

	"verifharness/internal/vh"
)

const (
	mainLen  = 8
	sideFork = 3
	sideLen  = 3
)

type blk struct {
	C string `json:"c"`
	H int64  `json:"h"`
}
type skipT struct {
	Name  string  `json:"name"`
	Limbs []int64 `json:"limbs"`
}
type request struct {
	Kind string `json:"kind"`
	Loc  []blk  `json:"loc"`
	Stop blk    `json:"stop"`
	Skip skipT  `json:"skip"`
	Max  int64  `json:"max"`
}
type response struct {
	N     int64  `json:"n"`
	Items []blk  `json:"items"`
	Panic bool   `json:"panic"`
	Err   bool   `json:"err"`
	Note  string `json:"note"`
}
type pair struct {
	ID   int      `json:"id"`
	Req  request  `json:"req"`
	Resp response `json:"resp"`
}
type genDoc struct {
	Req request `json:"req"`
}

var (
	chain   *mock.Chain
	byBlk   = map[blk]*types.Block{}
	byHash  = map[bc.Hash]blk{}
	unknown = map[int64]bc.Hash{}
	rng     *rand.Rand
)

func mkBlock(prev *types.Block, class byte, ts uint64) *types.Block {
	b := &types.Block{BlockHeader: types.BlockHeader{Version: 1, Timestamp: ts}}
	if prev != nil {
		b.Height = prev.Height + 1
		b.PreviousBlockHash = prev.Hash()
	}
	b.TransactionsMerkleRoot = bc.NewHash([32]byte{class, byte(b.Height), byte(rng.Intn(256)), byte(rng.Intn(256))})
	return b
}

func buildChain() {
	chain = mock.NewChain()
	base := uint64(1600000000000 + rng.Intn(1<<20))
	g := mkBlock(nil, 'm', base)
	chain.SetBlockByHeight(0, g)
	chain.SetBestBlockHeader(&g.BlockHeader)
	reg := func(c string, b *types.Block) {
		k := blk{c, int64(b.Height)}
		byBlk[k] = b
		byHash[b.Hash()] = k
	}
	reg("m", g)
	prev := g
	var fork *types.Block
	for h := 1; h <= mainLen; h++ {
		b := mkBlock(prev, 'm', base+uint64(h)*6000)
		if orphan, err := chain.ProcessBlock(b); orphan || err != nil {
			vh.Fatal("mock chain refused main block %d", h)
		}
		reg("m", b)
		prev = b
		if h == sideFork {
			fork = b
		}
	}
	prev = fork
	for h := sideFork + 1; h <= sideFork+sideLen; h++ {
		b := mkBlock(prev, 's', base+uint64(h)*6000+3000)
		if orphan, err := chain.ProcessBlock(b); orphan || err != nil {
			vh.Fatal("mock chain refused side block %d", h)
		}
		reg("s", b)
		prev = b
	}
	// self-check of the scenario against the Chain interface the code uses
	if chain.BestBlockHeight() != mainLen {
		vh.Fatal("mock chain best height %d", chain.BestBlockHeight())
	}
	for k, b := range byBlk {
		if chain.InMainChain(b.Hash()) != (k.C == "m") {
			vh.Fatal("mock chain main-chain flag wrong for %v", k)
		}
		if _, err := chain.GetHeaderByHash(hp(b.Hash())); err != nil {
			vh.Fatal("mock chain lost %v", k)
		}
	}
}

func hp(h bc.Hash) *bc.Hash { return &h }

func hashOf(b blk) bc.Hash {
	if x, ok := byBlk[b]; ok {
		return x.Hash()
	}
	if h, ok := unknown[b.H]; ok {
		return h
	}
	var raw [32]byte
	rng.Read(raw[:])
	h := bc.NewHash(raw)
	unknown[b.H] = h
	return h
}

func skipVal(l []int64) uint64 {
	var v uint64
	for i := len(l) - 1; i >= 0; i-- {
		v = v<<15 | uint64(l[i])
	}
	return v
}

func limbsOf(v uint64) []int64 {
	out := make([]int64, 5)
	for i := 0; i < 5; i++ {
		out[i] = int64(v & 32767)
		v >>= 15
	}
	return out
}

func toBlk(h *types.BlockHeader) blk {
	if k, ok := byHash[h.Hash()]; ok {
		return k
	}
	hh := h.Height
	if hh > 1000000000 {
		hh = 1000000000
	}
	return blk{"x", int64(hh)}
}

func execute(rq *request) (resp response) {
	resp.Items = []blk{}
	var loc []*bc.Hash
	for _, b := range rq.Loc {
		loc = append(loc, hp(hashOf(b)))
	}
	stop := hashOf(rq.Stop)
	skip := skipVal(rq.Skip.Limbs)
	done := make(chan struct{})
	var items []blk
	var isErr, panicked bool
	var note string
	go func() {
		defer close(done)
		defer func() {
			if p := recover(); p != nil {
				panicked = true
				note = fmt.Sprint(p)
			}
		}()
		if rq.Kind == "headers" {
			hs, err := chainmgr.LocateHeadersVerif(chain, loc, &stop, skip, uint64(rq.Max))
			isErr = err != nil
			for _, h := range hs {
				items = append(items, toBlk(h))
			}
		} else {
			old := chainmgr.SetMaxBlocksPerMsgVerif(uint64(rq.Max))
			defer chainmgr.SetMaxBlocksPerMsgVerif(old)
			bs, err := chainmgr.LocateBlocksVerif(chain, loc, &stop)
			isErr = err != nil
			for _, b := range bs {
				items = append(items, toBlk(&b.BlockHeader))
			}
		}
	}()
	select {
	case <-done:
	case <-time.After(30 * time.Second):
		resp.Panic = true
		resp.Note = "no return within 30s"
		return
	}
	resp.Panic, resp.Err, resp.Note = panicked, isErr, note
	resp.N = int64(len(items))
	if len(items) > 64 {
		items = append(append([]blk{}, items[:40]...), items[len(items)-2:]...)
	}
	if items != nil {
		resp.Items = items
	}
	return
}

func randomRequest() *request {
	all := []blk{}
	for h := 0; h <= mainLen; h++ {
		all = append(all, blk{"m", int64(h)})
	}
	for h := sideFork + 1; h <= sideFork+sideLen; h++ {
		all = append(all, blk{"s", int64(h)})
	}
	pick := func() blk {
		if rng.Intn(6) == 0 {
			return blk{"u", int64(1 + rng.Intn(4))}
		}
		return all[rng.Intn(len(all))]
	}
	rq := &request{Loc: []blk{}}
	for n := rng.Intn(7); n > 0; n-- {
		rq.Loc = append(rq.Loc, pick())
	}
	rq.Stop = pick()
	if rng.Intn(3) == 0 {
		rq.Kind = "blocks"
		rq.Skip = skipT{"0", limbsOf(0)}
		rq.Max = []int64{64, 64, 1, 2, 3, 5}[rng.Intn(6)]
		return rq
	}
	rq.Kind = "headers"
	var s uint64
	switch rng.Intn(5) {
	case 0:
		s = uint64(rng.Intn(11))
	case 1:
		s = ^uint64(0) - uint64(rng.Intn(11))
	case 2:
		s = 1<<63 - 5 + uint64(rng.Intn(11))
	case 3:
		s = rng.Uint64()
	default:
		s = uint64(rng.Intn(4))
	}
	rq.Skip = skipT{"rand", limbsOf(s)}
	rq.Max = []int64{1000, 1000, 1, 2, 3, 5}[rng.Intn(6)]
	return rq
}

func main() {
	vh.Quiet()
	if len(os.Args) < 5 || os.Args[1] != "run" {
		vh.Fatal("usage: c33 run <requests> <pairs.ndjson> <nrandom>")
	}
	rng = rand.New(rand.NewSource(vh.Seed()))
	nrand, _ := strconv.Atoi(os.Args[4])
	buildChain()
	out, err := os.Create(os.Args[3])
	if err != nil {
		vh.Fatal("%v", err)
	}
	w := bufio.NewWriterSize(out, 1<<20)
	enc := json.NewEncoder(w)
	id, panics, nonempty, long, errs := 0, 0, 0, 0, 0
	shapes := map[string]bool{}
	emit := func(rq *request) bool {
		id++
		rs := execute(rq)
		if rs.Panic {
			panics++
		}
		if rs.N > 0 {
			nonempty++
		}
		if rs.N > 64 {
			long++
		}
		if rs.Err {
			errs++
		}
		shapes[fmt.Sprint(rq.Kind, rq.Loc, rq.Stop, rq.Skip.Limbs, rq.Max)] = true
		if err := enc.Encode(&pair{ID: id, Req: *rq, Resp: rs}); err != nil {
			vh.Fatal("%v", err)
		}
		if id%9973 == 1 {
			vh.Sample(&pair{ID: id, Req: *rq, Resp: rs})
		}
		return !(rs.Panic && rs.Note == "no return within 30s")
	}
	enumerated := 0
	_, err = vh.EachExport(os.Args[2], func(idx int, raw []byte) error {
		d := &genDoc{}
		if err := json.Unmarshal(raw, d); err != nil {
			return err
		}
		if d.Req.Loc == nil {
			d.Req.Loc = []blk{}
		}
		enumerated++
		if !emit(&d.Req) {
			return fmt.Errorf("call did not return")
		}
		return nil
	})
	if err != nil && err.Error() != "call did not return" {
		vh.Fatal("reading requests: %v", err)
	}
	if err == nil {
		for i := 0; i < nrand; i++ {
			if !emit(randomRequest()) {
				break
			}
		}
	}
	w.Flush()
	out.Close()
	vh.Summary(map[string]interface{}{"pairs": id, "enumerated": enumerated, "random": id - enumerated, "panics": panics,
		"nonempty": nonempty, "longer_than_64": long, "errors": errs, "distinct_requests": len(shapes)})
}
