// c34: replays TLC-generated operation sequences of specs/periph/DhtGen.tla on the real
// Kademlia routing table (p2p/discover/dht/table.go, through the export shim
// export_verif.go) and records every distinct transition of the real table
// (operation, table before, table after) for judgement by TLC (TraceDht.tla).
//
//	c34 replay <exports> <out-prefix> <model-bucket-size> <distance-map-json>
//
// writes <out-prefix>.snaps.ndjson (distinct real table states, judged by TLC) and
// <out-prefix>.trans.ndjson (distinct real transitions between them).
//
// When the model's bucket size is smaller than the real one (16) every bucket used by
// the model is first filled with (16 - size) extra nodes through the real add(), so that
// the model's "bucket full" coincides with the real one.
package main

import (
	"encoding/json"
	"fmt"
	"hash/fnv"
	"os"
	"sort"
	"strconv"
	"strings"

	"github.com/bytom/bytom/common"
	"github.com/bytom/bytom/p2p/discover/dht"

	"verifharness/internal/vh"
)

type mcall struct {
	Op string   `json:"op"`
	X  string   `json:"x"`
	Xs []string `json:"xs"`
}

type mbucket struct {
	E []string `json:"e"`
	R []string `json:"r"`
}

type doc struct {
	Calls []mcall `json:"calls"`
	Obs   struct {
		Count   int                `json:"count"`
		Broken  string             `json:"broken"`
		Buckets map[string]mbucket `json:"buckets"`
	} `json:"obs"`
}

type entry struct {
	ID   string `json:"id"`
	Dist int    `json:"dist"`
}
type bucket struct {
	Idx int     `json:"idx"`
	E   []entry `json:"e"`
	R   []entry `json:"r"`
}
type snapshot struct {
	Count   int      `json:"count"`
	Buckets []bucket `json:"buckets"`
}

// snapEvent is one distinct table state of the real code, judged by TLC.
type snapEvent struct {
	ID   int      `json:"id"`
	Self string   `json:"self"`
	Cap  int      `json:"cap"`
	Snap snapshot `json:"snap"`
}

// transition is one distinct step of the real table between two judged states.
type transition struct {
	Op   string   `json:"op"`
	X    string   `json:"x"`
	Xs   []string `json:"xs"`
	Pre  int      `json:"pre"`
	Post int      `json:"post"`
	Case int      `json:"case"`
	Step int      `json:"step"`
}

func nodeID(name string) dht.NodeID {
	var id dht.NodeID
	copy(id[:], []byte("verif-node:"+name))
	return id
}

func idName(id dht.NodeID) string {
	s := strings.TrimRight(string(id[:]), "\x00")
	return strings.TrimPrefix(s, "verif-node:")
}

// shaAt returns a hash at log-distance d from self (d = 0: self itself), made
// distinct per node by its low bytes.
func shaAt(self common.Hash, d int, name string) common.Hash {
	h := self
	if d == 0 {
		return h
	}
	lz := 256 - d
	h[lz/8] ^= 0x80 >> uint(lz%8)
	f := fnv.New64a()
	f.Write([]byte(name))
	v := f.Sum64()
	if lz/8 < 24 {
		for i := 0; i < 8; i++ {
			h[24+i] = byte(v >> uint(8*i))
		}
	}
	return h
}

type world struct {
	tab  *dht.Table
	sha  map[string]common.Hash
	dist map[string]int
}

func newWorld(dist map[string]int, fill int) *world {
	w := &world{tab: dht.VerifNewTable(nodeID("self")), sha: map[string]common.Hash{}, dist: dist}
	self := w.tab.VerifSelfSha()
	used := map[int]bool{}
	for name, d := range dist {
		if name == "self" {
			w.sha[name] = self
			continue
		}
		used[d] = true
		w.sha[name] = shaAt(self, d, name)
		if got := dht.VerifLogdist(self, w.sha[name]); got != d {
			vh.Fatal("harness self-check: node %s built at distance %d, wanted %d", name, got, d)
		}
	}
	var ds []int
	for d := range used {
		ds = append(ds, d)
	}
	sort.Ints(ds)
	for _, d := range ds {
		for k := 0; k < fill; k++ {
			name := fmt.Sprintf("~fill%d_%d", d, k)
			w.tab.VerifAdd(dht.VerifNodeWithSha(nodeID(name), shaAt(self, d, name)))
		}
	}
	return w
}

// node returns a new Node object for the identity (the network layer hands the table
// different *Node values for the same peer).
func (w *world) node(name string) *dht.Node {
	sha, ok := w.sha[name]
	if !ok {
		vh.Fatal("model node %q has no distance", name)
	}
	return dht.VerifNodeWithSha(nodeID(name), sha)
}

func (w *world) snap() snapshot {
	count, _, bs := w.tab.VerifSnapshot()
	s := snapshot{Count: count, Buckets: []bucket{}}
	for _, b := range bs {
		nb := bucket{Idx: b.Index, E: []entry{}, R: []entry{}}
		for _, e := range b.Entries {
			nb.E = append(nb.E, entry{idName(e.ID), e.Dist})
		}
		for _, e := range b.Replacements {
			nb.R = append(nb.R, entry{idName(e.ID), e.Dist})
		}
		s.Buckets = append(s.Buckets, nb)
	}
	return s
}

func (w *world) apply(c *mcall) {
	switch c.Op {
	case "add":
		w.tab.VerifAdd(w.node(c.X))
	case "bump":
		w.tab.VerifBump(w.node(c.X))
	case "delete":
		w.tab.VerifDelete(w.node(c.X))
	case "deletereplace":
		w.tab.VerifDeleteReplace(w.node(c.X))
	case "stuff":
		var ns []*dht.Node
		for _, x := range c.Xs {
			ns = append(ns, w.node(x))
		}
		w.tab.VerifStuff(ns)
	default:
		vh.Fatal("unknown model operation %q", c.Op)
	}
}

// modelView projects a real snapshot on the model's vocabulary (fill nodes removed).
func modelView(s snapshot) (int, map[string]mbucket) {
	out := map[string]mbucket{}
	fillers := 0
	for _, b := range s.Buckets {
		mb := mbucket{E: []string{}, R: []string{}}
		for _, e := range b.E {
			if strings.HasPrefix(e.ID, "~fill") {
				fillers++
				continue
			}
			mb.E = append(mb.E, e.ID)
		}
		for _, e := range b.R {
			mb.R = append(mb.R, e.ID)
		}
		out[strconv.Itoa(b.Idx)] = mb
	}
	return s.Count - fillers, out
}

func sameModel(count int, real map[string]mbucket, d *doc) bool {
	if count != d.Obs.Count {
		return false
	}
	for k, mb := range d.Obs.Buckets {
		rb := real[k]
		if strings.Join(rb.E, ",") != strings.Join(mb.E, ",") || strings.Join(rb.R, ",") != strings.Join(mb.R, ",") {
			return false
		}
	}
	for k, rb := range real {
		if _, ok := d.Obs.Buckets[k]; !ok && (len(rb.E) > 0 || len(rb.R) > 0) {
			return false
		}
	}
	return true
}

func main() {
	vh.Quiet()
	if len(os.Args) < 6 || os.Args[1] != "replay" {
		vh.Fatal("usage: c34 replay <exports> <out.ndjson> <model-bucket-size> <dist-json>")
	}
	msize, _ := strconv.Atoi(os.Args[4])
	dist := map[string]int{}
	if err := json.Unmarshal([]byte(os.Args[5]), &dist); err != nil {
		vh.Fatal("bad distance map: %v", err)
	}
	fill := dht.VerifBucketSize - msize
	if fill < 0 {
		vh.Fatal("model bucket size %d exceeds the real one %d", msize, dht.VerifBucketSize)
	}
	out, err := os.Create(os.Args[3] + ".snaps.ndjson")
	if err != nil {
		vh.Fatal("%v", err)
	}
	tout, err := os.Create(os.Args[3] + ".trans.ndjson")
	if err != nil {
		vh.Fatal("%v", err)
	}
	enc := json.NewEncoder(out)
	tenc := json.NewEncoder(tout)
	snapID := map[string]int{}
	idOf := func(s snapshot) int {
		kb, _ := json.Marshal(s)
		k := string(kb)
		if id, ok := snapID[k]; ok {
			return id
		}
		id := len(snapID) + 1
		snapID[k] = id
		enc.Encode(snapEvent{ID: id, Self: "self", Cap: dht.VerifBucketSize, Snap: s})
		return id
	}
	seen := map[string]bool{}
	cases, steps, transitions, mirrorDiff, modelBroken := 0, 0, 0, 0, 0
	mirrorExample := ""
	shapes := map[string]bool{}
	n, err := vh.EachExport(os.Args[2], func(idx int, raw []byte) error {
		var d doc
		if err := json.Unmarshal(raw, &d); err != nil {
			return err
		}
		cases++
		w := newWorld(dist, fill)
		pre := w.snap()
		sh := ""
		for i := range d.Calls {
			c := &d.Calls[i]
			w.apply(c)
			post := w.snap()
			steps++
			sh += c.Op[:2]
			tr := transition{Op: c.Op, X: c.X, Xs: c.Xs, Pre: idOf(pre), Post: idOf(post), Case: idx, Step: i}
			if tr.Xs == nil {
				tr.Xs = []string{}
			}
			k := fmt.Sprintf("%s|%s|%s|%d|%d", tr.Op, tr.X, strings.Join(tr.Xs, ","), tr.Pre, tr.Post)
			if !seen[k] {
				seen[k] = true
				transitions++
				tenc.Encode(tr)
			}
			pre = post
		}
		shapes[sh] = true
		cnt, mv := modelView(pre)
		if d.Obs.Broken != "" {
			modelBroken++
		}
		if !sameModel(cnt, mv, &d) {
			mirrorDiff++
			if mirrorExample == "" {
				rb, _ := json.Marshal(mv)
				mb, _ := json.Marshal(d.Obs.Buckets)
				cb, _ := json.Marshal(d.Calls)
				mirrorExample = fmt.Sprintf("after %s the real table is count=%d %s, Dht.tla (as-implemented variant) has count=%d %s", cb, cnt, rb, d.Obs.Count, mb)
			}
		}
		if idx%4001 == 5 && len(d.Calls) > 2 {
			vh.Sample(map[string]interface{}{"calls": d.Calls, "real_table_after": pre})
		}
		return nil
	})
	out.Close()
	tout.Close()
	if err != nil {
		vh.Fatal("reading exports: %v (after %d)", err, n)
	}
	vh.Summary(map[string]interface{}{"cases": cases, "steps": steps, "distinct": len(shapes), "distinct_real_transitions": transitions, "distinct_real_tables": len(snapID),
		"model_mirror_differences": mirrorDiff, "model_mirror_example": mirrorExample, "model_states_breaking_property": modelBroken, "fill_per_bucket": fill})
}
