// c35: ban score decay rule (p2p/security/banscore.go, p2p/trust/banscore.go).
//
//	c35 replay <exports> <security|trust|trust-noinit>
//	    replays TLC-generated call sequences of specs/periph/BanScoreGen.tla through the
//	    explicit-time entry points and checks every result against the interval of
//	    admitted integers exported by TLC.
//	c35 drive <n> <out.ndjson> <security|trust>
//	    runs n seeded random call sequences and records the results; the trace is
//	    judged by TLC (specs/periph/TraceBanScore.tla).
package main

import (
	"encoding/json"
	"fmt"
	"math/rand"
	"os"
	"strconv"
	"time"

	"github.com/bytom/bytom/p2p/security"
	"github.com/bytom/bytom/p2p/trust"

	"verifharness/internal/vh"
)

type scorer interface {
	VerifIncrease(persistent, transient uint32, t time.Time) uint32
	VerifInt(t time.Time) uint32
	Reset()
}

func newScorer(pkg string) scorer {
	if pkg == "security" {
		return &security.DynamicBanScore{}
	}
	return &trust.DynamicBanScore{}
}

type call struct {
	Op  string `json:"op"`
	T   int64  `json:"t"`
	Pa  uint32 `json:"pa"`
	Ta  uint32 `json:"ta"`
	Rlo int64  `json:"rlo"`
	Rhi int64  `json:"rhi"`
	Thi int64  `json:"thi"`
	Slo int64  `json:"slo"`
	Shi int64  `json:"shi"`
}

var sigCount = map[string]int{}

func report(sig, desc string, replay interface{}) {
	sigCount[sig]++
	if sigCount[sig] <= 3 {
		vh.Violation(sig, desc, replay)
	}
}

func fmtCalls(cs []call, upto int, results []int64) string {
	s := ""
	for i := 0; i <= upto; i++ {
		c := cs[i]
		switch c.Op {
		case "inc":
			s += fmt.Sprintf("Increase(%d,%d)@%d", c.Pa, c.Ta, c.T)
		case "int":
			s += fmt.Sprintf("Int()@%d", c.T)
		default:
			s += "Reset()"
		}
		if i < len(results) && c.Op != "reset" {
			s += fmt.Sprintf("=%d", results[i])
		}
		s += " "
	}
	return s
}

func exec(s scorer, c *call) int64 {
	switch c.Op {
	case "inc":
		return int64(s.VerifIncrease(c.Pa, c.Ta, time.Unix(c.T, 0)))
	case "int":
		return int64(s.VerifInt(time.Unix(c.T, 0)))
	default:
		s.Reset()
		return 0
	}
}

func mainReplay(path, pkg string) {
	base := pkg
	if pkg == "trust" {
		trust.Init()
	}
	if pkg == "trust-noinit" {
		base = "trust"
	}
	cases, steps, ambiguous, exact := 0, 0, 0, 0
	shapes := map[string]bool{}
	n, err := vh.EachExport(path, func(idx int, doc []byte) error {
		var cs []call
		if err := json.Unmarshal(doc, &cs); err != nil {
			return err
		}
		if len(sigCount) > 25 || (pkg == "trust-noinit" && cases >= 20000) {
			return nil
		}
		cases++
		s := newScorer(base)
		var results []int64
		sh := ""
		for i := range cs {
			c := &cs[i]
			r := exec(s, c)
			results = append(results, r)
			steps++
			sh += c.Op[:2]
			if c.Op == "reset" {
				continue
			}
			replay := map[string]interface{}{"mode": "replay", "pkg": pkg, "calls": cs[:i+1], "results": results}
			switch {
			case c.Rlo <= r && r <= c.Rhi:
				if c.Rlo < c.Rhi {
					ambiguous++
				} else {
					exact++
				}
				continue
			case r > c.Rhi && r <= c.Thi:
				report(base+":"+c.Op+":subunit-transient-not-decayed",
					fmt.Sprintf("%s; the rule admits %d..%d (a transient part of at most one point was carried without decay)", fmtCalls(cs, i, results), c.Rlo, c.Rhi), replay)
				continue
			case c.Op == "inc" && c.Ta == 0 && c.Slo <= r && r <= c.Shi:
				report(base+":inc:transient0:returns-undecayed-score",
					fmt.Sprintf("%s; the rule admits %d..%d (Increase with transient 0 reports the stored transient part without decaying it to the call time)", fmtCalls(cs, i, results), c.Rlo, c.Rhi), replay)
				continue
			case pkg == "trust-noinit" && r < c.Rlo:
				report("trust-noinit:"+c.Op+":transient-lost",
					fmt.Sprintf("p2p/trust used without trust.Init() (decay table all zero): %s; the rule admits %d..%d", fmtCalls(cs, i, results), c.Rlo, c.Rhi), replay)
			default:
				why := "above-rule"
				if r < c.Rlo {
					why = "below-rule"
				}
				report(pkg+":"+c.Op+":"+why,
					fmt.Sprintf("%s; the rule admits %d..%d", fmtCalls(cs, i, results), c.Rlo, c.Rhi), replay)
			}
			break
		}
		shapes[sh] = true
		if idx%7919 == 11 && len(cs) > 1 {
			vh.Sample(map[string]interface{}{"calls": fmtCalls(cs, len(cs)-1, results), "admitted_last": []int64{cs[len(cs)-1].Rlo, cs[len(cs)-1].Rhi}})
		}
		return nil
	})
	if err != nil {
		vh.Fatal("reading exports: %v (after %d)", err, n)
	}
	vh.Summary(map[string]interface{}{"cases": cases, "steps": steps, "distinct": len(shapes), "pkg": pkg,
		"results_exact": exact, "results_ambiguous_boundary": ambiguous, "deviations_by_signature": sigCount})
}

type tev struct {
	Ev string `json:"ev"`
	D  int64  `json:"d"`
	Pa uint32 `json:"pa"`
	Ta uint32 `json:"ta"`
	R  int64  `json:"r"`
}

func mainDrive(n int, outPath, pkg string) {
	if pkg == "trust" {
		trust.Init()
	}
	rng := rand.New(rand.NewSource(vh.Seed()*7919 + int64(len(pkg))))
	f, err := os.Create(outPath)
	if err != nil {
		vh.Fatal("%v", err)
	}
	w := json.NewEncoder(f)
	bd := []int64{0, 1, 2, 29, 30, 59, 60, 61, 119, 120, 121, 600, 1799, 1800, 1801, 3600, -1, -30, -120}
	tas := []uint32{0, 0, 1, 1, 2, 3, 20, 20, 50, 100}
	events := 0
	for i := 0; i < n; i++ {
		s := newScorer(pkg)
		now := int64(100000)
		w.Encode(tev{Ev: "start"})
		k := 2 + rng.Intn(7)
		var first []tev
		for j := 0; j < k; j++ {
			var d int64
			switch x := rng.Intn(10); {
			case x < 4:
				d = bd[rng.Intn(len(bd))]
			case x < 8:
				d = int64(rng.Intn(200))
			default:
				d = int64(rng.Intn(4000))
			}
			if now+d < 0 {
				d = 0
			}
			now += d
			e := tev{D: d}
			switch x := rng.Intn(20); {
			case x < 13:
				e.Ev = "inc"
				e.Pa = uint32(rng.Intn(3) * rng.Intn(16))
				e.Ta = tas[rng.Intn(len(tas))]
				if rng.Intn(4) == 0 {
					e.Ta = uint32(rng.Intn(101))
				}
				e.R = int64(s.VerifIncrease(e.Pa, e.Ta, time.Unix(now, 0)))
			case x < 19:
				e.Ev = "int"
				e.R = int64(s.VerifInt(time.Unix(now, 0)))
			default:
				e.Ev = "reset"
				now -= d
				e.D = 0
				s.Reset()
			}
			w.Encode(e)
			events++
			first = append(first, e)
		}
		if i == 0 {
			vh.Sample(first)
		}
	}
	f.Close()
	vh.Summary(map[string]interface{}{"traces": n, "events": events, "pkg": pkg})
}

func main() {
	vh.Quiet()
	if len(os.Args) >= 4 && os.Args[1] == "replay" {
		mainReplay(os.Args[2], os.Args[3])
		return
	}
	if len(os.Args) >= 5 && os.Args[1] == "drive" {
		n, _ := strconv.Atoi(os.Args[2])
		mainDrive(n, os.Args[3], os.Args[4])
		return
	}
	vh.Fatal("usage: c35 replay <exports> <pkg> | c35 drive <n> <out> <pkg>")
}
