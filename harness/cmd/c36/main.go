// c36: replays the call sequences exported by TLC from specs/periph/AuthnGen.tla against the
// real authn.API over a real accesstoken.CredentialStore (goleveldb in a scratch directory)
// and compares the outcome of every request with what the specification allows.
//
//	c36 replay <exports> <dbdir> [wait]
//
// Concretisation. The model's credentials are sequences of atoms. Every behaviour gets its own
// atom strings ("a" -> "a<n>q"), so one database can serve all behaviours without ids clashing;
// the two atoms of the k-th secret are the two halves of the real secret returned by Create.
// Real user/password = concatenation of the atom strings. With "wait", only behaviours that
// contain a Wait step are run, in two phases around ONE real sleep longer than the 5 minute
// cache window (VERIF_C36_WAIT_S, default 301).
package main

import (
	"encoding/json"
	"fmt"
	"math/rand"
	"net/http"
	"os"
	"path/filepath"
	"runtime"
	"strconv"
	"strings"
	"sync"
	"time"

	"github.com/bytom/bytom/accesstoken"
	dbm "github.com/bytom/bytom/database/leveldb"
	"github.com/bytom/bytom/net/http/authn"

	"verifharness/internal/vh"
)

type call struct {
	Op        string   `json:"op"`
	ID        []string `json:"id"`
	K         int      `json:"k"`
	Origin    string   `json:"origin"`
	Path      string   `json:"path"`
	Has       bool     `json:"has"`
	U         []string `json:"u"`
	P         []string `json:"p"`
	Allow     string   `json:"allow"`
	Cls       string   `json:"cls"`
	CatAuthed bool     `json:"catauthed"`
}

var addrs = map[string][]string{
	"lo4":  {"127.0.0.1:34567", "127.0.0.2:80", "127.255.255.254:65535"},
	"lo6":  {"[::1]:34567", "[0:0:0:0:0:0:0:1]:80"},
	"ext4": {"192.168.1.10:34567", "10.0.0.1:80", "8.8.8.8:53", "128.0.0.1:9", "126.255.255.255:1"},
	"ext6": {"[2001:db8::1]:34567", "[fe80::1]:80", "[::2]:80", "[2607:f8b0:4005:805::200e]:443"},
}
var paths = map[string][]string{
	"api":     {"/list-balances", "/create-access-token", "/delete-access-token", "/net-info", "/build-transaction"},
	"backup":  {"/backup-wallet"},
	"restore": {"/restore-wallet"},
	"tokens":  {"/list-access-tokens"},
}

// run is one behaviour being replayed (kept alive across the sleep in wait mode).
type run struct {
	idx   int
	steps []call
	pos   int
	api   *authn.API
	store *accesstoken.CredentialStore
	atoms map[string]string
	rng   *rand.Rand
	trace []map[string]interface{}
	dead  bool
}

func newRun(idx int, steps []call, store *accesstoken.CredentialStore) *run {
	return &run{idx: idx, steps: steps, api: authn.NewAPI(store, false), store: store,
		atoms: map[string]string{}, rng: rand.New(rand.NewSource(vh.Seed()*1000003 + int64(idx)))}
}

func (r *run) str(atoms []string) string {
	var sb strings.Builder
	for _, a := range atoms {
		if v, ok := r.atoms[a]; ok {
			sb.WriteString(v)
		} else { // id atom: unique per behaviour
			sb.WriteString(a + strconv.FormatInt(int64(r.idx), 36) + "q")
		}
	}
	return sb.String()
}

// advance executes steps until the end or (stopAtWait) until just after consuming a wait step.
func (r *run) advance(stopAtWait bool) {
	for ; r.pos < len(r.steps) && !r.dead; r.pos++ {
		c := r.steps[r.pos]
		switch c.Op {
		case "create":
			id := r.str(c.ID)
			tok, err := r.store.Create(id, "client")
			if err != nil || tok == nil {
				vh.Fatal("Create(%q) failed in behaviour %d: %v", id, r.idx, err)
			}
			parts := strings.SplitN(tok.Token, ":", 2)
			if len(parts) != 2 || parts[0] != id || len(parts[1]) < 2 {
				vh.Fatal("Create(%q) returned a token of unexpected shape %q", id, tok.Token)
			}
			sec := parts[1]
			r.atoms[fmt.Sprintf("s%dx", c.K)] = sec[:len(sec)/2]
			r.atoms[fmt.Sprintf("s%dy", c.K)] = sec[len(sec)/2:]
			r.trace = append(r.trace, map[string]interface{}{"op": "create", "id": id, "secret": sec})
		case "delete":
			id := r.str(c.ID)
			r.store.Delete(id)
			r.trace = append(r.trace, map[string]interface{}{"op": "delete", "id": id})
		case "wait", "half":
			r.trace = append(r.trace, map[string]interface{}{"op": c.Op})
			if stopAtWait {
				r.pos++
				return
			}
			vh.Fatal("wait step outside wait mode (behaviour %d)", r.idx)
		case "request":
			al, pl := addrs[c.Origin], paths[c.Path]
			if al == nil || pl == nil {
				vh.Fatal("unknown origin/path class %q %q", c.Origin, c.Path)
			}
			addr, path := al[r.rng.Intn(len(al))], pl[r.rng.Intn(len(pl))]
			req, err := http.NewRequest("POST", "http://node.example"+path, nil)
			if err != nil {
				vh.Fatal("NewRequest: %v", err)
			}
			req.RemoteAddr = addr
			user, pw := r.str(c.U), r.str(c.P)
			if c.Has {
				req.SetBasicAuth(user, pw)
			}
			_, aerr := r.api.Authenticate(req)
			got := "admit"
			if aerr != nil {
				got = "refuse"
			}
			ev := map[string]interface{}{"op": "request", "remote_addr": addr, "path": path, "basic_auth": c.Has,
				"user": user, "password": pw, "got": got, "spec_allows": c.Allow, "class": c.Cls}
			r.trace = append(r.trace, ev)
			if c.Allow != "any" && c.Allow != got {
				org := "ext"
				if strings.HasPrefix(c.Origin, "lo") {
					org = "lo"
				}
				sig := fmt.Sprintf("%s:%s:%s:%s", got, org, c.Path, c.Cls)
				if c.CatAuthed {
					sig += ":catauthed"
				}
				report(sig, fmt.Sprintf("request from %s to %s with credentials class %q (user %q) was %s; Authn.tla allows only %q",
					addr, path, c.Cls, user, map[string]string{"admit": "admitted", "refuse": "refused"}[got], c.Allow),
					map[string]interface{}{"model_steps": r.steps, "real_steps": r.trace, "diverges_at": r.pos})
				r.dead = true
			}
		default:
			vh.Fatal("unknown op %q", c.Op)
		}
	}
}

// cleanup deletes every token this behaviour created (through the real API).
func (r *run) cleanup() {
	for _, c := range r.steps {
		if c.Op == "create" {
			r.store.Delete(r.str(c.ID))
		}
	}
}

// report emits at most 3 violations per signature (a known defect can fire thousands of
// times; the run must still go through every behaviour so that other classes are seen).
var (
	sigMu  sync.Mutex
	sigCnt = map[string]int{}
)

func report(sig, desc string, replay interface{}) {
	sigMu.Lock()
	sigCnt[sig]++
	n := sigCnt[sig]
	sigMu.Unlock()
	if n <= 3 {
		vh.Violation(sig, desc, replay)
	}
}

func tooMany() bool {
	sigMu.Lock()
	defer sigMu.Unlock()
	return len(sigCnt) > 40
}

func hasWait(st []call) bool {
	for _, c := range st {
		if c.Op == "wait" || c.Op == "half" {
			return true
		}
	}
	return false
}

func main() {
	vh.Quiet()
	if len(os.Args) < 4 || os.Args[1] != "replay" {
		vh.Fatal("usage: c36 replay <exports> <dbdir> [wait]")
	}
	waitMode := len(os.Args) > 4 && (os.Args[4] == "wait" || os.Args[4] == "half")
	halfMode := len(os.Args) > 4 && os.Args[4] == "half"
	nw := runtime.NumCPU() / 2
	if nw < 1 {
		nw = 1
	}
	if waitMode {
		nw = 1
	}
	type job struct {
		idx   int
		steps []call
	}
	jobs := make(chan job, 1024)
	var wg sync.WaitGroup
	var mu sync.Mutex
	cases, steps, reqs, anyc := 0, 0, 0, 0
	classes := map[string]int{}
	var held []*run
	for w := 0; w < nw; w++ {
		wg.Add(1)
		dir := filepath.Join(os.Args[3], fmt.Sprintf("w%d", w))
		os.MkdirAll(dir, 0o755)
		db := dbm.NewDB("tokens", "leveldb", dir)
		store := accesstoken.NewStore(db)
		go func() {
			defer wg.Done()
			for j := range jobs {
				r := newRun(j.idx, j.steps, store)
				if waitMode {
					r.advance(true)
					mu.Lock()
					held = append(held, r)
					mu.Unlock()
				} else {
					r.advance(false)
					r.cleanup()
				}
				mu.Lock()
				cases++
				steps += len(j.steps)
				for _, c := range j.steps {
					if c.Op == "request" {
						reqs++
						classes[c.Origin[:2]+":"+c.Path+":"+c.Cls+":"+c.Allow]++
						if c.Allow == "any" {
							anyc++
						}
					}
				}
				mu.Unlock()
				if j.idx%50000 == 11 && len(r.trace) > 2 {
					vh.Sample(r.trace)
				}
			}
		}()
	}
	n, err := vh.EachExport(os.Args[2], func(idx int, doc []byte) error {
		if tooMany() {
			return nil
		}
		var st []call
		if err := json.Unmarshal(doc, &st); err != nil {
			return err
		}
		if waitMode != hasWait(st) {
			return nil
		}
		jobs <- job{idx, st}
		return nil
	})
	close(jobs)
	wg.Wait()
	if err != nil {
		vh.Fatal("reading exports: %v (after %d)", err, n)
	}
	slept := 0.0
	// Every phase runs all held behaviours up to their next time step; the sleep starts when the phase has ended,
	// so any two steps separated by k time steps are at least k sleeps apart. A Wait is longer than the 5 minute
	// window; a Half is longer than half of it, and a phase must be short enough that one Half stays inside it.
	phaseStart := time.Now()
	for waitMode && len(held) > 0 {
		secs := 301.0
		if halfMode {
			secs = 151.0
		}
		if s, e := strconv.ParseFloat(os.Getenv("VERIF_C36_WAIT_S"), 64); e == nil && s > 0 {
			secs = s
		}
		if halfMode && time.Since(phaseStart).Seconds() > 60 {
			vh.Fatal("a phase between two half-window sleeps took %.0fs: one half step may no longer be inside the window", time.Since(phaseStart).Seconds())
		}
		t0 := time.Now()
		time.Sleep(time.Duration(secs * float64(time.Second)))
		slept += time.Since(t0).Seconds()
		phaseStart = time.Now()
		var still []*run
		for _, r := range held {
			r.advance(true)
			if r.pos >= len(r.steps) || r.dead {
				r.cleanup()
			} else {
				still = append(still, r)
			}
			if tooMany() {
				still = nil
				break
			}
		}
		held = still
	}
	vh.Summary(map[string]interface{}{"cases": cases, "steps": steps, "requests": reqs, "requests_any": anyc,
		"distinct": len(classes), "slept_s": slept, "violations_by_sig": sigCnt})
}
