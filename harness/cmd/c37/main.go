// c37: concurrent driver of a real node for property C37 (concurrent block, vote and
// transaction processing neither races nor deadlocks), bound to specs/chain/NodeLocks.tla.
//
//	c37 pool <n> <outdir> <par>            n seeded concurrent workloads, each in a child process of
//	                                       this binary (built normally or with -race); writes one event
//	                                       trace per workload (validated by TraceNodeLocks.tla), reports
//	                                       calls that never return and data races found by the detector
//	c37 one <seed> <trace-file>            one workload (child of pool; also the replay entry)
//	c37 directed <schedule.json> <trace>   replays a schedule of the specification (a deadlock
//	                                       counterexample of the DevHoldLockDuringRollback variant) on
//	                                       the real node, the trace points acting as scheduler gates
//
// The node is real: protocol.NewChain on an in-memory store, consensus parameters E=2 with a
// federation of three validators, the node holding the key of validator 0; blocks and
// verification messages are really signed. The driver only decides WHAT is called from which
// goroutine; every verdict comes from the watchdog (a call of the real code that never
// returns), the Go race detector, or TLC judging the recorded trace.
package main

import (
	"bufio"
	"bytes"
	"encoding/json"
	"fmt"
	"io/ioutil"
	"math/rand"
	"os"
	"os/exec"
	"path/filepath"
	"regexp"
	"runtime"
	"sort"
	"strconv"
	"strings"
	"sync"
	"sync/atomic"
	"time"

	"github.com/bytom/bytom/consensus"
	"github.com/bytom/bytom/protocol/bc"
	"github.com/bytom/bytom/protocol/bc/types"
	"github.com/bytom/bytom/protocol/casper"

	"verifharness/internal/memkv"
	"verifharness/internal/node"
	"verifharness/internal/vh"
)

// ---------------------------------------------------------------- event log

type tev struct {
	Seq int64  `json:"seq"`
	Th  string `json:"th"`
	Ev  string `json:"ev"`
	Op  string `json:"op"`
	K   string `json:"k"`
}

var (
	seq     int64
	logMu   sync.Mutex
	events  []tev
	threads sync.Map // goroutine id -> thread name of the specification
	current sync.Map // thread name -> call in progress ("" when none)
)

// emit appends one event; the sequence number is taken from one atomic counter, read before a
// call starts, after it returned, and inside a critical section for the lock trace points, so
// the order of sequence numbers is consistent with the real order of dependent events.
func emit(th, ev, op, k string) {
	e := tev{Th: th, Ev: ev, Op: op, K: k}
	logMu.Lock()
	e.Seq = atomic.AddInt64(&seq, 1)
	events = append(events, e)
	logMu.Unlock()
}

func goid() int64 {
	var buf [64]byte
	n := runtime.Stack(buf[:], false)
	f := bytes.Fields(buf[:n])
	if len(f) < 2 {
		return -1
	}
	id, _ := strconv.ParseInt(string(f[1]), 10, 64)
	return id
}

func register(name string) { threads.Store(goid(), name) }

func threadName() string {
	if v, ok := threads.Load(goid()); ok {
		return v.(string)
	}
	return ""
}

// tracePoint is installed as casper.VerifTrace.
func tracePoint(point string) {
	th := threadName()
	if th == "" {
		// the node's own goroutines are recognised by what they do first
		switch {
		case strings.HasPrefix(point, "bp."):
			th = "bp"
		case strings.HasSuffix(point, ":cached"):
			th = "cl"
		default:
			th = "?"
		}
		if th != "?" {
			register(th)
		}
	}
	gate(th, point)
	ev, op := point, ""
	if i := strings.IndexByte(point, ':'); i >= 0 {
		ev, op = point[:i], point[i+1:]
	}
	emit(th, ev, op, "")
}

// ---------------------------------------------------------------- scheduler gates (directed mode)

type schedStep struct {
	Th  string `json:"th"`
	Pt  string `json:"pt"`
	Arg string `json:"arg"`
}

var (
	sched     []schedStep
	schedDone []bool
	schedPos  int
	schedOpen = true // no schedule / abandoned: every gate is open
	schedMu   sync.Mutex
	schedCond = sync.NewCond(&schedMu)
	schedNote string
)

const gateWait = 3 * time.Second

func advance() {
	for schedPos < len(sched) && schedDone[schedPos] {
		schedPos++
	}
	if schedPos >= len(sched) && !schedOpen {
		schedOpen = true
		schedNote = "completed"
	}
}

// gate holds thread th at point pt until the schedule says it is its turn. A thread whose point
// is not (or no longer) in the schedule passes; entries the thread evidently skipped (the real
// code takes another path than the specification variant) are dropped; a wait that does not end
// within gateWait abandons the schedule (all gates open): the schedule is not realisable here.
func gate(th, pt string) {
	schedMu.Lock()
	defer schedMu.Unlock()
	if schedOpen {
		return
	}
	j := -1
	for i := schedPos; i < len(sched); i++ {
		if !schedDone[i] && sched[i].Th == th && sched[i].Pt == pt {
			j = i
			break
		}
	}
	if j < 0 {
		return
	}
	for i := schedPos; i < j; i++ {
		if sched[i].Th == th {
			schedDone[i] = true // this thread is sequential: it did not pass there
		}
	}
	advance()
	schedCond.Broadcast()
	deadline := time.Now().Add(gateWait)
	for !schedOpen && schedPos < j {
		if time.Now().After(deadline) {
			schedOpen = true
			schedNote = fmt.Sprintf("abandoned at step %d of %d (%s %s waited for %s %s)", schedPos, len(sched), th, pt, sched[schedPos].Th, sched[schedPos].Pt)
			schedCond.Broadcast()
			return
		}
		waitCond(schedCond, 50*time.Millisecond)
	}
	if schedOpen {
		return
	}
	schedDone[j] = true
	advance()
	schedCond.Broadcast()
}

// waitCond waits on c for at most d (c.L held on entry and exit).
func waitCond(c *sync.Cond, d time.Duration) {
	t := time.AfterFunc(d, func() { c.L.Lock(); c.Broadcast(); c.L.Unlock() })
	c.Wait()
	t.Stop()
}

// ---------------------------------------------------------------- the world of one workload

type vote struct {
	Name string
	Msg  *casper.ValidCasperSignMsg
}

type world struct {
	env    *node.Env
	f      *node.Factory
	blocks map[string]*types.Block // by name: A1.., B1.., C3..
	order  []string                // creation order
	txs    []*types.Tx
}

func (w *world) mint(name, parent string, nonce uint64) *types.Block {
	p := w.f.Genesis
	if parent != "G" {
		p = w.blocks[parent]
	}
	h := p.Height + 1
	var first uint64
	if h%node.Cfg.E == 1 && h > 1 {
		first = node.Cfg.E * node.R0
	}
	b := w.f.Build(node.BlockReq{Parent: p, Signer: 0, Program: node.TrueProg, First: first, Nonce: nonce})
	w.blocks[name] = b
	w.order = append(w.order, name)
	return b
}

func (w *world) hash(name string) bc.Hash {
	if name == "G" {
		return w.f.Genesis.Hash()
	}
	return w.blocks[name].Hash()
}

var (
	flushSentinel = bc.Hash{V0: 0xfeedface, V1: 37}
	flushed       = make(chan struct{})
)

func open() *world {
	node.Configure(node.Config{E: 2, NVal: 3, Me: 0, Interval: 1000})
	casper.VerifTrace = tracePoint
	casper.VerifLoopGate = func(h bc.Hash) { // installed before the node starts; only reacts to the flush sentinel
		if h == flushSentinel {
			close(flushed)
		}
	}
	env, err := node.Open(memkv.New())
	if err != nil {
		vh.Fatal("cannot open a fresh node: %v", err)
	}
	return &world{env: env, f: node.NewFactory(), blocks: map[string]*types.Block{}}
}

// chain mints name1..nameN on top of parent.
func (w *world) chain(prefix string, from, to int, parent string, nonce uint64) []string {
	var names []string
	for h := from; h <= to; h++ {
		n := fmt.Sprintf("%s%d", prefix, h)
		w.mint(n, parent, nonce+uint64(h))
		parent = n
		names = append(names, n)
	}
	return names
}

func spendCoinbase(b *types.Block, outAmount uint64) *types.Tx {
	cb := b.Transactions[0]
	id := *cb.ResultIds[0]
	e, ok := cb.Entries[id].(*bc.OriginalOutput)
	if !ok {
		vh.Fatal("coinbase output 0 is not an original output")
	}
	in := types.NewSpendInput(nil, *e.Source.Ref, *consensus.BTMAssetID, cb.Outputs[0].Amount, e.Source.Position, cb.Outputs[0].ControlProgram, nil)
	d := types.TxData{Version: 1, Inputs: []*types.TxInput{in},
		Outputs: []*types.TxOutput{types.NewOriginalTxOutput(*consensus.BTMAssetID, outAmount, node.TrueProg, nil)}}
	return node.FinishTx(&d)
}

// ---------------------------------------------------------------- calls of the real code

type result struct {
	Seed      int64          `json:"seed"`
	Mode      string         `json:"mode"`
	Blocked   []string       `json:"blocked"`
	Events    int            `json:"events"`
	Calls     map[string]int `json:"calls"`
	Panics    []string       `json:"panics"`
	Rollbacks int            `json:"rollbacks"`
	CachedSec int            `json:"cached_sections"`
	Schedule  string         `json:"schedule"`
	Shape     string         `json:"shape"`
}

var (
	callsMu sync.Mutex
	calls   = map[string]int{}
	panics  []string
)

// do runs one call of thread th: begin event, the call, end event.
func do(th, op, k string, f func()) {
	gate(th, "begin")
	current.Store(th, op)
	emit(th, "begin", op, k)
	func() {
		defer func() {
			if r := recover(); r != nil { // a panic in the caller's goroutine: the call did return
				callsMu.Lock()
				panics = append(panics, fmt.Sprintf("%s: %v", op, r))
				callsMu.Unlock()
			}
		}()
		f()
	}()
	emit(th, "end", op, k)
	current.Store(th, "")
	callsMu.Lock()
	calls[op]++
	callsMu.Unlock()
	gate(th, "end")
}

func (w *world) processBlock(th, name string) {
	b := w.blocks[name]
	do(th, "block", "", func() { w.env.Chain.ProcessBlock(node.CopyBlock(b, nil)) })
}

func (w *world) processVote(th string, v vote) {
	m := *v.Msg
	do(th, "vote", "", func() { w.env.Chain.ProcessBlockVerification(&m) })
}

func (w *world) validateTx(th string, tx *types.Tx) {
	do(th, "tx", "", func() { w.env.Chain.ValidateTx(tx) })
}

func (w *world) read(th string, kind string, pick int) {
	c := w.env.Chain
	do(th, "read", kind, func() {
		switch kind {
		case "height":
			if pick%2 == 0 {
				c.BestBlockHeight()
			} else {
				c.BestBlockHash()
			}
		case "final":
			if pick%3 == 0 {
				c.LastJustifiedHeader()
			} else {
				c.LastFinalizedHeader()
			}
		default:
			if pick%2 == 0 {
				c.InMainChain(w.hash(w.order[pick%len(w.order)]))
			} else {
				c.GetHeaderByHeight(uint64(pick % 6))
			}
		}
	})
}

func spin(n int) {
	for i := 0; i < n; i++ {
		runtime.Gosched()
	}
}

func watchdog() time.Duration {
	if s, err := strconv.Atoi(os.Getenv("C37_WATCHDOG_S")); err == nil && s > 0 {
		return time.Duration(s) * time.Second
	}
	return 20 * time.Second
}

// finish waits for the caller goroutines, flushes the cached-verification loop, writes the trace
// and prints the result. Calls that did not return within the watchdog are listed as blocked.
func (w *world) finish(res *result, wg *sync.WaitGroup, out string) {
	done := make(chan struct{})
	go func() { wg.Wait(); close(done) }()
	var blocked []string
	select {
	case <-done:
	case <-time.After(watchdog()):
		current.Range(func(k, v interface{}) bool {
			if v.(string) != "" {
				blocked = append(blocked, v.(string)+"@"+k.(string))
			}
			return true
		})
		if len(blocked) == 0 {
			blocked = append(blocked, "driver@?")
		}
	}
	if len(blocked) == 0 {
		// the cached-verification loop must come to rest as well
		go w.env.Chain.VerifCasper().VerifEnqueueEpoch(flushSentinel)
		select {
		case <-flushed:
		case <-time.After(watchdog()):
			blocked = append(blocked, "cachedloop@cl")
		}
	}
	sort.Strings(blocked)
	logMu.Lock()
	evs := append([]tev{}, events...)
	logMu.Unlock()
	sort.Slice(evs, func(i, j int) bool { return evs[i].Seq < evs[j].Seq })
	var buf bytes.Buffer
	enc := json.NewEncoder(&buf)
	for _, e := range evs {
		enc.Encode(e)
		if e.Ev == "rb.send" {
			res.Rollbacks++
		}
		if e.Ev == "mu.acq" && e.Op == "cached" {
			res.CachedSec++
		}
	}
	if err := ioutil.WriteFile(out, buf.Bytes(), 0644); err != nil {
		vh.Fatal("write trace: %v", err)
	}
	res.Blocked = blocked
	res.Events = len(evs)
	callsMu.Lock()
	res.Calls = calls
	res.Panics = panics
	callsMu.Unlock()
	schedMu.Lock()
	res.Schedule = schedNote
	schedMu.Unlock()
	b, _ := json.Marshal(res)
	fmt.Printf("RES %s\n", b)
	os.Stdout.Sync()
	if len(blocked) > 0 {
		os.Exit(3) // goroutines of the node are stuck: nothing to clean up
	}
}

// ---------------------------------------------------------------- one seeded workload

func runOne(seed int64, out string) {
	rng := rand.New(rand.NewSource(seed))
	w := open()
	register("f1") // the main goroutine delivers the prelude as feeder f1
	// ---- block tree: two branches from genesis and (optionally) a fork inside the longer one
	la, lb := 3+rng.Intn(4), 2+rng.Intn(4) // heights reached by A and B
	a := w.chain("A", 1, la, "G", uint64(seed)*131+1000)
	b := w.chain("B", 1, lb, "G", uint64(seed)*131+2000)
	var c []string
	if rng.Intn(2) == 0 && la >= 3 {
		c = w.chain("C", 3, 3+rng.Intn(2), "A2", uint64(seed)*131+3000)
	}
	// ---- verification messages of the two foreign validators
	var votes []vote
	mk := func(v int, s, t string, ok bool) vote {
		return vote{Name: fmt.Sprintf("%d:%s>%s", v, s, t), Msg: node.SignVote(v, w.hash(s), w.hash(t), ok)}
	}
	for _, t := range []string{"A2", "B2"} {
		for v := 1; v <= 2; v++ {
			votes = append(votes, mk(v, "G", t, true))
		}
	}
	for _, t := range []string{"A4", "B4", "C4"} {
		if _, ok := w.blocks[t]; !ok {
			continue
		}
		src := "A2"
		if t == "B4" {
			src = "B2"
		}
		for v := 1; v <= 2; v++ {
			if rng.Intn(4) > 0 {
				votes = append(votes, mk(v, src, t, true))
			} else {
				votes = append(votes, mk(v, "G", t, true))
			}
		}
	}
	votes = append(votes, mk(1, "G", "A2", false))                // bad signature
	votes = append(votes, vote{Name: "2:G>unknown", Msg: node.SignVote(2, w.hash("G"), bc.Hash{V0: 7, V1: uint64(seed)}, true)}) // stays cached
	votes = append(votes, votes[rng.Intn(4)])                     // a duplicate
	// ---- transactions (accepted, orphaned, dust, unbalanced: all must simply return)
	for _, n := range []string{"A3", "B3"} {
		if blk, ok := w.blocks[n]; ok {
			amt := blk.Transactions[0].Outputs[0].Amount
			w.txs = append(w.txs, spendCoinbase(blk, amt-node.TxFee))
			w.txs = append(w.txs, spendCoinbase(blk, amt+1)) // unbalanced
		}
	}
	w.txs = append(w.txs, spendCoinbase(w.blocks["A3"], 0)) // dust
	// ---- prelude: with probability 1/2 the node first adopts one branch's checkpoint (its own
	// verification goes there), sees the other branch grow longer, and holds one of the two foreign
	// verifications: the other one, delivered concurrently, changes the best chain (rollback path)
	own, other := b, a
	if rng.Intn(2) == 0 && la >= 3 && lb >= 3 {
		own, other = a, b
	}
	res := &result{Seed: seed, Mode: "one"}
	delivered := map[string]bool{}
	usedVote := map[string]bool{}
	if rng.Intn(2) == 0 {
		res.Shape = "prelude+"
		for _, n := range own[:2] {
			w.processBlock("f1", n)
			delivered[n] = true
		}
		k := 3
		if len(other) < k {
			k = len(other)
		}
		for _, n := range other[:k] {
			w.processBlock("f1", n)
			delivered[n] = true
		}
		if len(other) >= 3 {
			name := fmt.Sprintf("1:G>%s", own[1])
			for _, v := range votes {
				if v.Name == name && !usedVote[name] {
					register("v1")
					w.processVote("v1", v)
					register("f1")
					usedVote[name] = true
				}
			}
		}
	}
	if res.Shape == "" && rng.Intn(2) == 0 {
		// verification messages that arrive before their target block are cached and replayed by the
		// cached-verification loop when the first block of the next epoch arrives
		res.Shape = "cached+"
		register("v1")
		for _, v := range votes {
			if (strings.HasSuffix(v.Name, ">A2") || strings.HasSuffix(v.Name, ">B2")) && !usedVote[v.Name] && rng.Intn(3) > 0 {
				w.processVote("v1", v)
				usedVote[v.Name] = true
			}
		}
		register("f1")
	}
	res.Shape += fmt.Sprintf("A%d/B%d/C%d", la, lb, len(c))
	// ---- concurrent phase
	nf, nv, ns, nr := 1+rng.Intn(3), 2+rng.Intn(2), 1+rng.Intn(2), 1+rng.Intn(2)
	feed := make([][]string, nf)
	for _, br := range [][]string{a, b, c} {
		f := rng.Intn(nf)
		var rest []string
		for _, n := range br {
			if !delivered[n] {
				rest = append(rest, n)
			}
		}
		for i := 0; i+1 < len(rest); i++ { // occasionally a child before its parent (orphan path)
			if rng.Intn(5) == 0 {
				rest[i], rest[i+1] = rest[i+1], rest[i]
			}
		}
		for _, n := range rest {
			if rng.Intn(4) == 0 {
				f = rng.Intn(nf)
			}
			feed[f] = append(feed[f], n)
		}
	}
	if len(w.order) > 0 { // a block everybody already has (answered without the finality engine)
		f := rng.Intn(nf)
		feed[f] = append(feed[f], w.order[rng.Intn(len(w.order))])
	}
	var pending []vote
	for _, v := range votes {
		if !usedVote[v.Name] {
			pending = append(pending, v)
		}
	}
	rng.Shuffle(len(pending), func(i, j int) { pending[i], pending[j] = pending[j], pending[i] })
	if strings.HasPrefix(res.Shape, "prelude+") && rng.Intn(4) > 0 {
		// usually the verification that completes the side checkpoint's majority comes early
		want := fmt.Sprintf("2:G>%s", own[1])
		for i, v := range pending {
			if v.Name == want {
				pending[0], pending[i] = pending[i], pending[0]
				break
			}
		}
	}
	vq := make([][]vote, nv)
	for i, v := range pending {
		vq[i%nv] = append(vq[i%nv], v)
	}
	var wg sync.WaitGroup
	start := make(chan struct{})
	launch := func(name string, body func(r *rand.Rand)) {
		wg.Add(1)
		r := rand.New(rand.NewSource(rng.Int63()))
		current.Store(name, "")
		go func() {
			defer wg.Done()
			register(name)
			<-start
			body(r)
		}()
	}
	for i := 0; i < nf; i++ {
		list := feed[i]
		launch(fmt.Sprintf("f%d", i+1), func(r *rand.Rand) {
			th := threadName()
			for _, n := range list {
				spin(r.Intn(200))
				w.processBlock(th, n)
			}
		})
	}
	for i := 0; i < nv; i++ {
		list := vq[i]
		launch(fmt.Sprintf("v%d", i+1), func(r *rand.Rand) {
			th := threadName()
			for _, v := range list {
				spin(r.Intn(300))
				w.processVote(th, v)
			}
		})
	}
	for i := 0; i < ns; i++ {
		i := i
		launch(fmt.Sprintf("s%d", i+1), func(r *rand.Rand) {
			th := threadName()
			for k := range w.txs {
				if k%ns == i || r.Intn(3) == 0 {
					spin(r.Intn(400))
					w.validateTx(th, w.txs[k])
				}
			}
		})
	}
	for i := 0; i < nr; i++ {
		n := 15 + rng.Intn(40)
		launch(fmt.Sprintf("r%d", i+1), func(r *rand.Rand) {
			th := threadName()
			for k := 0; k < n; k++ {
				spin(r.Intn(60))
				w.read(th, []string{"height", "final", "main"}[r.Intn(3)], r.Intn(1000))
			}
		})
	}
	close(start)
	w.finish(res, &wg, out)
}

// ---------------------------------------------------------------- directed replay of a schedule

func runDirected(schedFile, out string) {
	raw, err := ioutil.ReadFile(schedFile)
	if err != nil {
		vh.Fatal("schedule: %v", err)
	}
	var steps []schedStep
	if err := json.Unmarshal(raw, &steps); err != nil {
		vh.Fatal("schedule: %v", err)
	}
	w := open()
	register("f1")
	// the state in which one verification message changes the best chain: the node's own
	// verification and validator 1's are on checkpoint B2, branch A is longer and is the best chain
	a := w.chain("A", 1, 8, "G", 1000)
	b := w.chain("B", 1, 2, "G", 2000)
	for _, n := range []string{"B1", "B2", "A1", "A2", "A3"} {
		w.processBlock("f1", n)
	}
	_ = b
	register("v1")
	w.processVote("v1", vote{Msg: node.SignVote(1, w.hash("G"), w.hash("B2"), true)})
	if got := w.env.Chain.BestBlockHash(); *got != w.hash("A3") {
		vh.Fatal("directed set-up: best block is not A3")
	}
	changing := vote{Name: "2:G>B2", Msg: node.SignVote(2, w.hash("G"), w.hash("B2"), true)}
	plain := vote{Name: "1:G>B2", Msg: node.SignVote(1, w.hash("G"), w.hash("B2"), true)} // already admitted: no effect
	w.txs = append(w.txs, spendCoinbase(w.blocks["A3"], w.blocks["A3"].Transactions[0].Outputs[0].Amount-node.TxFee))
	// calls per thread, in schedule order
	type callT struct{ kind, arg string }
	per := map[string][]callT{}
	var order []string
	for _, s := range steps {
		if s.Pt == "begin" {
			if _, ok := per[s.Th]; !ok {
				order = append(order, s.Th)
			}
			per[s.Th] = append(per[s.Th], callT{s.Arg, ""})
		}
	}
	res := &result{Seed: 0, Mode: "directed", Shape: fmt.Sprintf("%d steps", len(steps))}
	schedMu.Lock()
	sched = steps
	schedDone = make([]bool, len(steps))
	schedPos = 0
	schedOpen = len(steps) == 0
	schedMu.Unlock()
	var wg sync.WaitGroup
	var nextBlock int32 = 3 // A4 is a[3]
	usedChanging := int32(0)
	for _, th := range order {
		th, list := th, per[th]
		wg.Add(1)
		current.Store(th, "")
		go func() {
			defer wg.Done()
			register(th)
			for k, c := range list {
				switch {
				case c.kind == "block":
					i := int(atomic.AddInt32(&nextBlock, 1)) - 1
					if i >= len(a) {
						i = len(a) - 1
					}
					w.processBlock(th, a[i])
				case c.kind == "vote:chg" && atomic.CompareAndSwapInt32(&usedChanging, 0, 1):
					w.processVote(th, changing)
				case strings.HasPrefix(c.kind, "vote"):
					w.processVote(th, plain)
				case c.kind == "tx":
					w.validateTx(th, w.txs[0])
				case strings.HasPrefix(c.kind, "read:"):
					w.read(th, c.kind[5:], k*2+1)
				}
			}
		}()
	}
	w.finish(res, &wg, out)
}

// ---------------------------------------------------------------- pool of child processes

type childOut struct {
	res    *result
	rc     int
	stderr string
	killed bool
}

func runChild(args []string, limit time.Duration) childOut {
	self, err := os.Executable()
	if err != nil {
		vh.Fatal("os.Executable: %v", err)
	}
	cmd := exec.Command(self, args...)
	cmd.Env = append(os.Environ(), "GORACE=exitcode=66 history_size=2")
	var so, se bytes.Buffer
	cmd.Stdout, cmd.Stderr = &so, &se
	if err := cmd.Start(); err != nil {
		vh.Fatal("start child: %v", err)
	}
	done := make(chan error, 1)
	go func() { done <- cmd.Wait() }()
	var o childOut
	select {
	case err = <-done:
	case <-time.After(limit):
		cmd.Process.Kill()
		err = <-done
		o.killed = true
	}
	if ee, ok := err.(*exec.ExitError); ok {
		o.rc = ee.ExitCode()
	} else if err != nil {
		o.rc = -1
	}
	sc := bufio.NewScanner(&so)
	sc.Buffer(make([]byte, 1<<20), 1<<24)
	for sc.Scan() {
		if l := sc.Text(); strings.HasPrefix(l, "RES ") {
			var r result
			if json.Unmarshal([]byte(l[4:]), &r) == nil {
				o.res = &r
			}
		} else if strings.HasPrefix(l, "VH ") { // a Fatal of the child
			fmt.Println(l)
		}
	}
	o.stderr = se.String()
	return o
}

var frameRe = regexp.MustCompile(`^  (\S+)\(`)
var entryRe = regexp.MustCompile(`\(\*?(Casper|Chain|TxPool|OrphanManage|Store|Dispatcher)\)\.`)

func shortFn(f string) string {
	if i := strings.LastIndex(f, "/"); i >= 0 {
		f = f[i+1:]
	}
	if i := strings.Index(f, "."); i >= 0 { // drop the package name
		f = f[i+1:]
	}
	// a closure or a function inlined into another one is named after the outer function:
	// (*Casper).authCachedMsg.(*treeNode).nodeByHash.func1 -> (*Casper).authCachedMsg
	if i := strings.Index(f[1:], ".(*"); i >= 0 {
		f = f[:i+1]
	}
	f = closureRe.ReplaceAllString(f, "")
	f = strings.NewReplacer("(*", "", ")", "", "(", "").Replace(f)
	return f
}

var closureRe = regexp.MustCompile(`(\.(func|gowrap)\d+)+$`)

// raceReports splits the detector's output into reports and names each by the two accesses:
// per access stack, the innermost method of one of the node's shared objects (Casper, Chain,
// TxPool, OrphanManage, Store, Dispatcher), else the innermost function of the repository,
// else the innermost frame. The two names are sorted, so the signature does not depend on which
// access the detector saw first.
func raceReports(stderr string) map[string]string {
	out := map[string]string{}
	for _, rep := range strings.Split(stderr, "WARNING: DATA RACE")[1:] {
		if i := strings.Index(rep, "=================="); i >= 0 {
			rep = rep[:i]
		}
		var names []string
		for _, stack := range strings.Split(rep, "\n\n") {
			lines := strings.Split(strings.TrimLeft(stack, "\n"), "\n")
			if len(lines) == 0 || !(strings.Contains(lines[0], " by goroutine") || strings.Contains(lines[0], " by main goroutine")) {
				continue
			}
			if !(strings.HasPrefix(lines[0], "Read") || strings.HasPrefix(lines[0], "Write") || strings.HasPrefix(lines[0], "Previous") || strings.HasPrefix(lines[0], "Atomic")) {
				continue
			}
			var frames []string
			for _, l := range lines[1:] {
				if m := frameRe.FindStringSubmatch(l); m != nil {
					frames = append(frames, m[1])
				}
			}
			pick := ""
			for _, f := range frames {
				if strings.Contains(f, "github.com/bytom/bytom/") && entryRe.MatchString(f) {
					pick = f
					break
				}
			}
			if pick == "" {
				for _, f := range frames {
					if strings.Contains(f, "github.com/bytom/bytom/") {
						pick = f
						break
					}
				}
			}
			if pick == "" && len(frames) > 0 {
				pick = frames[0]
			}
			names = append(names, shortFn(pick))
		}
		if len(names) < 2 {
			names = append(names, "?", "?")
		}
		pair := []string{names[0], names[1]}
		sort.Strings(pair)
		sig := "race:" + pair[0] + "/" + pair[1]
		if _, ok := out[sig]; !ok {
			if i := strings.Index(rep, "\nGoroutine "); i >= 0 {
				rep = rep[:i]
			}
			if len(rep) > 3000 {
				rep = rep[:3000]
			}
			out[sig] = strings.TrimSpace(rep)
		}
	}
	return out
}

func blockedSig(blocked []string) string {
	for _, op := range []string{"vote", "block", "tx", "read", "cachedloop"} {
		for _, b := range blocked {
			if strings.HasPrefix(b, op+"@") {
				return "blocked:" + op
			}
		}
	}
	return "blocked:driver"
}

func readTrace(path string) []tev {
	var evs []tev
	raw, err := ioutil.ReadFile(path)
	if err != nil {
		return nil
	}
	for _, l := range bytes.Split(raw, []byte("\n")) {
		var e tev
		if len(l) > 0 && json.Unmarshal(l, &e) == nil {
			evs = append(evs, e)
		}
	}
	return evs
}

func tail(s string, n int) string {
	if len(s) > n {
		return s[len(s)-n:]
	}
	return s
}

func runPool(n int, outdir string, par int) {
	os.MkdirAll(outdir, 0755)
	base := vh.Seed()
	limit := 3*watchdog() + 60*time.Second
	type slot struct {
		seed int64
		file string
		o    childOut
	}
	slots := make([]*slot, n)
	sem := make(chan struct{}, par)
	var wg sync.WaitGroup
	for i := 0; i < n; i++ {
		s := &slot{seed: (base*1000003 + int64(i)*7919) % 2147483629, file: filepath.Join(outdir, fmt.Sprintf("t%04d.ndjson", i))}
		if s.seed == 0 {
			s.seed = 1
		}
		slots[i] = s
		wg.Add(1)
		sem <- struct{}{}
		go func() {
			defer wg.Done()
			defer func() { <-sem }()
			s.o = runChild([]string{"one", fmt.Sprint(s.seed), s.file}, limit)
		}()
	}
	wg.Wait()
	sum := map[string]interface{}{}
	tot := map[string]int{}
	var files []string
	flaky := 0
	for _, s := range slots {
		o := s.o
		tot["workloads"]++
		for sig, rep := range raceReports(o.stderr) {
			tot["race_reports"]++
			vh.Violation(sig, "the Go race detector reports unsynchronised access to shared state while blocks, verification messages, transactions and queries are processed concurrently (workload seed "+fmt.Sprint(s.seed)+"):\n"+rep,
				map[string]interface{}{"mode": "one", "seed": s.seed, "binary": "race", "report": rep})
		}
		bad := o.res == nil || len(o.res.Blocked) > 0 || o.killed
		if bad {
			// confirm once with the same seed
			o2 := runChild([]string{"one", fmt.Sprint(s.seed), s.file + ".again"}, limit)
			switch {
			case o.res != nil && len(o.res.Blocked) > 0 && o2.res != nil && len(o2.res.Blocked) > 0:
				vh.Violation(blockedSig(o2.res.Blocked), fmt.Sprintf("calls of the node did not return within %v (workload seed %d, twice): %v; first run: %v. The node stopped making progress while blocks, verification messages, transactions and queries were processed concurrently (shape %s)",
					watchdog(), s.seed, o2.res.Blocked, o.res.Blocked, o2.res.Shape),
					map[string]interface{}{"mode": "one", "seed": s.seed, "blocked": o2.res.Blocked, "trace": readTrace(s.file + ".again")})
				tot["blocked_workloads"]++
			case o.res == nil && o2.res == nil && !o.killed && !o2.killed && !strings.Contains(o.stderr, "\"kind\":\"infra\""):
				first := ""
				for _, l := range strings.Split(o2.stderr, "\n") {
					if strings.HasPrefix(l, "panic:") || strings.HasPrefix(l, "fatal error:") {
						first = l
						break
					}
				}
				top := ""
				for _, l := range strings.Split(o2.stderr, "\n") {
					if strings.HasPrefix(l, "github.com/bytom/bytom/") {
						top = shortFn(strings.SplitN(l, "(0x", 2)[0])
						break
					}
				}
				vh.Violation("crash:"+top, fmt.Sprintf("the node process died during the concurrent workload with seed %d (twice): %s\n%s", s.seed, first, tail(o2.stderr, 2500)),
					map[string]interface{}{"mode": "one", "seed": s.seed})
				tot["crashed_workloads"]++
			default:
				flaky++
			}
			continue
		}
		files = append(files, s.file)
		tot["events"] += o.res.Events
		tot["rollback_requests"] += o.res.Rollbacks
		tot["cached_sections"] += o.res.CachedSec
		tot["caller_panics"] += len(o.res.Panics)
		for k, v := range o.res.Calls {
			tot["calls_"+k] += v
		}
	}
	for k, v := range tot {
		sum[k] = v
	}
	sum["unreproduced"] = flaky
	sum["files"] = files
	vh.Summary(sum)
}

func main() {
	vh.Quiet()
	if len(os.Args) >= 4 && os.Args[1] == "one" {
		seed, _ := strconv.ParseInt(os.Args[2], 10, 64)
		runOne(seed, os.Args[3])
		return
	}
	if len(os.Args) >= 4 && os.Args[1] == "directed" {
		runDirected(os.Args[2], os.Args[3])
		return
	}
	if len(os.Args) >= 5 && os.Args[1] == "pool" {
		n, _ := strconv.Atoi(os.Args[2])
		par, _ := strconv.Atoi(os.Args[4])
		if par < 1 {
			par = 1
		}
		runPool(n, os.Args[3], par)
		return
	}
	if len(os.Args) >= 4 && os.Args[1] == "stresschild" {
		seed, _ := strconv.ParseInt(os.Args[2], 10, 64)
		secs, _ := strconv.ParseFloat(os.Args[3], 64)
		stressChild(seed, secs)
		return
	}
	if len(os.Args) >= 4 && os.Args[1] == "stress" {
		secs, _ := strconv.ParseFloat(os.Args[2], 64)
		rounds, _ := strconv.Atoi(os.Args[3])
		runStress(secs, rounds)
		return
	}
	vh.Fatal("usage: c37 pool <n> <outdir> <par> | c37 one <seed> <trace> | c37 directed <schedule.json> <trace>")
}
