// c37 stress: sustained contention on the node's locks. A few lock windows are only a handful of
// instructions wide (a second acquisition of a read lock behind a queued writer, a lock taken in
// the other order on a rare path): the seeded workloads of `pool` issue too few calls to land in
// them, so this mode keeps every kind of caller busy for a fixed time and watches progress
// (NodeLocks!Progress: every call returns).
//
//	c37 stress <seconds> <rounds>
//
// A round that stops making progress is repeated with a fresh node for three times as long; only a
// stall seen twice is reported.
package main

import (
	"fmt"
	"math/rand"
	"os"
	"os/exec"
	"strconv"
	"strings"
	"sync"
	"sync/atomic"
	"time"

	"github.com/bytom/bytom/protocol/casper"

	"verifharness/internal/vh"
)

// stressChild runs one round in this process and prints "STRESS ok <ops>" or "STRESS blocked <who>".
func stressChild(seed int64, secs float64) {
	rng := rand.New(rand.NewSource(seed))
	w := open()
	casper.VerifTrace = nil // no event trace in this mode: only progress is observed
	register("f1")
	a := w.chain("A", 1, 5, "G", uint64(seed)*131+1000)
	b := w.chain("B", 1, 6, "G", uint64(seed)*131+2000)
	for _, n := range a[:3] {
		w.env.Chain.ProcessBlock(w.blocks[n])
	}
	for _, n := range []string{"A3"} {
		blk := w.blocks[n]
		amt := blk.Transactions[0].Outputs[0].Amount
		w.txs = append(w.txs, spendCoinbase(blk, amt-1000000), spendCoinbase(blk, amt+1), spendCoinbase(blk, amt+2), spendCoinbase(blk, 0))
	}
	var ops int64
	inCall := sync.Map{} // goroutine name -> operation it is in
	stop := make(chan struct{})
	var wg sync.WaitGroup
	launch := func(name string, body func(r *rand.Rand)) {
		wg.Add(1)
		r := rand.New(rand.NewSource(rng.Int63()))
		go func() {
			defer wg.Done()
			for {
				select {
				case <-stop:
					return
				default:
				}
				body(r)
			}
		}()
	}
	call := func(name, op string, f func()) {
		inCall.Store(name, op)
		f()
		inCall.Store(name, "")
		atomic.AddInt64(&ops, 1)
	}
	pool := w.env.Chain.GetTxPool()
	for i := 0; i < 6; i++ {
		name := fmt.Sprintf("s%d", i+1)
		launch(name, func(r *rand.Rand) {
			tx := w.txs[r.Intn(len(w.txs))]
			call(name, "ValidateTx", func() { w.env.Chain.ValidateTx(tx) })
		})
	}
	for i := 0; i < 2; i++ {
		name := fmt.Sprintf("q%d", i+1)
		launch(name, func(r *rand.Rand) {
			tx := w.txs[r.Intn(len(w.txs))]
			switch r.Intn(4) {
			case 0:
				call(name, "GetTransactions", func() { pool.GetTransactions() })
			case 1:
				call(name, "IsTransactionInPool", func() { pool.IsTransactionInPool(&tx.ID) })
			case 2:
				call(name, "HaveTransaction", func() { pool.HaveTransaction(&tx.ID) })
			default:
				call(name, "BestBlockHeight", func() { w.env.Chain.BestBlockHeight() })
			}
		})
	}
	// one feeder walks the node back and forth between the two branches' blocks (known blocks are answered at
	// once, new ones reorganise the chain and move pool transactions), one reader asks the finality engine
	feed := append(append([]string{}, a[3:]...), b...)
	fi := 0
	launch("f1", func(r *rand.Rand) {
		n := feed[fi%len(feed)]
		fi++
		call("f1", "ProcessBlock", func() { w.env.Chain.ProcessBlock(w.blocks[n]) })
		time.Sleep(time.Millisecond)
	})
	launch("r1", func(r *rand.Rand) {
		call("r1", "LastFinalizedHeader", func() { w.env.Chain.LastFinalizedHeader() })
		time.Sleep(200 * time.Microsecond)
	})
	deadline := time.Now().Add(time.Duration(secs * float64(time.Second)))
	last, lastChange := int64(-1), time.Now()
	for time.Now().Before(deadline) {
		time.Sleep(250 * time.Millisecond)
		if n := atomic.LoadInt64(&ops); n != last {
			last, lastChange = n, time.Now()
		} else if time.Since(lastChange) > 8*time.Second {
			var who []string
			inCall.Range(func(k, v interface{}) bool {
				if v.(string) != "" {
					who = append(who, k.(string)+":"+v.(string))
				}
				return true
			})
			fmt.Printf("STRESS blocked %d %s\n", last, strings.Join(who, ","))
			os.Exit(0)
		}
	}
	close(stop)
	done := make(chan struct{})
	go func() { wg.Wait(); close(done) }()
	select {
	case <-done:
		fmt.Printf("STRESS ok %d\n", atomic.LoadInt64(&ops))
	case <-time.After(20 * time.Second):
		var who []string
		inCall.Range(func(k, v interface{}) bool {
			if v.(string) != "" {
				who = append(who, k.(string)+":"+v.(string))
			}
			return true
		})
		fmt.Printf("STRESS blocked %d %s\n", atomic.LoadInt64(&ops), strings.Join(who, ","))
	}
	os.Exit(0)
}

func stressRound(seed int64, secs float64) (blocked bool, ops int64, who string, raw string) {
	cmd := exec.Command(os.Args[0], "stresschild", strconv.FormatInt(seed, 10), fmt.Sprint(secs))
	cmd.Env = os.Environ()
	out, _ := cmd.CombinedOutput()
	for _, l := range strings.Split(string(out), "\n") {
		f := strings.Fields(l)
		if len(f) >= 3 && f[0] == "STRESS" {
			ops, _ = strconv.ParseInt(f[2], 10, 64)
			if f[1] == "blocked" {
				if len(f) > 3 {
					who = f[3]
				}
				return true, ops, who, ""
			}
			return false, ops, "", ""
		}
	}
	return false, -1, "", tail(string(out), 1500)
}

func runStress(secs float64, rounds int) {
	total := int64(0)
	stalled, unconfirmed := 0, 0
	for k := 0; k < rounds; k++ {
		seed := vh.Seed()*977 + int64(k)
		blocked, ops, who, raw := stressRound(seed, secs)
		if ops < 0 {
			vh.Fatal("stress round died: %s", raw)
		}
		total += ops
		if !blocked {
			continue
		}
		stalled++
		b2, ops2, who2, raw2 := stressRound(seed+500, 3*secs)
		if ops2 < 0 {
			vh.Fatal("stress confirmation round died: %s", raw2)
		}
		if !b2 {
			unconfirmed++
			continue
		}
		stuck := map[string]bool{}
		for _, w := range strings.Split(who+","+who2, ",") {
			if i := strings.Index(w, ":"); i >= 0 {
				stuck[w[i+1:]] = true
			}
		}
		var names []string
		for o := range stuck {
			names = append(names, o)
		}
		sortStrings(names)
		vh.Violation("C37:stress:blocked:"+strings.Join(names, "+"),
			fmt.Sprintf("sustained concurrent calls (6 submitters, 2 pool readers, 1 block feeder, 1 finality reader): no call returned for 8 s after %d completed calls, callers stuck in %s; a second run with a fresh node stalled too (after %d calls, in %s)", ops, who, ops2, who2),
			map[string]interface{}{"engine": "c37-stress", "seed": seed, "seconds": secs})
		break
	}
	vh.Summary(map[string]interface{}{"stress_rounds": rounds, "stress_calls": total, "stress_stalls_seen_once_only": unconfirmed, "stress_stalls": stalled})
}

func sortStrings(s []string) {
	for i := 1; i < len(s); i++ {
		for j := i; j > 0 && s[j] < s[j-1]; j-- {
			s[j], s[j-1] = s[j-1], s[j]
		}
	}
}
