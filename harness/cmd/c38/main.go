// c38: the proposer under gas-heavy, batched, chained and conflicting pools (second part of C38).
//
// Pools come from specs/chain/ProposerGen.tla (one exported case per pool shape). For every case a
// real node (validator 1 of 2) is brought to height 23/24 on the funding prefix, a real fan-out
// transaction in block 23 turns six matured reward coins into OP_TRUE outputs (the coins -1, -2 ...
// of the model), the pool is loaded through Chain.ValidateTx in the model's arrival order with real
// transactions (heavy = one spend whose serialized size, hence storage gas, is about 293,000; small =
// a plain spend; children spend output 0 of their pool parent; conflicting ones spend the same coin),
// then proposal.NewBlockTemplate builds and signs a block for the node's slot and ProcessBlock is
// given that block. The driver does not judge: it records the template as model ids, what
// ProcessBlock answered and whether the block became the best block; specs/chain/ProposerJudge.tla
// evaluates the property-level predicate on every record (checks/c38_lib.py).
//
//	c38 heavy <tlc-output> <workers> [stride]
package main

import (
	"encoding/json"
	"fmt"
	"os"
	"strconv"
	"time"

	"github.com/bytom/bytom/consensus"
	"github.com/bytom/bytom/proposal"
	"github.com/bytom/bytom/protocol/bc"
	"github.com/bytom/bytom/protocol/bc/types"
	"github.com/bytom/bytom/protocol/validation"

	"verifharness/internal/memkv"
	"verifharness/internal/node"
	"verifharness/internal/vh"
)

type ptx struct {
	ID        int    `json:"id"`
	W         string `json:"w"`
	In        int    `json:"in"`
	Parent    int    `json:"parent"`
	Conflicts int    `json:"conflicts"`
	Batch     int    `json:"batch"`
}

type caseDoc struct {
	Pool        []ptx `json:"pool"`
	Budget      int   `json:"budget"`
	BatchN      int   `json:"batchn"`
	NHeavy      int   `json:"nheavy"`
	FirstUnfit  int   `json:"firstunfit"`
	Greedy      []int `json:"greedy"`
	Related     []int `json:"related"`
	CrossBatch  []int `json:"crossbatch"`
	ParentUnfit []int `json:"parentunfit"`
	HasConflict bool  `json:"hasconflict"`
}

// Concretisation of the gas scale (specs/chain/Proposer.tla): a heavy transaction is one unit.
const (
	heavyMin   = 285715 // 35 heavy transactions never fit: 35 * heavyMin > MaxBlockGas
	heavyMax   = 293976 // 34 always fit next to all small ones: 34 * heavyMax + smallSum <= MaxBlockGas
	smallSum   = 4800
	heavyFee   = 59000000 // 295,000 gas available
	smallFee   = 400000   // 2,000 gas available
	normalCoin = 59500000 // a fan-out output that funds one heavy transaction and small descendants
	bigCoin    = 179000000
	nNormal    = 50
	nBig       = 2
	fanHeight  = 23
)

type coin struct {
	sourceID bc.Hash
	pos      uint64
	amount   uint64
}

func outCoin(tx *types.Tx, pos int) coin {
	id := *tx.ResultIds[pos]
	o := tx.Entries[id].(*bc.OriginalOutput)
	return coin{sourceID: *o.Source.Ref, pos: o.Source.Position, amount: tx.Outputs[pos].Amount}
}

func spendOf(c coin) *types.TxInput {
	return types.NewSpendInput(nil, c.sourceID, *consensus.BTMAssetID, c.amount, c.pos, node.TrueProg, nil)
}

var blob = func() []byte {
	b := make([]byte, 300000)
	for i := range b {
		b[i] = byte(0xA0 + i%7)
	}
	return b
}()

type txKey struct {
	c     coin // source (mux) id, position AND amount: different parents spending one coin share the mux id
	heavy bool
	salt  int
	size  int
}

var txCache = map[txKey]*types.Tx{}

// mkTx spends c into output 0 (OP_TRUE, the model's coin of this transaction); a heavy one carries a
// second OP_TRUE output of 1 unit whose state data pads the transaction to `size` serialized bytes.
func mkTx(c coin, heavy bool, salt, size int) *types.Tx {
	k := txKey{c, heavy, salt, size}
	if t, ok := txCache[k]; ok {
		return t
	}
	fee := uint64(smallFee + salt)
	if heavy {
		fee = uint64(heavyFee + salt)
	}
	build := func(pad int) *types.Tx {
		d := types.TxData{Version: 1, Inputs: []*types.TxInput{spendOf(c)}}
		if heavy {
			d.Outputs = []*types.TxOutput{
				types.NewOriginalTxOutput(*consensus.BTMAssetID, c.amount-fee-1, node.TrueProg, nil),
				types.NewOriginalTxOutput(*consensus.BTMAssetID, 1, node.TrueProg, [][]byte{blob[:pad]}),
			}
		} else {
			d.Outputs = []*types.TxOutput{types.NewOriginalTxOutput(*consensus.BTMAssetID, c.amount-fee, node.TrueProg, nil)}
		}
		return node.FinishTx(&d)
	}
	if c.amount <= fee+1 {
		vh.Fatal("concretisation: coin of %d cannot fund a transaction with fee %d", c.amount, fee)
	}
	tx := build(0)
	if heavy {
		pad := size - int(tx.SerializedSize) - 3 // the length prefix grows by 3 bytes
		tx = build(pad)
		for tries := 0; int(tx.SerializedSize) != size && tries < 4; tries++ {
			pad += size - int(tx.SerializedSize)
			tx = build(pad)
		}
	}
	txCache[k] = tx
	return tx
}

type record struct {
	Rec      int    `json:"rec"`
	Case     int    `json:"case"`
	Mode     string `json:"mode"`
	Height   uint64 `json:"height"`
	Pool     []ptx  `json:"pool"`
	Gas      []int  `json:"gas"`
	Template []int  `json:"template"`
	Built    bool   `json:"built"`
	Accepted bool   `json:"accepted"`
	Best     bool   `json:"best"`
	Orphan   bool   `json:"orphan"`
	Blocked  bool   `json:"blocked"`
	Err      string `json:"err"`
	PoolLeft int    `json:"poolleft"`
}

func runCase(idx int, d caseDoc) record {
	rec := record{Rec: 1, Case: idx, Pool: d.Pool, Template: []int{}, Gas: []int{}}
	node.ConfigureLedgerAs(2, 1) // validator 1 of 2: the node proposes in its own slots
	env, err := node.Open(memkv.New())
	if err != nil {
		vh.Fatal("cannot open a fresh node: %v", err)
	}
	w := node.NewWorld(env)
	m := node.BuildMenu(w)
	deliver := func(b *types.Block) {
		if orphan, err, blocked := w.Process(node.CopyBlock(b, nil), 60*time.Second); err != nil || orphan || blocked {
			vh.Fatal("scenario block %d not accepted: orphan=%v err=%v blocked=%v", b.Height, orphan, err, blocked)
		}
	}
	for _, b := range m.Prefix {
		deliver(b)
	}
	tip := m.Prefix[len(m.Prefix)-1]
	w.Blocks[0] = tip
	w.IDOf = map[bc.Hash]int{tip.Hash(): 0}

	// the fan-out: reward coins of heights 3..13 (mature at 23) -> nNormal + nBig OP_TRUE outputs
	var fd types.TxData
	fd.Version = 1
	var total uint64
	for h := 3; h <= 13; h += 2 {
		c := outCoin(m.Prefix[h-1].Transactions[0], 0)
		fd.Inputs = append(fd.Inputs, spendOf(c))
		total += c.amount
	}
	var paid uint64
	for i := 0; i < nNormal+nBig; i++ {
		amt := uint64(normalCoin)
		if i >= nNormal {
			amt = bigCoin
		}
		fd.Outputs = append(fd.Outputs, types.NewOriginalTxOutput(*consensus.BTMAssetID, amt, node.TrueProg, nil))
		paid += amt
	}
	if paid >= total {
		vh.Fatal("concretisation: the reward coins (%d) do not fund the fan-out (%d)", total, paid)
	}
	fan := node.FinishTx(&fd)
	fanFee := total - paid

	id := 0
	for h := uint64(node.PrefixLen + 1); h <= fanHeight; h++ {
		id++
		var txs []*types.Tx
		if h == fanHeight {
			txs = []*types.Tx{fan}
		}
		if !w.Mint(id, id-1, 0, func(r *node.BlockReq) { r.Txs = txs }) {
			vh.Fatal("cannot mint block %d", h)
		}
		deliver(w.Blocks[id])
	}
	rec.Mode = "mid-epoch"
	if (idx+int(vh.Seed()))%2 == 1 {
		// one more empty block: the node's block then opens an epoch and pays the rewards (with the fan-out's fee)
		id++
		if !w.Mint(id, id-1, 0, nil) {
			vh.Fatal("cannot mint block %d", fanHeight+1)
		}
		deliver(w.Blocks[id])
		rec.Mode = "pays-rewards"
	}
	_ = fanFee
	parent := w.Blocks[id]

	// the pool, in the model's arrival order
	n := len(d.Pool)
	need := make([]uint64, n+1) // what the coin spent by transaction i must hold at least
	for i := n; i >= 1; i-- {
		p := d.Pool[i-1]
		f := uint64(smallFee + i)
		if p.W == "heavy" {
			f = uint64(heavyFee+i) + 1
		}
		var kids uint64
		for j := i + 1; j <= n; j++ {
			if d.Pool[j-1].In == i && need[j] > kids {
				kids = need[j]
			}
		}
		need[i] = f + kids + 1
	}
	coins := map[int]coin{} // model coin (negative: ledger of the best block) -> fan-out output
	nextBig := nNormal
	for i := 1; i <= n; i++ {
		p := d.Pool[i-1]
		if p.In >= 0 {
			continue
		}
		var want uint64
		for j := 1; j <= n; j++ {
			if d.Pool[j-1].In == p.In && need[j] > want {
				want = need[j]
			}
		}
		if _, ok := coins[p.In]; ok {
			continue
		}
		k := -p.In - 1
		if want > normalCoin || k >= nNormal {
			if nextBig >= nNormal+nBig || want > bigCoin {
				vh.Fatal("concretisation: no fan-out output can fund coin %d (needs %d)", p.In, want)
			}
			k = nextBig
			nextBig++
		}
		coins[p.In] = outCoin(fan, k)
	}
	txs := make([]*types.Tx, n+1)
	idOf := map[bc.Hash]int{}
	bh := env.Chain.BestBlockHeader()
	ctx := types.MapBlock(&types.Block{BlockHeader: *bh})
	small := 0
	for i := 1; i <= n; i++ {
		p := d.Pool[i-1]
		var c coin
		if p.In < 0 {
			c = coins[p.In]
		} else {
			c = outCoin(txs[p.In], 0)
		}
		size := heavyMin + 7200 + int((vh.Seed()*31+int64(i)*17)%1000) // 292,915 .. 293,914 bytes of storage gas + a few VM steps
		if p.W != "heavy" {
			size = 0
		}
		tx := mkTx(c, p.W == "heavy", i, size)
		txs[i] = tx
		if _, dup := idOf[tx.ID]; dup {
			vh.Fatal("concretisation: transactions %d and %d are the same transaction", idOf[tx.ID], i)
		}
		idOf[tx.ID] = i
		gs, err := validation.ValidateTx(tx.Tx, ctx, env.Chain.ProgramConverter)
		if err != nil {
			vh.Fatal("concretisation: pool transaction %d (%s) is not valid on its own: %v", i, p.W, err)
		}
		g := int(gs.GasUsed)
		rec.Gas = append(rec.Gas, g)
		if p.W == "heavy" && (g < heavyMin || g > heavyMax) {
			vh.Fatal("concretisation: heavy transaction %d uses %d gas, outside [%d, %d]", i, g, heavyMin, heavyMax)
		}
		if p.W != "heavy" {
			small += g
		}
	}
	if small > smallSum {
		vh.Fatal("concretisation: the small transactions use %d gas together (> %d)", small, smallSum)
	}
	for i := 1; i <= n; i++ {
		orphan, err := env.Chain.ValidateTx(txs[i])
		if err != nil || orphan {
			vh.Fatal("the mempool did not admit pool transaction %d (%s, spends %d): orphan=%v err=%v", i, d.Pool[i-1].W, d.Pool[i-1].In, orphan, err)
		}
		time.Sleep(20 * time.Microsecond) // the proposer orders by arrival time
	}
	descs := env.Pool.GetTransactions()
	if len(descs) != n {
		vh.Fatal("the mempool holds %d of the %d pool transactions", len(descs), n)
	}
	added := make([]time.Time, n+1)
	for _, td := range descs {
		added[idOf[td.Tx.ID]] = td.Added
	}
	for i := 2; i <= n; i++ {
		if !added[i-1].Before(added[i]) {
			vh.Fatal("arrival times of pool transactions %d and %d are not increasing", i-1, i)
		}
	}

	// the node builds and signs a block for its own slot; the block is fed back
	rec.Height = parent.Height + 1
	ts := w.F.SlotTime(parent, 1, 2)
	var blk *types.Block
	var perr error
	var pan interface{}
	func() {
		defer func() { pan = recover() }()
		blk, perr = proposal.NewBlockTemplate(env.Chain, nil, nil, ts, time.Hour, 2*time.Hour)
	}()
	if pan != nil || perr != nil || blk == nil {
		rec.Err = fmt.Sprintf("NewBlockTemplate failed: err=%v panic=%v", perr, pan)
		return rec
	}
	rec.Built = true
	for _, tx := range blk.Transactions[1:] {
		rec.Template = append(rec.Template, idOf[tx.ID]) // 0 = not a pool transaction
	}
	orphan, err, blocked := w.Process(node.CopyBlock(blk, nil), 120*time.Second)
	rec.Orphan = orphan
	rec.Blocked = blocked
	if blocked {
		rec.Err = "ProcessBlock did not return within 120s"
	} else if err != nil {
		rec.Err = err.Error()
	}
	rec.Accepted = !blocked && err == nil && !orphan
	if bhh := env.Chain.BestBlockHash(); *bhh == blk.Hash() {
		rec.Best = true
	}
	rec.PoolLeft = len(env.Pool.GetTransactions())
	return rec
}

func loadCase(path string, want int) (d caseDoc, ok bool) {
	vh.EachExportIf(path, func(idx int) bool { return idx == want }, func(idx int, raw []byte) error {
		ok = json.Unmarshal(raw, &d) == nil
		return nil
	})
	return
}

func main() {
	vh.Quiet()
	if ok, i, n, from, only, args := vh.IsWorker(); ok {
		stride := 1
		if len(args) > 1 {
			stride, _ = strconv.Atoi(args[1])
		}
		if stride < 1 {
			stride = 1
		}
		cases, txs := 0, 0
		want := func(idx int) bool {
			if stride > 1 && idx%stride != int(vh.Seed())%stride {
				return false
			}
			return vh.Mine(idx/stride, i, n, from, only)
		}
		_, err := vh.EachExportIf(args[0], want, func(idx int, raw []byte) error {
			var d caseDoc
			if err := json.Unmarshal(raw, &d); err != nil {
				return err
			}
			vh.Cur(idx / stride)
			cases++
			txs += len(d.Pool)
			r := runCase(idx, d)
			vh.Sample(r)
			return nil
		})
		if err != nil {
			vh.Fatal("worker: %v", err)
		}
		vh.Summary(map[string]interface{}{"partial": true, "cases": cases, "calls": txs})
		return
	}
	if len(os.Args) < 4 || os.Args[1] != "heavy" {
		vh.Fatal("usage: c38 heavy <tlc-output> <workers> [stride]")
	}
	nw, _ := strconv.Atoi(os.Args[3])
	if nw > 8 {
		nw = 8 // every case holds ~10 MB of transactions and validates them on all cores
	}
	stride := "1"
	if len(os.Args) > 4 {
		stride = os.Args[4]
	}
	st, _ := strconv.Atoi(stride)
	if st < 1 {
		st = 1
	}
	flaky := vh.RunPool(nw, []string{os.Args[2], stride}, func(idx int, tail string) {
		d, _ := loadCase(os.Args[2], idx*st+int(vh.Seed())%st)
		vh.Violation("C38:proposer:panic:heavy", fmt.Sprintf("the node process died while building or processing its own block for a gas-heavy pool:\n%s", tail),
			map[string]interface{}{"engine": "c38", "pool": d.Pool, "prop": "C38"})
	})
	vh.Summary(map[string]interface{}{"partial": true, "unreproducible_worker_deaths": flaky})
}
