// c39: replays TLC-generated call sequences of specs/periph/EventSeq.tla against
// the real event.Dispatcher and compares every call's result and the observable
// state (channel length, Closed()) with what the specification predicts.
//
//	c39 seq <exports> <scale>
package main

import (
	"encoding/json"
	"fmt"
	"math/rand"
	"os"
	"runtime"
	"sort"
	"strconv"
	"sync"
	"sync/atomic"
	"time"

	"github.com/bytom/bytom/event"

	"verifharness/internal/vh"
)

type evA struct{ ID, K int }
type evB struct{ ID, K int }

type call struct {
	Op  string   `json:"op"`
	S   string   `json:"s"`
	Ts  []string `json:"ts"`
	T   string   `json:"t"`
	Ev  int      `json:"ev"`
	Err string   `json:"err"`
	R   string   `json:"r"`
}
type step struct {
	Call call `json:"call"`
	Obs  struct {
		Q map[string]int  `json:"q"`
		C map[string]bool `json:"c"`
	} `json:"obs"`
}

func mk(t string, id, k int) interface{} {
	if t == "A" {
		return evA{id, k}
	}
	return evB{id, k}
}
func idOf(d interface{}) (int, int) {
	switch v := d.(type) {
	case evA:
		return v.ID, v.K
	case evB:
		return v.ID, v.K
	}
	return -1, -1
}

// within runs f and reports whether it returned before the watchdog fired.
func within(d time.Duration, f func()) bool {
	done := make(chan struct{})
	go func() { f(); close(done) }()
	select {
	case <-done:
		return true
	case <-time.After(d):
		return false
	}
}

func replay(steps []step, scale int) (int, string) {
	d := event.NewDispatcher()
	subs := map[string]*event.Subscription{}
	for i, st := range steps {
		c := st.Call
		var msg string
		ok := within(5*time.Second, func() {
			switch c.Op {
			case "subscribe":
				var ts []interface{}
				for _, t := range c.Ts {
					ts = append(ts, mk(t, 0, 0))
				}
				s, err := d.Subscribe(ts...)
				if err != nil || s == nil {
					msg = fmt.Sprintf("Subscribe returned error %v", err)
					return
				}
				subs[c.S] = s
			case "post":
				for k := 0; k < scale; k++ {
					err := d.Post(mk(c.T, c.Ev, k))
					got := "nil"
					if err == event.ErrMuxClosed {
						got = "closed"
					} else if err != nil {
						got = "other:" + err.Error()
					}
					if got != c.Err {
						msg = fmt.Sprintf("Post(ev %d) returned %s, specification says %s", c.Ev, got, c.Err)
						return
					}
				}
			case "unsubscribe":
				subs[c.S].Unsubscribe()
			case "stop":
				d.Stop()
			case "recv":
				for k := 0; k < scale; k++ {
					got, id, kk := "empty", 0, 0
					select {
					case e, open := <-subs[c.S].Chan():
						if !open {
							got = "closed"
						} else {
							got = "ev"
							id, kk = idOf(e.Data)
						}
					default:
					}
					if got != c.R || (got == "ev" && (id != c.Ev || kk != k)) {
						msg = fmt.Sprintf("receive on %s gave %s(ev %d.%d), specification says %s(ev %d.%d)", c.S, got, id, kk, c.R, c.Ev, k)
						return
					}
					if got != "ev" {
						break
					}
				}
			}
		})
		if !ok {
			return i, fmt.Sprintf("call %s did not return within the watchdog (blocked)", c.Op)
		}
		if msg != "" {
			return i, msg
		}
		for name, s := range subs {
			if l := len(s.Chan()); l != st.Obs.Q[name]*scale {
				return i, fmt.Sprintf("after %s: subscriber %s holds %d undelivered events, specification says %d", c.Op, name, l, st.Obs.Q[name]*scale)
			}
			if cl := s.Closed(); cl != st.Obs.C[name] {
				return i, fmt.Sprintf("after %s: subscriber %s Closed()=%v, specification says %v", c.Op, name, cl, st.Obs.C[name])
			}
		}
	}
	return -1, ""
}

// ---------------------------------------------------------------- concurrent

type tev struct {
	Seq int64    `json:"seq"`
	Th  string   `json:"th"`
	Ev  string   `json:"ev"`
	Op  string   `json:"op"`
	T   string   `json:"t"`
	ID  int      `json:"id"`
	S   string   `json:"s"`
	Err string   `json:"err"`
	R   string   `json:"r"`
	Ts  []string `json:"ts"`
}

// conc runs one randomised concurrent workload and returns its event log ordered
// by the atomic sequence counter. ok=false when a call did not return (watchdog).
func conc(rng *rand.Rand) (log []tev, blocked string) {
	var seq int64
	var mu sync.Mutex
	emit := func(e tev) {
		// the counter is read before a call starts and after it returned, so the
		// order of sequence numbers is consistent with real time
		e.Seq = atomic.AddInt64(&seq, 1)
		if e.Ts == nil {
			e.Ts = []string{}
		}
		mu.Lock()
		log = append(log, e)
		mu.Unlock()
	}
	d := event.NewDispatcher()
	nsub := 1 + rng.Intn(3)
	names := []string{"s1", "s2", "s3"}[:nsub]
	subs := map[string]*event.Subscription{}
	for _, n := range names {
		ts := [][]string{{"A"}, {"B"}, {"A", "B"}}[rng.Intn(3)]
		var its []interface{}
		for _, t := range ts {
			its = append(its, mk(t, 0, 0))
		}
		s, err := d.Subscribe(its...)
		if err != nil {
			vh.Fatal("subscribe: %v", err)
		}
		subs[n] = s
		emit(tev{Ev: "subscribe", S: n, Ts: ts})
	}
	var wg, rd sync.WaitGroup
	for _, n := range names { // readers: blocking receives until the channel closes
		rd.Add(1)
		go func(n string, s *event.Subscription) {
			defer rd.Done()
			for e := range s.Chan() {
				id, _ := idOf(e.Data)
				emit(tev{Ev: "recv", S: n, R: "ev", ID: id})
			}
			emit(tev{Ev: "recv", S: n, R: "closed"})
		}(n, subs[n])
	}
	nposter := 1 + rng.Intn(3)
	for p := 0; p < nposter; p++ {
		wg.Add(1)
		th := fmt.Sprintf("c%d", p+1)
		n := 1 + rng.Intn(4)
		tys := make([]string, n)
		for i := range tys {
			tys[i] = []string{"A", "B"}[rng.Intn(2)]
		}
		go func(p int, th string) {
			defer wg.Done()
			for i, t := range tys {
				id := (p+1)*1000 + i + 1
				emit(tev{Th: th, Ev: "begin", Op: "post", T: t, ID: id})
				err := d.Post(mk(t, id, 0))
				r := "nil"
				if err == event.ErrMuxClosed {
					r = "closed"
				} else if err != nil {
					r = "other"
				}
				emit(tev{Th: th, Ev: "end", Op: "post", T: t, ID: id, Err: r})
				if i%2 == 0 {
					runtime.Gosched()
				}
			}
		}(p, th)
	}
	for i, n := range names { // unsubscribers
		if rng.Intn(2) == 0 {
			continue
		}
		wg.Add(1)
		spin := rng.Intn(2000)
		go func(th, n string) {
			defer wg.Done()
			for k := 0; k < spin; k++ {
				runtime.Gosched()
			}
			emit(tev{Th: th, Ev: "begin", Op: "unsub", S: n})
			subs[n].Unsubscribe()
			emit(tev{Th: th, Ev: "end", Op: "unsub", S: n})
		}(fmt.Sprintf("u%d", i+1), n)
	}
	early := rng.Intn(3) == 0
	stop := func() {
		emit(tev{Th: "stopper", Ev: "begin", Op: "stop"})
		d.Stop()
		emit(tev{Th: "stopper", Ev: "end", Op: "stop"})
	}
	if early {
		wg.Add(1)
		spin := rng.Intn(2000)
		go func() {
			defer wg.Done()
			for k := 0; k < spin; k++ {
				runtime.Gosched()
			}
			stop()
		}()
	}
	if !within(5*time.Second, wg.Wait) {
		return log, "a Post/Unsubscribe/Stop call did not return within 20s"
	}
	if !early {
		if !within(5*time.Second, stop) {
			return log, "Stop did not return within 20s"
		}
	}
	if !within(5*time.Second, rd.Wait) {
		return log, "a subscriber channel was not closed after Stop"
	}
	sort.Slice(log, func(i, j int) bool { return log[i].Seq < log[j].Seq })
	return log, ""
}

func mainConc() {
	n, _ := strconv.Atoi(os.Args[2])
	rng := rand.New(rand.NewSource(vh.Seed()))
	f, err := os.Create(os.Args[3])
	if err != nil {
		vh.Fatal("%v", err)
	}
	w := json.NewEncoder(f)
	events := 0
	for i := 0; i < n && !vh.TooMany(); i++ {
		log, blocked := conc(rng)
		if blocked != "" {
			vh.Violation("conc:blocked", blocked, map[string]interface{}{"mode": "conc", "trace": log})
			continue
		}
		w.Encode(tev{Ev: "reset", ID: i, Ts: []string{}})
		for _, e := range log {
			w.Encode(e)
		}
		events += len(log) + 1
		if i == 0 {
			vh.Sample(log)
		}
	}
	f.Close()
	vh.Summary(map[string]interface{}{"traces": n, "events": events})
}

func main() {
	vh.Quiet()
	if len(os.Args) >= 4 && os.Args[1] == "conc" {
		mainConc()
		return
	}
	if len(os.Args) >= 4 && os.Args[1] == "storm" {
		mainStorm()
		return
	}
	if len(os.Args) < 4 || os.Args[1] != "seq" {
		vh.Fatal("usage: c39 seq <exports> <scale> | c39 conc <n> <out>")
	}
	scale, _ := strconv.Atoi(os.Args[3])
	cases, steps := 0, 0
	shapes := map[string]bool{}
	n, err := vh.EachExport(os.Args[2], func(idx int, doc []byte) error {
		var st []step
		if err := json.Unmarshal(doc, &st); err != nil {
			return err
		}
		if vh.TooMany() {
			return nil
		}
		cases++
		steps += len(st)
		sh := ""
		for _, s := range st {
			sh += s.Call.Op[:2] + s.Call.S + s.Call.T + s.Call.R + s.Call.Err + ","
		}
		shapes[sh] = true
		if at, msg := replay(st, scale); msg != "" {
			vh.Violation("seq:"+st[at].Call.Op, msg, map[string]interface{}{"mode": "seq", "scale": scale, "steps": st, "diverges_at": at})
		}
		if idx%20000 == 7 && len(st) > 3 {
			vh.Sample(st)
		}
		return nil
	})
	if err != nil {
		vh.Fatal("reading exports: %v (after %d)", err, n)
	}
	vh.Summary(map[string]interface{}{"cases": cases, "steps": steps, "distinct": len(shapes), "scale": scale})
}
