// c39 storm: long concurrent runs of the real dispatcher for EventStorm.tla - many subscribers of
// one event type, posters posting continuously, subscribers from the middle of the list
// unsubscribing meanwhile. Writes one record per run: what every poster posted (in order) and
// what every subscriber received (in order).
//
//	c39 storm <runs> <out.ndjson>
package main

import (
	"encoding/json"
	"fmt"
	"math/rand"
	"os"
	"runtime"
	"strconv"
	"sync"
	"time"

	"github.com/bytom/bytom/event"

	"verifharness/internal/vh"
)

type stormSub struct {
	IDs    []int `json:"ids"`
	Stable bool  `json:"stable"`
}
type stormRun struct {
	Posted [][]int    `json:"posted"`
	Subs   []stormSub `json:"subs"`
}

func storm(rng *rand.Rand) (stormRun, string) {
	d := event.NewDispatcher()
	nsub := 6 + rng.Intn(6)
	subs := make([]*event.Subscription, nsub)
	for i := range subs {
		s, err := d.Subscribe(mk("A", 0, 0))
		if err != nil {
			vh.Fatal("subscribe: %v", err)
		}
		subs[i] = s
	}
	// leavers: subscribers from the front and the middle of the list (never the last one)
	leaver := map[int]bool{}
	for k := 0; k < 2+rng.Intn(3); k++ {
		leaver[rng.Intn(nsub-1)] = true
	}
	time.Sleep(time.Millisecond) // subscriptions are older than every event (staleness filter)
	nposter := 2 + rng.Intn(2)
	nposts := 30 + rng.Intn(30)
	run := stormRun{Posted: make([][]int, nposter), Subs: make([]stormSub, nsub)}
	var wg sync.WaitGroup
	start := make(chan struct{})
	for p := 0; p < nposter; p++ {
		for i := 0; i < nposts; i++ {
			run.Posted[p] = append(run.Posted[p], (p+1)*100000+i+1)
		}
		wg.Add(1)
		go func(p int) {
			defer wg.Done()
			<-start
			for _, id := range run.Posted[p] {
				d.Post(mk("A", id, 0))
			}
		}(p)
	}
	for i := range subs {
		if !leaver[i] {
			continue
		}
		wg.Add(1)
		spin := rng.Intn(400)
		go func(i int) {
			defer wg.Done()
			<-start
			for k := 0; k < spin; k++ {
				runtime.Gosched()
			}
			subs[i].Unsubscribe()
		}(i)
	}
	close(start)
	if !within(10*time.Second, wg.Wait) {
		return run, "a Post or Unsubscribe call did not return within 10s"
	}
	if !within(10*time.Second, d.Stop) {
		return run, "Stop did not return within 10s"
	}
	for i, s := range subs {
		run.Subs[i].Stable = !leaver[i]
		run.Subs[i].IDs = []int{}
		for e := range s.Chan() {
			id, _ := idOf(e.Data)
			run.Subs[i].IDs = append(run.Subs[i].IDs, id)
		}
	}
	return run, ""
}

func mainStorm() {
	n, _ := strconv.Atoi(os.Args[2])
	rng := rand.New(rand.NewSource(vh.Seed()*7919 + 5))
	f, err := os.Create(os.Args[3])
	if err != nil {
		vh.Fatal("%v", err)
	}
	w := json.NewEncoder(f)
	posts, recvs := 0, 0
	for i := 0; i < n; i++ {
		r, blocked := storm(rng)
		if blocked != "" {
			vh.Violation("storm:blocked", blocked, map[string]interface{}{"mode": "storm", "run": r})
			continue
		}
		w.Encode(r)
		for _, p := range r.Posted {
			posts += len(p)
		}
		for _, s := range r.Subs {
			recvs += len(s.IDs)
		}
		if i == 0 {
			vh.Sample(map[string]interface{}{"storm_run_subscribers": len(r.Subs), "posters": len(r.Posted), "first_subscriber_received": fmt.Sprint(r.Subs[0].IDs[:min(8, len(r.Subs[0].IDs))])})
		}
	}
	f.Close()
	vh.Summary(map[string]interface{}{"storm_runs": n, "storm_posts": posts, "storm_receptions": recvs})
}

func min(a, b int) int {
	if a < b {
		return a
	}
	return b
}
