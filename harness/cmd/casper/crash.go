package main

// Crash mode (C19): for a path exported by CasperGen the last call of the node is executed
// once crash-free (the twin) and once per storage write of that call with the store dying
// inside that write. The records at that point are reopened with NewChain (restart) and
//   (1) the restart must succeed,
//   (2) the restarted node's state must be one the crash-free node passed through: every
//       component (stored blocks, best block, finalized root, each checkpoint status) has
//       its value from before or from after the call, the height index matches the best
//       block, the finalized root is on the best chain,
//   (3) after re-delivering every block and every verification message to both, the
//       restarted node and the crash-free twin agree.
// A clean restart between calls (no write lost) must reproduce the state exactly.

import (
	"fmt"
	"os"
	"sort"
	"strings"
	"sync"
	"sync/atomic"
	"time"

	"github.com/bytom/bytom/protocol/bc"
	"github.com/bytom/bytom/protocol/bc/types"
	"github.com/bytom/bytom/protocol/casper"

	"verifharness/internal/memkv"
	"verifharness/internal/node"
)

var sentinelSeq uint64

type sim struct {
	w        *node.World
	env      *node.Env
	cs       *casper.Casper
	votes    map[int]*vote
	carried  map[int][]int
	arrived  chan bc.Hash
	release  chan struct{}
	smu      sync.Mutex
	sent     map[bc.Hash]chan struct{}
	seq      uint64
	pending  int
}

func newSim(kv *memkv.DB, w *node.World) (*sim, error) {
	s := &sim{votes: map[int]*vote{}, carried: map[int][]int{}, arrived: make(chan bc.Hash, 256), release: make(chan struct{}), sent: map[bc.Hash]chan struct{}{}}
	casper.VerifLoopGate = func(h bc.Hash) {
		s.smu.Lock()
		ch, ok := s.sent[h]
		s.smu.Unlock()
		if ok {
			close(ch)
			return
		}
		s.arrived <- h
		<-s.release
	}
	env, err := node.Open(kv)
	if err != nil {
		return nil, err
	}
	s.env = env
	s.cs = env.Chain.VerifCasper()
	if w == nil {
		w = node.NewWorld(env)
	} else {
		w.Env = env
	}
	s.w = w
	return s, nil
}

func (s *sim) syncLoop() bool {
	if s.pending > 0 {
		return true
	}
	h := bc.Hash{V0: 0xfeedface, V1: atomic.AddUint64(&sentinelSeq, 1)} // unique across all nodes of this process
	ch := make(chan struct{})
	s.smu.Lock()
	s.sent[h] = ch
	s.smu.Unlock()
	s.cs.VerifEnqueueEpoch(h)
	select {
	case <-ch:
		return true
	case <-s.arrived:
		s.pending++
		return true
	case <-time.After(10 * time.Second):
		return false
	}
}

func (s *sim) blockWithLinks(b int) *types.Block {
	var links types.SupLinks
	ids := append([]int{}, s.carried[b]...)
	sort.Ints(ids)
	for _, vid := range ids {
		v := s.votes[vid]
		links.AddSupLink(s.w.Blocks[v.s].Height, s.w.Blocks[v.s].Hash(), v.msg.Signature, v.v)
	}
	return node.CopyBlock(s.w.Blocks[b], links)
}

// step executes one exported step; died = the store's crash point was reached during it.
func (s *sim) step(c call) (died bool, problem string) {
	kv := s.env.KV
	switch c.Op {
	case "mint":
		if _, ok := s.w.Blocks[c.ID]; !ok {
			if !s.w.Mint(c.ID, c.P, c.Pos, nil) {
				return false, "cannot grind"
			}
		}
		return false, ""
	case "makevote":
		s.votes[c.ID] = &vote{v: c.V, s: c.S, t: c.T, ok: c.Ok, msg: node.SignVote(c.V, s.w.Blocks[c.S].Hash(), s.w.Blocks[c.T].Hash(), c.Ok)}
		return false, ""
	case "makequorum":
		vs := append([]int{}, c.Vs...)
		sort.Ints(vs)
		for k, v := range vs {
			s.votes[c.ID+k] = &vote{v: v, s: c.S, t: c.T, ok: true, msg: node.SignVote(v, s.w.Blocks[c.S].Hash(), s.w.Blocks[c.T].Hash(), true)}
		}
		return false, ""
	case "carry":
		s.carried[c.B] = append(s.carried[c.B], c.Vote)
		return false, ""
	case "deliver":
		done := make(chan struct{})
		go func() {
			defer func() { recover() }()
			s.env.Chain.ProcessBlock(s.blockWithLinks(c.B))
			close(done)
		}()
		select {
		case <-done:
		case <-kv.CrashedCh:
			return true, ""
		case <-time.After(15 * time.Second):
			return false, "ProcessBlock did not return"
		}
	case "vote":
		done := make(chan struct{})
		go func() {
			defer func() { recover(); close(done) }()
			m := *s.votes[c.I].msg
			s.env.Chain.ProcessBlockVerification(&m)
		}()
		select {
		case <-done:
		case <-kv.CrashedCh:
			return true, ""
		case <-time.After(15 * time.Second):
			return false, "ProcessBlockVerification did not return"
		}
	case "tick":
		if s.pending == 0 {
			select {
			case <-s.arrived:
				s.pending++
			case <-time.After(5 * time.Second):
				return false, "no epoch queued for the cached-verification loop"
			}
		}
		s.pending--
		s.release <- struct{}{}
	default:
		return false, ""
	}
	idle := make(chan bool, 1)
	go func() { idle <- s.syncLoop() }()
	select {
	case ok := <-idle:
		if !ok {
			return false, "cached-verification loop stuck"
		}
	case <-kv.CrashedCh:
		return true, ""
	}
	return false, ""
}

type proj struct {
	Stored map[int]bool
	Best   int
	Idx    map[int]int
	Root   int
	Status map[int]string
}

func (s *sim) project(maxH int) proj {
	o := s.w.Observe(maxH)
	p := proj{Stored: o.Stored, Best: o.Best, Idx: o.Idx, Status: map[int]string{}}
	_, rh := s.cs.LastFinalized()
	p.Root = -2
	if id, ok := s.w.IDOf[rh]; ok {
		p.Root = id
	}
	for id := range o.Stored {
		b := s.w.Blocks[id]
		if b.Height%2 != 0 {
			continue
		}
		h := b.Hash()
		if cp, err := s.env.Store.GetCheckpoint(&h); err == nil {
			p.Status[id] = statusName[cp.Status]
		} else {
			p.Status[id] = "missing"
		}
	}
	return p
}

func (s *sim) ancestorAt(id int, h uint64) int {
	b := s.w.Blocks[id]
	for b.Height > h {
		b = s.w.F.ByHash[b.PreviousBlockHash]
	}
	return s.w.IDOf[b.Hash()]
}

func projEq(a, b proj) string {
	// finality first: a recorded finding about the best block must not hide a difference in finality
	if a.Root != b.Root {
		return fmt.Sprintf("finalized %d vs %d", a.Root, b.Root)
	}
	var ids []int
	for id := range a.Status {
		ids = append(ids, id)
	}
	sort.Ints(ids)
	for _, id := range ids {
		if b.Status[id] != a.Status[id] {
			return fmt.Sprintf("status of checkpoint %d: %s vs %s", id, a.Status[id], b.Status[id])
		}
	}
	if !node.SetEq(node.Keys2(a.Stored), b.Stored) {
		return fmt.Sprintf("stored %v vs %v", node.Keys2(a.Stored), node.Keys2(b.Stored))
	}
	if a.Best != b.Best {
		return fmt.Sprintf("best %d vs %d", a.Best, b.Best)
	}
	for h := 0; h < 16; h++ {
		if id, ok := a.Idx[h]; ok && b.Idx[h] != id {
			return fmt.Sprintf("index at height %d: %d vs %d", h, id, b.Idx[h])
		}
	}
	return ""
}

// redeliver hands every block (parents first) and every verification message to the node.
func (s *sim) redeliver(steps []step) string {
	var ids []int
	for id := range s.w.Blocks {
		if id != 0 {
			ids = append(ids, id)
		}
	}
	sort.Slice(ids, func(i, j int) bool {
		if s.w.Blocks[ids[i]].Height != s.w.Blocks[ids[j]].Height {
			return s.w.Blocks[ids[i]].Height < s.w.Blocks[ids[j]].Height
		}
		return ids[i] < ids[j]
	})
	flush := func() string {
		for {
			if !s.syncLoop() {
				return "cached-verification loop stuck"
			}
			if s.pending == 0 {
				return ""
			}
			s.pending--
			s.release <- struct{}{}
		}
	}
	// first the calls of the path itself, in their original order (what was already applied is a
	// repetition, what was lost arrives again in the order the crash-free node saw it), then everything
	for _, st := range steps {
		if op := st.Call.Op; op == "deliver" || op == "vote" {
			if _, p := s.step(st.Call); p != "" {
				return p
			}
			if p := flush(); p != "" {
				return p
			}
		}
	}
	for _, id := range ids {
		if _, p := s.step(call{Op: "deliver", B: id}); p != "" {
			return p
		}
		if p := flush(); p != "" {
			return p
		}
	}
	var vids []int
	for id := range s.votes {
		vids = append(vids, id)
	}
	sort.Ints(vids)
	for _, id := range vids {
		if _, p := s.step(call{Op: "vote", I: id}); p != "" {
			return p
		}
		if p := flush(); p != "" {
			return p
		}
	}
	return ""
}

// crashCase runs the crash enumeration for one exported path.
func crashCase(steps []step, n, me int) (points int, dvs []*divergence) {
	if me >= n {
		me = -1
	}
	node.Configure(node.Config{E: 2, NVal: n, Me: me, Interval: 1000})
	last := -1
	for i, st := range steps {
		if op := st.Call.Op; op == "deliver" || op == "vote" || op == "tick" {
			last = i
		}
	}
	if last < 0 {
		return 0, nil
	}
	maxH := 8
	// crash-free twin
	twin, err := newSim(memkv.New(), nil)
	if err != nil {
		return 0, []*divergence{{last, "C19", "open", "cannot open a fresh node: " + err.Error()}}
	}
	for i := 0; i < last; i++ {
		if _, p := twin.step(steps[i].Call); p != "" {
			return 0, nil // the crash-free replay already reports this path
		}
	}
	before := twin.project(maxH)
	w0 := twin.env.KV.Writes
	if _, p := twin.step(steps[last].Call); p != "" {
		return 0, nil
	}
	after := twin.project(maxH)
	w1 := twin.env.KV.Writes
	// volatile state (orphan pool, cached votes) dies with the process; when there is some, the
	// restarted node sees those inputs in another order than the twin and may legitimately decide
	// differently (e.g. which sibling gets its own vote), so exact convergence is only required
	// when nothing volatile was pending
	volatile := len(twin.w.Observe(maxH).Orphans) > 0
	for i := 0; i <= last; i++ {
		if steps[i].Call.Op == "vote" && steps[i].Call.R == "cached" {
			volatile = true
		}
	}
	world := twin.w
	if p := twin.redeliver(steps); p != "" {
		return 0, []*divergence{{last, "C19", "twin-redeliver", "crash-free node: " + p + " while re-delivering"}}
	}
	final := twin.project(maxH)

	for k := w0 + 1; k <= w1+1; k++ { // k = w1+1: no write lost (clean restart)
		kv := memkv.New()
		kv.Hang = true
		b, err := newSim(kv, &node.World{F: world.F, Blocks: world.Blocks, ByH: world.ByH, IDOf: world.IDOf})
		if err != nil {
			dvs = append(dvs, &divergence{last, "C19", "open", "cannot open a fresh node: " + err.Error()})
			continue
		}
		died := false
		for i := 0; i <= last && !died; i++ {
			if i == last && k <= w1 {
				kv.CrashAt = k
			}
			var p string
			died, p = b.step(steps[i].Call)
			if p != "" {
				return points, dvs
			}
		}
		if k <= w1 && !died {
			continue // this run needed fewer writes (nondeterministic order); nothing to check
		}
		points++
		what := fmt.Sprintf("crash inside write %d of %d (%s) of the last call (%s)", k-w0, w1-w0, kv.LastKind, steps[last].Call.Op)
		lost := kv.LastKind
		if k == w1+1 {
			what = "clean restart after the last call (" + steps[last].Call.Op + ")"
			lost = "none"
		}
		// restart on the records as they were at the crash
		var c *sim
		var rerr error
		var pan interface{}
		func() {
			defer func() { pan = recover() }()
			c, rerr = newSim(kv.Clone(), &node.World{F: world.F, Blocks: world.Blocks, ByH: world.ByH, IDOf: world.IDOf})
		}()
		if pan != nil || rerr != nil {
			dvs = append(dvs, &divergence{last, "C19", "restart-fails:" + steps[last].Call.Op + ":lost=" + lost, fmt.Sprintf("%s: the node does not start from the stored state (error %v, panic %v)", what, rerr, pan)})
			continue
		}
		got := c.project(maxH)
		in := func(x, a, b int) bool { return x == a || x == b }
		for id := range before.Stored {
			if !got.Stored[id] {
				dvs = append(dvs, &divergence{last, "C19", "lost-block", fmt.Sprintf("%s: block %d was stored before the call and is gone after the restart", what, id)})
			continue
			}
		}
		for id := range got.Stored {
			if !after.Stored[id] {
				dvs = append(dvs, &divergence{last, "C19", "extra-block", fmt.Sprintf("%s: block %d is stored after the restart but not in the crash-free run", what, id)})
			continue
			}
		}
		if !in(got.Best, before.Best, after.Best) {
			dvs = append(dvs, &divergence{last, "C19", "best", fmt.Sprintf("%s: best block after restart is %d, the crash-free node had %d before and %d after the call", what, got.Best, before.Best, after.Best)})
			continue
		}
		if got.Best >= 0 {
			for h := uint64(0); h <= c.w.Blocks[got.Best].Height; h++ {
				if want := c.ancestorAt(got.Best, h); got.Idx[int(h)] != want {
					dvs = append(dvs, &divergence{last, "C19", "index", fmt.Sprintf("%s: after restart height %d maps to block %d but the best block %d has ancestor %d there", what, h, got.Idx[int(h)], got.Best, want)})
			continue
				}
			}
		}
		// the height index and the chain status are one atomic commit: the whole persisted index (entries above the
		// best height included) is the one the crash-free node had with that best block
		ref, refName := before, "before"
		if got.Best != before.Best {
			ref, refName = after, "after"
		}
		torn := false
		for h := 0; h <= maxH && !torn; h++ {
			if got.Idx[h] != ref.Idx[h] {
				dvs = append(dvs, &divergence{last, "C19", "index-torn", fmt.Sprintf("%s: after restart the best block is %d (as %s the call) but the stored height index has block %d at height %d where the crash-free node had %d: the index and the chain status were not committed together", what, got.Best, refName, got.Idx[h], h, ref.Idx[h])})
				torn = true
			}
		}
		if torn {
			continue
		}
		if !in(got.Root, before.Root, after.Root) {
			dvs = append(dvs, &divergence{last, "C19", "finalized", fmt.Sprintf("%s: last finalized checkpoint after restart is %d, the crash-free node had %d before and %d after the call", what, got.Root, before.Root, after.Root)})
			continue
		}
		if got.Root >= 0 && got.Best >= 0 && c.w.Blocks[got.Root].Height <= c.w.Blocks[got.Best].Height && c.ancestorAt(got.Best, c.w.Blocks[got.Root].Height) != got.Root {
			dvs = append(dvs, &divergence{last, "C19", "finalized-off-main", fmt.Sprintf("%s: after restart the finalized checkpoint %d is not on the best chain (best %d)", what, got.Root, got.Best)})
			continue
		}
		rank := map[string]int{"": 0, "missing": 0, "G": 0, "U": 1, "J": 2, "F": 3}
		for id, st := range got.Status {
			// one call may connect several blocks: a checkpoint can be seen at any stage between its status
			// before the call and its status after it (unjustified < justified < finalized)
			if rank[st] < rank[before.Status[id]] || rank[st] > rank[after.Status[id]] || (st == "missing" && before.Status[id] != "" && before.Status[id] != "missing") {
				dvs = append(dvs, &divergence{last, "C19", "status", fmt.Sprintf("%s: checkpoint %d has status %s after restart, crash-free %q before and %q after the call", what, id, st, before.Status[id], after.Status[id])})
			continue
			}
		}
		if k == w1+1 {
			if d := projEq(after, got); d != "" {
				dvs = append(dvs, &divergence{last, "C19", "clean-restart", fmt.Sprintf("%s changes the node's state: %s (crash-free vs restarted)", what, d)})
			continue
			}
		}
		c.votes, c.carried = twin.votes, twin.carried
		if p := c.redeliver(steps); p != "" {
			dvs = append(dvs, &divergence{last, "C19", "redeliver", fmt.Sprintf("%s: %s while re-delivering blocks and votes to the restarted node", what, p)})
			continue
		}
		if volatile {
			continue // orphans / cached votes were lost with the process: the arrival order differs legitimately
		}
		if os.Getenv("VERIF_DEBUG") != "" {
			fmt.Fprintf(os.Stderr, "k=%d lost=%s\n before=%+v\n after=%+v\n restarted=%+v\n twinfinal=%+v\n restartedfinal=%+v\n", k-w0, lost, before, after, got, final, c.project(maxH))
		}
		if d := projEq(final, c.project(maxH)); d != "" {
			cls := "all-tips-on-epoch-boundaries"
			for id := range after.Stored {
				if c.w.Blocks[id].Height%2 != 0 {
					cls = "mid-epoch-blocks-stored"
				}
			}
			comp := strings.Fields(d)[0] // stored | best | finalized | status | index
			if comp == "finalized" || comp == "status" {
				cls = "lost=" + lost // finality differences are classified by the write that was lost
			}
			if comp == "finalized" {
				// the recorded defect: the store already holds a checkpoint marked Finalized above the finalized
				// checkpoint of the chain status (which is written last): whichever later write the crash hit
				for id, st := range got.Status {
					if st == "F" && id != got.Root && got.Root >= 0 && c.w.Blocks[id].Height > c.w.Blocks[got.Root].Height {
						cls = "checkpoint-finalized-before-chain-status"
					}
				}
			}
			dvs = append(dvs, &divergence{last, "C19", "no-convergence:" + comp + ":" + cls, fmt.Sprintf("%s: after re-delivering every block and vote the restarted node differs from the crash-free node: %s", what, d)})
			continue
		}
	}
	return points, dvs
}
