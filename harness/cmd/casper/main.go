// casper: replays the behaviours exported by specs/chain/CasperGen.tla against a real
// protocol.Chain with its finality engine: real signed blocks (optionally carrying
// verification signatures in the header), real signed verification messages, the
// cached-verification loop held at a gate and released exactly where the specification
// takes its EpochTick step. After every call the projection of the node (block tree,
// fork choice, index, finalized root, checkpoint statuses, admitted verifications,
// posted verification events) is compared with the specification.
//
//	casper replay <tlc-output> <workers> <N> <Me>
package main

import (
	"encoding/json"
	"fmt"
	"os"
	"sort"
	"strconv"
	"strings"
	"sync"
	"sync/atomic"
	"time"

	"github.com/bytom/bytom/protocol/bc"
	"github.com/bytom/bytom/protocol/bc/types"
	"github.com/bytom/bytom/protocol/casper"
	"github.com/bytom/bytom/protocol/state"

	"verifharness/internal/memkv"
	"verifharness/internal/node"
	"verifharness/internal/vh"
)

type call struct {
	Op     string `json:"op"`
	ID     int    `json:"id"`
	P      int    `json:"p"`
	Pos    int    `json:"pos"`
	B      int    `json:"b"`
	Orphan bool   `json:"orphan"`
	Err    bool   `json:"err"`
	V      int    `json:"v"`
	S      int    `json:"s"`
	T      int    `json:"t"`
	Ok     bool   `json:"ok"`
	Vote   int    `json:"vote"`
	I      int    `json:"i"`
	R      string `json:"r"`
	Vs     []int  `json:"vs"`
}
type link struct {
	V int `json:"v"`
	S int `json:"s"`
	T int `json:"t"`
}
type obs struct {
	Stored  []int             `json:"stored"`
	Orphans []int             `json:"orphans"`
	Best    int               `json:"best"`
	Idx     map[string]int    `json:"idx"`
	InMain  []int             `json:"inmain"`
	Root    int               `json:"root"`
	Status  map[string]string `json:"status"`
	Links   []link            `json:"links"`
	Posted  []link            `json:"posted"`
	Devs    []struct {
		T int `json:"t"`
		S int `json:"s"`
	} `json:"devs"`
	Ticks   int               `json:"ticks"`
}
type step struct {
	Call call
	Obs  *obs
}
type doc struct {
	Calls []call `json:"calls"`
	Obs   *obs   `json:"obs"`
}

func toSteps(d doc) []step {
	st := make([]step, len(d.Calls))
	for i, c := range d.Calls {
		st[i].Call = c
	}
	if len(st) > 0 {
		st[len(st)-1].Obs = d.Obs
	}
	return st
}

type divergence struct {
	Step int
	Prop string
	What string
	Msg  string
}

// alsoProps: further properties a divergence decides besides its own (keyed by What prefix)
func alsoProps(d *divergence) []string {
	if d.Prop == "C17" && (strings.HasPrefix(d.What, "status:U->J") || strings.HasPrefix(d.What, "status:U->F") || strings.HasPrefix(d.What, "status:J->F") ||
		strings.HasPrefix(d.What, "treestatus:U->J") || strings.HasPrefix(d.What, "treestatus:U->F") || strings.HasPrefix(d.What, "treestatus:J->F")) {
		return []string{"C16"} // justified / finalized before the rule allows it: finality safety rests on this
	}
	return nil
}

type vote struct {
	v, s, t int
	ok      bool
	msg     *casper.ValidCasperSignMsg
}

var statusName = map[state.CheckpointStatus]string{state.Growing: "G", state.Unjustified: "U", state.Justified: "J", state.Finalized: "F"}

func linkKey(l link) string { return fmt.Sprintf("%d:%d>%d", l.V, l.S, l.T) }

// watchdog for calls of the real node that must return; a first expiry is confirmed by re-running the
// scenario alone with a six times longer watchdog (a loaded machine must not turn into a verdict)
var watchdog = 30 * time.Second

func replay(steps []step, n, me int) *divergence {
	if me >= n {
		me = -1 // the node's key is not a validator
	}
	node.Configure(node.Config{E: 2, NVal: n, Me: me, Interval: 1000})
	arrived := make(chan bc.Hash, 256)
	release := make(chan struct{})
	sentinels := map[bc.Hash]chan struct{}{}
	var smu sync.Mutex
	casper.VerifLoopGate = func(h bc.Hash) {
		smu.Lock()
		ch, ok := sentinels[h]
		smu.Unlock()
		if ok {
			close(ch)
			return
		}
		arrived <- h
		<-release
	}
	kv := memkv.New()
	env, err := node.Open(kv)
	if err != nil {
		vh.Fatal("cannot open a fresh node: %v", err)
	}
	cs := env.Chain.VerifCasper()
	sub, err := env.Disp.Subscribe(casper.ValidCasperSignMsg{})
	if err != nil {
		vh.Fatal("subscribe: %v", err)
	}
	w := node.NewWorld(env)
	var restartErr string
	restart := func() { // the process stops between two calls and starts again on the stored records
		defer func() {
			if p := recover(); p != nil {
				restartErr = fmt.Sprint("panic: ", p)
			}
		}()
		kv = kv.Clone()
		e2, err := node.Open(kv)
		if err != nil {
			restartErr = err.Error()
			return
		}
		env = e2
		w.Env = e2
		cs = e2.Chain.VerifCasper()
		sub, _ = e2.Disp.Subscribe(casper.ValidCasperSignMsg{})
	}
	votes := map[int]*vote{}
	carried := map[int][]int{}
	pending := 0 // loop iterations known to wait at the gate
	// sync waits until the loop is either idle (sentinel consumed) or waiting at the gate
	syncLoop := func() bool {
		s := bc.Hash{V0: 0xfeedface, V1: atomic.AddUint64(&sentinelSeq, 1)}
		ch := make(chan struct{})
		smu.Lock()
		sentinels[s] = ch
		smu.Unlock()
		if pending > 0 {
			return true // the loop is held at the gate; nothing can be running
		}
		cs.VerifEnqueueEpoch(s)
		select {
		case <-ch:
			return true
		case <-arrived:
			pending++
			return true
		case <-time.After(10 * time.Second):
			return false
		}
	}
	var postedAll []link
	drainPosted := func() {
		for {
			select {
			case ev := <-sub.Chan():
				if m, ok := ev.Data.(casper.ValidCasperSignMsg); ok {
					postedAll = append(postedAll, link{V: node.OrderOf(m.PubKey), S: w.IDOf[m.SourceHash], T: w.IDOf[m.TargetHash]})
				}
			default:
				return
			}
		}
	}
	for i, st := range steps {
		c := st.Call
		var what string
		switch c.Op {
		case "mint":
			if !w.Mint(c.ID, c.P, c.Pos, nil) {
				vh.Fatal("cannot grind a hash of the wanted rank")
			}
			continue
		case "makevote":
			votes[c.ID] = &vote{v: c.V, s: c.S, t: c.T, ok: c.Ok, msg: node.SignVote(c.V, w.Blocks[c.S].Hash(), w.Blocks[c.T].Hash(), c.Ok)}
			continue
		case "makequorum":
			vs := append([]int{}, c.Vs...)
			sort.Ints(vs)
			for k, v := range vs {
				votes[c.ID+k] = &vote{v: v, s: c.S, t: c.T, ok: true, msg: node.SignVote(v, w.Blocks[c.S].Hash(), w.Blocks[c.T].Hash(), true)}
			}
			continue
		case "carry":
			carried[c.B] = append(carried[c.B], c.Vote)
			continue
		case "deliver":
			var links types.SupLinks
			ids := append([]int{}, carried[c.B]...)
			sort.Ints(ids)
			for _, vid := range ids {
				v := votes[vid]
				links.AddSupLink(w.Blocks[v.s].Height, w.Blocks[v.s].Hash(), v.msg.Signature, v.v)
			}
			orphan, perr, blocked := w.Process(node.CopyBlock(w.Blocks[c.B], links), watchdog)
			if blocked {
				return &divergence{i, "C12", "blocked", fmt.Sprintf("ProcessBlock(block %d) did not return within %s", c.B, watchdog)}
			}
			if (perr != nil) != c.Err || (perr == nil && orphan != c.Orphan) {
				return &divergence{i, "C12", "ret", fmt.Sprintf("ProcessBlock(block %d) returned (orphan=%v, err=%v), specification says (orphan=%v, err=%v)", c.B, orphan, perr, c.Orphan, c.Err)}
			}
			what = fmt.Sprintf("ProcessBlock(block %d)", c.B)
		case "vote":
			v := votes[c.I]
			var perr error
			var pan interface{}
			done := make(chan struct{})
			go func() {
				defer close(done)
				defer func() { pan = recover() }()
				m := *v.msg
				perr = env.Chain.ProcessBlockVerification(&m)
			}()
			select {
			case <-done:
			case <-time.After(watchdog):
				return &divergence{i, "C37", "vote-blocked", fmt.Sprintf("ProcessBlockVerification(vote %d: validator %d, %d->%d) did not return within %s", c.I, v.v, v.s, v.t, watchdog)}
			}
			what = fmt.Sprintf("ProcessBlockVerification(validator %d, %d->%d, sig ok=%v)", v.v, v.s, v.t, v.ok)
			if pan != nil {
				cls := "other"
				if c.R == "stale" {
					cls = "target-is-finalized-root"
				}
				return &divergence{i, "C18", "vote-panic:" + cls, fmt.Sprintf("%s panicked: %v", what, pan)}
			}
			if c.R != "stale" && (perr != nil) != c.Err {
				return &divergence{i, "C18", "vote-ret:" + c.R, fmt.Sprintf("%s returned err=%v, specification says %s (err=%v)", what, perr, c.R, c.Err)}
			}
		case "restart":
			drainPosted()
			restart()
			if restartErr != "" {
				return &divergence{i, "C19", "restart-fails", "clean restart between two calls: the node does not start from the stored state: " + restartErr}
			}
			pending = 0
			what = "a clean restart"
		case "tick":
			if pending == 0 {
				select {
				case <-arrived:
					pending++
				case <-time.After(5 * time.Second):
					return &divergence{i, "C11", "tick-missing", "the specification expects the cached-verification loop to have an epoch queued, the node has none"}
				}
			}
			pending--
			release <- struct{}{}
			what = fmt.Sprintf("cached-verification loop for epoch block %d", c.T)
		default:
			continue
		}
		if !syncLoop() {
			return &divergence{i, "C37", "loop-stuck", "the cached-verification loop neither finished nor reached the gate within 10s after " + what}
		}
		nextIsTick := i+1 == len(steps) && st.Obs != nil && st.Obs.Ticks > 0
		for k := i + 1; k < len(steps); k++ { // the next call of the node (environment steps in between do not matter)
			if op := steps[k].Call.Op; op == "deliver" || op == "vote" || op == "tick" {
				nextIsTick = op == "tick"
				break
			}
			if k == len(steps)-1 {
				nextIsTick = true // unknown: the path ends with environment steps
			}
		}
		if pending > 0 && !nextIsTick {
			return &divergence{i, "C11", "tick-extra", "after " + what + " the node queued an epoch for the cached-verification loop, the specification has none"}
		}
		// the chain core and the finality engine agree on the best block whenever the node is at rest (BestIsForkChoice,
		// checked on the node itself so that it is seen at every call of a long walk, not only at its end)
		if eb, cb := cs.BestChain(), env.Chain.BestBlockHash(); eb != *cb {
			return &divergence{i, "C11", "chain-behind-engine", fmt.Sprintf("after %s: the finality engine's fork choice is block %d, the chain's best block is still %d (no reorganisation was requested)", what, w.IDOf[eb], w.IDOf[*cb])}
		}
		if st.Obs == nil {
			continue
		}
		o := w.Observe(len(st.Obs.Idx) - 1)
		if !node.SetEq(st.Obs.Stored, o.Stored) {
			return &divergence{i, "C12", "stored", fmt.Sprintf("after %s: stored blocks %v, specification says %v", what, node.Keys2(o.Stored), st.Obs.Stored)}
		}
		if !node.SetEq(st.Obs.Orphans, o.Orphans) {
			return &divergence{i, "C12", "orphans", fmt.Sprintf("after %s: orphan pool %v, specification says %v", what, node.Keys2(o.Orphans), st.Obs.Orphans)}
		}
		// finality
		_, rootHash := cs.LastFinalized()
		if rid, ok := w.IDOf[rootHash]; !ok || rid != st.Obs.Root {
			return &divergence{i, "C16", "root", fmt.Sprintf("after %s: last finalized checkpoint is block %d, specification says %d", what, rid, st.Obs.Root)}
		}
		// checkpoint statuses: persisted records and the in-memory tree
		tree := cs.VerifTree()
		inTree := map[int]casper.VerifNode{}
		for _, tn := range tree {
			if id, ok := w.IDOf[tn.Hash]; ok {
				inTree[id] = tn
			}
		}
		for ids, want := range st.Obs.Status {
			id, _ := strconv.Atoi(ids)
			if want == "N" {
				continue
			}
			h := w.Blocks[id].Hash()
			cp, err := env.Store.GetCheckpoint(&h)
			if err != nil {
				return &divergence{i, "C17", "status-missing", fmt.Sprintf("after %s: no stored checkpoint record for block %d (specification: %s)", what, id, want)}
			}
			if got := statusName[cp.Status]; got != want {
				return &divergence{i, "C17", "status:" + want + "->" + got, fmt.Sprintf("after %s: stored checkpoint %d has status %s, specification says %s", what, id, got, want)}
			}
			if tn, ok := inTree[id]; ok {
				if got := statusName[tn.Status]; got != want {
					return &divergence{i, "C17", "treestatus:" + want + "->" + got, fmt.Sprintf("after %s: in-memory checkpoint %d has status %s, specification says %s", what, id, got, want)}
				}
			}
		}
		// admitted verifications (for checkpoints still in the tree)
		wantLinks := map[string]bool{}
		for _, l := range st.Obs.Links {
			if _, ok := inTree[l.T]; ok {
				wantLinks[linkKey(l)] = true
			}
		}
		gotLinks := map[string]bool{}
		for id, tn := range inTree {
			for src, orders := range tn.Links {
				for _, ord := range orders {
					gotLinks[linkKey(link{V: ord, S: w.IDOf[src], T: id})] = true
				}
			}
		}
		for k := range gotLinks {
			if !wantLinks[k] {
				return &divergence{i, "C18", "links-extra", fmt.Sprintf("after %s: the node admitted verification %s (validator:source>target), the specification does not", what, k)}
			}
		}
		for k := range wantLinks {
			if !gotLinks[k] {
				return &divergence{i, "C18", "links-missing", fmt.Sprintf("after %s: the specification admits verification %s (validator:source>target), the node did not record it", what, k)}
			}
		}
		// posted verification events (multiset over the whole scenario)
		drainPosted()
		want := map[string]int{}
		for _, l := range st.Obs.Posted {
			want[linkKey(l)]++
		}
		got := map[string]int{}
		for _, l := range postedAll {
			got[linkKey(l)]++
		}
		for k, nw := range want {
			if got[k] != nw {
				return &divergence{i, "C18", "posted-missing", fmt.Sprintf("after %s: the specification expects the node to have published verification %s x%d, it published x%d", what, k, nw, got[k])}
			}
		}
		for k, ng := range got {
			if want[k] != ng {
				return &divergence{i, "C18", "posted-extra", fmt.Sprintf("after %s: the node published verification %s x%d, the specification expects x%d", what, k, ng, want[k])}
			}
		}
		// fork choice and index
		if o.Best != st.Obs.Best {
			return &divergence{i, "C11", "best", fmt.Sprintf("after %s: best block %d, fork choice says %d", what, o.Best, st.Obs.Best)}
		}
		bh := int(w.Blocks[st.Obs.Best].Height)
		for hs, want := range st.Obs.Idx {
			h, _ := strconv.Atoi(hs)
			if h <= bh && o.Idx[h] != want {
				return &divergence{i, "C11", "idx", fmt.Sprintf("after %s: height %d maps to block %d, specification says %d", what, h, o.Idx[h], want)}
			}
		}
		if !node.SetEq(st.Obs.InMain, o.InMain) {
			return &divergence{i, "C11", "inmain", fmt.Sprintf("after %s: InMainChain true for %v, specification says %v", what, node.Keys2(o.InMain), st.Obs.InMain)}
		}
		if len(st.Obs.Devs) > 0 {
			// the node matched the specification in its code-mirroring variant: it justified a checkpoint from a
			// source that was not justified (property C17 demands a justified source)
			d := st.Obs.Devs[0]
			return &divergence{i, "C17", "justified-from-unjustified-source", fmt.Sprintf("checkpoint %d was justified by a supermajority link from checkpoint %d although %d was not justified at this node (and, being its direct parent, %d may get finalized that way)", d.T, d.S, d.S, d.S)}
		}
	}
	return nil
}

func min(a, b int) int {
	if a < b {
		return a
	}
	return b
}

func loadCase(path string, want int) []step {
	var res []step
	vh.EachExport(path, func(idx int, raw []byte) error {
		if idx == want {
			var d doc
			json.Unmarshal(raw, &d)
			res = toSteps(d)
		}
		return nil
	})
	return res
}

func main() {
	vh.Quiet()
	if len(os.Args) > 1 && os.Args[1] == "probe17" {
		probe17()
		return
	}
	if ok, i, n, from, only, args := vh.IsWorker(); ok {
		nv, _ := strconv.Atoi(args[1])
		me, _ := strconv.Atoi(args[2])
		stride := 1
		if len(args) > 3 {
			stride, _ = strconv.Atoi(args[3])
		}
		crashMode := len(args) > 4 && args[4] == "crash"
		inconclusive := 0
		slow := 0
		points := 0
		cases, calls := 0, 0
		shapes := map[string]bool{}
		vh.AtRecycle = func() {
			vh.Summary(map[string]interface{}{"partial": true, "cases": cases, "calls": calls, "distinct": len(shapes), "crash_points": points, "inconclusive_after_deviation": inconclusive, "slow_calls_not_confirmed_as_blocked": slow})
		}
		want := func(idx int) bool {
			if stride > 1 && idx%stride != int(vh.Seed())%stride {
				return false
			}
			return vh.Mine(idx/stride, i, n, from, only)
		}
		_, err := vh.EachExportIf(args[0], want, func(idx int, raw []byte) error {
			if vh.TooMany() {
				return nil
			}
			var d doc
			if err := json.Unmarshal(raw, &d); err != nil {
				return err
			}
			st := toSteps(d)
			vh.Cur(idx / stride)
			cases++
			sh := ""
			for _, s := range st {
				switch s.Call.Op {
				case "mint":
					sh += fmt.Sprintf("m%d.%d,", s.Call.P, s.Call.Pos)
				case "deliver":
					sh += fmt.Sprintf("d%d,", s.Call.B)
					calls++
				case "vote":
					sh += fmt.Sprintf("v%d,", s.Call.I)
					calls++
				case "makevote":
					sh += fmt.Sprintf("k%d.%d.%d.%v,", s.Call.V, s.Call.S, s.Call.T, s.Call.Ok)
				case "makequorum":
					sh += fmt.Sprintf("q%d.%d.%v,", s.Call.S, s.Call.T, s.Call.Vs)
				case "carry":
					sh += fmt.Sprintf("c%d.%d,", s.Call.B, s.Call.Vote)
				case "tick":
					sh += "t,"
				case "restart":
					sh += "R,"
					calls++
				}
			}
			shapes[sh] = true
			if crashMode {
				n, ds := crashCase(st, nv, me)
				points += n
				for _, d := range ds {
					vh.Violation(d.Prop+":"+d.What, d.Msg, map[string]interface{}{"engine": "casper-crash", "N": nv, "Me": me, "steps": st, "diverges_at": d.Step, "prop": d.Prop})
				}
				if cases%2000 == 5 {
					vh.Sample(st)
				}
				return nil
			}
			dv := replay(st, nv, me)
			if dv != nil && (strings.Contains(dv.What, "blocked") || strings.Contains(dv.What, "stuck")) {
				watchdog *= 6
				dv2 := replay(st, nv, me)
				watchdog /= 6
				if dv2 == nil || !(strings.Contains(dv2.What, "blocked") || strings.Contains(dv2.What, "stuck")) {
					slow++ // the call returned when given more time: load, not a verdict
					dv = dv2
				}
			}
			if dv != nil && dv.What != "justified-from-unjustified-source" && len(st) > 0 && st[len(st)-1].Obs != nil && len(st[len(st)-1].Obs.Devs) > 0 {
				// the path passes through the recorded deviation (justification from an unjustified source): a node that
				// does not follow the code-mirroring specification there cannot be judged against it
				inconclusive++
				dv = nil
			}
			if dv != nil {
				vh.Violation(dv.Prop+":"+st[dv.Step].Call.Op+":"+dv.What, dv.Msg, map[string]interface{}{"engine": "casper", "N": nv, "Me": me, "steps": st, "diverges_at": dv.Step, "prop": dv.Prop, "also": alsoProps(dv)})
			}
			if cases%4000 == 11 {
				vh.Sample(st)
			}
			return nil
		})
		if err != nil {
			vh.Fatal("worker: %v", err)
		}
		vh.Summary(map[string]interface{}{"partial": true, "cases": cases, "calls": calls, "distinct": len(shapes), "crash_points": points, "inconclusive_after_deviation": inconclusive, "slow_calls_not_confirmed_as_blocked": slow})
		return
	}
	mode := "replay"
	if len(os.Args) > 1 && os.Args[1] == "crash" {
		mode = "crash"
		os.Args[1] = "replay"
	}
	if len(os.Args) < 6 || os.Args[1] != "replay" {
		vh.Fatal("usage: casper replay <tlc-output> <workers> <N> <Me> [stride]")
	}
	nw, _ := strconv.Atoi(os.Args[3])
	nv, _ := strconv.Atoi(os.Args[4])
	me, _ := strconv.Atoi(os.Args[5])
	stride := 1
	if len(os.Args) > 6 {
		stride, _ = strconv.Atoi(os.Args[6])
	}
	wargs := []string{os.Args[2], os.Args[4], os.Args[5], strconv.Itoa(stride), mode}
	flaky := vh.RunPool(nw, wargs, func(idx int, tail string) {
		st := loadCase(os.Args[2], idx*stride+int(vh.Seed())%stride)
		lastOp := "?"
		if len(st) > 0 {
			lastOp = st[len(st)-1].Call.Op
		}
		prop := "C12"
		if mode == "crash" {
			prop = "C19"
		}
		vh.Violation(prop+":"+lastOp+":panic", fmt.Sprintf("the node process died during the last call (%s) of the scenario (%s mode):\n%s", lastOp, mode, tail),
			map[string]interface{}{"engine": "casper", "mode": mode, "N": nv, "Me": me, "steps": st, "diverges_at": len(st) - 1, "prop": prop})
	})
	vh.Summary(map[string]interface{}{"partial": true, "unreproducible_worker_deaths": flaky})
}
