package main

import (
	"fmt"

	"verifharness/internal/memkv"
	"verifharness/internal/node"
)

// probe17: does a garbage signature carried in a block header count towards the supermajority
// after a restart? (directed probe used while extending the specification with Restart)
func probe17() {
	node.Configure(node.Config{E: 2, NVal: 4, Me: -1, Interval: 1000})
	for _, restart := range []bool{false, true} {
		kv := memkv.New()
		s, err := newSim(kv, nil)
		if err != nil {
			panic(err)
		}
		steps := []call{
			{Op: "mint", ID: 1, P: 0, Pos: 0}, {Op: "mint", ID: 2, P: 1, Pos: 0},
			{Op: "makevote", ID: 1, V: 3, S: 0, T: 2, Ok: false}, // garbage signature of validator 3
			{Op: "makevote", ID: 2, V: 1, S: 0, T: 2, Ok: true},
			{Op: "makevote", ID: 3, V: 2, S: 0, T: 2, Ok: true},
			{Op: "carry", B: 2, Vote: 1},
			{Op: "deliver", B: 1}, {Op: "tick"}, {Op: "deliver", B: 2},
		}
		for _, c := range steps {
			if _, p := s.step(c); p != "" {
				fmt.Println("problem", p)
			}
		}
		if restart {
			w := s.w
			votes, carried := s.votes, s.carried
			s, err = newSim(kv.Clone(), &node.World{F: w.F, Blocks: w.Blocks, ByH: w.ByH, IDOf: w.IDOf})
			if err != nil {
				panic(err)
			}
			s.votes, s.carried = votes, carried
		}
		s.step(call{Op: "vote", I: 2})
		s.step(call{Op: "vote", I: 3})
		p := s.project(4)
		fmt.Printf("restart=%v: status of checkpoint 2 = %s (2 valid votes + 1 garbage slot of 4 validators; supermajority needs 3)\n", restart, p.Status[2])
	}
}
