// forks: replays the behaviours exported by specs/chain/ForksGen.tla against a real
// protocol.Chain (in-memory store, real blocks with real signatures) and compares, after
// every ProcessBlock call, the returned (orphan, error) and the observable state (stored
// blocks, orphan pool, best block, height index, InMainChain) with the specification.
//
//	forks replay <tlc-output> <workers> <E>
package main

import (
	"bytes"
	"encoding/json"
	"fmt"
	"os"
	"sort"
	"strconv"
	"time"

	"github.com/bytom/bytom/protocol/bc"
	"github.com/bytom/bytom/protocol/bc/types"

	"verifharness/internal/memkv"
	"verifharness/internal/node"
	"verifharness/internal/vh"
)

const r0 = 285388127 // per-block subsidy while nothing is pledged

type call struct {
	Op     string `json:"op"`
	ID     int    `json:"id"`
	P      int    `json:"p"`
	Pos    int    `json:"pos"`
	B      int    `json:"b"`
	Orphan bool   `json:"orphan"`
	Err    bool   `json:"err"`
}
type obs struct {
	Stored  []int          `json:"stored"`
	Orphans []int          `json:"orphans"`
	Best    int            `json:"best"`
	Idx     map[string]int `json:"idx"`
	InMain  []int          `json:"inmain"`
}
type step struct {
	Call call `json:"call"`
	Obs  obs  `json:"obs"`
}

type world struct {
	f      *node.Factory
	env    *node.Env
	blocks map[int]*types.Block
	byh    map[uint64][]int // ids per height in ascending hash order
	e      uint64
}

func hashLess(a, b bc.Hash) bool { return a.String() < b.String() }

func (w *world) mint(c call) {
	parent := w.blocks[c.P]
	h := parent.Height + 1
	var first uint64
	if h%w.e == 1 && h > 1 {
		first = w.e * r0
	}
	same := w.byh[h]
	for nonce, tries := uint64(c.ID)*1000003, 0; ; nonce, tries = nonce+1, tries+1 {
		b := w.f.Build(node.BlockReq{Parent: parent, Signer: 0, Program: []byte{0x51}, First: first, Nonce: nonce})
		below := 0
		for _, id := range same {
			if hashLess(w.blocks[id].Hash(), b.Hash()) {
				below++
			}
		}
		if below == c.Pos {
			w.blocks[c.ID] = b
			ns := append([]int{}, same[:c.Pos]...)
			ns = append(ns, c.ID)
			ns = append(ns, same[c.Pos:]...)
			w.byh[h] = ns
			return
		}
		if tries > 100000 {
			vh.Fatal("cannot grind a hash of the wanted rank")
		}
	}
}

func setEq(a []int, b map[int]bool) bool {
	if len(a) != len(b) {
		return false
	}
	for _, x := range a {
		if !b[x] {
			return false
		}
	}
	return true
}

func keys(m map[int]bool) []int {
	var r []int
	for k := range m {
		r = append(r, k)
	}
	sort.Ints(r)
	return r
}

// observe projects the node's state onto the specification's variables.
func (w *world) observe(maxH int) (stored, orphans, inmain map[int]bool, best int, idx map[int]int) {
	stored, orphans, inmain = map[int]bool{}, map[int]bool{}, map[int]bool{}
	idOf := map[bc.Hash]int{}
	for id, b := range w.blocks {
		idOf[b.Hash()] = id
	}
	for id, b := range w.blocks {
		h := b.Hash()
		if _, err := w.env.Chain.GetHeaderByHash(&h); err == nil {
			stored[id] = true
			if w.env.Chain.InMainChain(h) {
				inmain[id] = true
			}
		} else if w.env.Chain.BlockExist(&h) {
			orphans[id] = true
		}
	}
	bh := w.env.Chain.BestBlockHash()
	best = -2
	if id, ok := idOf[*bh]; ok {
		best = id
	}
	idx = map[int]int{}
	for h := 0; h <= maxH; h++ {
		hd, err := w.env.Chain.GetHeaderByHeight(uint64(h))
		if err != nil {
			idx[h] = -1
			continue
		}
		if id, ok := idOf[hd.Hash()]; ok {
			idx[h] = id
		} else {
			idx[h] = -2
		}
	}
	return
}

// a watchdog expiry is confirmed by a second run with a six times longer watchdog
var watchdog = 30 * time.Second

type divergence struct {
	Step int
	Prop string
	What string
	Msg  string
}

func replay(steps []step, e uint64) *divergence {
	node.Configure(node.Config{E: e, NVal: 1, Me: -1, Interval: 1000})
	env, err := node.Open(memkv.New())
	if err != nil {
		vh.Fatal("cannot open a fresh node: %v", err)
	}
	w := &world{f: node.NewFactory(), env: env, blocks: map[int]*types.Block{}, byh: map[uint64][]int{}, e: e}
	w.blocks[0] = w.f.Genesis
	for i, st := range steps {
		c := st.Call
		switch c.Op {
		case "mint":
			w.mint(c)
			continue
		case "deliver":
		default:
			continue
		}
		var orphan bool
		var perr error
		done := make(chan struct{})
		go func() {
			orphan, perr = env.Chain.ProcessBlock(w.blocks[c.B])
			close(done)
		}()
		select {
		case <-done:
		case <-time.After(watchdog):
			return &divergence{i, "C12", "blocked", fmt.Sprintf("ProcessBlock(block %d) did not return within %s", c.B, watchdog)}
		}
		if (perr != nil) != c.Err || (perr == nil && orphan != c.Orphan) {
			return &divergence{i, "C12", "ret", fmt.Sprintf("ProcessBlock(block %d) returned (orphan=%v, err=%v), specification says (orphan=%v, err=%v)", c.B, orphan, perr, c.Orphan, c.Err)}
		}
		stored, orphans, inmain, best, idx := w.observe(len(st.Obs.Idx) - 1)
		if !setEq(st.Obs.Stored, stored) {
			return &divergence{i, "C12", "stored", fmt.Sprintf("after ProcessBlock(block %d): stored blocks %v, specification says %v", c.B, keys(stored), st.Obs.Stored)}
		}
		if !setEq(st.Obs.Orphans, orphans) {
			return &divergence{i, "C12", "orphans", fmt.Sprintf("after ProcessBlock(block %d): orphan pool %v, specification says %v", c.B, keys(orphans), st.Obs.Orphans)}
		}
		if best != st.Obs.Best {
			return &divergence{i, "C11", "best", fmt.Sprintf("after ProcessBlock(block %d): best block %d, fork choice says %d", c.B, best, st.Obs.Best)}
		}
		for hs, want := range st.Obs.Idx {
			h, _ := strconv.Atoi(hs)
			if h <= int(w.blocks[max(best, 0)].Height) && idx[h] != want {
				return &divergence{i, "C11", "idx", fmt.Sprintf("after ProcessBlock(block %d): height %d maps to block %d, specification says %d", c.B, h, idx[h], want)}
			}
		}
		if !setEq(st.Obs.InMain, inmain) {
			return &divergence{i, "C11", "inmain", fmt.Sprintf("after ProcessBlock(block %d): InMainChain true for %v, specification says %v", c.B, keys(inmain), st.Obs.InMain)}
		}
	}
	return nil
}

func max(a, b int) int {
	if a > b {
		return a
	}
	return b
}

// siblings returns how many orphans are waiting directly on the block delivered last.
func siblings(steps []step) int {
	parent := map[int]int{}
	for _, s := range steps {
		if s.Call.Op == "mint" {
			parent[s.Call.ID] = s.Call.P
		}
	}
	last := steps[len(steps)-1]
	var before []int
	for k := len(steps) - 2; k >= 0; k-- {
		if steps[k].Call.Op == "deliver" {
			before = steps[k].Obs.Orphans
			break
		}
	}
	n := 0
	for _, o := range before {
		if parent[o] == last.Call.B {
			n++
		}
	}
	return n
}

func loadCase(path string, want int) []step {
	var res []step
	vh.EachExport(path, func(idx int, doc []byte) error {
		if idx == want {
			json.Unmarshal(doc, &res)
		}
		return nil
	})
	return res
}

func main() {
	vh.Quiet()
	if ok, i, n, from, only, args := vh.IsWorker(); ok {
		e, _ := strconv.ParseUint(args[1], 10, 64)
		cases, delivers := 0, 0
		shapes := map[string]bool{}
		_, err := vh.EachExportIf(args[0], func(idx int) bool { return vh.Mine(idx, i, n, from, only) }, func(idx int, doc []byte) error {
			if vh.TooMany() {
				return nil
			}
			var st []step
			dec := json.NewDecoder(bytes.NewReader(doc))
			if err := dec.Decode(&st); err != nil {
				return err
			}
			vh.Cur(idx)
			cases++
			sh := ""
			for _, s := range st {
				if s.Call.Op == "mint" {
					sh += fmt.Sprintf("m%d.%d,", s.Call.P, s.Call.Pos)
				} else if s.Call.Op == "deliver" {
					sh += fmt.Sprintf("d%d,", s.Call.B)
					delivers++
				}
			}
			shapes[sh] = true
			d := replay(st, e)
			if d != nil && d.What == "blocked" {
				watchdog *= 6
				d = replay(st, e)
				watchdog /= 6
			}
			if d != nil {
				vh.Violation(d.Prop+":deliver:"+d.What, d.Msg, map[string]interface{}{"engine": "forks", "E": e, "steps": st, "diverges_at": d.Step, "prop": d.Prop})
			}
			if idx%5000 == 11 {
				vh.Sample(st)
			}
			return nil
		})
		if err != nil {
			vh.Fatal("worker: %v", err)
		}
		vh.Summary(map[string]interface{}{"partial": true, "cases": cases, "delivers": delivers, "distinct": len(shapes)})
		return
	}
	if len(os.Args) < 5 || os.Args[1] != "replay" {
		vh.Fatal("usage: forks replay <tlc-output> <workers> <E>")
	}
	nw, _ := strconv.Atoi(os.Args[3])
	flaky := vh.RunPool(nw, []string{os.Args[2], os.Args[4]}, func(idx int, tail string) {
		st := loadCase(os.Args[2], idx)
		e, _ := strconv.ParseUint(os.Args[4], 10, 64)
		sib := siblings(st)
		cls := "le2"
		if sib >= 3 {
			cls = "ge3"
		}
		vh.Violation("C12:deliver:panic:sibling_orphans_"+cls,
			fmt.Sprintf("the node process died inside ProcessBlock(block %d) with %d orphans waiting on it:\n%s", st[len(st)-1].Call.B, sib, tail),
			map[string]interface{}{"engine": "forks", "E": e, "steps": st, "diverges_at": len(st) - 1, "prop": "C12"})
	})
	vh.Summary(map[string]interface{}{"partial": true, "unreproducible_worker_deaths": flaky})
}
