// ledger: replays the behaviours exported by specs/chain/LedgerGen.tla against a real
// protocol.Chain: a 14-block funding prefix, then the model's tree of blocks carrying the
// menu transactions (real spends, votes, vetoes, contract registrations, conflicting and
// immature spends) and rule-breaking mutations, delivered in the model's order. After the
// last call of every path the persisted UTXO entries of every coin, the contract table,
// the block tree, best block, index and the mempool are compared with the specification.
//
//	ledger replay <tlc-output> <workers> [stride]
package main

import (
	"encoding/json"
	"fmt"
	"os"
	"sort"
	"strconv"
	"strings"
	"time"

	"github.com/bytom/bytom/database"
	"github.com/bytom/bytom/database/storage"
	"github.com/bytom/bytom/proposal"
	"github.com/bytom/bytom/protocol"
	"github.com/bytom/bytom/protocol/bc"
	"github.com/bytom/bytom/protocol/bc/types"

	"verifharness/internal/memkv"
	"verifharness/internal/node"
	"verifharness/internal/vh"
)

type call struct {
	Op     string `json:"op"`
	ID     int    `json:"id"`
	P      int    `json:"p"`
	Pos    int    `json:"pos"`
	Bad    string `json:"bad"`
	B      int    `json:"b"`
	Tx     int    `json:"tx"`
	Orphan bool   `json:"orphan"`
	Err    bool   `json:"err"`
}
type entry struct {
	St string `json:"st"`
	H  int    `json:"h"`
}
type obs struct {
	Stored    []int            `json:"stored"`
	Orphans   []int            `json:"orphans"`
	Best      int              `json:"best"`
	Idx       map[string]int   `json:"idx"`
	InMain    []int            `json:"inmain"`
	Utxo      map[string]entry `json:"utxo"`
	Contracts map[string]int   `json:"contracts"`
	MainTxs   []int            `json:"maintxs"`
	ValidBest int              `json:"validbest"`
	Invalid   []int            `json:"invalid"`
	Submitted []int            `json:"submitted"`
}
type doc struct {
	Calls []call `json:"calls"`
	Obs   *obs   `json:"obs"`
}

type divergence struct {
	Step int
	Prop string
	What string
	Msg  string
}

type blockSpec struct {
	id, p, pos int
	bad        string
	txs        []int
}

func kindType(name string) uint32 {
	switch name[0] {
	case 'P':
		return storage.CoinbaseUTXOType
	case 'V':
		return storage.VoteUTXOType
	}
	return storage.NormalUTXOType
}

var proposeMode bool

// see cmd/casper: a watchdog expiry is confirmed by a second run with a six times longer watchdog
var watchdog = 30 * time.Second

func replay(d doc) *divergence {
	if proposeMode {
		node.ConfigureLedgerAs(2, 1) // the node is validator 1 of 2: it proposes in its own slots, its lone vote never justifies
	} else {
		node.ConfigureLedger()
	}
	env, err := node.Open(memkv.New())
	if err != nil {
		vh.Fatal("cannot open a fresh node: %v", err)
	}
	w := node.NewWorld(env)
	m := node.BuildMenu(w)
	for _, b := range m.Prefix {
		if orphan, err, blocked := w.Process(node.CopyBlock(b, nil), 8*watchdog); err != nil || orphan || blocked { // set-up, not under test: generous
			vh.Fatal("funding prefix block %d not accepted: orphan=%v err=%v blocked=%v", b.Height, orphan, err, blocked)
		}
	}
	tip := m.Prefix[len(m.Prefix)-1]
	w.Blocks[0] = tip
	w.IDOf = map[bc.Hash]int{tip.Hash(): 0}
	sub, _ := env.Disp.Subscribe(protocol.TxMsgEvent{})

	specs := map[int]*blockSpec{}
	var order []int
	for _, c := range d.Calls {
		switch c.Op {
		case "mint":
			specs[c.ID] = &blockSpec{id: c.ID, p: c.P, pos: c.Pos, bad: c.Bad}
			order = append(order, c.ID)
		case "place":
			specs[c.B].txs = append(specs[c.B].txs, c.Tx)
		}
	}
	// branch accounting for the reward coinbases
	votes := map[int]uint64{0: 0}
	contrib := map[int]uint64{0: node.R0, -1: node.R0} // prefix tip (height 14) and its parent (13)
	parentOf := map[int]int{0: -1}
	built := false
	build := func() {
		sort.Ints(order)
		for _, id := range order {
			s := specs[id]
			parentOf[id] = s.p
			v := votes[s.p]
			var fees uint64
			var txs []*types.Tx
			for _, t := range s.txs {
				mt := m.Txs[t]
				txs = append(txs, mt.Tx)
				fees += mt.Fee
				if mt.VoteAmt < 0 {
					if v > uint64(-mt.VoteAmt) {
						v -= uint64(-mt.VoteAmt)
					} else {
						v = 0
					}
				} else {
					v += uint64(mt.VoteAmt)
				}
			}
			votes[id] = v
			abs := w.Blocks[s.p].Height + 1
			contrib[id] = fees + node.Subsidy(v, abs)
			var first uint64
			if abs%2 == 1 {
				first = contrib[s.p] + contrib[parentOf[s.p]]
			}
			bad := s.bad
			ok := w.Mint(id, s.p, s.pos, func(r *node.BlockReq) {
				r.First = first
				r.Txs = txs
				switch bad {
				case "sig":
					r.SignKey = &node.Outside
				case "cbamount":
					r.First = first + 1
				case "cbextra": // the exact reward table plus one more output to a program outside the table
					r.Others = append(r.Others, node.Reward{Program: []byte{0x52}, Amount: 5})
				case "version":
					r.Mutate = func(b *types.Block) { b.Version = 2 }
				case "ts":
					r.Timestamp = r.Parent.Timestamp
				case "merkle":
					r.Mutate = func(b *types.Block) { // a wrong root that still depends on the block content (hash ranks are ground by nonce)
						var w [32]byte
						copy(w[:], b.Transactions[0].ID.Bytes())
						w[0] ^= 0x5a
						b.TransactionsMerkleRoot = bc.NewHash(w)
					}
				}
			})
			if !ok {
				vh.Fatal("cannot grind a hash of the wanted rank")
			}
		}
		built = true
	}

	last := -1
	for i, c := range d.Calls {
		if c.Op != "deliver" && c.Op != "submit" {
			continue
		}
		if !built {
			build()
		}
		last = i
		switch c.Op {
		case "deliver":
			orphan, perr, blocked := w.Process(node.CopyBlock(w.Blocks[c.B], nil), watchdog)
			if blocked {
				return &divergence{i, "C12", "blocked", fmt.Sprintf("ProcessBlock(block %d) did not return within 15s", c.B)}
			}
			if (perr != nil) != c.Err || (perr == nil && orphan != c.Orphan) {
				prop := "C13"
				if perr == nil && c.Err && specs[c.B].bad == "none" {
					// recorded C10 defect: a vote output restored by detaching the block that spent it gets creation height 0 in
					// the store, so a later veto inside the lock time is let through. Recognised by the path: the accepted block
					// carries a veto that another delivered block, not an ancestor of it, carried before.
					anc := func(a, b int) bool {
						for x := b; x > 0; x = parentOf[x] {
							if x == a {
								return true
							}
						}
						return false
					}
					for _, t := range specs[c.B].txs {
						if m.Txs[t].VoteAmt >= 0 {
							continue
						}
						for k := 0; k < i; k++ {
							x := d.Calls[k]
							if x.Op != "deliver" || x.B == c.B || anc(x.B, c.B) {
								continue
							}
							for _, t2 := range specs[x.B].txs {
								if t2 == t {
									return &divergence{i, prop, "ret:veto-after-detached-veto", fmt.Sprintf("ProcessBlock(block %d, txs %v) accepted a veto of a vote output that is still inside its lock time: block %d, delivered before and not an ancestor, had spent the same vote output, and detaching it restored the output with creation height 0", c.B, specs[c.B].txs, x.B)}
								}
							}
						}
					}
				}
				return &divergence{i, prop, "ret:" + specs[c.B].bad, fmt.Sprintf("ProcessBlock(block %d, txs %v, mutation %s) returned (orphan=%v, err=%v), specification says (orphan=%v, err=%v)", c.B, specs[c.B].txs, specs[c.B].bad, orphan, perr, c.Orphan, c.Err)}
			}
		case "submit":
			env.Chain.ValidateTx(m.Txs[c.Tx].Tx) // outcome left to the pool
		}
	}
	if last < 0 || d.Obs == nil {
		return nil
	}
	what := "the last call"
	o := w.Observe(len(d.Obs.Idx) - 1)
	// block ids: Observe uses absolute heights for Idx; map model heights (relative) to absolute
	if !node.SetEq(d.Obs.Stored, o.Stored) {
		return &divergence{last, "C13", "stored", fmt.Sprintf("after %s: stored blocks %v, specification says %v", what, node.Keys2(o.Stored), d.Obs.Stored)}
	}
	if !node.SetEq(d.Obs.Orphans, o.Orphans) {
		return &divergence{last, "C12", "orphans", fmt.Sprintf("after %s: orphan pool %v, specification says %v", what, node.Keys2(o.Orphans), d.Obs.Orphans)}
	}
	if o.Best != d.Obs.Best {
		return &divergence{last, "C11", "best", fmt.Sprintf("after %s: best block %d, specification says %d", what, o.Best, d.Obs.Best)}
	}
	for hs, want := range d.Obs.Idx {
		h, _ := strconv.Atoi(hs)
		if h > int(w.Blocks[d.Obs.Best].Height)-node.PrefixLen {
			continue
		}
		hd, err := env.Chain.GetHeaderByHeight(uint64(node.PrefixLen + h))
		got := -1
		if err == nil {
			if id, ok := w.IDOf[hd.Hash()]; ok {
				got = id
			} else {
				got = -2
			}
		}
		if got != want {
			return &divergence{last, "C11", "idx", fmt.Sprintf("after %s: height %d maps to block %d, specification says %d", what, node.PrefixLen+h, got, want)}
		}
	}
	if !node.SetEq(d.Obs.InMain, o.InMain) {
		return &divergence{last, "C11", "inmain", fmt.Sprintf("after %s: InMainChain true for %v, specification says %v", what, node.Keys2(o.InMain), d.Obs.InMain)}
	}
	// ledger: persisted UTXO entry of every coin
	names := make([]string, 0, len(d.Obs.Utxo))
	for n := range d.Obs.Utxo {
		names = append(names, n)
	}
	sort.Strings(names)
	for _, name := range names {
		want := d.Obs.Utxo[name]
		c := m.Coins[name]
		e, err := env.Store.GetUtxo(&c.ID)
		got := "none"
		if err == nil {
			got = "unspent"
			if e.Spent {
				got = "spent"
			}
		}
		if got != want.St {
			return &divergence{last, "C10", "utxo:" + name[:1] + ":" + want.St + "->" + got, fmt.Sprintf("after %s: coin %s is %s in the store, applying the main chain from genesis gives %s", what, name, got, want.St)}
		}
		if err == nil {
			if e.Type != kindType(name) {
				return &divergence{last, "C10", "utxotype:" + name[:1], fmt.Sprintf("after %s: coin %s has type %d in the store, the main chain says %d", what, name, e.Type, kindType(name))}
			}
			// the creation height is a spending constraint for coinbase (maturity) and vote (lock) outputs only
			if kindType(name) != storage.NormalUTXOType && int(e.BlockHeight) != want.H {
				return &divergence{last, "C10", "utxoheight:" + name[:1], fmt.Sprintf("after %s: coin %s (%s) has creation height %d in the store, the main chain says %d", what, name, got, e.BlockHeight, want.H)}
			}
		}
	}
	// reward outputs: the coinbase output of every reward-paying block (odd heights, E = 2) of the scenario is in the
	// store exactly when that block is on the main chain (a detached branch must take its rewards with it)
	mainBlk := map[int]bool{}
	for _, id := range d.Obs.InMain {
		mainBlk[id] = true
	}
	for _, id := range order {
		b := w.Blocks[id]
		if b == nil || b.Height%2 != 1 || b.Transactions[0].Outputs[0].Amount == 0 {
			continue
		}
		oid := *b.Transactions[0].ResultIds[0]
		e, err := env.Store.GetUtxo(&oid)
		if mainBlk[id] && (err != nil || e.Spent || e.Type != storage.CoinbaseUTXOType || e.BlockHeight != b.Height) {
			return &divergence{last, "C10", "reward-output-missing", fmt.Sprintf("after %s: the reward output of main-chain block %d (height %d) is not an unspent coinbase entry of that height in the store (err=%v entry=%v)", what, id, b.Height, err, e)}
		}
		if !mainBlk[id] && err == nil {
			return &divergence{last, "C10", "reward-output-of-detached-block", fmt.Sprintf("after %s: the reward output of block %d (height %d), which is not on the main chain, is still in the store", what, id, b.Height)}
		}
	}
	// contract table
	raw := env.KV.Get(database.CalcContractKey(m.CHash))
	gotReg := 0
	if len(raw) >= 32 {
		var h [32]byte
		copy(h[:], raw[:32])
		if id, ok := m.TxIDOf[bc.NewHash(h)]; ok {
			gotReg = id
		} else {
			gotReg = -1
		}
	}
	if want := d.Obs.Contracts["A"]; gotReg != want {
		return &divergence{last, "C10", fmt.Sprintf("contract:%d->%d", want, gotReg), fmt.Sprintf("after %s: contract A is registered by transaction %d in the store, the main chain says %d (0 = not registered)", what, gotReg, want)}
	}
	// mempool vs main chain
	inMain := map[int]bool{}
	for _, t := range d.Obs.MainTxs {
		inMain[t] = true
	}
	for _, td := range env.Pool.GetTransactions() {
		if id, ok := m.TxIDOf[td.Tx.ID]; ok && inMain[id] {
			return &divergence{last, "C23", "pool-holds-confirmed", fmt.Sprintf("after %s: transaction %d is in the mempool and in the main chain", what, id)}
		}
	}
	// pool notifications: per transaction New and Remove must alternate, starting with New
	state := map[int]int{}
	for {
		select {
		case ev := <-sub.Chan():
			if e, ok := ev.Data.(protocol.TxMsgEvent); ok {
				id := m.TxIDOf[e.TxMsg.Tx.ID]
				if e.TxMsg.MsgType == protocol.MsgNewTx {
					if state[id] == 1 {
						return &divergence{last, "C23", "event-double-new", fmt.Sprintf("transaction %d was announced as added twice without a removal in between", id)}
					}
					state[id] = 1
				} else {
					if state[id] != 1 {
						return &divergence{last, "C23", "event-unpaired-remove", fmt.Sprintf("transaction %d was announced as removed without a preceding addition", id)}
					}
					state[id] = 2
				}
			}
			continue
		default:
		}
		break
	}
	if proposeMode && d.Obs.ValidBest == d.Obs.Best && len(d.Obs.Invalid) == 0 {
		// (stored branches that do not apply can shadow any new block: recorded finding of C11, not judged here)
		// C38: the node builds and signs a block for its own slot on its best chain from whatever its pool
		// holds; fed back, the block must be accepted and become the best block
		parent := w.Blocks[d.Obs.Best]
		ts := w.F.SlotTime(parent, 1, 2)
		var blk *types.Block
		var perr error
		var pan interface{}
		func() {
			defer func() { pan = recover() }()
			blk, perr = proposal.NewBlockTemplate(env.Chain, nil, nil, ts, time.Hour, 2*time.Hour)
		}()
		if pan != nil || perr != nil || blk == nil {
			return &divergence{last, "C38", "template-fails", fmt.Sprintf("NewBlockTemplate on best block %d (height %d) failed: err=%v panic=%v", d.Obs.Best, parent.Height, perr, pan)}
		}
		var ids []int
		for _, tx := range blk.Transactions[1:] {
			ids = append(ids, m.TxIDOf[tx.ID])
		}
		orphan, err, blocked := w.Process(node.CopyBlock(blk, nil), watchdog)
		cls := "mid-epoch"
		if blk.Height%2 == 1 {
			cls = "pays-rewards"
		}
		if blocked || err != nil || orphan {
			return &divergence{last, "C38", "own-block-rejected:" + cls, fmt.Sprintf("the block the node proposed at height %d with menu transactions %v (pool submissions %v) was not accepted by the node itself: orphan=%v err=%v blocked=%v", blk.Height, ids, d.Obs.Submitted, orphan, err, blocked)}
		}
		if bh := env.Chain.BestBlockHash(); *bh != blk.Hash() {
			return &divergence{last, "C38", "own-block-not-best:" + cls, fmt.Sprintf("the block the node proposed at height %d (transactions %v) was stored but did not become the best block", blk.Height, ids)}
		}
		return nil
	}
	// property-level fork choice: the best block of the valid tree
	if d.Obs.ValidBest != d.Obs.Best {
		return &divergence{last, "C11", "invalid-branch-shadows-valid", fmt.Sprintf("after %s: best block is %d although block %d is the fork-choice winner of the valid block tree (a stored branch that does not apply keeps being selected)", what, o.Best, d.Obs.ValidBest)}
	}
	return nil
}

// alsoProps: a wrongly accepted reward coinbase decides C14 as well as C13; a ledger or best-chain
// divergence on the proposer's own block also concerns C38
func alsoProps(d *divergence) []string {
	if d.Prop == "C13" && (strings.HasPrefix(d.What, "ret:cbamount") || strings.HasPrefix(d.What, "ret:cbextra")) {
		return []string{"C14"}
	}
	return nil
}

func loadCase(path string, want int) (d doc) {
	vh.EachExport(path, func(idx int, raw []byte) error {
		if idx == want {
			json.Unmarshal(raw, &d)
		}
		return nil
	})
	return
}

func shape(d doc) string {
	s := ""
	for _, c := range d.Calls {
		switch c.Op {
		case "mint":
			s += fmt.Sprintf("m%d.%d%s,", c.P, c.Pos, c.Bad[:1])
		case "place":
			s += fmt.Sprintf("p%d.%d,", c.B, c.Tx)
		case "deliver":
			s += fmt.Sprintf("d%d,", c.B)
		case "submit":
			s += fmt.Sprintf("s%d,", c.Tx)
		}
	}
	return s
}

func main() {
	vh.Quiet()
	if ok, i, n, from, only, args := vh.IsWorker(); ok {
		stride := 1
		if len(args) > 1 {
			stride, _ = strconv.Atoi(args[1])
		}
		proposeMode = len(args) > 2 && args[2] == "propose"
		cases, calls := 0, 0
		shapes := map[string]bool{}
		vh.AtRecycle = func() {
			vh.Summary(map[string]interface{}{"partial": true, "cases": cases, "calls": calls, "distinct": len(shapes)})
		}
		want := func(idx int) bool {
			if stride > 1 && idx%stride != int(vh.Seed())%stride {
				return false
			}
			return vh.Mine(idx/stride, i, n, from, only)
		}
		_, err := vh.EachExportIf(args[0], want, func(idx int, raw []byte) error {
			if vh.TooMany() {
				return nil
			}
			var d doc
			if err := json.Unmarshal(raw, &d); err != nil {
				return err
			}
			vh.Cur(idx / stride)
			cases++
			for _, c := range d.Calls {
				if c.Op == "deliver" || c.Op == "submit" {
					calls++
				}
			}
			shapes[shape(d)] = true
			dv := replay(d)
			if dv != nil && strings.Contains(dv.What, "blocked") {
				watchdog *= 6
				dv = replay(d)
				watchdog /= 6
			}
			if dv != nil {
				vh.Violation(dv.Prop+":ledger:"+dv.What, dv.Msg, map[string]interface{}{"engine": "ledger", "calls": d.Calls, "obs": d.Obs, "diverges_at": dv.Step, "prop": dv.Prop, "also": alsoProps(dv)})
			}
			if cases%3000 == 17 {
				vh.Sample(d.Calls)
			}
			return nil
		})
		if err != nil {
			vh.Fatal("worker: %v", err)
		}
		vh.Summary(map[string]interface{}{"partial": true, "cases": cases, "calls": calls, "distinct": len(shapes)})
		return
	}
	mode := "replay"
	if len(os.Args) > 1 && os.Args[1] == "propose" {
		mode = "propose"
		os.Args[1] = "replay"
	}
	if len(os.Args) < 4 || os.Args[1] != "replay" {
		vh.Fatal("usage: ledger replay <tlc-output> <workers> [stride]")
	}
	nw, _ := strconv.Atoi(os.Args[3])
	stride := "1"
	if len(os.Args) > 4 {
		stride = os.Args[4]
	}
	st, _ := strconv.Atoi(stride)
	flaky := vh.RunPool(nw, []string{os.Args[2], stride, mode}, func(idx int, tail string) {
		d := loadCase(os.Args[2], idx*st+int(vh.Seed())%st)
		vh.Violation("C12:ledger:panic", fmt.Sprintf("the node process died while replaying the scenario:\n%s", tail),
			map[string]interface{}{"engine": "ledger", "calls": d.Calls, "obs": d.Obs, "prop": "C12"})
	})
	vh.Summary(map[string]interface{}{"partial": true, "unreproducible_worker_deaths": flaky})
}
