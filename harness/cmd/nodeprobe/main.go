package main

import (
	"fmt"
	"time"

	"verifharness/internal/memkv"
	"verifharness/internal/node"
	"verifharness/internal/vh"
)

func main() {
	vh.Quiet()
	node.Configure(node.Config{E: 2, NVal: 1, Me: -1, Interval: 1000})
	t0 := time.Now()
	env, err := node.Open(memkv.New())
	if err != nil {
		panic(err)
	}
	fmt.Println("open", time.Since(t0))
	f := node.NewFactory()
	prog := []byte{0x51}
	parent := f.Genesis
	t0 = time.Now()
	for h := 1; h <= 6; h++ {
		var first uint64
		if h%2 == 1 && h > 1 {
			first = 2 * 285388127
		}
		b := f.Build(node.BlockReq{Parent: parent, Signer: 0, Program: prog, First: first})
		orphan, err := env.Chain.ProcessBlock(b)
		fmt.Println(h, orphan, err, env.Chain.BestBlockHeight())
		parent = b
	}
	fmt.Println("6 blocks", time.Since(t0), "writes", env.KV.Writes)
}
