package main

import (
	"encoding/hex"
	"fmt"
	"runtime"
	"strings"

	"github.com/bytom/bytom/protocol/bc/types"
	"verifharness/internal/vh"
)

func try(name string, n int, f func() error) {
	var m0, m1 runtime.MemStats
	runtime.ReadMemStats(&m0)
	var err error
	var pan interface{}
	func() {
		defer func() { pan = recover() }()
		err = f()
	}()
	runtime.ReadMemStats(&m1)
	d := m1.TotalAlloc - m0.TotalAlloc
	fmt.Printf("%-28s len=%d err=%v panic=%v alloc=%d ratio=%.1f\n", name, n, err != nil, pan, d, float64(d)/float64(n))
}
func uv(n int) string {
	var b []byte
	for n >= 128 {
		b = append(b, byte(n)|0x80)
		n >>= 7
	}
	b = append(b, byte(n))
	return hex.EncodeToString(b)
}
func main() {
	vh.Quiet()
	for _, N := range []int{1, 1000, 10000, 100000} {
		// N coinbase inputs: av=01, commitment 02 02 00, witness 00
		h := "070100" + uv(N) + strings.Repeat("0102020000", N) + "00"
		try("coinbase inputs", len(h), func() error { var tx types.Tx; return tx.UnmarshalText([]byte(h)) })
		h = "07010000" + uv(N) + strings.Repeat("02000000", N)
		try("ext outputs", len(h), func() error { var tx types.Tx; return tx.UnmarshalText([]byte(h)) })
		try("ext outputs txdata", len(h), func() error { var tx types.TxData; return tx.UnmarshalText([]byte(h)) })
		// one output with N empty state data entries
		body := strings.Repeat("00", 32) + "00" + "01" + "00" + uv(N) + strings.Repeat("00", N)
		h = "07010000" + "01" + "0100" + uv(len(body)/2) + body + "00"
		try("statedata empties", len(h), func() error { var tx types.Tx; return tx.UnmarshalText([]byte(h)) })
		try("statedata empties txdata", len(h), func() error { var tx types.TxData; return tx.UnmarshalText([]byte(h)) })
		// header with N suplinks
		sl := "00" + strings.Repeat("00", 32) + strings.Repeat("00", 10)
		slb := uv(N) + strings.Repeat(sl, N)
		h = "01" + "0101" + strings.Repeat("00", 32) + "01" + "20" + strings.Repeat("00", 32) + "0100" + uv(len(slb)/2) + slb
		try("header suplinks", len(h), func() error { var bh types.BlockHeader; return bh.UnmarshalText([]byte(h)) })
		// block with N empty txs
		h = "03" + "0101" + strings.Repeat("00", 32) + "01" + "20" + strings.Repeat("00", 32) + "0100" + "0100" + uv(N) + strings.Repeat("0701000000", N)
		try("block empty txs", len(h), func() error { var b types.Block; return b.UnmarshalText([]byte(h)) })
	}
}
