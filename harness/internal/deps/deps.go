// Package deps pins the optional cached modules so that go.mod/go.sum need no edits by individual drivers.
package deps

import (
	_ "pgregory.net/rapid"
)
