// Package fan runs a harness command as several child processes of the same binary (each child
// handles the exported behaviours with index % nchild == k) and merges their `VH` output.
// Fresh processes bound the goroutines leaked by constructors of the real code (NewTxPool and
// newUtxoKeeper each start a worker that never stops) and isolate crashes: a child that dies is
// reported with the last behaviour it announced.
package fan

import (
	"bufio"
	"encoding/json"
	"fmt"
	"os"
	"os/exec"
	"strings"
	"sync"

	"verifharness/internal/vh"
)

// Result of a fan-out: merged numeric summary fields and, per dead child, what it was doing.
type Result struct {
	Sum  map[string]float64
	Maps map[string]map[string]float64
	Dead []string
}

// Run starts nchild children `self args... <k> <nchild>`, at most par at a time. Lines `VH {...}`
// of other kinds are handed to `other` (serialised); those of kind violation/sample are forwarded to stdout (at most perSig violations per signature in
// total), summaries are added up, `VH {"kind":"at",...}` lines are remembered as the child's position.
func Run(args []string, nchild, par, perSig int, other func(o map[string]interface{})) Result {
	self, err := os.Executable()
	if err != nil {
		vh.Fatal("os.Executable: %v", err)
	}
	res := Result{Sum: map[string]float64{}, Maps: map[string]map[string]float64{}}
	var mu sync.Mutex
	sigs := map[string]int{}
	sem := make(chan struct{}, par)
	var wg sync.WaitGroup
	for k := 0; k < nchild; k++ {
		wg.Add(1)
		sem <- struct{}{}
		go func(k int) {
			defer wg.Done()
			defer func() { <-sem }()
			a := append(append([]string{}, args...), fmt.Sprint(k), fmt.Sprint(nchild))
			cmd := exec.Command(self, a...)
			cmd.Env = os.Environ()
			cmd.Stderr = nil
			out, err := cmd.StdoutPipe()
			if err != nil {
				vh.Fatal("pipe: %v", err)
			}
			if err := cmd.Start(); err != nil {
				vh.Fatal("start child: %v", err)
			}
			at, gotSummary := "", false
			r := bufio.NewReaderSize(out, 1<<20)
			for {
				line, e := r.ReadString('\n')
				if strings.HasPrefix(line, "VH ") {
					var o map[string]interface{}
					if json.Unmarshal([]byte(strings.TrimSpace(line[3:])), &o) == nil {
						switch o["kind"] {
						case "at":
							at = strings.TrimSpace(line[3:])
						case "summary":
							gotSummary = true
							mu.Lock()
							for f, v := range o {
								switch x := v.(type) {
								case float64:
									res.Sum[f] += x
								case map[string]interface{}:
									if res.Maps[f] == nil {
										res.Maps[f] = map[string]float64{}
									}
									for kk, vv := range x {
										if n, ok := vv.(float64); ok {
											res.Maps[f][kk] += n
										}
									}
								}
							}
							mu.Unlock()
						case "violation":
							sig, _ := o["sig"].(string)
							mu.Lock()
							sigs[sig]++
							n := sigs[sig]
							mu.Unlock()
							if n <= perSig {
								vh.Violation(sig, fmt.Sprint(o["desc"]), o["replay"])
							}
						case "sample":
							vh.Sample(o["case"])
						case "infra":
							vh.Fatal("child %d: %v", k, o["msg"])
						default:
							if other != nil {
								mu.Lock()
								other(o)
								mu.Unlock()
							}
						}
					}
				}
				if e != nil {
					break
				}
			}
			werr := cmd.Wait()
			if werr != nil || !gotSummary {
				mu.Lock()
				res.Dead = append(res.Dead, fmt.Sprintf("child %d/%d died (%v) at %s", k, nchild, werr, at))
				mu.Unlock()
			}
		}(k)
	}
	wg.Wait()
	return res
}
