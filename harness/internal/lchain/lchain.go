// Package lchain is a small helper of the ledger checks (C14, C15): a real
// protocol.Chain on a goleveldb directory with harness-held federation keys and
// hand-built, hand-signed blocks.
package lchain

import (
	"fmt"
	"os"
	"path/filepath"

	"github.com/bytom/bytom/config"
	"github.com/bytom/bytom/consensus"
	"github.com/bytom/bytom/crypto/ed25519/chainkd"
	"github.com/bytom/bytom/database"
	dbm "github.com/bytom/bytom/database/leveldb"
	"github.com/bytom/bytom/event"
	"github.com/bytom/bytom/protocol"
	"github.com/bytom/bytom/protocol/bc"
	"github.com/bytom/bytom/protocol/bc/types"
)

// Env is one node.
type Env struct {
	Dir   string
	DB    dbm.DB
	Store *database.Store
	Pool  *protocol.TxPool
	Chain *protocol.Chain
}

// Configure installs process-wide consensus parameters: federation = fed (in this
// order), node key = nodeKey.
func Configure(fed []chainkd.XPub, nodeKey chainkd.XPrv, epoch, interval uint64) {
	p := consensus.MainNetParams
	p.Name = "main" // has a genesis block; not "solo" (which overwrites the federation)
	p.BlocksOfEpoch = epoch
	p.BlockTimeInterval = interval
	p.MaxTimeOffsetMs = 3000
	p.FederationXpubs = append([]chainkd.XPub{}, fed...)
	consensus.ActiveNetParams = p
	config.CommonConfig = config.DefaultConfig()
	k := nodeKey
	config.CommonConfig.XPrv = &k
}

var seq int

// Open creates a fresh node under $VERIF_WORK (or the system temp dir).
func Open(tag string) (*Env, error) {
	base := os.Getenv("VERIF_WORK")
	if base == "" {
		base = os.TempDir()
	}
	seq++
	dir := filepath.Join(base, fmt.Sprintf("ldb-%s-%d-%d", tag, os.Getpid(), seq))
	os.RemoveAll(dir)
	if err := os.MkdirAll(dir, 0o755); err != nil {
		return nil, err
	}
	e := &Env{Dir: dir}
	e.DB = dbm.NewDB("core", "leveldb", dir)
	e.Store = database.NewStore(e.DB)
	disp := event.NewDispatcher()
	e.Pool = protocol.NewTxPool(e.Store, disp)
	c, err := protocol.NewChain(e.Store, e.Pool, disp)
	if err != nil {
		return nil, err
	}
	e.Chain = c
	return e, nil
}

// Close releases the directory.
func (e *Env) Close() {
	e.DB.Close()
	os.RemoveAll(e.Dir)
}

// Out is one coinbase output.
type Out struct {
	Program []byte
	Amount  uint64
}

// FinishTx sets SerializedSize as the node's builders do and maps the transaction.
func FinishTx(d *types.TxData) *types.Tx {
	d.SerializedSize = 0
	b, err := d.MarshalText()
	if err != nil {
		panic(err)
	}
	d.SerializedSize = uint64(len(b) / 2)
	return types.NewTx(*d)
}

// Coinbase builds a coinbase transaction with the given outputs (at least one).
func Coinbase(height uint64, nonce int, outs []Out) *types.Tx {
	arb := append([]byte{0x00}, []byte(fmt.Sprintf("%d/%d", height, nonce))...)
	d := types.TxData{Version: 1, Inputs: []*types.TxInput{types.NewCoinbaseInput(arb)}}
	for _, o := range outs {
		d.Outputs = append(d.Outputs, types.NewOriginalTxOutput(*consensus.BTMAssetID, o.Amount, o.Program, [][]byte{}))
	}
	return FinishTx(&d)
}

// Block builds and signs a block on parent.
func Block(parent *types.BlockHeader, ts uint64, signer chainkd.XPrv, coinbase *types.Tx, txs []*types.Tx) *types.Block {
	b := &types.Block{BlockHeader: types.BlockHeader{Version: 1, Height: parent.Height + 1,
		PreviousBlockHash: parent.Hash(), Timestamp: ts}}
	b.Transactions = append([]*types.Tx{coinbase}, txs...)
	var bcTxs []*bc.Tx
	for _, tx := range b.Transactions {
		bcTxs = append(bcTxs, tx.Tx)
	}
	root, err := types.TxMerkleRoot(bcTxs)
	if err != nil {
		panic(err)
	}
	b.TransactionsMerkleRoot = root
	b.BlockWitness.Set(signer.Sign(b.Hash().Bytes()))
	return b
}
