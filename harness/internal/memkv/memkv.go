// Package memkv is an in-memory ordered key-value store implementing the repository's
// dbm.DB interface with the semantics of the LevelDB backend (the executable image of
// specs KV semantics): iterators work on a snapshot, IteratorPrefix starts *before* the
// first key of the prefix, IteratorPrefixWithStart is positioned *on* the first key
// >= start within the prefix. It adds what the conformance engines need: cloning,
// a write log and a crash point after which writes are dropped (batches are atomic).
package memkv

import (
	"bytes"
	"sort"
	"sync"

	dbm "github.com/bytom/bytom/database/leveldb"
)

type DB struct {
	mu     sync.Mutex
	m      map[string][]byte
	Writes int  // number of write operations applied or dropped so far (Set, Delete, Batch.Write)
	CrashAt int // when > 0: the CrashAt-th write and all later ones are dropped
	Log    []string
	KeepLog bool
	// Hang: when the crash point is reached the writing goroutine never returns (the process
	// "died" inside that write); CrashedCh is closed at that moment.
	LastKind  string // kind of the most recent write operation (applied or dropped)
	Hang      bool
	CrashedCh chan struct{}
	crashed   bool
}

func New() *DB { return &DB{m: map[string][]byte{}, CrashedCh: make(chan struct{})} }

// die marks the crash and, in Hang mode, blocks the caller forever. Called without the lock.
func (d *DB) die() {
	d.mu.Lock()
	first := !d.crashed
	d.crashed = true
	d.mu.Unlock()
	if first {
		close(d.CrashedCh)
	}
	if d.Hang {
		select {}
	}
}

// Clone returns an independent copy of the stored data (counters reset).
func (d *DB) Clone() *DB {
	d.mu.Lock()
	defer d.mu.Unlock()
	c := New()
	for k, v := range d.m {
		c.m[k] = v
	}
	return c
}

// Dump returns a copy of the content (for comparisons).
func (d *DB) Dump() map[string][]byte {
	d.mu.Lock()
	defer d.mu.Unlock()
	c := make(map[string][]byte, len(d.m))
	for k, v := range d.m {
		c[k] = v
	}
	return c
}

// admit counts one write operation and says whether it is applied.
func (d *DB) admit(kind string) bool {
	d.Writes++
	if d.KeepLog {
		d.Log = append(d.Log, kind)
	}
	d.LastKind = kind
	return d.CrashAt == 0 || d.Writes < d.CrashAt
}

func (d *DB) Crashed() bool {
	d.mu.Lock()
	defer d.mu.Unlock()
	return d.CrashAt != 0 && d.Writes >= d.CrashAt
}

func (d *DB) Get(k []byte) []byte {
	d.mu.Lock()
	defer d.mu.Unlock()
	v, ok := d.m[string(k)]
	if !ok {
		return nil
	}
	return append([]byte{}, v...)
}

func (d *DB) Set(k, v []byte) {
	d.mu.Lock()
	if d.admit("set:" + keyClass(k)) {
		d.m[string(k)] = append([]byte{}, v...)
		d.mu.Unlock()
		return
	}
	d.mu.Unlock()
	d.die()
}
func (d *DB) SetSync(k, v []byte) { d.Set(k, v) }
func (d *DB) Delete(k []byte) {
	d.mu.Lock()
	if d.admit("delete:" + keyClass(k)) {
		delete(d.m, string(k))
		d.mu.Unlock()
		return
	}
	d.mu.Unlock()
	d.die()
}
func (d *DB) DeleteSync(k []byte)      { d.Delete(k) }
func (d *DB) Close()                   {}
func (d *DB) Print()                   {}
func (d *DB) Stats() map[string]string { return map[string]string{} }

type op struct {
	k   string
	v   []byte
	del bool
}
type batch struct {
	d   *DB
	ops []op
}

func (d *DB) NewBatch() dbm.Batch { return &batch{d: d} }
func (b *batch) Set(k, v []byte) {
	b.ops = append(b.ops, op{k: string(k), v: append([]byte{}, v...)})
}
func (b *batch) Delete(k []byte) { b.ops = append(b.ops, op{k: string(k), del: true}) }
func (b *batch) Write() {
	b.d.mu.Lock()
	if !b.d.admit("batch:" + b.classes()) {
		b.d.mu.Unlock()
		b.d.die()
		return
	}
	for _, o := range b.ops {
		if o.del {
			delete(b.d.m, o.k)
		} else {
			b.d.m[o.k] = o.v
		}
	}
	b.d.mu.Unlock()
}

type iter struct {
	keys []string
	vals [][]byte
	pos  int // index of the current element; -1 before the first
	rev  bool
}

func (d *DB) snapshot(prefix []byte) *iter {
	d.mu.Lock()
	defer d.mu.Unlock()
	it := &iter{pos: -1}
	for k := range d.m {
		if bytes.HasPrefix([]byte(k), prefix) {
			it.keys = append(it.keys, k)
		}
	}
	sort.Strings(it.keys)
	for _, k := range it.keys {
		it.vals = append(it.vals, d.m[k])
	}
	return it
}

func (d *DB) Iterator() dbm.Iterator                  { return d.snapshot(nil) }
func (d *DB) IteratorPrefix(p []byte) dbm.Iterator    { return d.snapshot(p) }
func (d *DB) IteratorPrefixWithStart(p, start []byte, reverse bool) dbm.Iterator {
	it := d.snapshot(p)
	it.rev = reverse
	if start != nil {
		it.pos = sort.SearchStrings(it.keys, string(start)) // first key >= start
		if it.pos >= len(it.keys) && reverse {
			it.pos = len(it.keys) // past the end; Next (=Prev) moves to the last
		}
	} else if reverse {
		it.pos = len(it.keys)
	}
	return it
}

func (it *iter) valid() bool { return it.pos >= 0 && it.pos < len(it.keys) }
func (it *iter) Next() bool {
	if it.rev {
		if it.pos >= 0 {
			it.pos--
		}
	} else if it.pos < len(it.keys) {
		it.pos++
	}
	return it.valid()
}
func (it *iter) Key() []byte {
	if !it.valid() {
		return []byte{}
	}
	return []byte(it.keys[it.pos])
}
func (it *iter) Value() []byte {
	if !it.valid() {
		return []byte{}
	}
	return append([]byte{}, it.vals[it.pos]...)
}
func (it *iter) Seek(p []byte) bool {
	it.pos = sort.SearchStrings(it.keys, string(p))
	return it.valid()
}
func (it *iter) Release()     {}
func (it *iter) Error() error { return nil }

// keyClass names the record family of a key (prefix up to the first ':' or the first 3 bytes).
func keyClass(k []byte) string {
	if len(k) >= 2 && k[1] == ':' && k[0] < 16 {
		names := map[byte]string{2: "hashes", 3: "header", 4: "txs", 5: "mainidx", 6: "checkpoint", 7: "utxo", 8: "contract"}
		if n, ok := names[k[0]]; ok {
			return n
		}
		return "rec" + string('0'+k[0])
	}
	for i, c := range k {
		if c == ':' {
			return string(k[:i])
		}
		if i >= 12 {
			break
		}
	}
	if len(k) > 10 {
		return string(k[:10])
	}
	return string(k)
}

func (b *batch) classes() string {
	seen := map[string]bool{}
	out := ""
	for _, o := range b.ops {
		c := keyClass([]byte(o.k))
		if !seen[c] {
			seen[c] = true
			if out != "" {
				out += "+"
			}
			out += c
		}
	}
	return out
}
