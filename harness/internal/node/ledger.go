package node

import (
	"math"
	"os"
	"strconv"
	"strings"

	"github.com/bytom/bytom/consensus"
	"github.com/bytom/bytom/crypto/sha3pool"
	"github.com/bytom/bytom/protocol/bc"
	"github.com/bytom/bytom/protocol/bc/types"
	"github.com/bytom/bytom/protocol/vm/vmutil"
)

// Ledger-family concretisation: the funding prefix, the transaction menu of
// specs/chain/Ledger.tla as real transactions, and the reward arithmetic the factory
// needs to pay correct epoch rewards on every branch.

const (
	PrefixLen = 14
	TxFee     = 10000000
	VoteLock  = 2
)

var TrueProg = []byte{0x51}

// ConfigureLedger installs the ledger family's consensus parameters.
func ConfigureLedger() { ConfigureLedgerAs(1, -1) }

// ConfigureLedgerAs: nval federation keys (scenario blocks are signed by validator 0), the node holds key me.
func ConfigureLedgerAs(nval, me int) {
	Configure(Config{E: 2, NVal: nval, Me: me, Interval: 1000})
	p := consensus.ActiveNetParams
	p.MinValidatorVoteNum = 100000000000000 // vote outputs never change the validator set
	p.VotePendingBlockNums = []consensus.VotePendingBlockNum{{BeginBlock: 0, EndBlock: math.MaxUint64, Num: VoteLock}}
	// VERIF_LOCKTABLE=a,step,b: a blocks below height step, b from there on (Ledger.tla: VoteLock, LockStep, VoteLock2)
	if f := strings.Split(os.Getenv("VERIF_LOCKTABLE"), ","); len(f) == 3 {
		a, _ := strconv.ParseUint(f[0], 10, 64)
		st, _ := strconv.ParseUint(f[1], 10, 64)
		b, _ := strconv.ParseUint(f[2], 10, 64)
		p.VotePendingBlockNums = []consensus.VotePendingBlockNum{{BeginBlock: 0, EndBlock: st, Num: a}, {BeginBlock: st, EndBlock: math.MaxUint64, Num: b}}
	}
	consensus.ActiveNetParams = p
}

// Subsidy is the per-block validator reward for a checkpoint at `height` holding `votes`.
func Subsidy(votes, height uint64) uint64 {
	totalSupply := height*consensus.BlockReward/2 + consensus.InitBTMSupply
	rate := float64(votes) / float64(totalSupply)
	if rate <= consensus.RewardThreshold {
		return uint64((rate + consensus.RewardThreshold) * float64(consensus.BlockReward))
	}
	return consensus.BlockReward
}

// Coin is a spendable output of the menu.
type Coin struct {
	Name     string
	ID       bc.Hash // output id
	SourceID bc.Hash
	Pos      uint64
	Amount   uint64
	Program  []byte
	Vote     []byte
}

// MenuTx is one concrete transaction of the menu.
type MenuTx struct {
	Tx       *types.Tx
	In, Out  string
	Fee      uint64
	VoteAmt  int64 // change of the vote tally (vote +, veto -)
	Contract []byte
}

func coinOf(name string, tx *types.Tx, pos int, vote []byte) *Coin {
	id := *tx.ResultIds[pos]
	c := &Coin{Name: name, ID: id, Amount: tx.Outputs[pos].Amount, Program: tx.Outputs[pos].ControlProgram, Vote: vote}
	switch e := tx.Entries[id].(type) {
	case *bc.OriginalOutput:
		c.SourceID, c.Pos = *e.Source.Ref, e.Source.Position
	case *bc.VoteOutput:
		c.SourceID, c.Pos = *e.Source.Ref, e.Source.Position
	}
	return c
}

// Menu holds the prefix and the concrete menu.
type Menu struct {
	Prefix   []*types.Block // heights 1..PrefixLen
	Coins    map[string]*Coin
	Txs      map[int]*MenuTx
	TxIDOf   map[bc.Hash]int
	Contract []byte
	CHash    [32]byte
}

// BuildPrefix extends w with the linear funding prefix (block ids -1..-PrefixLen are not
// registered in w.Blocks; the tip becomes model block 0).
func BuildMenu(w *World) *Menu {
	m := &Menu{Coins: map[string]*Coin{}, Txs: map[int]*MenuTx{}, TxIDOf: map[bc.Hash]int{}}
	parent := w.F.Genesis
	for h := uint64(1); h <= PrefixLen; h++ {
		var first uint64
		if h%2 == 1 && h > 1 {
			first = 2 * R0
		}
		b := w.F.Build(BlockReq{Parent: parent, Signer: 0, Program: TrueProg, First: first, Nonce: 7000 + h})
		m.Prefix = append(m.Prefix, b)
		parent = b
	}
	for _, h := range []int{3, 5, 7} {
		name := map[int]string{3: "P3", 5: "P5", 7: "P7"}[h]
		m.Coins[name] = coinOf(name, m.Prefix[h-1].Transactions[0], 0, nil)
	}
	voteKey := Keys[0].XPub()
	m.Contract = []byte{0x51, 0x51, 0x9a} // any non-empty contract body
	reg, err := vmutil.RegisterProgram(m.Contract)
	if err != nil {
		panic(err)
	}
	spend := func(c *Coin) *types.TxInput {
		if c.Vote != nil {
			return types.NewVetoInput(nil, c.SourceID, *consensus.BTMAssetID, c.Amount, c.Pos, c.Program, c.Vote, nil)
		}
		return types.NewSpendInput(nil, c.SourceID, *consensus.BTMAssetID, c.Amount, c.Pos, c.Program, nil)
	}
	mk := func(id int, in, out string, fee uint64, prog []byte, vote []byte, contract []byte) {
		c := m.Coins[in]
		d := types.TxData{Version: 1, Inputs: []*types.TxInput{spend(c)}}
		amt := c.Amount - fee
		if vote != nil {
			d.Outputs = []*types.TxOutput{types.NewVoteOutput(*consensus.BTMAssetID, amt, prog, vote, nil)}
		} else {
			d.Outputs = []*types.TxOutput{types.NewOriginalTxOutput(*consensus.BTMAssetID, amt, prog, nil)}
		}
		tx := FinishTx(&d)
		mt := &MenuTx{Tx: tx, In: in, Out: out, Fee: fee, Contract: contract}
		if vote != nil {
			mt.VoteAmt = int64(amt)
		}
		if c.Vote != nil {
			mt.VoteAmt = -int64(c.Amount)
		}
		m.Txs[id] = mt
		m.TxIDOf[tx.ID] = id
		m.Coins[out] = coinOf(out, tx, 0, vote)
	}
	mk(1, "P3", "N1", TxFee, TrueProg, nil, nil)
	mk(2, "P3", "N2", TxFee+1, TrueProg, nil, nil)
	mk(3, "N1", "V3", TxFee, TrueProg, voteKey[:], nil)
	mk(4, "V3", "N4", TxFee, TrueProg, nil, nil)
	mk(5, "P5", "N5", TxFee, reg, nil, m.Contract)
	mk(6, "P7", "N6", TxFee, TrueProg, nil, nil)
	mk(7, "N2", "N7", TxFee, reg, nil, m.Contract)
	sha3pool.Sum256(m.CHash[:], m.Contract)
	return m
}
