// Package node materialises the abstract blocks, votes and transactions of the
// chain specifications (specs/chain) as real objects and drives a real
// protocol.Chain with them. It never consults the chain under test to build inputs:
// headers, slots, reward coinbases and signatures are computed here from the
// factory's own block table, so a node that computes something else rejects them.
package node

import (
	"encoding/hex"
	"fmt"
	"sort"

	"github.com/bytom/bytom/config"
	"github.com/bytom/bytom/consensus"
	"github.com/bytom/bytom/crypto/ed25519/chainkd"
	"github.com/bytom/bytom/database"
	"github.com/bytom/bytom/event"
	"github.com/bytom/bytom/protocol"
	"github.com/bytom/bytom/protocol/bc"
	"github.com/bytom/bytom/protocol/bc/types"

	"verifharness/internal/memkv"
)

// Config are the consensus parameters of one family of scenarios.
type Config struct {
	E        uint64 // blocks per epoch
	NVal     int    // federation size
	Me       int    // index of the node's own key among the validators, -1 = not a validator
	Interval uint64 // block time interval (ms)
}

// Keys[i] is validator i (federation order i). NodeKey is the key the node signs with.
var (
	Keys    []chainkd.XPrv
	Outside chainkd.XPrv
	Cfg     Config
)

func detKey(seed byte) chainkd.XPrv {
	var s [32]byte
	for i := range s {
		s[i] = seed ^ byte(i*7+1)
	}
	return chainkd.RootXPrv(s[:])
}

// Configure installs the consensus parameters and keys process-wide.
func Configure(c Config) {
	Cfg = c
	Keys = nil
	for i := 0; i < c.NVal; i++ {
		Keys = append(Keys, detKey(byte(11+i)))
	}
	// the model's validator order is the federation order; keep keys sorted by xpub text so
	// that "key order" in the specification is also the textual order of public keys
	sort.Slice(Keys, func(i, j int) bool { return Keys[i].XPub().String() < Keys[j].XPub().String() })
	Outside = detKey(201)
	p := consensus.SoloNetParams
	p.Name = "test" // a name with a genesis block; not "solo", which would overwrite the federation with the node key
	p.BlocksOfEpoch = c.E
	p.BlockTimeInterval = c.Interval
	p.MaxTimeOffsetMs = 24000
	p.FederationXpubs = nil
	for _, k := range Keys {
		p.FederationXpubs = append(p.FederationXpubs, k.XPub())
	}
	consensus.ActiveNetParams = p
	config.CommonConfig = config.DefaultConfig()
	me := Outside
	if c.Me >= 0 {
		me = Keys[c.Me]
	}
	config.CommonConfig.XPrv = &me
}

// Env is one running node on an in-memory store.
type Env struct {
	KV    *memkv.DB
	Store *database.Store
	Disp  *event.Dispatcher
	Pool  *protocol.TxPool
	Chain *protocol.Chain
}

// Open starts a node on kv (fresh or holding a previous node's records).
func Open(kv *memkv.DB) (*Env, error) {
	e := &Env{KV: kv}
	e.Store = database.NewStore(kv)
	e.Disp = event.NewDispatcher()
	e.Pool = protocol.NewTxPool(e.Store, e.Disp)
	c, err := protocol.NewChain(e.Store, e.Pool, e.Disp)
	if err != nil {
		return nil, err
	}
	e.Chain = c
	return e, nil
}

// ---------------------------------------------------------------- factory

// Factory keeps every block it ever built, by hash; it is the environment's memory.
type Factory struct {
	Genesis *types.Block
	ByHash  map[bc.Hash]*types.Block
}

func NewFactory() *Factory {
	g := config.GenesisBlock()
	f := &Factory{Genesis: g, ByHash: map[bc.Hash]*types.Block{}}
	f.ByHash[g.Hash()] = g
	return f
}

// boundary returns the epoch-boundary ancestor whose checkpoint fixes the validator
// schedule of a child of parent (parent itself when it closes an epoch).
func (f *Factory) boundary(parent *types.Block) *types.Block {
	b := parent
	for b.Height%Cfg.E != 0 {
		b = f.ByHash[b.PreviousBlockHash]
	}
	return b
}

// SlotTime returns the smallest timestamp >= parent.Timestamp+interval whose slot
// belongs to validator order `signer` (n validators in round robin from the boundary).
func (f *Factory) SlotTime(parent *types.Block, signer, n int) uint64 {
	iv := Cfg.Interval
	start := f.boundary(parent).Timestamp + iv
	ts := parent.Timestamp + iv
	// align to slot starts relative to start (all timestamps are start + k*iv by construction)
	k := (ts - start + iv - 1) / iv
	for int(k%uint64(n)) != signer {
		k++
	}
	return start + k*iv
}

// Reward is one output of a reward-paying coinbase.
type Reward struct {
	Program []byte
	Amount  uint64
}

// Coinbase builds the coinbase transaction: output 0 pays `first` to the proposer's
// program (possibly 0), followed by the other rewards.
func Coinbase(height uint64, nonce uint64, prog []byte, first uint64, others []Reward) *types.Tx {
	arb := append([]byte{0x00}, []byte(fmt.Sprintf("%d/%d", height, nonce))...)
	d := types.TxData{
		Version: 1,
		Inputs:  []*types.TxInput{types.NewCoinbaseInput(arb)},
		Outputs: []*types.TxOutput{types.NewOriginalTxOutput(*consensus.BTMAssetID, first, prog, [][]byte{})},
	}
	for _, r := range others {
		d.Outputs = append(d.Outputs, types.NewOriginalTxOutput(*consensus.BTMAssetID, r.Amount, r.Program, [][]byte{}))
	}
	return FinishTx(&d)
}

// FinishTx sets the serialized size the way the node's builders do and maps the tx.
func FinishTx(d *types.TxData) *types.Tx {
	d.SerializedSize = 0
	b, err := d.MarshalText()
	if err != nil {
		panic(err)
	}
	d.SerializedSize = uint64(len(b) / 2)
	return types.NewTx(*d)
}

// BlockReq describes one block to build.
type BlockReq struct {
	Parent   *types.Block
	Signer   int         // validator order that signs (its slot is used for the timestamp)
	NVal     int         // size of the validator set in force (federation unless votes changed it)
	SignKey  *chainkd.XPrv // override of the signing key (mutations); nil = Keys[Signer]
	Program  []byte      // proposer's reward program (coinbase output 0)
	First    uint64      // amount of coinbase output 0
	Others   []Reward    // further reward outputs
	Txs      []*types.Tx // non-coinbase transactions
	Nonce    uint64      // varied to obtain distinct hashes / a wanted hash rank
	SupLinks types.SupLinks
	Mutate   func(b *types.Block) // applied before merkle root + signature
	PostSign func(b *types.Block) // applied after signing (witness-only mutations)
	Timestamp uint64 // 0 = SlotTime
}

// Build makes, signs and records a block.
func (f *Factory) Build(r BlockReq) *types.Block {
	n := r.NVal
	if n == 0 {
		n = Cfg.NVal
	}
	ts := r.Timestamp
	if ts == 0 {
		ts = f.SlotTime(r.Parent, r.Signer, n)
	}
	b := &types.Block{
		BlockHeader: types.BlockHeader{
			Version:           1,
			Height:            r.Parent.Height + 1,
			PreviousBlockHash: r.Parent.Hash(),
			Timestamp:         ts,
			SupLinks:          r.SupLinks,
		},
	}
	b.Transactions = append([]*types.Tx{Coinbase(b.Height, r.Nonce, r.Program, r.First, r.Others)}, r.Txs...)
	if r.Mutate != nil {
		r.Mutate(b)
	}
	var bcTxs []*bc.Tx
	for _, tx := range b.Transactions {
		bcTxs = append(bcTxs, tx.Tx)
	}
	root, err := types.TxMerkleRoot(bcTxs)
	if err != nil {
		panic(err)
	}
	if r.Mutate == nil || b.TransactionsMerkleRoot.IsZero() {
		b.TransactionsMerkleRoot = root // a mutation may have planted a wrong root on purpose
	}
	key := r.SignKey
	if key == nil {
		key = &Keys[r.Signer]
	}
	b.BlockWitness.Set(key.Sign(b.Hash().Bytes()))
	if r.PostSign != nil {
		r.PostSign(b)
	}
	f.ByHash[b.Hash()] = b
	return b
}

// ProgHex is the reward-table key of a program.
func ProgHex(p []byte) string { return hex.EncodeToString(p) }
