package node

import (
	"bytes"
	"sort"
	"time"

	"golang.org/x/crypto/sha3"

	"github.com/bytom/bytom/protocol/bc"
	"github.com/bytom/bytom/protocol/bc/types"
	"github.com/bytom/bytom/protocol/casper"
)

// R0 is the per-block subsidy while (almost) nothing is pledged.
const R0 = 285388127

// World binds the model's block ids to real blocks and drives one node.
type World struct {
	F      *Factory
	Env    *Env
	Blocks map[int]*types.Block
	ByH    map[uint64][]int // ids per height, ascending real hash
	IDOf   map[bc.Hash]int
}

func NewWorld(env *Env) *World {
	w := &World{F: NewFactory(), Env: env, Blocks: map[int]*types.Block{}, ByH: map[uint64][]int{}, IDOf: map[bc.Hash]int{}}
	w.Blocks[0] = w.F.Genesis
	w.IDOf[w.F.Genesis.Hash()] = 0
	return w
}

// Mint builds block `id` on block `p` whose hash has exactly `pos` same-height hashes below it.
// extra customises the request (transactions, signer ...).
func (w *World) Mint(id, p, pos int, extra func(r *BlockReq)) bool {
	parent := w.Blocks[p]
	h := parent.Height + 1
	var first uint64
	if h%Cfg.E == 1 && h > 1 {
		first = Cfg.E * R0
	}
	same := w.ByH[h]
	for nonce, tries := uint64(id)*1000003, 0; tries < 200000; nonce, tries = nonce+1, tries+1 {
		req := BlockReq{Parent: parent, Signer: 0, Program: []byte{0x51}, First: first, Nonce: nonce}
		if extra != nil {
			extra(&req)
		}
		b := w.F.Build(req)
		below := 0
		for _, o := range same {
			oh, nh := w.Blocks[o].Hash(), b.Hash()
			if oh.String() < nh.String() {
				below++
			}
		}
		if below == pos {
			w.Blocks[id] = b
			w.IDOf[b.Hash()] = id
			ns := append([]int{}, same[:pos]...)
			ns = append(ns, id)
			ns = append(ns, same[pos:]...)
			w.ByH[h] = ns
			return true
		}
	}
	return false
}

// CopyBlock returns a block that shares nothing mutable with b (the node adds its own
// verification to the SupLinks of the block it is given).
func CopyBlock(b *types.Block, links types.SupLinks) *types.Block {
	c := &types.Block{BlockHeader: b.BlockHeader, Transactions: b.Transactions}
	c.BlockWitness = append([]byte{}, b.BlockWitness...)
	c.SupLinks = nil
	for _, l := range links {
		n := &types.SupLink{SourceHeight: l.SourceHeight, SourceHash: l.SourceHash}
		for i, s := range l.Signatures {
			if len(s) != 0 {
				n.Signatures[i] = append([]byte{}, s...)
			}
		}
		c.SupLinks = append(c.SupLinks, n)
	}
	return c
}

// Process calls Chain.ProcessBlock under a watchdog. blocked=true when it did not return.
func (w *World) Process(b *types.Block, d time.Duration) (orphan bool, err error, blocked bool) {
	done := make(chan struct{})
	go func() {
		orphan, err = w.Env.Chain.ProcessBlock(b)
		close(done)
	}()
	select {
	case <-done:
		return orphan, err, false
	case <-time.After(d):
		return false, nil, true
	}
}

// Observation is the projection of the node onto the variables of the chain specifications.
type Observation struct {
	Stored, Orphans, InMain map[int]bool
	Best                    int
	Idx                     map[int]int
}

func (w *World) Observe(maxH int) Observation {
	o := Observation{Stored: map[int]bool{}, Orphans: map[int]bool{}, InMain: map[int]bool{}, Idx: map[int]int{}}
	c := w.Env.Chain
	for id, b := range w.Blocks {
		h := b.Hash()
		if _, err := c.GetHeaderByHash(&h); err == nil {
			o.Stored[id] = true
			if c.InMainChain(h) {
				o.InMain[id] = true
			}
		} else if c.BlockExist(&h) {
			o.Orphans[id] = true
		}
	}
	o.Best = -2
	if id, ok := w.IDOf[*c.BestBlockHash()]; ok {
		o.Best = id
	}
	for h := 0; h <= maxH; h++ {
		hd, err := c.GetHeaderByHeight(uint64(h))
		if err != nil {
			o.Idx[h] = -1
		} else if id, ok := w.IDOf[hd.Hash()]; ok {
			o.Idx[h] = id
		} else {
			o.Idx[h] = -2
		}
	}
	return o
}

func SetEq(a []int, b map[int]bool) bool {
	if len(a) != len(b) {
		return false
	}
	for _, x := range a {
		if !b[x] {
			return false
		}
	}
	return true
}

func Keys2(m map[int]bool) []int {
	var r []int
	for k := range m {
		r = append(r, k)
	}
	sort.Ints(r)
	return r
}

// SignVote makes a real verification message of validator v for source -> target.
func SignVote(v int, source, target bc.Hash, ok bool) *casper.ValidCasperSignMsg {
	buf := new(bytes.Buffer)
	source.WriteTo(buf)
	target.WriteTo(buf)
	msg := sha3.Sum256(buf.Bytes())
	sig := Keys[v].Sign(msg[:])
	if !ok {
		sig = append([]byte{}, sig...)
		sig[3] ^= 0x40
	}
	return &casper.ValidCasperSignMsg{SourceHash: source, TargetHash: target, Signature: sig, PubKey: Keys[v].XPub().String()}
}

// OrderOf maps a public key string back to the validator order.
func OrderOf(pub string) int {
	for i, k := range Keys {
		if k.XPub().String() == pub {
			return i
		}
	}
	return -1
}
