package vh

import (
	"bufio"
	"fmt"
	"os"
	"os/exec"
	"strconv"
	"strings"
	"sync"
)

// Worker pools: scenarios that drive a whole node run in child processes of the same
// binary, because a panic in one of the node's own goroutines cannot be recovered and
// kills the process. The parent re-executes itself as
//
//	<binary> __worker <i> <n> <from> <only> <args...>
//
// Child i handles the cases with idx%n == i and idx >= from (or exactly `only` when
// only >= 0). Before each case it prints "CUR <idx>"; its "VH ..." lines are passed
// through. When a child dies the case it was running is re-run alone; if it dies again
// the death is reported through onDeath (a violation of that case), otherwise it is
// counted as unreproducible (infrastructure), and the child is restarted after that case.

// IsWorker reports whether this process is a pool child and returns its parameters.
func IsWorker() (ok bool, i, n, from, only int, args []string) {
	if len(os.Args) >= 6 && os.Args[1] == "__worker" {
		i, _ = strconv.Atoi(os.Args[2])
		n, _ = strconv.Atoi(os.Args[3])
		from, _ = strconv.Atoi(os.Args[4])
		only, _ = strconv.Atoi(os.Args[5])
		return true, i, n, from, only, os.Args[6:]
	}
	return false, 0, 0, 0, -1, nil
}

// Mine tells a worker whether case idx is its to run.
func Mine(idx, i, n, from, only int) bool {
	if only >= 0 {
		return idx == only
	}
	return idx%n == i && idx >= from
}

// Cur announces the case a worker is about to run.
func Cur(idx int) {
	mu.Lock()
	fmt.Fprintf(out, "CUR %d\n", idx)
	out.Flush()
	mu.Unlock()
}

type death struct {
	idx  int
	tail string
}

func runChild(i, n, from, only int, args []string) (lastCur int, died bool, tail string) {
	a := append([]string{"__worker", strconv.Itoa(i), strconv.Itoa(n), strconv.Itoa(from), strconv.Itoa(only)}, args...)
	cmd := exec.Command(os.Args[0], a...)
	cmd.Env = os.Environ()
	stdout, _ := cmd.StdoutPipe()
	stderr, _ := cmd.StderrPipe()
	if err := cmd.Start(); err != nil {
		Fatal("cannot start worker: %v", err)
	}
	lastCur = -1
	var wg sync.WaitGroup
	wg.Add(2)
	go func() {
		defer wg.Done()
		r := bufio.NewReaderSize(stdout, 1<<20)
		for {
			line, err := r.ReadString('\n')
			if strings.HasPrefix(line, "CUR ") {
				lastCur, _ = strconv.Atoi(strings.TrimSpace(line[4:]))
			} else if strings.HasPrefix(line, "VH ") {
				mu.Lock()
				out.WriteString(line)
				out.Flush()
				mu.Unlock()
			}
			if err != nil {
				return
			}
		}
	}()
	var errTail []string
	go func() {
		defer wg.Done()
		sc := bufio.NewScanner(stderr)
		sc.Buffer(make([]byte, 1<<20), 1<<20)
		for sc.Scan() {
			errTail = append(errTail, sc.Text())
			if len(errTail) > 60 {
				errTail = errTail[len(errTail)-60:]
			}
		}
	}()
	wg.Wait()
	err := cmd.Wait()
	if len(errTail) > 25 {
		errTail = errTail[:25]
	}
	return lastCur, err != nil, strings.Join(errTail, "\n")
}

// RunPool runs n workers over the cases and returns the number of unreproducible deaths.
// onDeath(idx, stderrHead) is called for every case that reproducibly kills its worker.
func RunPool(n int, args []string, onDeath func(idx int, tail string)) (flaky int) {
	var wg sync.WaitGroup
	var fm sync.Mutex
	for i := 0; i < n; i++ {
		wg.Add(1)
		go func(i int) {
			defer wg.Done()
			from := 0
			for deaths := 0; deaths < 30; deaths++ {
				cur, died, _ := runChild(i, n, from, -1, args)
				if !died {
					return
				}
				if cur < 0 {
					Fatal("worker %d died before its first case", i)
				}
				// confirm alone
				_, died2, tail2 := runChild(i, n, 0, cur, args)
				if died2 {
					onDeath(cur, tail2)
				} else {
					fm.Lock()
					flaky++
					fm.Unlock()
				}
				from = cur + 1
				if TooMany() {
					return
				}
			}
		}(i)
	}
	wg.Wait()
	return flaky
}
