package vh

import (
	"bufio"
	"fmt"
	"os"
	"os/exec"
	"strconv"
	"strings"
	"sync"
)

// Worker pools: scenarios that drive a whole node run in child processes of the same
// binary, because a panic in one of the node's own goroutines cannot be recovered and
// kills the process. The parent re-executes itself as
//
//	<binary> __worker <i> <n> <from> <only> <args...>
//
// Child i handles the cases with idx%n == i and idx >= from (or exactly `only` when
// only >= 0). Before each case it prints "CUR <idx>"; its "VH ..." lines are passed
// through. When a child dies the case it was running is re-run alone; if it dies again
// the death is reported through onDeath (a violation of that case), otherwise it is
// counted as unreproducible (infrastructure), and the child is restarted after that case.

// IsWorker reports whether this process is a pool child and returns its parameters.
func IsWorker() (ok bool, i, n, from, only int, args []string) {
	if len(os.Args) >= 6 && os.Args[1] == "__worker" {
		i, _ = strconv.Atoi(os.Args[2])
		n, _ = strconv.Atoi(os.Args[3])
		from, _ = strconv.Atoi(os.Args[4])
		only, _ = strconv.Atoi(os.Args[5])
		return true, i, n, from, only, os.Args[6:]
	}
	return false, 0, 0, 0, -1, nil
}

// Mine tells a worker whether case idx is its to run.
func Mine(idx, i, n, from, only int) bool {
	if only >= 0 {
		return idx == only
	}
	return idx%n == i && idx >= from
}

// AtRecycle, when set by a worker, is called before the worker hands over to a fresh process
// (it prints the worker's partial summary).
var AtRecycle func()

var curCount int

// recycleEvery: a worker that drives whole nodes leaks what the nodes leave behind (goroutines of
// nodes that are never shut down, their stores); after this many cases it asks for a fresh process.
func recycleEvery() int {
	if v, err := strconv.Atoi(os.Getenv("VERIF_RECYCLE")); err == nil && v > 0 {
		return v
	}
	return 2500
}

// Cur announces the case a worker is about to run.
func Cur(idx int) {
	curCount++
	if curCount > recycleEvery() && AtRecycle != nil {
		AtRecycle()
		mu.Lock()
		fmt.Fprintf(out, "RECYCLE %d\n", idx)
		out.Flush()
		mu.Unlock()
		os.Exit(0)
	}
	mu.Lock()
	fmt.Fprintf(out, "CUR %d\n", idx)
	out.Flush()
	mu.Unlock()
}

type death struct {
	idx  int
	tail string
}

func runChild(i, n, from, only int, args []string) (lastCur int, died bool, tail string) {
	lastCur, _, died, tail = runChild2(i, n, from, only, args)
	return
}

func runChild2(i, n, from, only int, args []string) (lastCur int, recycle int, died bool, tail string) {
	recycle = -1
	a := append([]string{"__worker", strconv.Itoa(i), strconv.Itoa(n), strconv.Itoa(from), strconv.Itoa(only)}, args...)
	cmd := exec.Command(os.Args[0], a...)
	cmd.Env = os.Environ()
	stdout, _ := cmd.StdoutPipe()
	stderr, _ := cmd.StderrPipe()
	if err := cmd.Start(); err != nil {
		Fatal("cannot start worker: %v", err)
	}
	lastCur = -1
	var wg sync.WaitGroup
	wg.Add(2)
	go func() {
		defer wg.Done()
		r := bufio.NewReaderSize(stdout, 1<<20)
		for {
			line, err := r.ReadString('\n')
			if strings.HasPrefix(line, "CUR ") {
				lastCur, _ = strconv.Atoi(strings.TrimSpace(line[4:]))
			} else if strings.HasPrefix(line, "RECYCLE ") {
				recycle, _ = strconv.Atoi(strings.TrimSpace(line[8:]))
			} else if strings.HasPrefix(line, "VH ") {
				mu.Lock()
				out.WriteString(line)
				out.Flush()
				mu.Unlock()
			}
			if err != nil {
				return
			}
		}
	}()
	var errTail []string
	go func() {
		defer wg.Done()
		sc := bufio.NewScanner(stderr)
		sc.Buffer(make([]byte, 1<<20), 1<<20)
		for sc.Scan() {
			errTail = append(errTail, sc.Text())
			if len(errTail) > 60 {
				errTail = errTail[len(errTail)-60:]
			}
		}
	}()
	wg.Wait()
	err := cmd.Wait()
	if len(errTail) > 25 {
		errTail = errTail[:25]
	}
	return lastCur, recycle, err != nil, strings.Join(errTail, "\n")
}

// RunPool runs n workers over the cases and returns the number of unreproducible deaths.
// onDeath(idx, stderrHead) is called for every case that reproducibly kills its worker.
func RunPool(n int, args []string, onDeath func(idx int, tail string)) (flaky int) {
	var wg sync.WaitGroup
	var fm sync.Mutex
	for i := 0; i < n; i++ {
		wg.Add(1)
		go func(i int) {
			defer wg.Done()
			from := 0
			for deaths := 0; deaths < 30; {
				cur, recycle, died, _ := runChild2(i, n, from, -1, args)
				if !died && recycle >= 0 {
					from = recycle // the worker asked for a fresh process before this case
					continue
				}
				if !died {
					return
				}
				deaths++
				if cur < 0 {
					Fatal("worker %d died before its first case", i)
				}
				// confirm alone
				_, died2, tail2 := runChild(i, n, 0, cur, args)
				if died2 {
					onDeath(cur, tail2)
				} else {
					fm.Lock()
					flaky++
					fm.Unlock()
				}
				from = cur + 1
				if TooMany() {
					return
				}
			}
		}(i)
	}
	wg.Wait()
	return flaky
}
