// Package vh holds the small runtime shared by all harness commands:
// reading TLC exports, reporting results to the orchestrator, seeding.
package vh

import (
	"bufio"
	"encoding/json"
	"fmt"
	"os"
	"strconv"
	"io/ioutil"
	"regexp"
	"strings"
	"sync"

	log "github.com/sirupsen/logrus"
)

// Quiet silences the repository's logrus output (it would flood the pipes).
func Quiet() {
	log.SetOutput(ioutil.Discard)
	log.SetLevel(log.PanicLevel)
}

// Seed returns VERIF_SEED (default 1).
func Seed() int64 {
	if s, err := strconv.ParseInt(os.Getenv("VERIF_SEED"), 10, 64); err == nil && s != 0 {
		return s
	}
	return 1
}

// Tier returns VERIF_TIER ("quick" by default).
func Tier() string {
	if t := os.Getenv("VERIF_TIER"); t != "" {
		return t
	}
	return "quick"
}

// EachExport calls fn for every JSON document in path. The file is either
// plain ndjson or raw TLC output in which exported records appear as
// PrintT lines of the form "EXPORT <json>" (a TLA+ string, JSON-quoted).
func EachExport(path string, fn func(idx int, doc []byte) error) (int, error) {
	return EachExportIf(path, nil, fn)
}

// EachExportIf is EachExport that decodes only the documents whose index satisfies want
// (pool workers skip the cases of the other workers without paying for JSON decoding).
func EachExportIf(path string, want func(idx int) bool, fn func(idx int, doc []byte) error) (int, error) {
	f, err := os.Open(path)
	if err != nil {
		return 0, err
	}
	defer f.Close()
	r := bufio.NewReaderSize(f, 1<<20)
	n := 0
	for {
		line, err := r.ReadString('\n')
		if len(line) > 0 {
			line = strings.TrimSpace(line)
			var doc []byte
			switch {
			case strings.HasPrefix(line, "\"EXPORT ") && want != nil && !want(n):
				n++
				continue
			case (strings.HasPrefix(line, "{") || strings.HasPrefix(line, "[")) && want != nil && !want(n):
				n++
				continue
			case strings.HasPrefix(line, "\"EXPORT "):
				var s string
				if e := json.Unmarshal([]byte(line), &s); e != nil {
					return n, fmt.Errorf("bad export line %d: %v", n, e)
				}
				doc = []byte(s[len("EXPORT "):])
			case strings.HasPrefix(line, "{") || strings.HasPrefix(line, "["):
				doc = []byte(line)
			}
			if doc != nil {
				if e := fn(n, doc); e != nil {
					return n, e
				}
				n++
			}
		}
		if err != nil {
			break
		}
	}
	return n, nil
}

var mu sync.Mutex
var out = bufio.NewWriterSize(os.Stdout, 1<<16)

func emit(kind string, v map[string]interface{}) {
	v["kind"] = kind
	b, err := json.Marshal(v)
	if err != nil {
		b = []byte(fmt.Sprintf(`{"kind":"error","msg":%q}`, err.Error()))
	}
	mu.Lock()
	out.WriteString("VH ")
	out.Write(b)
	out.WriteString("\n")
	out.Flush()
	mu.Unlock()
}

var nviol int
var knownRe []*regexp.Regexp
var knownOnce sync.Once
var knownSeen = map[string]int{}

// isKnown reports whether sig matches a KNOWN_FINDINGS entry of the running check (the
// orchestrator passes the regular expressions in VERIF_KNOWN_SIGS, one per line). Known
// findings are reported a few times per signature and do not count towards TooMany, so a
// recorded finding never shortens the exploration.
func isKnown(sig string) bool {
	knownOnce.Do(func() {
		for _, l := range strings.Split(os.Getenv("VERIF_KNOWN_SIGS"), "\n") {
			if l = strings.TrimSpace(l); l != "" {
				if re, err := regexp.Compile(l); err == nil {
					knownRe = append(knownRe, re)
				}
			}
		}
	})
	for _, re := range knownRe {
		if re.MatchString(sig) {
			return true
		}
	}
	return false
}

// Violation reports behaviour of the real code that the specification forbids.
// sig is the structural signature matched against KNOWN_FINDINGS.txt.
func Violation(sig, desc string, replay interface{}) {
	if isKnown(sig) {
		mu.Lock()
		knownSeen[sig]++
		n := knownSeen[sig]
		mu.Unlock()
		if n <= 3 {
			emit("violation", map[string]interface{}{"sig": sig, "desc": desc, "replay": replay})
		}
		return
	}
	mu.Lock()
	nviol++
	n := nviol
	mu.Unlock()
	if n > 200 { // enough to classify; keep output bounded
		return
	}
	emit("violation", map[string]interface{}{"sig": sig, "desc": desc, "replay": replay})
}

// TooMany is true once enough violations were reported to classify the run;
// drivers use it to stop early (a broken build can make every case slow).
func TooMany() bool {
	mu.Lock()
	defer mu.Unlock()
	return nviol >= 12
}

// Summary reports coverage counters of this run.
func Summary(v map[string]interface{}) { emit("summary", v) }

// Sample reports one explored case, written out, for the evidence file.
func Sample(v interface{}) { emit("sample", map[string]interface{}{"case": v}) }

// Fatal reports an infrastructure failure (not a verdict) and exits 2.
func Fatal(format string, a ...interface{}) {
	emit("infra", map[string]interface{}{"msg": fmt.Sprintf(format, a...)})
	os.Exit(2)
}
